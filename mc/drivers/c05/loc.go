package c05

// The evaluator-location family.
//
// Besides the call stack, the pending condition, the nesting counter, the
// current package and the context, a long-lived environment carries the
// EVALUATOR'S LOCATION: what LEnv.Source reports, what the frame pushed by the
// next FunCall / MacroCall / SpecialOpCall / EvalSExpr is stamped with, where
// an error raised under such a frame is located, and (through the top frame)
// what a relative load-file issued by the host is resolved against.  The
// evaluator moves it while it evaluates the head and the arguments of a call
// and puts it back to the call form before the call is made or the failure is
// passed on (property record: "Terminal flag and evaluator location restored
// after argument evaluation").
//
// The family enumerates   context x entry point x nest x fault   where
//
//   - a CONTEXT is a program with one hole, the hole being a form position
//     (locCtxs: every kind of place a form can stand in: top-level form of a
//     load, body of progn / if / cond / and / or / ignore-errors / handler-bind,
//     inside a handler, let, lambda, user function, user macro, argument of a
//     call, source of a nested load-string / load-bytes / load-file, ...);
//   - a NEST is the form put in the hole (locNests): nest 0 is the bare host
//     call (snap); every other nest is a FUNCTION CALL form that has the host
//     call (or an intrinsically failing form) somewhere in its head or
//     argument positions: every position (head, first, last), depth 1..D,
//     callee kinds (builtin, user function, funcall, apply), arguments that
//     are themselves operators, function bodies, macro calls or nested loads;
//   - a FAULT is taken from the complete fault space of the operation, as in
//     the rest of the driver.
//
// Oracle (differential, two runs of the real code).  "Any later evaluation
// behaves exactly as if the failed evaluation had stopped cleanly at the point
// of failure: only the bindings and mutations it completed are visible": HOW
// DEEP inside the arguments of a call form the failure happened is neither a
// binding nor a mutation.  So what every later entry point that does not
// re-stamp the location observes (locObserve) after the nest failed must be
// what it observes after the bare host call failed in the same hole, the
// same way.  Nest 0 and nest k start at the same line and column of the same
// source and everything after the hole starts on a later line, so the two
// programs differ in nothing but the inside of the form.
//
//   - host error / host panic (also under a caller's context), and nests that
//     fail by themselves: observation == that of nest 0 with the same fault
//     (host error for the intrinsic failures);
//   - no fault (nests that complete): observation == that of nest 0 unfaulted;
//   - step budget n / cancellation k / physical height h: the failure may land
//     before the form, inside it, after it or nowhere, and the nest takes more
//     steps and frames than the bare call: the observation must be one of
//     those nest 0 shows over its complete fault space.
//
// The invariants of the main family are checked on every run as well.

import (
	"context"
	"fmt"
	"path"
	"sort"
	"strings"
	"sync"

	"github.com/luthersystems/elps/lisp"
	"github.com/luthersystems/elps/parser/token"

	"verif/mc/core"
	"verif/mc/el"
)

type locSpec struct {
	Ctx  int `json:"ctx"`
	Nest int `json:"nest"`
}

// lq renders s as the inside of an elps string literal.
func lq(s string) string {
	s = strings.ReplaceAll(s, `\`, `\\`)
	s = strings.ReplaceAll(s, `"`, `\"`)
	s = strings.ReplaceAll(s, "\n", `\n`)
	return s
}

type locCtx struct {
	name string
	// where the hole is evaluated: in the environment the entry point was called on (rootHole), in a nested load's
	// source (nestedLoad: always the root environment), or in an environment of its own (neither)
	rootHole   bool
	nestedLoad bool
	// render places the form a (on a line of its own) and returns the program and the files it needs
	render func(a string) (string, map[string]string)
}

func inl(pre, post string) func(a string) (string, map[string]string) {
	return func(a string) (string, map[string]string) { return pre + "\n" + a + "\n" + post, nil }
}

var locCtxs = []locCtx{
	// forms of the loaded source itself
	{name: "only-top-level-form", rootHole: true, render: func(a string) (string, map[string]string) { return a, nil }},
	{name: "second-top-level-form", rootHole: true, render: inl("(set 'lz 1)", "")},
	{name: "top-level-form-followed-by-more", rootHole: true, render: inl("", "(set 'lz 2) (set 'lz 3)")},
	// operators that evaluate their body in the environment they are called in
	{name: "progn", rootHole: true, render: inl("(progn (set 'lz 1)", ")")},
	{name: "if-then", rootHole: true, render: inl("(if true", "'no)")},
	{name: "if-else", rootHole: true, render: inl("(if false 'no", ")")},
	{name: "cond-branch", rootHole: true, render: inl("(cond (false 0) (true", "))")},
	{name: "and", rootHole: true, render: inl("(and true", ")")},
	{name: "or", rootHole: true, render: inl("(or false", ")")},
	{name: "ignore-errors", rootHole: true, render: inl("(ignore-errors", ")")},
	{name: "handler-bind-body", rootHole: true, render: inl("(handler-bind ([condition (lambda (c &rest d) 'handled)])", ")")},
	{name: "handler-bind-body-rethrow", rootHole: true, render: inl("(handler-bind ([condition (lambda (c &rest d) (rethrow))])", ")")},
	{name: "user-macro-at-top", rootHole: true, render: inl("(user-mac", ")")},
	{name: "argument-of-call", rootHole: true, render: inl("(identity", ")")},
	// places with an environment of their own
	{name: "in-handler", render: inl("(handler-bind ([condition (lambda (c &rest d)", ")]) (error 'trigger \"x\"))")},
	{name: "let-body", render: inl("(let ([z 1])", ")")},
	{name: "lambda-call", render: inl("(funcall (lambda ()", "))")},
	{name: "user-function-at-top", render: inl("(user-call (lambda ()", "))")},
	{name: "labels-tail-call", render: inl("(labels ([g (i) (if (> i 0) (g (- i 1))", ")]) (g 2))")},
	{name: "dotimes", render: inl("(dotimes (i 1)", ")")},
	{name: "map-callback", render: inl("(map 'list (lambda (i)", ") '(0))")},
	{name: "macro-expansion-time", render: inl("(macrolet ([mm ()", "''done]) (mm))")},
	// nested loads: their forms are evaluated in the ROOT environment wherever the load is issued from
	{name: "nested-load-string", nestedLoad: true, render: func(a string) (string, map[string]string) {
		return `(load-string "(set 'lz 1)\n` + lq(a) + `")`, nil
	}},
	{name: "nested-load-bytes", nestedLoad: true, render: func(a string) (string, map[string]string) {
		return `(load-bytes (to-bytes "(set 'lz 1)\n` + lq(a) + `"))`, nil
	}},
	{name: "nested-load-file", nestedLoad: true, render: func(a string) (string, map[string]string) {
		return `(load-file "sub/f.lisp")`, map[string]string{"sub/f.lisp": "(set 'lz 1)\n" + a}
	}},
	{name: "nested-load-file-as-argument", nestedLoad: true, render: func(a string) (string, map[string]string) {
		return `(identity (load-file "sub/f.lisp"))`, map[string]string{"sub/f.lisp": a}
	}},
	{name: "nested-load-string-from-function", nestedLoad: true, render: func(a string) (string, map[string]string) {
		return `(user-call (lambda () (let ([z 1]) (load-string "` + lq(a) + `"))))`, nil
	}},
	{name: "nested-load-file-from-function-then-more", nestedLoad: true, render: func(a string) (string, map[string]string) {
		return "(user-call (lambda () (load-file \"sub/f.lisp\")))\n(set 'lz 2)", map[string]string{"sub/f.lisp": a}
	}},
	{name: "nested-load-in-nested-load", nestedLoad: true, render: func(a string) (string, map[string]string) {
		return `(load-file "sub/f.lisp")`, map[string]string{"sub/f.lisp": "(load-file \"g.lisp\")", "sub/g.lisp": a}
	}},
}

type locNest struct {
	name      string
	group     string // part of the violation class
	src       string
	files     map[string]string
	intrinsic bool // fails by itself, no host call involved
	thorough  bool // thorough tier only
}

func argLast(d int) string {
	s := "(snap)"
	for i := d; i >= 1; i-- {
		s = fmt.Sprintf("(list %d %s)", i, s)
	}
	return s
}

func argFirst(d int) string {
	s := "(snap)"
	for i := d; i >= 1; i-- {
		s = fmt.Sprintf("(list %s %d)", s, i)
	}
	return s
}

var locNests = func() []locNest {
	ns := []locNest{
		{name: "form-itself", group: "reference", src: "(snap)"},
	}
	for d := 1; d <= 5; d++ {
		ns = append(ns, locNest{name: fmt.Sprintf("last-argument:depth-%d", d), group: "argument", src: argLast(d), thorough: d > 3})
	}
	for d := 1; d <= 5; d++ {
		ns = append(ns, locNest{name: fmt.Sprintf("first-argument:depth-%d", d), group: "argument", src: argFirst(d), thorough: d > 2})
	}
	ns = append(ns,
		locNest{name: "last-argument:depth-2:one-line-each", group: "argument", src: "(list 1\n  (list 2\n    (snap)))"},
		locNest{name: "middle-argument-after-effects", group: "argument", src: "(list (set 'a 7) (snap) (set! b 8))"},
		// head position
		locNest{name: "head", group: "head", src: "((snapf) 1)"},
		locNest{name: "head-of-an-argument", group: "head", src: "(list 1 ((snapf) 2))"},
		locNest{name: "argument-of-a-head", group: "head", src: "((progn (list 1 (snap)) list) 2)"},
		locNest{name: "head-is-funcall-of-host-call", group: "head", src: "((funcall snapf) 2)"},
		// callee kinds
		locNest{name: "argument-of-user-function", group: "argument", src: "(user-id (snap))"},
		locNest{name: "argument-of-user-function:depth-2", group: "argument", src: "(user-id (user-id (snap)))"},
		locNest{name: "argument-of-cross-package-function", group: "argument", src: "(p:pid (snap))"},
		locNest{name: "argument-of-funcall", group: "argument", src: "(funcall user-id (snap))"},
		locNest{name: "argument-of-apply", group: "argument", src: "(apply list 1 (list (snap)))"},
		locNest{name: "argument-of-lambda-expression-head", group: "argument", src: "((lambda (x) x) (snap))"},
		// arguments that are not plain calls
		locNest{name: "argument-is-progn", group: "argument-is-operator", src: "(list 1 (progn 2 (snap)))"},
		locNest{name: "argument-is-if", group: "argument-is-operator", src: "(list 1 (if true (snap) 0))"},
		locNest{name: "argument-is-let", group: "argument-is-operator", src: "(list 1 (let ([q 1]) (snap)))"},
		locNest{name: "argument-is-handler-bind-rethrow", group: "argument-is-operator", src: "(list 1 (handler-bind ([condition (lambda (c &rest d) (rethrow))]) (snap)))"},
		locNest{name: "argument-is-lambda-call", group: "argument-is-function-body", src: "(list 1 (funcall (lambda () (snap))))"},
		locNest{name: "argument-is-user-function-body", group: "argument-is-function-body", src: "(list 1 (user-call (lambda () (list 2 (snap)))))"},
		locNest{name: "argument-is-map-callback", group: "argument-is-function-body", src: "(list 1 (map 'list (lambda (i) (snap)) '(0)))"},
		locNest{name: "argument-is-macro-call", group: "argument-is-macro", src: "(list 1 (user-mac (snap)))"},
		locNest{name: "argument-is-macro-call-of-nest", group: "argument-is-macro", src: "(list 1 (user-mac (list 2 (snap))))"},
		locNest{name: "argument-is-nested-load-string", group: "argument-is-nested-load", src: `(list 1 (load-string "(list 2 (snap))"))`},
		locNest{name: "argument-is-nested-load-bytes", group: "argument-is-nested-load", src: `(list 1 (load-bytes (to-bytes "(list 2\n (snap))")))`},
		locNest{name: "argument-is-nested-load-file", group: "argument-is-nested-load", src: `(list 1 (load-file "nest/n.lisp"))`,
			files: map[string]string{"nest/n.lisp": "(list 2 (snap))", "sub/nest/n.lisp": "(list 2 (snap))"}},
		// failures that need no host call
		locNest{name: "argument-signals-error", group: "intrinsic", src: `(list 1 (error 'boom "x"))`, intrinsic: true},
		locNest{name: "argument-signals-error:depth-3", group: "intrinsic", src: `(list 1 (list 2 (list 3 (error 'boom "x"))))`, intrinsic: true},
		locNest{name: "argument-is-unbound-symbol", group: "intrinsic", src: "(list 1 no-such-symbol)", intrinsic: true},
		locNest{name: "argument-is-unbound-symbol:depth-2", group: "intrinsic", src: "(list 1 (list no-such-symbol 2))", intrinsic: true},
		locNest{name: "argument-has-non-function-head", group: "intrinsic", src: "(list 1 (2 3))", intrinsic: true},
		locNest{name: "argument-is-builtin-type-error", group: "intrinsic", src: "(list 1 (car 5))", intrinsic: true},
		locNest{name: "argument-is-unknown-package-symbol", group: "intrinsic", src: "(list 1 nopkg:x)", intrinsic: true},
		locNest{name: "head-is-unbound-symbol", group: "intrinsic-head", src: "(no-such-function 1)", intrinsic: true},
		locNest{name: "head-is-not-a-function", group: "intrinsic-head", src: "((nx) 1)", intrinsic: true},
		locNest{name: "head-of-argument-is-unbound-symbol", group: "intrinsic-head", src: "(list 1 (no-such-function 2))", intrinsic: true},
	)
	return ns
}()

const locNestLines = 3

// locValid: a nest that issues a nested load evaluates the loaded forms in the ROOT environment; that is inside the
// arguments of the call form in the hole only if the hole itself is evaluated in the root environment.
func locValid(entry string, c, n int) bool {
	if locNests[n].group != "argument-is-nested-load" {
		return true
	}
	return locCtxs[c].nestedLoad || (locCtxs[c].rootHole && entry != "FunCall")
}

var locBaseFiles = map[string]string{
	"helper.lisp":      `"top-level helper"`,
	"sub/helper.lisp":  `"sub helper"`,
	"nest/helper.lisp": `"nest helper"`,
}

func (l *locSpec) render() (string, map[string]string) {
	n := locNests[l.Nest]
	// every nest takes locNestLines lines, so that what follows the hole starts at the same place whatever fills it
	a := n.src + strings.Repeat("\n", locNestLines-1-strings.Count(n.src, "\n"))
	src, cf := locCtxs[l.Ctx].render(a)
	files := map[string]string{}
	for k, v := range locBaseFiles {
		files[k] = v
	}
	for k, v := range n.files {
		files[k] = v
	}
	for k, v := range cf {
		files[k] = v
	}
	files["main.lisp"] = src
	return src, files
}

// memLib is an in-memory lisp.SourceLibrary that resolves a relative location
// against the directory of the source context, like RelativeFileSystemLibrary.
type memLib struct{ g *rig }

func (l *memLib) LoadSource(ctx lisp.SourceContext, loc string) (string, string, []byte, error) {
	l.g.libLog = append(l.g.libLog, fmt.Sprintf("load %q under context name=%q location=%q", loc, ctx.Name(), ctx.Location()))
	p := loc
	if !path.IsAbs(p) && ctx.Location() != "" {
		p = path.Join(path.Dir(ctx.Location()), p)
	}
	p = path.Clean(p)
	src, ok := l.g.files[p]
	if !ok {
		return "", "", nil, fmt.Errorf("no such file: %s", p)
	}
	return path.Base(p), p, []byte(src), nil
}

const locPrelude = `
(defun user-id (x) x)
(defun loc-thrower () (car 5))
(defmacro loc-bad-mac () (car 5))
(in-package 'p)
(defun pid (x) x)
(export 'pid)
(in-package 'user)
`

func locStr(l *token.Location) string {
	if l == nil {
		return "<nil>"
	}
	return fmt.Sprintf("%s(path=%q):%d:%d", l.File, l.Path, l.Line, l.Col)
}

// newLocRig is newRig plus the later entry points of locObserve.
func newLocRig() *rig {
	g := newRig()
	where := func(kind string) func(env *lisp.LEnv, args *lisp.LVal) *lisp.LVal {
		return func(env *lisp.LEnv, args *lisp.LVal) *lisp.LVal {
			top := env.Runtime.Stack.Top()
			if top == nil {
				g.whereLog = append(g.whereLog, kind+": no frame")
			} else {
				g.whereLog = append(g.whereLog, kind+": called from "+locStr(top.Source))
			}
			return lisp.Nil()
		}
	}
	// (snapf) is (snap) that returns a function: the host call in HEAD position
	g.env.AddBuiltins(true, el.Fn("snapf", nil, func(env *lisp.LEnv, args *lisp.LVal) *lisp.LVal {
		if v := g.snap.Eval(env, lisp.SExpr(nil)); v.Type == lisp.LError {
			return v
		}
		return env.Get(lisp.Symbol("list"))
	}))
	g.env.AddBuiltins(true, el.Fn("where", nil, where("function")))
	g.env.AddSpecialOps(true, el.Fn("where-op", nil, where("special operator")))
	g.env.AddMacros(true, el.Fn("where-mac", nil, where("macro")))
	if o := g.env.Load(locPrelude); o.IsErr {
		panic("harness: loc prelude: " + o.Full())
	}
	return g
}

func renderErr(v *lisp.LVal) string {
	if v == nil {
		return "<nil>"
	}
	if v.Type != lisp.LError {
		return "value " + v.String()
	}
	var sb strings.Builder
	sb.WriteString((*lisp.ErrorVal)(v).Error())
	if st := v.CallStack(); st != nil {
		sb.WriteString(" stack[")
		for _, f := range st.Frames {
			sb.WriteString(f.Name + "@" + locStr(f.Source) + " ")
		}
		sb.WriteString("]")
	}
	return sb.String()
}

// locObserve is the LATER evaluation: every entry point that uses the
// evaluator's location without stamping a new one first.  Nothing here
// depends on the bindings the operation made.
func (g *rig) locObserve() string {
	env := g.env.LEnv
	get := func(n string) *lisp.LVal {
		v := env.Get(lisp.Symbol(n))
		if v.Type != lisp.LFun {
			panic("harness: " + n + " is not a function: " + v.String())
		}
		return v
	}
	five := func() *lisp.LVal { return lisp.SExpr([]*lisp.LVal{lisp.Int(5)}) }
	g.whereLog, g.libLog = nil, nil
	var sb strings.Builder
	fmt.Fprintf(&sb, "Source()=%s\n", locStr(env.Source()))
	fmt.Fprintf(&sb, "FunCall(car 5)=%s\n", renderErr(env.FunCall(get("car"), five())))
	fmt.Fprintf(&sb, "FunCallContext(car 5)=%s\n", renderErr(env.FunCallContext(context.Background(), get("car"), five())))
	fmt.Fprintf(&sb, "FunCall(user function failing in its body)=%s\n", renderErr(env.FunCall(get("loc-thrower"), lisp.SExpr(nil))))
	fmt.Fprintf(&sb, "MacroCall(user macro failing in its body)=%s\n", renderErr(env.MacroCall(get("loc-bad-mac"), lisp.SExpr(nil))))
	env.FunCall(get("where"), lisp.SExpr(nil))
	env.SpecialOpCall(get("where-op"), lisp.SExpr(nil))
	env.MacroCall(get("where-mac"), lisp.SExpr(nil))
	env.EvalSExpr(lisp.SExpr([]*lisp.LVal{lisp.Symbol("where")}))
	fmt.Fprintf(&sb, "frames: %s\n", strings.Join(g.whereLog, "; "))
	fmt.Fprintf(&sb, "Source() after these=%s\n", locStr(env.Source()))
	// last: this one loads a file, which moves the location
	saved := g.files
	if g.files == nil {
		g.files = locBaseFiles
	}
	h := env.FunCall(get("load-file"), lisp.SExpr([]*lisp.LVal{lisp.String("helper.lisp")}))
	g.files = saved
	fmt.Fprintf(&sb, "FunCall(load-file \"helper.lisp\")=%s via %s", renderErr(h), strings.Join(g.libLog, "; "))
	g.env.Err.Reset()
	return sb.String()
}

// locRun runs o on a fresh runtime and observes.
func locRun(o op) (string, opResult) {
	g := newLocRig()
	obs := ""
	g.afterOp = func() { obs = g.locObserve() }
	res := g.apply(o)
	return obs, res
}

func faultKey(f fault) string { return fmt.Sprintf("%s@%d", f.Kind, f.At) }

func baseKind(k string) string { return strings.TrimSuffix(k, "-ctx") }

// locFaults enumerates the fault space of a location operation.
func locFaults(o op, full bool) []fault {
	g := newLocRig()
	m := o
	m.Fault = fault{Kind: "measure"}
	base := g.apply(m)
	calls := g.snapCalls
	fs := []fault{{Kind: "none"}}
	if o.Loc != nil && locNests[o.Loc.Nest].intrinsic {
		// the form fails by itself; a second, injected failure on top of it has no counterpart in the reference runs
		return fs
	}
	for j := 1; j <= calls; j++ {
		fs = append(fs, fault{Kind: "snap-error", At: int64(j)}, fault{Kind: "snap-panic", At: int64(j)},
			fault{Kind: "snap-error-ctx", At: int64(j)}, fault{Kind: "snap-panic-ctx", At: int64(j)})
	}
	if full {
		for n := int64(1); n <= base.steps; n++ {
			fs = append(fs, fault{Kind: "budget", At: n})
		}
		for k := int64(1); k <= base.steps; k++ {
			fs = append(fs, fault{Kind: "cancel", At: k})
		}
		for h := 1; h <= base.maxFrames+1; h++ {
			fs = append(fs, fault{Kind: "height", At: int64(h)})
		}
	}
	return fs
}

// locRef is what the bare host call shows in one (context, entry point).
type locRef struct {
	byFault map[string]string // fault -> observation
	runs    int
}

func buildLocRef(ctx int, entry string) *locRef {
	o := op{Entry: entry, Loc: &locSpec{Ctx: ctx, Nest: 0}}
	ref := &locRef{byFault: map[string]string{}}
	for _, f := range locFaults(o, true) {
		oo := o
		oo.Fault = f
		obs, _ := locRun(oo)
		ref.runs++
		ref.byFault[faultKey(f)] = obs
	}
	return ref
}

// locCheck runs o and compares with the reference of its (context, entry point).
func locCheck(o op, ref *locRef) (obs string, res opResult, bad string, class string) {
	obs, res = locRun(o)
	n := locNests[o.Loc.Nest]
	cls := func(what string) string {
		k := baseKind(o.Fault.Kind)
		if n.intrinsic && k == "none" {
			k = "intrinsic"
		}
		return what + ":" + n.group + ":" + k
	}
	if res.inv != "" {
		return obs, res, "invariants broken after the operation returned: " + res.inv, "invariant:" + invClass(res.inv) + ":" + o.Fault.Kind
	}
	var want []string
	exact := ""
	switch k := baseKind(o.Fault.Kind); {
	case k == "none" && !n.intrinsic:
		exact = "none@0"
	case k == "none" && n.intrinsic:
		exact = "snap-error@1"
	case k == "snap-error" || k == "snap-panic":
		exact = faultKey(o.Fault)
	default:
		// the nest takes more steps and more frames than the bare host call, so a budget / cancellation / height
		// failure inside it may have no counterpart of the same kind: any way the bare call fails (or does not) counts
		set := map[string]bool{}
		for _, s := range ref.byFault {
			set[s] = true
		}
		for s := range set {
			want = append(want, s)
		}
		sort.Strings(want)
	}
	if exact != "" {
		w, ok := ref.byFault[exact]
		if !ok {
			panic("harness: no reference run for " + exact)
		}
		want = []string{w}
	}
	for _, w := range want {
		if w == obs {
			return obs, res, "", ""
		}
	}
	return obs, res, fmt.Sprintf("after the operation (result %s) a later evaluation can tell how deep inside the call form %s the failure happened: "+
		"it does not observe what it observes after the bare host call failed in the same place.\n got: %s\nwant: %s",
		res.out.String(), n.src, obs, strings.Join(want, "\n  or: ")), cls("evaluator-location-not-restored")
}

func locReplay(k kase) (bool, string) {
	ref := buildLocRef(k.Op.Loc.Ctx, k.Op.Entry)
	obs, res, bad, _ := locCheck(k.Op, ref)
	src, files := k.Op.Loc.render()
	var fl []string
	for n, s := range files {
		if _, base := locBaseFiles[n]; !base && n != "main.lisp" {
			fl = append(fl, fmt.Sprintf("file %s: %s", n, s))
		}
	}
	sort.Strings(fl)
	return bad != "", fmt.Sprintf("context=%s nest=%s\n%s fault=%+v\n  %s\n%s\nresult: %s steps=%d\nobserved by later entry points:\n%s\n%s",
		locCtxs[k.Op.Loc.Ctx].name, locNests[k.Op.Loc.Nest].name, k.Op.Entry, k.Op.Fault, src, strings.Join(fl, "\n"), res.out.Full(), res.steps, obs, bad)
}

func runLoc(r *core.Run) {
	thorough := r.Thorough()
	// entry point -> complete fault space (budget / cancel / height at every position) or host faults only
	type ent struct {
		name string
		full bool
	}
	entries := []ent{{"LoadString", true}, {"LoadProgram", false}, {"Eval", false}, {"FunCall", false}, {"LoadFile", false}}
	if thorough {
		for i := range entries {
			entries[i].full = true
		}
	}
	var nests []int
	maxDepth := 0
	for i, n := range locNests {
		if i == 0 || (n.thorough && !thorough) {
			continue
		}
		nests = append(nests, i)
	}
	if thorough {
		maxDepth = 5
	} else {
		maxDepth = 3
	}
	r.Bound("loc_contexts", len(locCtxs))
	r.Bound("loc_nests", len(nests))
	r.Bound("loc_entry_points", len(entries))
	r.Bound("loc_max_plain_argument_depth", maxDepth)
	r.Assume("evaluator location: only how deep inside the HEAD AND ARGUMENT positions of a function-call form a failure happened must be invisible afterwards; which body form of an operator (progn, if, a load) was being evaluated is a legitimate part of 'the point of failure' and is the same in both runs compared")

	// references
	type refKey struct {
		ctx   int
		entry string
	}
	var rks []refKey
	for c := range locCtxs {
		for _, e := range entries {
			rks = append(rks, refKey{c, e.name})
		}
	}
	refs := make([]*locRef, len(rks))
	core.ParallelRange(r, int64(len(rks)), nil, func(_ struct{}, i int64) {
		refs[i] = buildLocRef(rks[i].ctx, rks[i].entry)
		r.AddEvals(int64(refs[i].runs) + 1)
	})
	refOf := map[refKey]*locRef{}
	distinct := map[string]bool{}
	for i, k := range rks {
		if refs[i] == nil {
			return // capped
		}
		refOf[k] = refs[i]
		for _, o := range refs[i].byFault {
			distinct[o] = true
		}
	}

	// operations
	var ops []op
	full := map[string]bool{}
	for _, e := range entries {
		full[e.name] = e.full
		for c := range locCtxs {
			for _, n := range nests {
				if !locValid(e.name, c, n) {
					continue
				}
				ops = append(ops, op{Entry: e.name, Loc: &locSpec{Ctx: c, Nest: n}})
			}
		}
	}
	var mu sync.Mutex
	var tasks []op
	core.ParallelRange(r, int64(len(ops)), nil, func(_ struct{}, i int64) {
		fs := locFaults(ops[i], full[ops[i].Entry])
		r.AddEvals(1)
		mu.Lock()
		for _, f := range fs {
			o := ops[i]
			o.Fault = f
			tasks = append(tasks, o)
		}
		mu.Unlock()
	})
	key := func(o op) string {
		return fmt.Sprintf("loc/%s/%03d/%03d/%s@%06d", o.Entry, o.Loc.Ctx, o.Loc.Nest, o.Fault.Kind, o.Fault.At)
	}
	sort.SliceStable(tasks, func(i, j int) bool { return key(tasks[i]) < key(tasks[j]) })
	r.Bound("loc_operations", len(ops))
	r.Bound("loc_transitions", len(tasks))
	core.ParallelRange(r, int64(len(tasks)), nil, func(_ struct{}, i int64) {
		o := tasks[i]
		ref := refOf[refKey{o.Loc.Ctx, o.Entry}]
		obs, res, bad, class := locCheck(o, ref)
		r.AddEvals(1)
		r.AddTransitions(1)
		r.AddTraces(1)
		r.Outcome("loc:" + o.Fault.Kind + ":" + ifs(res.out.IsErr, "err:"+res.out.Cond, "val"))
		if o.Fault.Kind != "none" || locNests[o.Loc.Nest].intrinsic {
			r.Nontrivial(key(o))
		}
		mu.Lock()
		distinct[obs] = true
		mu.Unlock()
		if bad == "" {
			return
		}
		if r.Seen(class) >= 3 {
			r.CountOnly(class)
			return
		}
		rep := 0
		for n := 0; n < 5; n++ {
			if _, _, b2, _ := locCheck(o, ref); b2 != "" {
				rep++
			}
		}
		if rep == 5 {
			r.Violate("c05", class, kase{Op: o}, "what later entry points observe does not depend on where inside the arguments of a call form the failure happened", bad, "")
		} else {
			r.Flaky(map[string]any{"case": kase{Op: o}, "reproduced": rep})
		}
	})
	r.AddStates(int64(len(distinct)))
	r.Bound("loc_distinct_observations", len(distinct))
	if len(tasks) > 0 {
		t := tasks[len(tasks)/2]
		r.Sample(map[string]any{"op": t, "src": t.src()})
	}
}
