package c11

// The "an in-place operation with TWO container operands changes exactly its
// target" family.  The in-place operations that take a second container --
// (append-bytes! target bytes-or-int-sequence), (append! target container),
// (assoc! target key container) -- must copy the argument's CONTENTS into
// the target (append-bytes!) or store the argument as ONE element; in no case
// may target and argument end up looking through one window onto the same
// storage.  A fast path that lets an empty (or exactly fitting) target ADOPT
// the argument's storage is invisible until both are grown in place with
// different contents, which needs five operations and two shapes the general
// search does not pair within its depth.  Histories of the pass:
//
//	v0 = <target shape>      every shape, the empty ones included
//	v1 = <argument shape>    every shape
//	<two-operand in-place operation>  every applicable one, in both roles
//	<in-place operation>     every one, on either value   (marker A)
//	<in-place operation>     every one, on either value   (marker B != A where the alphabet has two)
//
// with every live value re-inspected after every step, as everywhere in this
// driver.  The appended markers differ between append! (7 / 9) and
// append-bytes! ("z") so a slot written twice shows.

var adoptShapes = []string{"c-bytes0", "c-bytes", "c-vector0", "c-vector", "c-vector1", "c-list0", "c-list", "c-lit", "c-map0", "c-map"}

func isTwoOperand(op Op) bool {
	switch op.K {
	case "append-bytes!2", "append!-store", "assoc!-store":
		return true
	}
	return false
}

// alphabetAdopt: wide (thorough) adds one more trailing in-place operation and
// the non-mutating two-operand operations in step 3.
func alphabetAdopt(w *world, hist []Op, wide bool) []Op {
	var ops []Op
	full := alpha{level: 2, maxVars: 1 << 30}
	switch {
	case len(hist) <= 1:
		for _, k := range adoptShapes {
			ops = append(ops, Op{K: k, A: -1, B: -1})
		}
	case len(hist) == 2:
		for _, op := range alphabet(w, full) {
			if isTwoOperand(op) && op.A != op.B {
				ops = append(ops, op)
			}
		}
	default:
		for _, op := range alphabet(w, full) {
			switch op.K {
			case "append!-list-err", "append!-bytes-err", "append-bytes!-err":
				continue
			}
			if !op.mutating() {
				continue
			}
			if !wide && (op.K == "sort-str<" || op.K == "sort-str>" || op.K == "append!2") {
				continue
			}
			ops = append(ops, op)
		}
	}
	return ops
}
