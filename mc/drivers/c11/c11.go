// Package c11: sharing, copying and mutation follow the documented discipline.
//
// Explicit-state breadth-first search over operation HISTORIES (DESIGN §1a
// E-BFS, §C11).  A state is the list of container operations that reaches it,
// each binding its result to the next of v0..v5.  A successor is built by
// replaying the whole history plus one more operation on a FRESH real
// runtime; after EVERY operation the printed form of EVERY live value is
// compared with the reference heap (model.go, ops.go).  The reference is
// three-valued: where the documentation leaves the outcome open (does a
// vector keep its storage when append! grows it; which spelling a map key
// shows after being rewritten in the other spelling) it forks into several
// possible worlds, the observation prunes them, and a step is correct iff at
// least one allowed world explains it.  States are de-duplicated by a
// canonical form of the surviving worlds up to renaming, refined by the layout
// observed on the real values -- which allocation a slice lives in, its offset
// and its spare capacity -- so histories that differ only in how much room a
// value was built with, or in which way an unspecified growth really went,
// are explored separately.  Merged states therefore agree on contents, on
// the model's knowledge AND on the real memory layout up to renaming, which is
// everything the future behaviour of the (deterministic) operations depends on.
package c11

import (
	"crypto/sha256"
	"fmt"
	"os"
	"runtime/debug"
	"sort"
	"strings"
	"sync"
	"time"

	"github.com/luthersystems/elps/lisp"

	"verif/mc/core"
	"verif/mc/el"
)

func init() {
	core.Register(&core.Driver{Property: "C11", Run: run, Replay: replay})
}

// kase is the replay artefact: the history, as operations and as source.
type kase struct {
	Ops []Op     `json:"ops"`
	Src []string `json:"src"`
}

// mismatch describes the first step of a history that no allowed world explains.
type mismatch struct {
	Step     int
	Class    string
	Expected string
	Got      string
	Note     string
}

// result of checking one history
type checked struct {
	worlds []*world // worlds surviving the last step
	obs    []string // printed form of every live value after the last step
	lay    map[int]layout
	bad    *mismatch
	errOp  bool   // the last operation was expected to fail (and did)
	stay   string // for in-place growth: did the real target keep its storage
	moved  int    // number of pre-existing values whose printed form changed at the last step
	forks  int    // worlds offered by the model at the last step
	src    []string
}

func stmt(op Op, nvars int, expectErr bool) string {
	if expectErr {
		return op.expr()
	}
	return "(set '" + vn(nvars) + " " + op.expr() + ")"
}

func getVar(env *el.Env, i int) *lisp.LVal { return env.Get(lisp.Symbol(vn(i))) }

func storagePtr(lv *lisp.LVal) (uintptr, bool) {
	switch {
	case lv == nil:
		return 0, false
	case lv.Type == lisp.LArray && len(lv.Cells) == 2:
		c := lv.Cells[1].Cells
		return dataOfCells(c), cap(c) > 0
	case lv.Type == lisp.LBytes:
		b := lv.Bytes()
		return dataOfBytes(b), cap(b) > 0
	}
	return 0, false
}

// observeLayout walks the model value and the real value in parallel and
// records address, length and capacity of the real slice behind every
// sequence object (first visit wins).
func observeLayout(w *world, v val, lv *lisp.LVal, out map[int]layout, depth int) {
	if v.t != tRef || lv == nil || depth > 20 {
		return
	}
	if _, ok := out[v.n]; ok {
		return
	}
	o := w.o(v)
	switch o.k {
	case kList:
		if lv.Type != lisp.LSExpr {
			return
		}
		out[v.n] = layout{ptr: dataOfCells(lv.Cells), ln: len(lv.Cells), cp: cap(lv.Cells), esz: cellSize, ident: identOf(lv)}
		cs := w.cells(o)
		if len(cs) != len(lv.Cells) {
			return
		}
		for i, c := range cs {
			observeLayout(w, c, lv.Cells[i], out, depth+1)
		}
	case kVec:
		if lv.Type != lisp.LArray || len(lv.Cells) != 2 {
			return
		}
		rc := lv.Cells[1].Cells
		out[v.n] = layout{ptr: dataOfCells(rc), ln: len(rc), cp: cap(rc), esz: cellSize, ident: identOf(lv)}
		cs := w.cells(o)
		if len(cs) != len(rc) {
			return
		}
		for i, c := range cs {
			observeLayout(w, c, rc[i], out, depth+1)
		}
	case kBytes:
		if lv.Type != lisp.LBytes {
			return
		}
		b := lv.Bytes()
		out[v.n] = layout{ptr: dataOfBytes(b), ln: len(b), cp: cap(b), esz: 1, ident: identOf(lv)}
	case kMap:
		if lv.Type != lisp.LSortMap {
			return
		}
		out[v.n] = layout{esz: 1, ident: identOf(lv)}
		for _, e := range o.ents {
			if e.v.t == tRef {
				x, ok := lv.Map().Get(lisp.String(e.name))
				if ok {
					observeLayout(w, e.v, x, out, depth+1)
				}
			}
		}
	}
}

// groupLayouts partitions the observed slices into real allocations: two
// slices belong together when their [ptr, ptr+cap) ranges intersect.
func groupLayouts(lay map[int]layout) {
	ids := make([]int, 0, len(lay))
	for id, l := range lay {
		l.spare = l.cp - l.ln
		l.group = -1
		lay[id] = l
		if l.cp > 0 {
			ids = append(ids, id)
		}
	}
	sort.Slice(ids, func(a, b int) bool {
		la, lb := lay[ids[a]], lay[ids[b]]
		if la.ptr != lb.ptr {
			return la.ptr < lb.ptr
		}
		return ids[a] < ids[b]
	})
	g := -1
	var gStart, gEnd uintptr
	for _, id := range ids {
		l := lay[id]
		end := l.ptr + uintptr(l.cp*l.esz)
		if g < 0 || l.ptr >= gEnd {
			g++
			gStart, gEnd = l.ptr, end
		} else if end > gEnd {
			gEnd = end
		}
		l.group = g
		l.delta = int(l.ptr-gStart) / l.esz
		lay[id] = l
	}
}

func dedupeWorlds(ws []*world) []*world {
	if len(ws) <= 1 {
		return ws
	}
	ord := ws[0].varOrder()
	seen := map[string]bool{}
	var out []*world
	for _, w := range ws {
		k := w.serialize(ord, nil)
		if !seen[k] {
			seen[k] = true
			out = append(out, w)
		}
	}
	return out
}

func eqStrings(a, b []string) bool {
	if len(a) != len(b) {
		return false
	}
	for i := range a {
		if a[i] != b[i] {
			return false
		}
	}
	return true
}

// check replays a history on a fresh runtime against the model.
func check(ops []Op) *checked {
	env := el.MustEnv(el.Opts{Stdlib: needsStdlib(ops)})
	res := &checked{}
	worlds := []*world{{}}
	var prev []string
	for step, op := range ops {
		last := step == len(ops)-1
		nv := len(worlds[0].vars)
		var cand []*world
		expectErr := false
		for _, w := range worlds {
			outs, ee := apply(w, op)
			expectErr = ee
			cand = append(cand, outs...)
		}
		src := stmt(op, nv, expectErr)
		res.src = append(res.src, src)
		operand := describeOperand(worlds[0], op)

		var before uintptr
		var hasBefore bool
		if last && op.A >= 0 {
			before, hasBefore = storagePtr(getVar(env, op.A))
		}
		out := env.Load(src)
		nvAfter := nv
		if !expectErr {
			nvAfter = nv + 1
		}
		obs := make([]string, 0, nvAfter)
		for i := 0; i < nvAfter; i++ {
			lv := getVar(env, i)
			if lv == nil || lv.Type == lisp.LError {
				obs = append(obs, "<unbound>")
			} else {
				obs = append(obs, lv.String())
			}
		}
		if out.IsErr != expectErr {
			exp := "a value"
			if expectErr {
				exp = "an error and no change"
			}
			res.bad = &mismatch{Step: step, Class: op.K + "/" + operand + ":outcome", Expected: exp, Got: out.Full(),
				Note: "statement: " + src}
			return res
		}
		var match []*world
		for _, w := range cand {
			if eqStrings(w.printAll(), obs) {
				match = append(match, w)
			}
		}
		if len(match) == 0 {
			res.bad = classify(op, operand, src, step, cand, obs, prev)
			return res
		}
		untaintedBefore := false
		for _, w := range worlds {
			if w.taint == "" {
				untaintedBefore = true
			}
		}
		untaintedAfter := false
		for _, w := range match {
			if w.taint == "" {
				untaintedAfter = true
			}
		}
		if untaintedBefore && !untaintedAfter {
			// only an undocumented alternative explains the observation
			var exp []string
			for _, w := range cand {
				if w.taint == "" {
					exp = append(exp, strings.Join(w.printAll(), " | "))
				}
			}
			res.bad = &mismatch{Step: step, Class: match[0].taint, Expected: "one of: " + strings.Join(uniq(exp), "  ||  "),
				Got:  strings.Join(obs, " | "),
				Note: "the observation is explained only by the undocumented alternative '" + match[0].taint + "'; statement: " + src}
			// keep the tainted worlds: the search continues past a known defect
			res.bad.Note += " (search continues)"
		}
		worlds = dedupeWorlds(match)
		if last {
			res.errOp = expectErr
			res.forks = len(cand)
			if hasBefore && op.mutating() {
				after, ok := storagePtr(getVar(env, op.A))
				if ok {
					if after == before {
						res.stay = "stay"
					} else {
						res.stay = "move"
					}
				}
			}
			for i := 0; i < len(prev) && i < len(obs); i++ {
				if prev[i] != obs[i] {
					res.moved++
				}
			}
			res.lay = map[int]layout{}
			for i, v := range worlds[0].vars {
				observeLayout(worlds[0], v, getVar(env, i), res.lay, 0)
			}
			groupLayouts(res.lay)
		}
		prev = obs
		if res.bad != nil && res.bad.Step == step && !last {
			// a taint violation inside the prefix was reported when that prefix was a state of its own
			res.bad = nil
		}
	}
	res.worlds = worlds
	res.obs = prev
	return res
}

func uniq(s []string) []string {
	sort.Strings(s)
	var out []string
	for i, x := range s {
		if i == 0 || x != s[i-1] {
			out = append(out, x)
		}
	}
	return out
}

// classify names the failing class: operation, operand kind and which value
// disagrees (the result, the target of a mutation, or a bystander).
func classify(op Op, operand, src string, step int, cand []*world, obs, prev []string) *mismatch {
	best, bestN := -1, 1<<30
	var bestBad []int
	for wi, w := range cand {
		p := w.printAll()
		var bad []int
		for i := range obs {
			if i >= len(p) || p[i] != obs[i] {
				bad = append(bad, i)
			}
		}
		if len(bad) < bestN {
			best, bestN, bestBad = wi, len(bad), bad
		}
	}
	what := "values"
	if best >= 0 && len(bestBad) > 0 {
		i := bestBad[0]
		switch {
		case i >= len(prev):
			what = "result"
		case i == op.A && op.mutating():
			what = "target"
		case i == op.A:
			what = "operand-changed"
		case i < len(prev) && prev[i] == obs[i]:
			what = "bystander-not-updated"
		default:
			what = "bystander-changed"
		}
	}
	var exp []string
	for _, w := range cand {
		exp = append(exp, strings.Join(w.printAll(), " | "))
	}
	return &mismatch{Step: step, Class: op.K + "/" + operand + ":" + what,
		Expected: "one of: " + strings.Join(uniq(exp), "  ||  "), Got: strings.Join(obs, " | "),
		Note: fmt.Sprintf("statement %d: %s; values before: %s", step, src, strings.Join(prev, " | "))}
}

// development aids: VERIF_C11_ONLY=<pass label> runs one pass, VERIF_C11_DUMP=1 prints every canonical form
var dumpKeys = os.Getenv("VERIF_C11_DUMP") != ""

// canonKey is the canonical state: every surviving world serialised under one
// variable order, refined by the observed layout of the real slices.
func canonKey(c *checked) [16]byte {
	var parts []string
	if len(c.worlds) > 0 {
		ord := c.worlds[0].varOrder()
		for _, w := range c.worlds {
			parts = append(parts, w.serialize(ord, c.lay))
		}
		sort.Strings(parts)
	}
	if dumpKeys {
		fmt.Fprintf(os.Stderr, "KEY %s\n", strings.Join(parts, " || "))
	}
	h := sha256.Sum256([]byte(strings.Join(parts, "\n")))
	var k [16]byte
	copy(k[:], h[:16])
	return k
}

// ---------------------------------------------------------------------------
// search

type succ struct {
	ran     bool
	op      Op
	key     [16]byte
	ok      bool
	errOp   bool
	aliased bool
}

// outcome classes of the mutating operations only (the evidence keeps just
// the 40 most frequent classes overall, which are all non-mutating)
var (
	mutMu       sync.Mutex
	mutOutcomes = map[string]int64{}
)

type bfsStats struct {
	states, transitions int64
	maxDepth            int
	perDepth            []int64
}

var (
	confMu    sync.Mutex
	confirmed = map[string]int{}
)

func report(r *core.Run, hist []Op, c *checked) {
	k := kase{Ops: hist, Src: c.src}
	confMu.Lock()
	n := confirmed[c.bad.Class]
	confMu.Unlock()
	if n >= 3 {
		// the harness keeps three cases per class; further ones are only counted
		r.Violate("c11", c.bad.Class, k, c.bad.Expected, c.bad.Got, c.bad.Note)
		return
	}
	// re-confirm 5x on fresh runtimes
	same := 0
	for i := 0; i < 5; i++ {
		c2 := check(hist)
		if c2.bad != nil && c2.bad.Class == c.bad.Class && c2.bad.Got == c.bad.Got {
			same++
		}
	}
	if same < 5 {
		r.Flaky(map[string]any{"case": k, "class": c.bad.Class, "reproduced": same, "of": 5, "got": c.bad.Got})
		return
	}
	confMu.Lock()
	confirmed[c.bad.Class]++
	confMu.Unlock()
	r.Violate("c11", c.bad.Class, k, c.bad.Expected, c.bad.Got, c.bad.Note)
}

func bfs(r *core.Run, label string, al alpha, depth int) bfsStats {
	var st bfsStats
	seen := map[[16]byte]struct{}{}
	root := check(nil)
	seen[canonKey(root)] = struct{}{}
	st.states = 1
	frontier := [][]Op{nil}
	const chunk = 2048
	for d := 0; d < depth && len(frontier) > 0; d++ {
		var next [][]Op
		var levelStates int64
		for lo := 0; lo < len(frontier); lo += chunk {
			if r.Expired() {
				r.Cap(fmt.Sprintf("%s: soft deadline at depth %d, %d of %d frontier states expanded", label, d+1, lo, len(frontier)))
				st.perDepth = append(st.perDepth, levelStates)
				return st
			}
			hi := lo + chunk
			if hi > len(frontier) {
				hi = len(frontier)
			}
			part := frontier[lo:hi]
			// phase 1: the applicable operations of every state of the chunk
			alphas := make([][]Op, len(part))
			descs := make([][]string, len(part))
			core.ParallelRange(r, int64(len(part)), nil, func(_ struct{}, i int64) {
				base := check(part[i])
				if len(base.worlds) == 0 {
					return // cannot happen: states with a hard mismatch are never enqueued
				}
				alphas[i] = enumerate(base.worlds[0], al, part[i])
				descs[i] = make([]string, len(alphas[i]))
				for j, op := range alphas[i] {
					descs[i][j] = describeOperand(base.worlds[0], op)
				}
			})
			// phase 2: every (state, operation) pair, each on a fresh runtime
			type pair struct{ s, o int }
			var pairs []pair
			results := make([][]succ, len(part))
			for i := range part {
				results[i] = make([]succ, len(alphas[i]))
				for j := range alphas[i] {
					pairs = append(pairs, pair{i, j})
				}
			}
			core.ParallelRange(r, int64(len(pairs)), nil, func(_ struct{}, pi int64) {
				p := pairs[pi]
				hist, op := part[p.s], alphas[p.s][p.o]
				h2 := append(append(make([]Op, 0, len(hist)+1), hist...), op)
				c := check(h2)
				r.AddEvals(int64(len(h2)))
				r.AddTraces(1)
				s := succ{op: op, ran: true}
				if c.bad != nil {
					report(r, h2, c)
					r.Outcome(op.K + " VIOLATION " + c.bad.Class)
				}
				if len(c.worlds) > 0 {
					s.ok = true
					s.errOp = c.errOp
					s.key = canonKey(c)
					if (al.level == 7 || al.level == 8) && len(h2) >= 2 {
						// this family follows up on the OPERATION (it is called again
						// later), so two operations that happen to build the same heap
						// are different states
						hh := sha256.Sum256(append(s.key[:], []byte(h2[1].expr())...))
						copy(s.key[:], hh[:16])
					}
					s.aliased = c.worlds[0].aliased()
					oc := op.K + "/" + descs[p.s][p.o]
					if c.errOp {
						oc += " error,nothing-changed"
					} else {
						oc += fmt.Sprintf(" changed=%d", c.moved)
					}
					if c.stay != "" {
						oc += " " + c.stay
					}
					if c.forks > 1 {
						oc += fmt.Sprintf(" allowed=%d surviving=%d", c.forks, len(c.worlds))
					}
					r.Outcome(oc)
					if op.mutating() {
						mutMu.Lock()
						mutOutcomes[oc]++
						mutMu.Unlock()
					}
				}
				results[p.s][p.o] = s
			})
			for i, out := range results {
				for _, s := range out {
					if !s.ran {
						continue // skipped by the soft deadline
					}
					st.transitions++
					if !s.ok {
						continue
					}
					if _, dup := seen[s.key]; dup {
						continue
					}
					seen[s.key] = struct{}{}
					st.states++
					levelStates++
					if d+1 > st.maxDepth {
						st.maxDepth = d + 1
					}
					h2 := append(append(make([]Op, 0, len(part[i])+1), part[i]...), s.op)
					if s.aliased {
						r.Nontrivial(fmt.Sprintf("%x", s.key))
					}
					if st.states%4001 == 7 || st.states < 4 {
						r.Sample(map[string]any{"search": label, "depth": d + 1, "history": srcOf(h2)})
					}
					if d+1 < depth {
						next = append(next, h2)
					}
				}
			}
		}
		st.perDepth = append(st.perDepth, levelStates)
		if os.Getenv("VERIF_DEBUG") != "" {
			fmt.Fprintf(os.Stderr, "c11 %s depth=%d frontier=%d new_states=%d transitions=%d elapsed=%.0fs\n", label, d+1, len(frontier), levelStates, st.transitions, time.Since(r.Start).Seconds())
		}
		frontier = next
	}
	return st
}

// enumerate dispatches on the alphabet level (3 = the no-op family).
func enumerate(w *world, al alpha, hist []Op) []Op {
	if al.level == 3 {
		if len(w.vars) >= al.maxVars {
			return nil
		}
		return alphabetNoop(w)
	}
	if al.level == 4 {
		if len(w.vars) >= al.maxVars {
			return nil
		}
		return alphabetSiblings(w)
	}
	if al.level == 7 || al.level == 8 {
		if al.level == 7 {
			return alphabetTwice(w, hist, 1, false)
		}
		return alphabetTwice(w, hist, 2, true)
	}
	if al.level == 9 || al.level == 10 {
		return alphabetAdopt(w, hist, al.level == 10)
	}
	if al.level == 5 || al.level == 6 {
		if len(w.vars) >= al.maxVars {
			return nil
		}
		return alphabetStored(w, hist, al.level == 5)
	}
	return alphabet(w, al)
}

func srcOf(h []Op) []string {
	// the statements as the checker issues them (error-expected operations bind nothing)
	return check(h).src
}

func run(r *core.Run) {
	// a fresh runtime per replay makes this allocation-bound; a lazier GC
	// removes most of the collector's lock contention between the workers
	defer debug.SetGCPercent(debug.SetGCPercent(400))
	type pass struct {
		label string
		al    alpha
		depth int
	}
	var passes []pass
	if r.Thorough() {
		passes = []pass{
			{"full-alphabet", alpha{level: 2, maxVars: 6}, 3},
			{"mid-alphabet", alpha{level: 1, maxVars: 6}, 4},
			{"core-alphabet", alpha{level: 0, maxVars: 6}, 5},
			{"noop-family", alpha{level: 3, maxVars: 6}, 4},
			{"siblings-family", alpha{level: 4, maxVars: 6}, 4},
			{"stored-identity-family", alpha{level: 6, maxVars: 6}, 5},
			{"same-call-twice-family", alpha{level: 8, maxVars: 6}, 5},
			{"two-operand-in-place-family", alpha{level: 10, maxVars: 8}, 6},
		}
	} else {
		passes = []pass{
			{"full-alphabet", alpha{level: 2, maxVars: 6}, 3},
			{"core-alphabet", alpha{level: 0, maxVars: 6}, 4},
			{"noop-family", alpha{level: 3, maxVars: 6}, 3},
			{"siblings-family", alpha{level: 4, maxVars: 6}, 3},
			{"stored-identity-family", alpha{level: 5, maxVars: 6}, 4},
			{"same-call-twice-family", alpha{level: 7, maxVars: 6}, 5},
			{"two-operand-in-place-family", alpha{level: 9, maxVars: 8}, 5},
		}
	}
	r.Rule("a state is non-trivial when its heap contains sharing: two distinct live sequence values whose windows onto one backing " +
		"overlap (view/source, view/view), or one container referenced from two places (two names, or a name and a slot of another container); " +
		"distinct by canonical state")
	r.Assume("stable-sort, insert-sorted and select/reject are driven with <, > and an equal?-to-1 predicate over integer elements only; " +
		"sorting sequences with container elements is outside the alphabet (the comparison fails; what a failed sort leaves behind is unspecified)")
	r.Assume("UNSPECIFIED: whether a vector or byte string keeps its storage when append!/append-bytes! grows it (Go's growth policy): a view taken before " +
		"the growth may or may not still alias the target afterwards; both are accepted, but staying is only accepted when no other value covers the cells written")
	r.Assume("UNSPECIFIED: which spelling a map key shows after it is written again in the other spelling (lang.md: presentation only); either is accepted, then tracked")
	r.Assume("UNSPECIFIED: the spelling under which a map decoded from JSON presents a key written into it as a symbol (it keeps every key as a string); " +
		"either is accepted, then tracked -- name identity, values, sorted order and finite-map behaviour are checked as on any sorted-map, with both key spellings")
	r.Assume("a quoted program literal is never modified: stable-sort returns a sorted fresh list, (slice 'vector lit ..) and (append 'vector lit ..) copy " +
		"(stable-sort docstring, lisp/seal.go); docs/lang.md's 'Sharing' section still describes the older in-place edit of the literal and is not used as the oracle")
	r.Assume("model rule for every non-mutating operation, whatever its arguments (including the shapes on which it has nothing to do): the result shares no mutable " +
		"storage and no identity with any value that existed before, unless documented as a view (slice, cdr, rest) or documented to hand back an existing value " +
		"(a name, nth/get of a stored container, to-bytes of bytes, stable-sort's return value); the noop-family pass builds <shape>;<non-mutating op>;<in-place op>+ " +
		"and applies every in-place operation to the result and, separately, to the source")
	r.Assume("containers produced by ONE call (zip tuples, containers built in a map callback, constructors of constructors, concat/append/reverse/slice/assoc " +
		"results over containers, decoded JSON arrays and objects, select/reject results) are independent objects: the siblings-family pass takes each inner " +
		"container out by nth/aref/first/second/get, applies every in-place operation to it and to the outer container, and re-inspects the outer container and all siblings")
	r.Assume("a container stored INTO another by any operation (cons, list, vector, append, append!, concat, insert-index, insert-sorted with predicate and with key " +
		"function, assoc/assoc! as value, sorted-map, zip inputs, map identity, select, reject, reverse, slice/cdr/rest views, stable-sort with predicate and key) is the very same " +
		"object afterwards: the stored-identity-family pass stores a sorted-map, a list, a vector and a byte string, mutates it in place through the original reference and " +
		"re-reads it through the container, and takes it out of the container (nth/aref/first/second/get), mutates it and re-reads the original; quick ends a history after its first in-place operation")
	r.Assume("two results of the SAME non-mutating call on the same operand (keys, reverse, map, select, reject, concat, append with and without values, slices, cdr/rest, " +
		"zip, insert-index, insert-sorted, assoc/dissoc results, append-bytes, make-sequence, ...) are independent fresh values unless documented as views: the " +
		"same-call-twice-family pass calls the operation twice, applies every in-place operation (both sort directions; keys-style lists are sorted by name with " +
		"string< / string> over to-string) to one result, re-inspects the other and calls the operation a third time, which must still answer what the model says")
	r.Assume("an in-place operation with two container operands (append-bytes! with a byte string or an integer sequence, append! / assoc! storing a container) copies " +
		"the argument's contents or stores the argument as one element; target and argument never end up as two windows onto one storage: the two-operand-in-place-family " +
		"pass pairs every target shape (the empty ones included) with every argument shape, applies every such operation in both roles, then every in-place operation " +
		"(appended markers differ between append! and append-bytes!) to either value, twice (thorough: three times), re-inspecting all live values")
	r.Assume("strings are outside the alphabet (to-string/format-string of a string): elps strings are immutable, no in-place operation exists, so sharing is unobservable")
	r.Assume("the canonical state also carries the IDENTITY of the real mutable object behind every container (cell holder, byte box, Go map), so a history whose " +
		"'fresh' result is really its argument is never merged with an honest history that reaches the same model heap")
	r.Assume("containers are never stored into themselves (cyclic values print with a #<cycle> marker; another property's subject)")
	r.Assume("the observed layout of the real slices (which allocation, offset, spare capacity) refines the canonical state only; it is never part of the oracle")
	var totalS, totalT int64
	maxD := 0
	for _, p := range passes {
		if only := os.Getenv("VERIF_C11_ONLY"); only != "" && only != p.label {
			continue
		}
		if r.Expired() {
			r.Cap(p.label + ": not started, soft deadline reached")
			continue
		}
		st := bfs(r, p.label, p.al, p.depth)
		r.Bound(p.label+"_depth", p.depth)
		r.Bound(p.label+"_max_live_values", p.al.maxVars)
		r.Extra(p.label+"_states", st.states)
		r.Extra(p.label+"_transitions", st.transitions)
		r.Extra(p.label+"_new_states_per_depth", st.perDepth)
		totalS += st.states
		totalT += st.transitions
		if st.maxDepth > maxD {
			maxD = st.maxDepth
		}
	}
	mutMu.Lock()
	mo := map[string]int64{}
	for k, v := range mutOutcomes {
		mo[k] = v
	}
	mutMu.Unlock()
	r.Extra("mutating_outcome_classes", mo)
	r.AddStates(totalS)
	r.AddTransitions(totalT)
	r.Extra("max_depth", maxD)
	r.Bound("element_values", "constructors over {1,2,3} (and 97,98 for bytes); appended/inserted markers 0,5,7,8,9,122")
	r.Bound("map_keys", "a b c k, each spelled as symbol and as string")
	refusedFamily(r) // refused.go
}

func replay(v core.Violation) (bool, string) {
	if rk, err := core.CaseOf[refusedKase](v); err == nil && rk.Kind == "refused" {
		return replayRefused(rk)
	}
	k, err := core.CaseOf[kase](v)
	if err != nil {
		return false, err.Error()
	}
	var sb strings.Builder
	// straight-line: every prefix is checked, the first disagreement wins
	for n := 1; n <= len(k.Ops); n++ {
		c := check(k.Ops[:n])
		fmt.Fprintf(&sb, "%s\n    => %s\n", c.src[len(c.src)-1], strings.Join(c.obs, " | "))
		if c.bad != nil {
			fmt.Fprintf(&sb, "DISAGREEMENT at statement %d class=%s\n  expected %s\n  got      %s\n  %s\n", c.bad.Step, c.bad.Class, c.bad.Expected, c.bad.Got, c.bad.Note)
			return c.bad.Class == v.Class, sb.String()
		}
	}
	return false, sb.String()
}
