package c11

import (
	"reflect"
	"unsafe"

	"github.com/luthersystems/elps/lisp"
)

// Addresses of slice storage.  They are used to label outcomes (did an
// in-place growth keep its storage) and to refine the canonical state with
// the real memory layout -- never as an oracle.  Go's collector does not move
// heap objects, so addresses are stable while a history is being checked.

const cellSize = int(unsafe.Sizeof((*lisp.LVal)(nil)))

func dataOfCells(c []*lisp.LVal) uintptr { return uintptr(unsafe.Pointer(unsafe.SliceData(c))) }
func dataOfBytes(b []byte) uintptr       { return uintptr(unsafe.Pointer(unsafe.SliceData(b))) }

// identOf is the identity of the real mutable object behind a container
// value: what an in-place operation writes through, whatever header or
// wrapper it is reached by.
func identOf(lv *lisp.LVal) uintptr {
	switch lv.Type {
	case lisp.LSExpr:
		return uintptr(unsafe.Pointer(lv))
	case lisp.LArray:
		if len(lv.Cells) == 2 {
			return uintptr(unsafe.Pointer(lv.Cells[1])) // append! swaps this holder's Cells
		}
	case lisp.LBytes:
		if p, ok := lv.Native.(*[]byte); ok {
			return uintptr(unsafe.Pointer(p))
		}
	case lisp.LSortMap:
		md := lv.Map()
		if md == nil {
			return 0
		}
		// the Go map inside the default implementation (two MapData wrappers
		// around one map are one object); fall back to the wrapper's address
		if p := innerMapPointer(md); p != 0 {
			return p
		}
		return uintptr(unsafe.Pointer(md))
	}
	return uintptr(unsafe.Pointer(lv))
}

func innerMapPointer(md *lisp.MapData) (p uintptr) {
	defer func() {
		if recover() != nil {
			p = 0
		}
	}()
	v := reflect.ValueOf(md).Elem()
	if v.Kind() != reflect.Struct || v.NumField() == 0 {
		return 0
	}
	f := v.Field(0) // the embedded Map interface
	if f.Kind() == reflect.Interface {
		f = f.Elem()
	}
	if f.Kind() == reflect.Ptr {
		f = f.Elem()
	}
	if f.Kind() == reflect.Struct {
		for i := 0; i < f.NumField(); i++ {
			if f.Field(i).Kind() == reflect.Map {
				return f.Field(i).Pointer()
			}
		}
	}
	return 0
}
