package c11

import (
	"unsafe"

	"github.com/luthersystems/elps/lisp"
)

// Addresses of slice storage.  They are used to label outcomes (did an
// in-place growth keep its storage) and to refine the canonical state with
// the real memory layout -- never as an oracle.  Go's collector does not move
// heap objects, so addresses are stable while a history is being checked.

const cellSize = int(unsafe.Sizeof((*lisp.LVal)(nil)))

func dataOfCells(c []*lisp.LVal) uintptr { return uintptr(unsafe.Pointer(unsafe.SliceData(c))) }
func dataOfBytes(b []byte) uintptr       { return uintptr(unsafe.Pointer(unsafe.SliceData(b))) }
