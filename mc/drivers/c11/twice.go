package c11

// The "two results of the SAME non-mutating call on the same operand are
// independent objects" family.  Histories of the pass:
//
//	v0 = <operand shape>
//	v1 = <non-mutating, container-building operation on v0>
//	v2 = <the same operation on v0, again>
//	<one in-place operation on a result -- every one, both sort directions>
//	v3 = <the same operation on v0, a third time>
//
// with every live value re-inspected after every step: the untouched result
// must be unchanged, and the third call must still answer what the model says
// (a fresh value; map enumeration in ascending key order) -- a result cache
// shared between calls fails one or the other.  The operand shapes have keys
// / elements that are NOT in descending order, so the descending sort is never
// the identity permutation.

var twiceShapes = []string{"c-map", "c-list", "c-vector", "c-lit", "c-bytes", "c-vector-sorted"}

// alphabetTwice: level is the alphabet level the operations are drawn from
// (1 quick, 2 thorough); wide also mutates the operand itself in step 4.
func alphabetTwice(w *world, hist []Op, level int, wide bool) []Op {
	var ops []Op
	switch len(hist) {
	case 0:
		for _, k := range twiceShapes {
			ops = append(ops, Op{K: k, A: -1, B: -1})
		}
	case 1:
		ops = nonMutatingOn0(w, level)
		// one call, one growing list, no operand at all
		ops = append(ops, Op{K: "p:make-sequence", A: -1, B: -1})
	case 2, 4:
		// the same call again -- if it is still applicable (the operand may
		// have been changed in step 4: a slice range may no longer exist,
		// insert-sorted's "already ordered" precondition may no longer hold)
		if producerOf(hist[1].K) != nil {
			return []Op{hist[1]}
		}
		for _, op := range nonMutatingOn0(w, 2) {
			if op == hist[1] {
				return []Op{hist[1]}
			}
		}
	case 3:
		for _, op := range alphabet(w, alpha{level: 2, maxVars: 1 << 30}) {
			switch op.K {
			case "append!-list-err", "append!-bytes-err", "append-bytes!-err":
				continue
			}
			if !op.mutating() {
				continue
			}
			if !wide && op.A == 0 {
				continue // quick: in-place operations on the two results only
			}
			ops = append(ops, op)
		}
	}
	return ops
}
