package c11

// The "a container stored INTO another must be the very same object
// afterwards" family.  Every operation that places a caller-supplied value
// inside a result or a target -- non-mutating or mutating -- keeps the value's
// identity: mutating the stored value in place through the ORIGINAL reference
// shows when it is re-read through the container, and taking it out of the
// container, mutating it, shows through the original.  (The heap model has
// object identity: stored = same object.  Elements a result shares with its
// source stay shared too.)
//
// Histories of the pass:
//   v0 = <item: a sorted-map, a list, a vector, a byte string>
//   v1 = <store: one expression that places v0 inside a result or a target>
//   then any mix of  <take a stored container out of a container>  and
//   <every in-place operation on any live value>,
// every live value re-inspected after every step.  In the quick tier a
// history ends after its first in-place operation.

import "strings"

const lenLess = "(lambda (a b) (< (length a) (length b)))"

type storer struct {
	name  string
	src   string // {X} is the stored value
	build func(w *world, it val) val
}

func v1s(w *world) val   { return mkV(w, vint(1)) }
func v123s(w *world) val { return mkV(w, vint(1), vint(2), vint(3)) }

// every item of the pass has length 2, so ordered by length it belongs
// between (vector 1) and (vector 1 2 3)
var storers = []storer{
	{"cons", "(cons {X} (list 1))", func(w *world, it val) val { return mkL(w, it, vint(1)) }},
	{"list", "(list 0 {X})", func(w *world, it val) val { return mkL(w, vint(0), it) }},
	{"vector", "(vector {X} 0)", func(w *world, it val) val { return mkV(w, it, vint(0)) }},
	{"append-list", "(append 'list (list 1) {X})", func(w *world, it val) val { return mkL(w, vint(1), it) }},
	{"append-vector", "(append 'vector (vector 1) {X})", func(w *world, it val) val { return mkV(w, vint(1), it) }},
	{"append-vector2", "(append 'vector (list 1) 0 {X})", func(w *world, it val) val { return mkV(w, vint(1), vint(0), it) }},
	{"append!", "(append! (vector 1) {X})", func(w *world, it val) val { return mkV(w, vint(1), it) }},
	{"append!2", "(append! (vector) {X} 0)", func(w *world, it val) val { return mkV(w, it, vint(0)) }},
	{"concat-list", "(concat 'list (list 1) (list {X}))", func(w *world, it val) val { return mkL(w, vint(1), it) }},
	{"concat-vector", "(concat 'vector (vector {X}) (list 1))", func(w *world, it val) val { return mkV(w, it, vint(1)) }},
	{"insert-index-list", "(insert-index 'list (list 1 3) 1 {X})", func(w *world, it val) val { return mkL(w, vint(1), it, vint(3)) }},
	{"insert-index-vector", "(insert-index 'vector (vector 1 3) 2 {X})", func(w *world, it val) val { return mkV(w, vint(1), vint(3), it) }},
	{"insert-sorted-list-pred", "(insert-sorted 'list (list (vector 1) (vector 1 2 3)) " + lenLess + " {X})",
		func(w *world, it val) val { return mkL(w, v1s(w), it, v123s(w)) }},
	{"insert-sorted-vector-pred", "(insert-sorted 'vector (vector (vector 1) (vector 1 2 3)) " + lenLess + " {X})",
		func(w *world, it val) val { return mkV(w, v1s(w), it, v123s(w)) }},
	{"insert-sorted-list-key", "(insert-sorted 'list (list (vector 1) (vector 1 2 3)) < {X} length)",
		func(w *world, it val) val { return mkL(w, v1s(w), it, v123s(w)) }},
	{"insert-sorted-vector-key", "(insert-sorted 'vector (list (vector 1 2 3)) < {X} length)",
		func(w *world, it val) val { return mkV(w, it, v123s(w)) }},
	{"insert-sorted-list-key-end", "(insert-sorted 'list (list (vector 1)) < {X} length)",
		func(w *world, it val) val { return mkL(w, v1s(w), it) }},
	{"assoc", "(assoc (sorted-map 'a 1) 'k {X})", func(w *world, it val) val {
		return mkM(w, kv{"a", true, vint(1)}, kv{"k", true, it})
	}},
	{"assoc-nil", `(assoc () "k" {X})`, func(w *world, it val) val { return mkM(w, kv{"k", false, it}) }},
	{"assoc!", `(assoc! (sorted-map 'a 1) "k" {X})`, func(w *world, it val) val {
		return mkM(w, kv{"a", true, vint(1)}, kv{"k", false, it})
	}},
	{"sorted-map", "(sorted-map 'k {X} 'a 1)", func(w *world, it val) val {
		return mkM(w, kv{"a", true, vint(1)}, kv{"k", true, it})
	}},
	{"zip-vector", "(zip 'vector (vector {X} 1) (vector 2 3))", func(w *world, it val) val {
		return mkV(w, mkV(w, it, vint(2)), mkV(w, vint(1), vint(3)))
	}},
	{"zip-list", "(zip 'list (list 1 {X}) (list 2 3))", func(w *world, it val) val {
		return mkL(w, mkL(w, vint(1), vint(2)), mkL(w, it, vint(3)))
	}},
	{"map-vector", "(map 'vector identity (vector {X} 1))", func(w *world, it val) val { return mkV(w, it, vint(1)) }},
	{"map-list", "(map 'list (lambda (x) x) (list 1 {X}))", func(w *world, it val) val { return mkL(w, vint(1), it) }},
	{"select-vector", "(select 'vector (lambda (x) true) (vector {X} 1))", func(w *world, it val) val { return mkV(w, it, vint(1)) }},
	{"reject-list", "(reject 'list (lambda (x) (equal? x 1)) (list 1 {X}))", func(w *world, it val) val { return mkL(w, it) }},
	{"reverse-vector", "(reverse 'vector (vector {X} 1))", func(w *world, it val) val { return mkV(w, vint(1), it) }},
	{"reverse-list", "(reverse 'list (list {X} 1))", func(w *world, it val) val { return mkL(w, vint(1), it) }},
	{"slice-vector", "(slice 'vector (vector 1 {X} 2) 1 3)", func(w *world, it val) val { return mkV(w, it, vint(2)) }},
	{"slice-list", "(slice 'list (list 1 {X}) 0 2)", func(w *world, it val) val { return mkL(w, vint(1), it) }},
	{"cdr", "(cdr (list 1 {X} 2))", func(w *world, it val) val { return mkL(w, it, vint(2)) }},
	{"rest", "(rest (vector 1 2 {X}))", func(w *world, it val) val { return mkL(w, vint(2), it) }},
	{"stable-sort-pred", "(stable-sort " + lenLess + " (list (vector 1 2 3) {X} (vector 1)))",
		func(w *world, it val) val { return mkL(w, v1s(w), it, v123s(w)) }},
	{"stable-sort-key", "(stable-sort < (vector (vector 1 2 3) {X}) length)",
		func(w *world, it val) val { return mkV(w, it, v123s(w)) }},
}

var storedItems = []string{"c-map", "it-list", "it-vector", "c-bytes"}

func storerOf(k string) *storer {
	if !strings.HasPrefix(k, "s:") {
		return nil
	}
	for i := range storers {
		if storers[i].name == k[2:] {
			return &storers[i]
		}
	}
	return nil
}

func historyMutated(hist []Op) bool {
	for _, op := range hist {
		if op.mutating() {
			return true
		}
	}
	return false
}

// alphabetStored: see the comment at the top of the file.  stopAfterMutation
// ends a history after its first in-place operation (quick tier).
func alphabetStored(w *world, hist []Op, stopAfterMutation bool) []Op {
	var ops []Op
	add := func(k string, a, b, i, j int) { ops = append(ops, Op{K: k, A: a, B: b, I: i, J: j}) }
	switch len(w.vars) {
	case 0:
		for _, k := range storedItems {
			add(k, -1, -1, 0, 0)
		}
		return ops
	case 1:
		for _, s := range storers {
			add("s:"+s.name, 0, -1, 0, 0)
		}
		return ops
	}
	if stopAfterMutation && historyMutated(hist) {
		return nil
	}
	// take every stored CONTAINER out of every container but the item itself
	for vi := 1; vi < len(w.vars); vi++ {
		v := w.vars[vi]
		if v.t != tRef {
			continue
		}
		o := w.o(v)
		switch o.k {
		case kList, kVec:
			for i, c := range w.cells(o) {
				if c.t != tRef || i > 4 {
					continue
				}
				add("nth", vi, -1, i, 0)
				if o.k == kVec {
					add("aref", vi, -1, i, 0)
				}
				if i == 0 {
					add("first", vi, -1, 0, 0)
				}
				if i == 1 {
					add("second", vi, -1, 0, 0)
				}
			}
		case kMap:
			if i := o.find("k"); i >= 0 && o.ents[i].v.t == tRef {
				add("get-k", vi, -1, 0, 0)
				add("get-ksym", vi, -1, 0, 0)
			}
		}
	}
	// every in-place operation on every live value
	for _, op := range alphabet(w, alpha{level: 2, maxVars: 1 << 30}) {
		switch op.K {
		case "append!-list-err", "append!-bytes-err", "append-bytes!-err":
			continue
		}
		if op.mutating() {
			ops = append(ops, op)
		}
	}
	return ops
}
