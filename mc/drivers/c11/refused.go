package c11

// The refused-mutation family.  An in-place operation that is turned down --
// the per-operation allocation cap is the one refusal every growing builtin
// shares -- "changes exactly its target" in the degenerate sense: it changes
// nothing.  Every target shape x every in-place operation x every allocation
// cap around the size at which the operation stops fitting is run twice:
//
//	history A:  setup ; the operation ; probes
//	history B:  setup ;               ; probes
//
// When the operation answers with an error in A, every probe (print and length
// of the target, of an alias and of a container holding it, a further in-place
// operation that fits, one that does not, and the print after those) must answer
// in A exactly what it answers in B: the failed operation is invisible through
// every reference.  When it succeeds nothing is judged here (the BFS passes own
// the successful case).  No model is needed: B is the reference.

import (
	"fmt"
	"strings"

	"github.com/luthersystems/elps/lisp"
	"verif/mc/core"
	"verif/mc/el"
)

type refusedKase struct {
	Kind   string `json:"kind"` // "refused"
	Cap    int    `json:"cap"`
	Setup  string `json:"setup"`
	Op     string `json:"op"`
	Probes string `json:"probes"`
}

var refusedTargets = []struct{ name, mk string }{
	{"vector", "(vector %s)"},
	{"bytes", "(to-bytes \"%s\")"},
	{"map", "(sorted-map %s)"},
}

func refusedSetup(kind string, n int) string {
	var el []string
	switch kind {
	case "vector":
		for i := 1; i <= n; i++ {
			el = append(el, fmt.Sprint(i))
		}
		return fmt.Sprintf("(vector %s)", strings.Join(el, " "))
	case "bytes":
		return fmt.Sprintf("(to-bytes %q)", strings.Repeat("a", n))
	default:
		for i := 1; i <= n; i++ {
			el = append(el, fmt.Sprintf("\"k%d\" %d", i, i))
		}
		return fmt.Sprintf("(sorted-map %s)", strings.Join(el, " "))
	}
}

// the in-place operations per target kind, by how much they grow the target
func refusedOps(kind string) []string {
	switch kind {
	case "vector":
		return []string{"(append! t 7)", "(append! t 7 8)", "(append! t 7 8 9)", "(append! t (vector 7 8))"}
	case "bytes":
		return []string{"(append-bytes! t \"z\")", "(append-bytes! t \"zz\")", "(append-bytes! t \"zzz\")", "(append-bytes! t '(122 122))"}
	default:
		return []string{"(assoc! t \"n\" 7)", "(assoc! t 'k1 7)"}
	}
}

func refusedProbes(kind string) []string {
	common := []string{"(list 'len (length t) (length a) (length (first c)))", "(list t a c)"}
	switch kind {
	case "vector":
		return append(common, "(ignore-errors (append! a 5))", "(list (length t) t)", "(ignore-errors (append! t 1 2 3 4 5 6 7 8))", "(list (length a) a c)",
			"(ignore-errors (stable-sort > t))", "(list t a)")
	case "bytes":
		return append(common, "(ignore-errors (append-bytes! a \"y\"))", "(list (length t) t)", "(ignore-errors (append-bytes! t \"yyyyyyyy\"))", "(list (length a) a c)")
	default:
		return append(common, "(ignore-errors (assoc! a \"m\" 5))", "(list (length t) (keys t) t)", "(ignore-errors (dissoc! t \"k1\"))", "(list (length a) a c)")
	}
}

func refusedRun(cap int, setup, op string, probes []string) (opErr bool, obs []string, err error) {
	env, e := el.NewEnv(el.Opts{Configs: []lisp.Config{lisp.WithMaxAlloc(cap)}})
	if e != nil {
		return false, nil, e
	}
	pre := env.Load(fmt.Sprintf("(set 't %s) (set 'a t) (set 'c (list t 0))", setup))
	if pre.IsErr {
		return false, nil, nil // the setup itself does not fit under this cap: nothing to judge
	}
	if op != "" {
		o := env.Load(op)
		opErr = o.IsErr
	}
	for _, p := range probes {
		o := env.Load(p)
		obs = append(obs, o.Full())
	}
	return opErr, obs, nil
}

func refusedFamily(r *core.Run) {
	maxN, maxCap := 4, 8
	if r.Thorough() {
		maxN, maxCap = 7, 12
	}
	type item struct {
		kind   string
		n, cap int
		op     string
	}
	var items []item
	for _, t := range refusedTargets {
		for n := 0; n <= maxN; n++ {
			for cap := 1; cap <= maxCap; cap++ {
				for _, op := range refusedOps(t.name) {
					items = append(items, item{t.name, n, cap, op})
				}
			}
		}
	}
	r.Bound("refused_family_cases", len(items))
	r.Rule(fmt.Sprintf("refused-mutation family: every target (vector / byte string / sorted-map of 0..%d elements, with an alias and a container holding it) x every in-place growth operation x every allocation cap 1..%d: when the operation is refused, every later observation through every reference (print, length, a further in-place operation that fits, one that does not, a sort) equals the observation in a runtime that never attempted it", maxN, maxCap))
	core.ParallelRange(r, int64(len(items)), nil, func(_ struct{}, i int64) {
		it := items[i]
		setup := refusedSetup(it.kind, it.n)
		probes := refusedProbes(it.kind)
		opErr, a, err := refusedRun(it.cap, setup, it.op, probes)
		r.AddEvals(2)
		r.AddTransitions(int64(len(probes)))
		r.AddStates(1)
		if err != nil {
			r.Violate("c11", "harness-error", refusedKase{"refused", it.cap, setup, it.op, strings.Join(probes, " ")}, "an environment", err.Error(), "")
			return
		}
		if a == nil {
			r.Outcome("refused:setup-does-not-fit")
			return
		}
		if !opErr {
			r.Outcome("refused:operation-fits")
			return
		}
		_, b, _ := refusedRun(it.cap, setup, "", probes)
		r.Outcome("refused:operation-refused")
		r.Nontrivial(fmt.Sprintf("refused\x00%s\x00%d\x00%d\x00%s", it.kind, it.n, it.cap, it.op))
		for k := range a {
			if k >= len(b) || a[k] != b[k] {
				cls := fmt.Sprintf("refused:%s:%s:later-observation-differs", it.kind, strings.Fields(strings.Trim(it.op, "()"))[0])
				if r.Seen(cls) >= 2 {
					r.CountOnly(cls)
					return
				}
				r.Violate("c11", cls, refusedKase{"refused", it.cap, setup, it.op, strings.Join(probes, " ")},
					fmt.Sprintf("probe %s answers %s (runtime that never attempted the refused operation)", probes[k], b[k]),
					fmt.Sprintf("probe %s answers %s after the refused %s", probes[k], a[k], it.op),
					fmt.Sprintf("MaxAlloc %d, target %s", it.cap, setup))
				return
			}
		}
	})
}

func replayRefused(k refusedKase) (bool, string) {
	var probes []string
	depth, start := 0, 0
	for i, c := range k.Probes {
		switch c {
		case '(':
			if depth == 0 {
				start = i
			}
			depth++
		case ')':
			depth--
			if depth == 0 {
				probes = append(probes, k.Probes[start:i+1])
			}
		}
	}
	opErr, a, _ := refusedRun(k.Cap, k.Setup, k.Op, probes)
	_, b, _ := refusedRun(k.Cap, k.Setup, "", probes)
	rep := fmt.Sprintf("MaxAlloc %d, target %s, operation %s (refused: %v)\nafter the operation: %v\nwithout it:          %v", k.Cap, k.Setup, k.Op, opErr, a, b)
	if !opErr {
		return false, rep
	}
	for i := range a {
		if i >= len(b) || a[i] != b[i] {
			return true, rep
		}
	}
	return false, rep
}
