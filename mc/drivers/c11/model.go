package c11

// The reference heap model.  Deliberately boring: a slice heap (backing
// arrays addressed by id, objects are windows {backing, offset, length} over
// them; capacity is NOT modelled) plus name-keyed finite maps.  Everything the
// documentation leaves open is expressed as a fork into several possible
// worlds; the observation (the printed form of every live value) prunes the
// worlds, and a step is correct iff at least one world survives.

import (
	"sort"
	"strconv"
	"strings"
)

type vtype uint8

const (
	tInt vtype = iota
	tSym       // a quoted symbol (map key handed out by keys)
	tStr       // a string
	tRef       // reference to objs[n]
)

type val struct {
	t vtype
	n int
	s string
}

func vint(n int) val { return val{t: tInt, n: n} }

type okind uint8

const (
	kList okind = iota
	kVec
	kBytes
	kMap
)

func (k okind) String() string {
	switch k {
	case kList:
		return "list"
	case kVec:
		return "vector"
	case kBytes:
		return "bytes"
	}
	return "map"
}

type ment struct {
	name string
	sym  bool // spelled as a symbol (presentation only)
	v    val
}

type obj struct {
	k       okind
	back    int // sequences: backing id
	off, ln int
	sealed  bool   // list header over the storage of a quoted program literal
	quoted  bool   // list prints with a leading quote mark
	ents    []ment // maps, sorted by name
	json    bool   // map decoded by json:load-* (a different Map implementation behind the same type)
}

// layout is what was observed about the real slice behind a sequence object
// (never part of the oracle; it only refines the canonical state).
type layout struct {
	ptr          uintptr
	ln, cp, esz  int
	group, delta int // allocation group (arbitrary id, -1: no storage) and offset in elements
	spare        int
	// ident is the identity of the real mutable object behind the value (the
	// cell holder of a vector, the byte-slice box of a byte string, the Go map
	// of a sorted-map, the header of a list): two model objects that are ONE
	// real object get the same number, so a history in which a "fresh" result
	// is really its argument is never merged with an honest one.
	ident uintptr
}

type world struct {
	objs  []obj
	backs [][]val
	vars  []val
	// taint names the first *undocumented* alternative this world assumed
	// (a defect hypothesis).  A step whose observation is explained only by
	// tainted worlds is a violation of class taint.
	taint string
}

func (w *world) clone() *world {
	c := &world{taint: w.taint}
	c.objs = make([]obj, len(w.objs))
	copy(c.objs, w.objs)
	for i := range c.objs {
		if c.objs[i].ents != nil {
			c.objs[i].ents = append([]ment(nil), c.objs[i].ents...)
		}
	}
	c.backs = make([][]val, len(w.backs))
	for i, b := range w.backs {
		c.backs[i] = append([]val(nil), b...)
	}
	c.vars = append([]val(nil), w.vars...)
	return c
}

func (w *world) newBack(cells []val) int {
	w.backs = append(w.backs, append([]val(nil), cells...))
	return len(w.backs) - 1
}

func (w *world) newObj(o obj) val {
	w.objs = append(w.objs, o)
	return val{t: tRef, n: len(w.objs) - 1}
}

// fresh sequence over its own new backing
func (w *world) newSeq(k okind, cells []val) val {
	return w.newObj(obj{k: k, back: w.newBack(cells), ln: len(cells), quoted: k == kList})
}

// the nil value: the empty, unquoted list
func (w *world) newNil() val {
	return w.newObj(obj{k: kList, back: w.newBack(nil)})
}

func (w *world) o(v val) *obj { return &w.objs[v.n] }

// cells returns the live window of a sequence (aliases the backing).
func (w *world) cells(o *obj) []val { return w.backs[o.back][o.off : o.off+o.ln] }

func (w *world) cellsCopy(o *obj) []val { return append([]val(nil), w.cells(o)...) }

func isSeqKind(k okind) bool { return k == kList || k == kVec }

func (w *world) allInts(o *obj) bool {
	for _, c := range w.cells(o) {
		if c.t != tInt {
			return false
		}
	}
	return true
}

// allNames: every element is a symbol or a string (a keys-style list).
func (w *world) allNames(o *obj) bool {
	for _, c := range w.cells(o) {
		if c.t != tSym && c.t != tStr {
			return false
		}
	}
	return true
}

// reach collects every object reachable from v.
func (w *world) reach(v val, seen map[int]bool) {
	if v.t != tRef || seen[v.n] {
		return
	}
	seen[v.n] = true
	o := &w.objs[v.n]
	switch o.k {
	case kList, kVec:
		for _, c := range w.cells(o) {
			w.reach(c, seen)
		}
	case kMap:
		for _, e := range o.ents {
			w.reach(e.v, seen)
		}
	}
}

// reaches reports whether target is reachable from v (cycle avoidance).
func (w *world) reaches(v val, target int) bool {
	seen := map[int]bool{}
	w.reach(v, seen)
	return seen[target]
}

// ---------------------------------------------------------------------------
// printing (must equal LVal.String of the real value)

func (w *world) print(v val) string {
	var sb strings.Builder
	w.pr(&sb, v, 0)
	return sb.String()
}

func (w *world) pr(sb *strings.Builder, v val, depth int) {
	if depth > 40 {
		sb.WriteString("#<deep>")
		return
	}
	switch v.t {
	case tInt:
		sb.WriteString(strconv.Itoa(v.n))
	case tSym:
		sb.WriteString("'" + v.s)
	case tStr:
		sb.WriteString(`"` + v.s + `"`)
	case tRef:
		o := &w.objs[v.n]
		switch o.k {
		case kList:
			if o.quoted {
				sb.WriteByte('\'')
			}
			sb.WriteByte('(')
			for i, c := range w.cells(o) {
				if i > 0 {
					sb.WriteByte(' ')
				}
				w.pr(sb, c, depth+1)
			}
			sb.WriteByte(')')
		case kVec:
			sb.WriteString("(vector")
			for _, c := range w.cells(o) {
				sb.WriteByte(' ')
				w.pr(sb, c, depth+1)
			}
			sb.WriteByte(')')
		case kBytes:
			sb.WriteString("#<bytes")
			for _, c := range w.cells(o) {
				sb.WriteByte(' ')
				sb.WriteString(strconv.Itoa(c.n))
			}
			sb.WriteByte('>')
		case kMap:
			sb.WriteString("(sorted-map")
			for _, e := range o.ents {
				sb.WriteByte(' ')
				if e.sym {
					sb.WriteString("'" + e.name)
				} else {
					sb.WriteString(`"` + e.name + `"`)
				}
				sb.WriteByte(' ')
				w.pr(sb, e.v, depth+1)
			}
			sb.WriteByte(')')
		}
	}
}

func (w *world) printAll() []string {
	out := make([]string, len(w.vars))
	for i, v := range w.vars {
		out[i] = w.print(v)
	}
	return out
}

// ---------------------------------------------------------------------------
// finite maps

func (o *obj) find(name string) int {
	for i, e := range o.ents {
		if e.name == name {
			return i
		}
	}
	return -1
}

func (o *obj) put(name string, sym bool, v val) {
	if i := o.find(name); i >= 0 {
		o.ents[i].v = v
		o.ents[i].sym = sym
		return
	}
	o.ents = append(o.ents, ment{name: name, sym: sym, v: v})
	sort.Slice(o.ents, func(i, j int) bool { return o.ents[i].name < o.ents[j].name })
}

func (o *obj) del(name string) {
	if i := o.find(name); i >= 0 {
		o.ents = append(o.ents[:i:i], o.ents[i+1:]...)
	}
}

// ---------------------------------------------------------------------------
// canonical form: the heap up to renaming of variables, objects and backings

// varOrder sorts the variables by their local signature (kind + printed
// form); ties keep their index order (an over-fine key only costs time).
func (w *world) varOrder() []int {
	sig := make([]string, len(w.vars))
	for i, v := range w.vars {
		k := "a"
		if v.t == tRef {
			o := w.o(v)
			k = o.k.String()
			if o.sealed {
				k += "!"
			}
		}
		sig[i] = k + "|" + w.print(v)
	}
	ord := make([]int, len(w.vars))
	for i := range ord {
		ord[i] = i
	}
	sort.SliceStable(ord, func(a, b int) bool { return sig[ord[a]] < sig[ord[b]] })
	return ord
}

// serialize renders the part of the heap reachable from the variables, with
// objects and backings numbered in order of first visit.  lay (may be nil)
// adds the observed layout of the real value behind each sequence object:
// which real allocation it lives in (numbered by first visit), its offset
// inside it and its spare capacity.
func (w *world) serialize(order []int, lay map[int]layout) string {
	var sb strings.Builder
	objNum := map[int]int{}
	backNum := map[int]int{}
	grpNum := map[int]int{}
	idNum := map[uintptr]int{}
	var visit func(v val)
	visit = func(v val) {
		switch v.t {
		case tInt:
			sb.WriteString(strconv.Itoa(v.n))
		case tSym:
			sb.WriteString("'" + v.s)
		case tStr:
			sb.WriteString(`"` + v.s + `"`)
		case tRef:
			if n, ok := objNum[v.n]; ok {
				sb.WriteString("@" + strconv.Itoa(n))
				return
			}
			objNum[v.n] = len(objNum)
			o := &w.objs[v.n]
			sb.WriteString("{" + o.k.String())
			if o.sealed {
				sb.WriteByte('!')
			}
			if o.k == kList && !o.quoted {
				sb.WriteByte('u')
			}
			if o.json {
				sb.WriteByte('j')
			}
			if lay != nil {
				if l, ok := lay[v.n]; ok {
					if l.group >= 0 {
						g, seen := grpNum[l.group]
						if !seen {
							g = len(grpNum)
							grpNum[l.group] = g
						}
						sb.WriteString("~G" + strconv.Itoa(g) + "@" + strconv.Itoa(l.delta))
					}
					sb.WriteString("+" + strconv.Itoa(l.spare))
					if l.ident != 0 {
						n, seen := idNum[l.ident]
						if !seen {
							n = len(idNum)
							idNum[l.ident] = n
						}
						sb.WriteString("#I" + strconv.Itoa(n))
					}
				}
			}
			if o.k == kMap {
				for _, e := range o.ents {
					if e.sym {
						sb.WriteString(" '" + e.name + "=")
					} else {
						sb.WriteString(` "` + e.name + `"=`)
					}
					visit(e.v)
				}
			} else {
				bn, ok := backNum[o.back]
				if !ok {
					bn = len(backNum)
					backNum[o.back] = bn
				}
				// the backing's modelled extent decides whether an in-place
				// growth may stay, so it is part of the state
				sb.WriteString(" B" + strconv.Itoa(bn) + "/" + strconv.Itoa(len(w.backs[o.back])) +
					"[" + strconv.Itoa(o.off) + ":" + strconv.Itoa(o.off+o.ln) + "]")
				for _, c := range w.cells(o) {
					sb.WriteByte(' ')
					visit(c)
				}
			}
			sb.WriteByte('}')
		}
	}
	for _, k := range order {
		visit(w.vars[k])
		sb.WriteByte(';')
	}
	if w.taint != "" {
		sb.WriteString("T:" + w.taint)
	}
	return sb.String()
}

// aliased reports whether the reachable heap contains any sharing: two
// distinct sequence objects whose windows overlap, or an object referenced
// from two places.
func (w *world) aliased() bool {
	refs := map[int]int{}
	seen := map[int]bool{}
	var walk func(v val)
	walk = func(v val) {
		if v.t != tRef {
			return
		}
		refs[v.n]++
		if seen[v.n] {
			return
		}
		seen[v.n] = true
		o := &w.objs[v.n]
		switch o.k {
		case kList, kVec:
			for _, c := range w.cells(o) {
				walk(c)
			}
		case kMap:
			for _, e := range o.ents {
				walk(e.v)
			}
		}
	}
	for _, v := range w.vars {
		walk(v)
	}
	for _, n := range refs {
		if n > 1 {
			return true
		}
	}
	ids := make([]int, 0, len(seen))
	for id := range seen {
		ids = append(ids, id)
	}
	sort.Ints(ids)
	for i, a := range ids {
		oa := &w.objs[a]
		if oa.k == kMap || oa.ln == 0 {
			continue
		}
		for _, b := range ids[i+1:] {
			ob := &w.objs[b]
			if ob.k == kMap || ob.ln == 0 || ob.back != oa.back {
				continue
			}
			if oa.off < ob.off+ob.ln && ob.off < oa.off+oa.ln {
				return true
			}
		}
	}
	return false
}
