package c11

// The operation alphabet: source text of every operation and its meaning on
// the reference heap.

import (
	"fmt"
	"sort"
	"strconv"
	"strings"
)

// Op is one container operation.  A and B are operand variable indices
// (-1: none), I and J integer parameters.  It is JSON-serialisable: a history
// ([]Op) is the replay artefact.
type Op struct {
	K string `json:"k"`
	A int    `json:"a"`
	B int    `json:"b"`
	I int    `json:"i"`
	J int    `json:"j"`
}

func (op Op) String() string { return op.expr() }

func vn(i int) string { return "v" + strconv.Itoa(i) }

const selPred = "(lambda (x) (equal? x 1))"

var mapKeys = []struct {
	tag, src, name string
	sym            bool
}{
	{"'a", "'a", "a", true}, {`"a"`, `"a"`, "a", false},
	{"'b", "'b", "b", true}, {`"b"`, `"b"`, "b", false},
	{"'c", "'c", "c", true}, {`"c"`, `"c"`, "c", false},
	// never present in any map of the alphabet: the absent key, both spellings
	{"'zz", "'zz", "zz", true}, {`"zz"`, `"zz"`, "zz", false},
}

const (
	nWriteKeys = 6 // keys written by assoc/assoc! (a b c, both spellings)
	keyAbsSym  = 6
	keyAbsStr  = 7
)

// expr is the source text of the operation (without the binding).
func (op Op) expr() string {
	a, b := vn(op.A), vn(op.B)
	i, j := strconv.Itoa(op.I), strconv.Itoa(op.J)
	switch op.K {
	// constructors
	case "c-list":
		return "(list 3 1 2)"
	case "c-vector":
		return "(vector 3 1 2)"
	case "c-list0":
		return "(list)"
	case "c-vector0":
		return "(vector)"
	case "c-vector4":
		return "(vector 2 3 1 2)"
	case "c-lit":
		return "'(3 1 2)"
	case "c-lit-nested":
		return "'((2 1) 3)"
	case "c-bytes":
		return `(to-bytes "ab")`
	case "c-map":
		return `(sorted-map 'a 1 "b" 2)`
	case "c-map-rev":
		return `(sorted-map "b" 2 'a 1)`
	case "c-assoc-nil":
		return "(assoc () 'a 1)"
	case "c-get-nil":
		return "(get () 'a)"
	// shapes on which many non-mutating operations are no-ops
	case "c-list1":
		return "(list 1)"
	case "c-vector1":
		return "(vector 1)"
	case "c-list-sorted":
		return "(list 1 2 3)"
	case "c-vector-sorted":
		return "(vector 1 2 3)"
	case "c-lit-sorted":
		return "'(1 2 3)"
	case "c-bytes0":
		return `(to-bytes "")`
	case "c-map0":
		return "(sorted-map)"
	// no-op argument shapes of non-mutating operations
	case "assoc-same":
		return "(assoc " + a + " " + mapKeys[op.I].src + " " + j + ")"
	case "append-bytes-t0":
		return "(append 'bytes " + a + ")"
	case "append-bytes-str0":
		return `(append-bytes ` + a + ` "")`
	case "concat-list-e":
		return "(concat 'list " + a + " (list))"
	case "concat-vector-e":
		return "(concat 'vector " + a + " (vector))"
	case "concat-bytes-e":
		return `(concat 'bytes ` + a + ` (to-bytes ""))`
	case "select-all-list":
		return "(select 'list (lambda (x) true) " + a + ")"
	case "select-all-vector":
		return "(select 'vector (lambda (x) true) " + a + ")"
	case "reject-none-list":
		return "(reject 'list (lambda (x) false) " + a + ")"
	case "reject-none-vector":
		return "(reject 'vector (lambda (x) false) " + a + ")"
	// views
	case "slice-list":
		return "(slice 'list " + a + " " + i + " " + j + ")"
	case "slice-vector":
		return "(slice 'vector " + a + " " + i + " " + j + ")"
	case "slice-bytes":
		return "(slice 'bytes " + a + " " + i + " " + j + ")"
	case "cdr":
		return "(cdr " + a + ")"
	case "rest":
		return "(rest " + a + ")"
	// non-mutating
	case "append-list":
		return "(append 'list " + a + " 7)"
	case "append-vector":
		return "(append 'vector " + a + " 7)"
	case "append-vector2":
		return "(append 'vector " + a + " 7 8)"
	case "append-list0":
		return "(append 'list " + a + ")"
	case "append-vector0":
		return "(append 'vector " + a + ")"
	case "append-bytes-t":
		return "(append 'bytes " + a + " 7)"
	case "append-bytes-str":
		return `(append-bytes ` + a + ` "z")`
	case "append-bytes2":
		return "(append-bytes " + a + " " + b + ")"
	case "concat-list":
		return "(concat 'list " + a + ")"
	case "concat-vector":
		return "(concat 'vector " + a + ")"
	case "concat-bytes":
		return "(concat 'bytes " + a + ")"
	case "concat2-list":
		return "(concat 'list " + a + " " + b + ")"
	case "concat2-vector":
		return "(concat 'vector " + a + " " + b + ")"
	case "concat2-bytes":
		return "(concat 'bytes " + a + " " + b + ")"
	case "cons":
		return "(cons 0 " + a + ")"
	case "reverse-list":
		return "(reverse 'list " + a + ")"
	case "reverse-vector":
		return "(reverse 'vector " + a + ")"
	case "map-list":
		return "(map 'list identity " + a + ")"
	case "map-vector":
		return "(map 'vector identity " + a + ")"
	case "select-list":
		return "(select 'list " + selPred + " " + a + ")"
	case "select-vector":
		return "(select 'vector " + selPred + " " + a + ")"
	case "reject-list":
		return "(reject 'list " + selPred + " " + a + ")"
	case "reject-vector":
		return "(reject 'vector " + selPred + " " + a + ")"
	case "zip-list":
		return "(zip 'list " + a + " " + b + ")"
	case "zip-vector":
		return "(zip 'vector " + a + " " + b + ")"
	case "insert-index-list":
		return "(insert-index 'list " + a + " " + i + " 5)"
	case "insert-index-vector":
		return "(insert-index 'vector " + a + " " + i + " 5)"
	case "insert-sorted-list<":
		return "(insert-sorted 'list " + a + " < 2)"
	case "insert-sorted-vector<":
		return "(insert-sorted 'vector " + a + " < 2)"
	case "insert-sorted-list>":
		return "(insert-sorted 'list " + a + " > 2)"
	case "insert-sorted-vector>":
		return "(insert-sorted 'vector " + a + " > 2)"
	case "nth":
		return "(nth " + a + " " + i + ")"
	case "alias":
		return a
	case "to-bytes":
		return "(to-bytes " + a + ")"
	// mutating
	case "sort<":
		return "(stable-sort < " + a + ")"
	case "sort>":
		return "(stable-sort > " + a + ")"
	case "sort-str<":
		return "(stable-sort string< " + a + " to-string)"
	case "sort-str>":
		return "(stable-sort string> " + a + " to-string)"
	case "append!":
		return "(append! " + a + " 9)"
	case "append!2":
		return "(append! " + a + " 9 8)"
	case "append!-list-err":
		return "(append! " + a + " 9)"
	case "append!-bytes":
		return "(append! " + a + " 7)"
	case "append!-bytes-err":
		return "(append! " + a + " 7 300)"
	case "append-bytes!-str":
		return `(append-bytes! ` + a + ` "z")`
	case "append-bytes!2":
		return "(append-bytes! " + a + " " + b + ")"
	case "append-bytes!-err":
		return "(append-bytes! " + a + " (list 7 300))"
	// stores
	case "list-of":
		return "(list 0 " + a + ")"
	case "vector-of":
		return "(vector " + a + " 0)"
	case "map-of":
		return "(sorted-map 'k " + a + ")"
	case "append!-store":
		return "(append! " + a + " " + b + ")"
	case "cons-store":
		return "(cons " + b + " " + a + ")"
	case "assoc!-store":
		return "(assoc! " + a + " 'k " + b + ")"
	case "assoc-store":
		return `(assoc ` + a + ` "k" ` + b + ")"
	// maps
	case "assoc":
		k := mapKeys[op.I]
		return "(assoc " + a + " " + k.src + " " + keyVal(k.sym) + ")"
	case "assoc!":
		k := mapKeys[op.I]
		return "(assoc! " + a + " " + k.src + " " + keyVal(k.sym) + ")"
	case "dissoc":
		return "(dissoc " + a + " " + mapKeys[op.I].src + ")"
	case "dissoc!":
		return "(dissoc! " + a + " " + mapKeys[op.I].src + ")"
	case "get":
		return "(get " + a + " " + mapKeys[op.I].src + ")"
	case "keys":
		return "(keys " + a + ")"
	case "get-k":
		return `(get ` + a + ` "k")`
	case "it-list":
		return "(list 3 1)"
	case "it-vector":
		return "(vector 3 1)"
	case "get-ksym":
		return "(get " + a + " 'k)"
	case "aref":
		return "(aref " + a + " " + i + ")"
	case "first":
		return "(first " + a + ")"
	case "second":
		return "(second " + a + ")"
	}
	if p := producerOf(op.K); p != nil {
		return p.src
	}
	if st := storerOf(op.K); st != nil {
		return strings.ReplaceAll(st.src, "{X}", a)
	}
	panic("harness: unknown op " + op.K)
}

func keyVal(sym bool) string {
	if sym {
		return "8"
	}
	return "9"
}

// mutating reports whether the statement marks the operation as one that may
// change its target.
func (op Op) mutating() bool {
	switch op.K {
	case "sort<", "sort>", "sort-str<", "sort-str>", "append!", "append!2", "append!-bytes", "append-bytes!-str", "append-bytes!2",
		"append!-store", "assoc!-store", "assoc!", "dissoc!",
		"append!-list-err", "append!-bytes-err", "append-bytes!-err":
		return true
	}
	return false
}

// ---------------------------------------------------------------------------
// meaning

func bind(w *world, v val) *world {
	w.vars = append(w.vars, v)
	return w
}

// grow is an in-place append to the sequence object id: the documentation
// does not say whether the target keeps its storage (Go's growth policy
// decides), so both are possible -- but staying is only possible when nothing
// is modelled behind the target's end, because growth must never write into
// another value.
func grow(w *world, id int, add []val) []*world {
	add = append([]val(nil), add...)
	var out []*world
	m := w.clone()
	o := &m.objs[id]
	cells := append(m.cellsCopy(o), add...)
	o.back, o.off, o.ln = m.newBack(cells), 0, len(cells)
	out = append(out, m)
	o0 := &w.objs[id]
	if o0.off+o0.ln == len(w.backs[o0.back]) {
		s := w.clone()
		o := &s.objs[id]
		s.backs[o.back] = append(s.backs[o.back], add...)
		o.ln += len(add)
		out = append(out, s)
	}
	return out
}

func sortedInts(cells []val, desc bool) []val {
	out := append([]val(nil), cells...)
	sort.SliceStable(out, func(i, j int) bool {
		if desc {
			return out[i].n > out[j].n
		}
		return out[i].n < out[j].n
	})
	return out
}

func monotone(cells []val, desc bool) bool {
	for i := 1; i < len(cells); i++ {
		if cells[i].t != tInt || cells[i-1].t != tInt {
			return false
		}
		if !desc && cells[i-1].n > cells[i].n {
			return false
		}
		if desc && cells[i-1].n < cells[i].n {
			return false
		}
	}
	return len(cells) == 0 || cells[0].t == tInt
}

func seqKindOf(k string) okind {
	// suffix -list / -vector of an op name
	if len(k) >= 4 && k[len(k)-4:] == "list" {
		return kList
	}
	return kVec
}

// apply returns every world the documentation allows after op, with the
// result bound to the next variable; expectErr means the operation must fail
// and change nothing.
func apply(w0 *world, op Op) (outs []*world, expectErr bool) {
	one := func(w *world, v val) ([]*world, bool) { return []*world{bind(w, v)}, false }
	w := w0.clone()
	var A, B *obj
	var av, bv val
	if op.A >= 0 {
		av = w.vars[op.A]
		if av.t == tRef {
			A = w.o(av)
		}
	}
	if op.B >= 0 {
		bv = w.vars[op.B]
		if bv.t == tRef {
			B = w.o(bv)
		}
	}
	ints := func(ns ...int) []val {
		out := make([]val, len(ns))
		for i, n := range ns {
			out[i] = vint(n)
		}
		return out
	}
	switch op.K {
	case "c-list":
		return one(w, w.newSeq(kList, ints(3, 1, 2)))
	case "c-vector":
		return one(w, w.newSeq(kVec, ints(3, 1, 2)))
	case "c-list0":
		return one(w, w.newSeq(kList, nil))
	case "c-vector0":
		return one(w, w.newSeq(kVec, nil))
	case "c-vector4":
		return one(w, w.newSeq(kVec, ints(2, 3, 1, 2)))
	case "c-lit":
		v := w.newSeq(kList, ints(3, 1, 2))
		w.o(v).sealed = true
		return one(w, v)
	case "c-lit-nested":
		in := w.newSeq(kList, ints(2, 1))
		w.o(in).sealed, w.o(in).quoted = true, false
		v := w.newSeq(kList, []val{in, vint(3)})
		w.o(v).sealed = true
		return one(w, v)
	case "c-bytes":
		return one(w, w.newSeq(kBytes, ints(97, 98)))
	case "c-map", "c-map-rev":
		m := w.newObj(obj{k: kMap})
		w.o(m).put("a", true, vint(1))
		w.o(m).put("b", false, vint(2))
		return one(w, m)
	case "c-assoc-nil":
		m := w.newObj(obj{k: kMap})
		w.o(m).put("a", true, vint(1))
		return one(w, m)
	case "c-get-nil":
		return one(w, w.newNil())
	case "c-list1":
		return one(w, w.newSeq(kList, ints(1)))
	case "c-vector1":
		return one(w, w.newSeq(kVec, ints(1)))
	case "c-list-sorted":
		return one(w, w.newSeq(kList, ints(1, 2, 3)))
	case "c-vector-sorted":
		return one(w, w.newSeq(kVec, ints(1, 2, 3)))
	case "c-lit-sorted":
		v := w.newSeq(kList, ints(1, 2, 3))
		w.o(v).sealed = true
		return one(w, v)
	case "c-bytes0":
		return one(w, w.newSeq(kBytes, nil))
	case "c-map0":
		return one(w, w.newObj(obj{k: kMap}))
	case "append-bytes-t0", "append-bytes-str0":
		return one(w, w.newSeq(kBytes, w.cellsCopy(A)))
	case "select-all-list", "select-all-vector", "reject-none-list", "reject-none-vector":
		return one(w, w.newSeq(seqKindOf(op.K), w.cellsCopy(A)))

	case "slice-list", "slice-vector":
		if A.k == kBytes {
			// converting a byte string always builds a new sequence
			return one(w, w.newSeq(seqKindOf(op.K), w.cellsCopy(A)[op.I:op.J]))
		}
		if op.K == "slice-vector" && A.sealed {
			// a mutable vector never wraps the storage of a program literal
			return one(w, w.newSeq(kVec, w.cellsCopy(A)[op.I:op.J]))
		}
		o := obj{k: seqKindOf(op.K), back: A.back, off: A.off + op.I, ln: op.J - op.I}
		if o.k == kList {
			o.quoted, o.sealed = true, A.sealed
		}
		return one(w, w.newObj(o))
	case "slice-bytes":
		if A.k == kBytes {
			return one(w, w.newObj(obj{k: kBytes, back: A.back, off: A.off + op.I, ln: op.J - op.I}))
		}
		return one(w, w.newSeq(kBytes, w.cellsCopy(A)[op.I:op.J]))
	case "cdr", "rest":
		if A.ln < 2 {
			return one(w, w.newNil())
		}
		return one(w, w.newObj(obj{k: kList, back: A.back, off: A.off + 1, ln: A.ln - 1, quoted: true, sealed: A.sealed}))

	case "append-list":
		return one(w, w.newSeq(kList, append(w.cellsCopy(A), vint(7))))
	case "append-vector":
		return one(w, w.newSeq(kVec, append(w.cellsCopy(A), vint(7))))
	case "append-vector2":
		return one(w, w.newSeq(kVec, append(w.cellsCopy(A), vint(7), vint(8))))
	case "append-list0":
		return one(w, w.newSeq(kList, w.cellsCopy(A)))
	case "append-vector0":
		// docstring of append: "Does not mutate vec and never shares storage
		// with it".  The alternative world (the result is a window onto the
		// source) is a defect hypothesis, not an allowed behaviour.
		outs = append(outs, bind(w, w.newSeq(kVec, w.cellsCopy(A))))
		if !A.sealed && A.ln > 0 {
			t := w0.clone()
			if t.taint == "" {
				t.taint = "append-vector0:result-shares-storage-with-" + A.k.String()
			}
			ta := t.o(t.vars[op.A])
			outs = append(outs, bind(t, t.newObj(obj{k: kVec, back: ta.back, off: ta.off, ln: ta.ln})))
		}
		return outs, false
	case "append-bytes-t":
		return one(w, w.newSeq(kBytes, append(w.cellsCopy(A), vint(7))))
	case "append-bytes-str":
		return one(w, w.newSeq(kBytes, append(w.cellsCopy(A), vint(122))))
	case "append-bytes2":
		return one(w, w.newSeq(kBytes, append(w.cellsCopy(A), w.cellsCopy(B)...)))
	case "concat-list", "concat-vector", "concat-bytes", "concat-list-e", "concat-vector-e", "concat-bytes-e":
		k := map[string]okind{"concat-list": kList, "concat-vector": kVec, "concat-bytes": kBytes,
			"concat-list-e": kList, "concat-vector-e": kVec, "concat-bytes-e": kBytes}[op.K]
		if k == kList && A.ln == 0 {
			return one(w, w.newNil())
		}
		return one(w, w.newSeq(k, w.cellsCopy(A)))
	case "concat2-list", "concat2-vector", "concat2-bytes":
		k := map[string]okind{"concat2-list": kList, "concat2-vector": kVec, "concat2-bytes": kBytes}[op.K]
		cells := append(w.cellsCopy(A), w.cellsCopy(B)...)
		if k == kList && len(cells) == 0 {
			return one(w, w.newNil())
		}
		return one(w, w.newSeq(k, cells))
	case "cons":
		return one(w, w.newSeq(kList, append(ints(0), w.cellsCopy(A)...)))
	case "reverse-list", "reverse-vector":
		c := w.cellsCopy(A)
		for i, j := 0, len(c)-1; i < j; i, j = i+1, j-1 {
			c[i], c[j] = c[j], c[i]
		}
		return one(w, w.newSeq(seqKindOf(op.K), c))
	case "map-list", "map-vector":
		return one(w, w.newSeq(seqKindOf(op.K), w.cellsCopy(A)))
	case "select-list", "select-vector", "reject-list", "reject-vector":
		sel := op.K[0] == 's'
		var c []val
		for _, x := range w.cells(A) {
			is1 := x.t == tInt && x.n == 1
			if is1 == sel {
				c = append(c, x)
			}
		}
		return one(w, w.newSeq(seqKindOf(op.K), c))
	case "zip-list", "zip-vector":
		k := seqKindOf(op.K)
		n := A.ln
		if B.ln < n {
			n = B.ln
		}
		ca, cb := w.cellsCopy(A), w.cellsCopy(B)
		var c []val
		for i := 0; i < n; i++ {
			c = append(c, w.newSeq(k, []val{ca[i], cb[i]}))
		}
		return one(w, w.newSeq(k, c))
	case "insert-index-list", "insert-index-vector":
		c := w.cellsCopy(A)
		out := append(append(append([]val(nil), c[:op.I]...), vint(5)), c[op.I:]...)
		return one(w, w.newSeq(seqKindOf(op.K), out))
	case "insert-sorted-list<", "insert-sorted-vector<", "insert-sorted-list>", "insert-sorted-vector>":
		desc := op.K[len(op.K)-1] == '>'
		c := w.cellsCopy(A)
		pos := len(c)
		for i, x := range c {
			if (!desc && 2 < x.n) || (desc && 2 > x.n) {
				pos = i
				break
			}
		}
		out := append(append(append([]val(nil), c[:pos]...), vint(2)), c[pos:]...)
		return one(w, w.newSeq(seqKindOf(op.K[:len(op.K)-1]), out))
	case "nth", "aref":
		return one(w, w.cells(A)[op.I])
	case "first", "second":
		i := 0
		if op.K == "second" {
			i = 1
		}
		if i < A.ln {
			return one(w, w.cells(A)[i])
		}
		return one(w, w.newNil())
	case "alias", "to-bytes":
		return one(w, av)

	case "sort-str<", "sort-str>":
		// keys-style lists (symbols and strings) ordered by name
		desc := op.K == "sort-str>"
		sorted := append([]val(nil), w.cells(A)...)
		sort.SliceStable(sorted, func(i, j int) bool {
			if desc {
				return sorted[i].s > sorted[j].s
			}
			return sorted[i].s < sorted[j].s
		})
		if A.sealed {
			v := w.newSeq(kList, sorted)
			w.o(v).quoted = w.o(av).quoted
			return one(w, v)
		}
		copy(w.cells(A), sorted)
		return one(w, av)
	case "sort<", "sort>":
		desc := op.K == "sort>"
		if A.sealed {
			// builtin docstring: "A quoted program literal is never modified
			// -- its elements are sorted into a fresh list"
			v := w.newSeq(kList, sortedInts(w.cells(A), desc))
			w.o(v).quoted = w.o(av).quoted
			return one(w, v)
		}
		copy(w.cells(A), sortedInts(w.cells(A), desc))
		return one(w, av)
	case "append!", "append!2", "append!-bytes", "append-bytes!-str", "append-bytes!2", "append!-store":
		var add []val
		switch op.K {
		case "append!":
			add = ints(9)
		case "append!2":
			add = ints(9, 8)
		case "append!-bytes":
			add = ints(7)
		case "append-bytes!-str":
			add = ints(122)
		case "append-bytes!2":
			add = w.cellsCopy(B)
		case "append!-store":
			add = []val{bv}
		}
		for _, g := range grow(w, av.n, add) {
			outs = append(outs, bind(g, av))
		}
		return outs, false
	case "append!-list-err", "append!-bytes-err", "append-bytes!-err":
		return []*world{w}, true

	case "list-of":
		return one(w, w.newSeq(kList, []val{vint(0), av}))
	case "vector-of":
		return one(w, w.newSeq(kVec, []val{av, vint(0)}))
	case "map-of":
		m := w.newObj(obj{k: kMap})
		w.o(m).put("k", true, av)
		return one(w, m)
	case "cons-store":
		return one(w, w.newSeq(kList, append([]val{bv}, w.cellsCopy(A)...)))

	case "assoc", "assoc!", "assoc-store", "assoc!-store", "assoc-same":
		name, sym, v := "k", op.K == "assoc!-store", bv
		if op.K == "assoc" || op.K == "assoc!" || op.K == "assoc-same" {
			k := mapKeys[op.I]
			name, sym = k.name, k.sym
			v = vint(8)
			if !sym {
				v = vint(9)
			}
			if op.K == "assoc-same" {
				v = vint(op.J) // the value the key already has
			}
		}
		mut := op.K == "assoc!" || op.K == "assoc!-store"
		// lang.md: the spelling "is presentation only"; which spelling a key
		// shows after being written again in the other spelling is left open.
		spellings := []bool{sym}
		if i := A.find(name); i >= 0 && A.ents[i].sym != sym {
			spellings = []bool{sym, !sym}
		}
		if mut && A.json && sym {
			// UNSPECIFIED: a map decoded from JSON is a sorted-map like any
			// other as to names, values, order and finite-map behaviour, but
			// the spelling under which it PRESENTS a key written as a symbol
			// is not stated (it keeps all its keys as strings)
			spellings = []bool{true, false}
		}
		for _, sp := range spellings {
			x := w.clone()
			target := av
			if !mut {
				src := x.o(av)
				target = x.newObj(obj{k: kMap, ents: append([]ment(nil), src.ents...)})
			}
			x.o(target).put(name, sp, v)
			outs = append(outs, bind(x, target))
		}
		return outs, false
	case "dissoc", "dissoc!":
		target := av
		if op.K == "dissoc" {
			target = w.newObj(obj{k: kMap, ents: append([]ment(nil), A.ents...)})
		}
		w.o(target).del(mapKeys[op.I].name)
		return one(w, target)
	case "get":
		if i := A.find(mapKeys[op.I].name); i >= 0 {
			return one(w, A.ents[i].v)
		}
		return one(w, w.newNil())
	case "it-list":
		return one(w, w.newSeq(kList, ints(3, 1)))
	case "it-vector":
		return one(w, w.newSeq(kVec, ints(3, 1)))
	case "get-k", "get-ksym":
		if i := A.find("k"); i >= 0 {
			return one(w, A.ents[i].v)
		}
		return one(w, w.newNil())
	case "keys":
		var c []val
		for _, e := range A.ents {
			if e.sym {
				c = append(c, val{t: tSym, s: e.name})
			} else {
				c = append(c, val{t: tStr, s: e.name})
			}
		}
		return one(w, w.newSeq(kList, c))
	}
	if p := producerOf(op.K); p != nil {
		return one(w, p.build(w))
	}
	if st := storerOf(op.K); st != nil {
		return one(w, st.build(w, av))
	}
	panic("harness: no meaning for op " + op.K)
}

// ---------------------------------------------------------------------------
// alphabet

// level: 0 = core (aliasing-critical, used for the deepest search),
// 1 = mid (core + one variant of every non-mutating operation the statement
// names), 2 = full (every variant and parameter choice).
type alpha struct {
	level   int
	maxVars int
}

func slicePairs(n int, level int) [][2]int {
	var out [][2]int
	if level < 2 {
		// the windows that matter for aliasing: whole, a proper prefix, a proper suffix
		out = append(out, [2]int{0, n})
		if n >= 2 {
			out = append(out, [2]int{0, n - 1}, [2]int{1, n})
		}
		return out
	}
	if n <= 4 {
		for i := 0; i <= n; i++ {
			for j := i; j <= n; j++ {
				out = append(out, [2]int{i, j})
			}
		}
		return out
	}
	seen := map[[2]int]bool{}
	for _, i := range []int{0, 1, 2} {
		for _, j := range []int{n - 2, n - 1, n} {
			if i <= j && !seen[[2]int{i, j}] {
				seen[[2]int{i, j}] = true
				out = append(out, [2]int{i, j})
			}
		}
	}
	return out
}

func byteRange(w *world, o *obj) bool {
	for _, c := range w.cells(o) {
		if c.t != tInt || c.n < 0 || c.n > 255 {
			return false
		}
	}
	return true
}

// alphabet enumerates, in a fixed simplest-first order, every operation
// applicable in w (all worlds of a state agree on kinds, lengths and
// contents, so any of them may be used).
func alphabet(w *world, al alpha) []Op {
	var ops []Op
	add := func(k string, a, b, i, j int) { ops = append(ops, Op{K: k, A: a, B: b, I: i, J: j}) }
	mid := al.level >= 1
	full := al.level >= 2
	if len(w.vars) >= al.maxVars {
		return nil
	}
	for _, k := range []string{"c-list", "c-vector", "c-lit", "c-bytes", "c-map"} {
		add(k, -1, -1, 0, 0)
	}
	if full {
		for _, k := range []string{"c-list0", "c-vector0", "c-vector4", "c-lit-nested", "c-map-rev", "c-assoc-nil", "c-get-nil"} {
			add(k, -1, -1, 0, 0)
		}
	}
	type cv struct {
		idx int
		o   *obj
	}
	var conts []cv
	for i, v := range w.vars {
		if v.t == tRef {
			conts = append(conts, cv{i, w.o(v)})
		}
	}
	for _, c := range conts {
		a, o := c.idx, c.o
		switch o.k {
		case kList, kVec:
			n := o.ln
			for _, p := range slicePairs(n, al.level) {
				add("slice-list", a, -1, p[0], p[1])
				add("slice-vector", a, -1, p[0], p[1])
			}
			if o.k == kList {
				add("cdr", a, -1, 0, 0)
			}
			add("rest", a, -1, 0, 0)
			add("append-vector", a, -1, 0, 0)
			add("append-vector0", a, -1, 0, 0)
			if mid {
				add("append-list", a, -1, 0, 0)
				add("concat-vector", a, -1, 0, 0)
				if o.k == kList {
					add("cons", a, -1, 0, 0)
				}
				add("reverse-vector", a, -1, 0, 0)
				add("map-list", a, -1, 0, 0)
				add("select-vector", a, -1, 0, 0)
				add("reject-list", a, -1, 0, 0)
				if n >= 1 {
					add("insert-index-list", a, -1, 1, 0)
				}
				if monotone(w.cells(o), false) {
					add("insert-sorted-vector<", a, -1, 0, 0)
				}
			}
			if full {
				add("append-list0", a, -1, 0, 0)
				add("append-vector2", a, -1, 0, 0)
				add("concat-list", a, -1, 0, 0)
				for _, k := range []string{"reverse-list", "map-vector", "select-list", "reject-vector"} {
					add(k, a, -1, 0, 0)
				}
				for i := 0; i <= n && i <= 4; i++ {
					if i != 1 {
						add("insert-index-list", a, -1, i, 0)
					}
					add("insert-index-vector", a, -1, i, 0)
				}
				if monotone(w.cells(o), false) {
					add("insert-sorted-list<", a, -1, 0, 0)
				}
				if monotone(w.cells(o), true) {
					add("insert-sorted-list>", a, -1, 0, 0)
					add("insert-sorted-vector>", a, -1, 0, 0)
				}
				if byteRange(w, o) {
					add("slice-bytes", a, -1, 0, n)
				}
			}
			for i := 0; i < n && i <= 4; i++ {
				if full || w.cells(o)[i].t == tRef {
					add("nth", a, -1, i, 0)
				}
			}
			if w.allInts(o) {
				add("sort<", a, -1, 0, 0)
				add("sort>", a, -1, 0, 0)
			}
			if n >= 1 && w.allNames(o) {
				add("sort-str<", a, -1, 0, 0)
				add("sort-str>", a, -1, 0, 0)
			}
			if o.k == kVec {
				add("append!", a, -1, 0, 0)
				if full {
					add("append!2", a, -1, 0, 0)
				}
			} else if full {
				add("append!-list-err", a, -1, 0, 0)
			}
			add("vector-of", a, -1, 0, 0)
			if mid {
				add("alias", a, -1, 0, 0)
			}
			if full {
				add("list-of", a, -1, 0, 0)
				add("map-of", a, -1, 0, 0)
			}
		case kBytes:
			n := o.ln
			for _, p := range slicePairs(n, al.level) {
				add("slice-bytes", a, -1, p[0], p[1])
			}
			add("append!-bytes", a, -1, 0, 0)
			add("append-bytes-str", a, -1, 0, 0)
			if mid {
				add("append-bytes-t", a, -1, 0, 0)
				add("append-bytes!-str", a, -1, 0, 0)
				add("alias", a, -1, 0, 0)
			}
			if full {
				add("slice-list", a, -1, 0, n)
				add("slice-vector", a, -1, 0, n)
				add("append!-bytes-err", a, -1, 0, 0)
				add("append-bytes!-err", a, -1, 0, 0)
				add("concat-bytes", a, -1, 0, 0)
				add("to-bytes", a, -1, 0, 0)
				add("vector-of", a, -1, 0, 0)
			}
		case kMap:
			if full {
				for i := 0; i < nWriteKeys; i++ {
					add("assoc", a, -1, i, 0)
					add("assoc!", a, -1, i, 0)
				}
				for _, i := range []int{0, 1, 2, 3, 4, keyAbsSym, keyAbsStr} {
					add("dissoc", a, -1, i, 0)
					add("dissoc!", a, -1, i, 0)
				}
				for _, i := range []int{0, 1, 2, 3, 4, 5, keyAbsSym, keyAbsStr} {
					add("get", a, -1, i, 0)
				}
				add("vector-of", a, -1, 0, 0)
			} else {
				// one write per spelling-collision class, one delete, one copy
				add("assoc!", a, -1, 1, 0) // "a" over 'a
				add("assoc!", a, -1, 2, 0) // 'b over "b"
				add("assoc!", a, -1, 4, 0) // new 'c
				add("assoc", a, -1, 3, 0)
				add("dissoc!", a, -1, 1, 0)
				add("dissoc", a, -1, 2, 0)
				if mid {
					add("assoc", a, -1, 0, 0)
					add("get", a, -1, 0, 0)
					add("get", a, -1, 3, 0)
				}
			}
			if !full {
				// re-extract a stored container
				for _, e := range o.ents {
					if e.v.t == tRef && e.name == "k" {
						add("get-k", a, -1, 0, 0)
					}
				}
			} else {
				add("get-k", a, -1, 0, 0)
			}
			if mid {
				add("alias", a, -1, 0, 0)
			}
			add("keys", a, -1, 0, 0)
		}
	}
	// binary operations: every ordered pair of live containers
	for _, ca := range conts {
		for _, cb := range conts {
			a, b, oa, ob := ca.idx, cb.idx, ca.o, cb.o
			if isSeqKind(oa.k) && isSeqKind(ob.k) && mid {
				add("zip-list", a, b, 0, 0)
				add("concat2-vector", a, b, 0, 0)
				if full {
					add("zip-vector", a, b, 0, 0)
					add("concat2-list", a, b, 0, 0)
				}
			}
			if oa.k == kBytes && (ob.k == kBytes || (isSeqKind(ob.k) && byteRange(w, ob))) {
				if mid || ob.k == kBytes {
					add("append-bytes!2", a, b, 0, 0)
				}
				if mid {
					add("append-bytes2", a, b, 0, 0)
				}
				if full {
					add("concat2-bytes", a, b, 0, 0)
				}
			}
			// storing b inside a (never creating a cycle)
			if oa.k == kVec && !w.reaches(w.vars[b], w.vars[a].n) {
				add("append!-store", a, b, 0, 0)
			}
			if oa.k == kList && mid {
				add("cons-store", a, b, 0, 0)
			}
			if oa.k == kMap && !w.reaches(w.vars[b], w.vars[a].n) {
				add("assoc!-store", a, b, 0, 0)
				if mid {
					add("assoc-store", a, b, 0, 0)
				}
			}
		}
	}
	return ops
}

// isConstructor / returnsArgument classify operations for the no-op family.
func (op Op) isConstructor() bool { return op.A < 0 }

// returnsArgument: operations DOCUMENTED to hand back an existing value (a
// name, a stored element, bytes "returned as-is").
func (op Op) returnsArgument() bool {
	switch op.K {
	case "alias", "to-bytes", "nth", "get", "get-k", "get-ksym", "aref", "first", "second":
		return true
	}
	return false
}

var noopShapes = []string{"c-list", "c-vector", "c-lit", "c-bytes", "c-map",
	"c-list0", "c-vector0", "c-vector4", "c-assoc-nil", "c-get-nil",
	"c-list1", "c-vector1", "c-list-sorted", "c-vector-sorted", "c-lit-sorted", "c-bytes0", "c-map0"}

// alphabetNoop is the alphabet of the "no-op fast path returns its argument"
// family: histories  <shape> ; <non-mutating operation> ; <in-place
// operation>+ .  Step 1 builds every argument shape (including the ones on
// which a non-mutating operation has nothing to do: empty, one element,
// already sorted, key absent, key present with the same value, nothing to
// append); step 2 applies every non-mutating operation of the full alphabet
// plus the explicit no-op argument shapes; from step 3 on every in-place
// operation is applied to the result AND (a separate history) to the source,
// and the other one is re-inspected like every live value.
func alphabetNoop(w *world) []Op {
	var ops []Op
	add := func(k string, a, b, i, j int) { ops = append(ops, Op{K: k, A: a, B: b, I: i, J: j}) }
	full := alpha{level: 2, maxVars: 6}
	switch {
	case len(w.vars) == 0:
		for _, k := range noopShapes {
			add(k, -1, -1, 0, 0)
		}
	case len(w.vars) == 1:
		ops = nonMutatingOn0(w, 2)
	default:
		for _, op := range alphabet(w, full) {
			switch op.K {
			case "append!-list-err", "append!-bytes-err", "append-bytes!-err":
				continue
			}
			if op.mutating() {
				ops = append(ops, op)
			}
		}
	}
	return ops
}

// nonMutatingOn0: every non-mutating, container-building operation of the
// given alphabet level on v0 (the only live value), plus the explicit no-op
// argument shapes.
func nonMutatingOn0(w *world, level int) []Op {
	var ops []Op
	add := func(k string, a, b, i, j int) { ops = append(ops, Op{K: k, A: a, B: b, I: i, J: j}) }
	for _, op := range alphabet(w, alpha{level: level, maxVars: 6}) {
		if !op.isConstructor() && !op.mutating() && !op.returnsArgument() {
			ops = append(ops, op)
		}
	}
	v := w.vars[0]
	if v.t != tRef {
		return ops
	}
	o := w.o(v)
	switch o.k {
	case kList, kVec:
		for _, k := range []string{"concat-list-e", "concat-vector-e", "select-all-list", "select-all-vector",
			"reject-none-list", "reject-none-vector"} {
			add(k, 0, -1, 0, 0)
		}
	case kBytes:
		for _, k := range []string{"append-bytes-t0", "append-bytes-str0", "concat-bytes-e"} {
			add(k, 0, -1, 0, 0)
		}
	case kMap:
		for ki := 0; ki < nWriteKeys; ki++ {
			if i := o.find(mapKeys[ki].name); i >= 0 && o.ents[i].v.t == tInt {
				add("assoc-same", 0, -1, ki, o.ents[i].v.n)
			}
		}
	}
	return ops
}

func describeOperand(w *world, op Op) string {
	if op.A < 0 {
		return "-"
	}
	v := w.vars[op.A]
	if v.t != tRef {
		return "atom"
	}
	o := w.o(v)
	s := o.k.String()
	if o.sealed {
		s = "literal-" + s
	}
	if o.json {
		s = "json-" + s
	}
	return s
}

var _ = fmt.Sprint
