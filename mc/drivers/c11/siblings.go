package c11

// The "several containers produced by ONE call" family.  A producer is a
// single expression whose result holds two or more inner containers (or is
// built by one allocation-heavy call); the heap model says the inner
// containers are independent objects: taking one out and mutating it in
// place changes that one, shows through the outer container at its own slot,
// and changes no sibling.
//
// Histories of the pass:  <producer> ; then any mix of  <take an inner
// container out of the outer one>  and  <every in-place operation on any live
// value> ; every live value (outer, siblings already taken out) is
// re-inspected after every step as always.

import "strings"

type producer struct {
	name   string
	src    string
	stdlib bool // needs the standard library (json)
	build  func(w *world) val
}

func mkV(w *world, vs ...val) val { return w.newSeq(kVec, vs) }
func mkL(w *world, vs ...val) val { return w.newSeq(kList, vs) }
func mkB(w *world, s string) val {
	var c []val
	for _, b := range []byte(s) {
		c = append(c, vint(int(b)))
	}
	return w.newSeq(kBytes, c)
}
func mkLit(w *world, vs ...val) val {
	v := w.newSeq(kList, vs)
	w.o(v).sealed = true
	return v
}

type kv struct {
	name string
	sym  bool
	v    val
}

func mkM(w *world, kvs ...kv) val {
	m := w.newObj(obj{k: kMap})
	for _, e := range kvs {
		w.o(m).put(e.name, e.sym, e.v)
	}
	return m
}
func mkJM(w *world, kvs ...kv) val {
	m := mkM(w, kvs...)
	w.o(m).json = true
	return m
}
func i2(a, b int) []val { return []val{vint(a), vint(b)} }

var producers = []producer{
	// zip: 2 and 3 inputs, 2 and 3 tuples, both result types, mixed input types
	{"zipv-2x3", "(zip 'vector (vector 3 1 2) (vector 2 0 1))", false, func(w *world) val {
		return mkV(w, mkV(w, i2(3, 2)...), mkV(w, i2(1, 0)...), mkV(w, i2(2, 1)...))
	}},
	{"zipv-3x2", "(zip 'vector (vector 3 1) (vector 2 0) (vector 5 4))", false, func(w *world) val {
		return mkV(w, mkV(w, vint(3), vint(2), vint(5)), mkV(w, vint(1), vint(0), vint(4)))
	}},
	{"zipv-2x2", "(zip 'vector (vector 3 1) (vector 2 0))", false, func(w *world) val {
		return mkV(w, mkV(w, i2(3, 2)...), mkV(w, i2(1, 0)...))
	}},
	{"zipv-mixed", "(zip 'vector (list 3 1 2) '(2 0 1))", false, func(w *world) val {
		return mkV(w, mkV(w, i2(3, 2)...), mkV(w, i2(1, 0)...), mkV(w, i2(2, 1)...))
	}},
	{"zipl-2x3", "(zip 'list (list 3 1 2) (list 2 0 1))", false, func(w *world) val {
		return mkL(w, mkL(w, i2(3, 2)...), mkL(w, i2(1, 0)...), mkL(w, i2(2, 1)...))
	}},
	{"zipl-3x2", "(zip 'list (vector 3 1) (vector 2 0) (vector 5 4))", false, func(w *world) val {
		return mkL(w, mkL(w, vint(3), vint(2), vint(5)), mkL(w, vint(1), vint(0), vint(4)))
	}},
	// map whose callback builds a fresh container per element
	{"map-vv", "(map 'vector (lambda (x) (vector x 0)) (vector 3 1 2))", false, func(w *world) val {
		return mkV(w, mkV(w, i2(3, 0)...), mkV(w, i2(1, 0)...), mkV(w, i2(2, 0)...))
	}},
	{"map-lv", "(map 'list (lambda (x) (vector x 0)) (list 3 1))", false, func(w *world) val {
		return mkL(w, mkV(w, i2(3, 0)...), mkV(w, i2(1, 0)...))
	}},
	{"map-vl", "(map 'vector (lambda (x) (list x 0)) (vector 3 1))", false, func(w *world) val {
		return mkV(w, mkL(w, i2(3, 0)...), mkL(w, i2(1, 0)...))
	}},
	{"map-vm", "(map 'vector (lambda (x) (sorted-map 'a x)) (vector 3 1))", false, func(w *world) val {
		return mkV(w, mkM(w, kv{"a", true, vint(3)}), mkM(w, kv{"a", true, vint(1)}))
	}},
	{"map-vb", `(map 'vector (lambda (x) (to-bytes "ab")) (vector 3 1))`, false, func(w *world) val {
		return mkV(w, mkB(w, "ab"), mkB(w, "ab"))
	}},
	// select / reject over containers
	{"select-vv", "(select 'vector (lambda (x) true) (vector (vector 3 1) (vector 2 0)))", false, func(w *world) val {
		return mkV(w, mkV(w, i2(3, 1)...), mkV(w, i2(2, 0)...))
	}},
	{"reject-lv", "(reject 'list (lambda (x) false) (list (vector 3 1) (vector 2 0)))", false, func(w *world) val {
		return mkL(w, mkV(w, i2(3, 1)...), mkV(w, i2(2, 0)...))
	}},
	// constructors of constructors
	{"vec-of-vecs", "(vector (vector 3 1) (vector 2 0))", false, func(w *world) val {
		return mkV(w, mkV(w, i2(3, 1)...), mkV(w, i2(2, 0)...))
	}},
	{"list-of-vecs", "(list (vector 3 1) (vector 2 0))", false, func(w *world) val {
		return mkL(w, mkV(w, i2(3, 1)...), mkV(w, i2(2, 0)...))
	}},
	{"vec-of-lists", "(vector (list 3 1) (list 2 0))", false, func(w *world) val {
		return mkV(w, mkL(w, i2(3, 1)...), mkL(w, i2(2, 0)...))
	}},
	{"list-of-lits", "(list '(3 1) '(2 0))", false, func(w *world) val {
		return mkL(w, mkLit(w, i2(3, 1)...), mkLit(w, i2(2, 0)...))
	}},
	{"map-of-vecs", "(sorted-map 'a (vector 3 1) 'b (vector 2 0))", false, func(w *world) val {
		return mkM(w, kv{"a", true, mkV(w, i2(3, 1)...)}, kv{"b", true, mkV(w, i2(2, 0)...)})
	}},
	{"vec-of-bytes", `(vector (to-bytes "ab") (to-bytes "cd"))`, false, func(w *world) val {
		return mkV(w, mkB(w, "ab"), mkB(w, "cd"))
	}},
	{"vec-of-maps", "(vector (sorted-map 'a 1) (sorted-map 'a 2))", false, func(w *world) val {
		return mkV(w, mkM(w, kv{"a", true, vint(1)}), mkM(w, kv{"a", true, vint(2)}))
	}},
	// keys-style results and make-sequence (one call, one growing list)
	{"keys", `(keys (sorted-map 'a 1 "b" 2))`, false, func(w *world) val {
		return mkL(w, val{t: tSym, s: "a"}, val{t: tStr, s: "b"})
	}},
	{"make-sequence", "(make-sequence 0 3)", false, func(w *world) val {
		return mkL(w, vint(0), vint(1), vint(2))
	}},
	{"make-sequence-desc", "(reverse 'vector (make-sequence 0 4))", false, func(w *world) val {
		return mkV(w, vint(3), vint(2), vint(1), vint(0))
	}},
	// concat / append / reverse / slice / assoc results over inner containers
	{"concat-vv", "(concat 'vector (vector (vector 3 1)) (vector (vector 2 0)))", false, func(w *world) val {
		return mkV(w, mkV(w, i2(3, 1)...), mkV(w, i2(2, 0)...))
	}},
	{"append-vv", "(append 'vector (vector (vector 3 1)) (vector 2 0))", false, func(w *world) val {
		return mkV(w, mkV(w, i2(3, 1)...), mkV(w, i2(2, 0)...))
	}},
	{"append-lv", "(append 'list (list (vector 3 1)) (vector 2 0))", false, func(w *world) val {
		return mkL(w, mkV(w, i2(3, 1)...), mkV(w, i2(2, 0)...))
	}},
	{"reverse-vv", "(reverse 'vector (vector (vector 3 1) (vector 2 0)))", false, func(w *world) val {
		return mkV(w, mkV(w, i2(2, 0)...), mkV(w, i2(3, 1)...))
	}},
	{"slice-vv", "(slice 'vector (vector (vector 3 1) (vector 2 0) (vector 5 4)) 0 2)", false, func(w *world) val {
		return mkV(w, mkV(w, i2(3, 1)...), mkV(w, i2(2, 0)...))
	}},
	{"assoc-mv", "(assoc (sorted-map 'a (vector 3 1)) 'b (vector 2 0))", false, func(w *world) val {
		return mkM(w, kv{"a", true, mkV(w, i2(3, 1)...)}, kv{"b", true, mkV(w, i2(2, 0)...)})
	}},
	// decoded JSON: nested arrays and objects come out of one call
	{"json-vv", `(json:load-string "[[3,1],[2,0]]")`, true, func(w *world) val {
		return mkV(w, mkV(w, i2(3, 1)...), mkV(w, i2(2, 0)...))
	}},
	{"json-mv", `(json:load-string "{\"a\":[3,1],\"b\":[2,0]}")`, true, func(w *world) val {
		return mkJM(w, kv{"a", false, mkV(w, i2(3, 1)...)}, kv{"b", false, mkV(w, i2(2, 0)...)})
	}},
	{"json-vm", `(json:load-string "[{\"a\":1},{\"a\":2}]")`, true, func(w *world) val {
		return mkV(w, mkJM(w, kv{"a", false, vint(1)}), mkJM(w, kv{"a", false, vint(2)}))
	}},
}

func producerOf(k string) *producer {
	if !strings.HasPrefix(k, "p:") {
		return nil
	}
	for i := range producers {
		if producers[i].name == k[2:] {
			return &producers[i]
		}
	}
	return nil
}

func needsStdlib(ops []Op) bool {
	for _, op := range ops {
		if p := producerOf(op.K); p != nil && p.stdlib {
			return true
		}
	}
	return false
}

// alphabetSiblings: see the comment at the top of the file.
func alphabetSiblings(w *world) []Op {
	var ops []Op
	add := func(k string, a, b, i, j int) { ops = append(ops, Op{K: k, A: a, B: b, I: i, J: j}) }
	if len(w.vars) == 0 {
		for _, p := range producers {
			add("p:"+p.name, -1, -1, 0, 0)
		}
		return ops
	}
	// take every inner value out of the outer container (v0), by every accessor
	if v := w.vars[0]; v.t == tRef {
		o := w.o(v)
		switch o.k {
		case kList, kVec:
			for i := 0; i < o.ln && i <= 4; i++ {
				add("nth", 0, -1, i, 0)
				if o.k == kVec {
					add("aref", 0, -1, i, 0)
				}
			}
			add("first", 0, -1, 0, 0)
			add("second", 0, -1, 0, 0)
		case kMap:
			for ki := 0; ki < 4; ki++ { // 'a "a" 'b "b"
				if o.find(mapKeys[ki].name) >= 0 {
					add("get", 0, -1, ki, 0)
				}
			}
		}
	}
	// every in-place operation on every live value
	for _, op := range alphabet(w, alpha{level: 2, maxVars: 1 << 30}) {
		switch op.K {
		case "append!-list-err", "append!-bytes-err", "append-bytes!-err":
			continue
		}
		if op.mutating() {
			ops = append(ops, op)
		}
	}
	return ops
}
