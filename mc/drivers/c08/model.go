package c08

import (
	"fmt"
	"sort"
	"strconv"
	"strings"
)

// ---------------------------------------------------------------------------
// The reference: a package table and a literal reading of the statement.
//
//	packages: name -> {bindings, exports (sorted)}      current: name
//
//   * set/defun/defmacro bind in the package current at that point (a
//     qualified target p:a names package p: "another way to spell a name");
//   * an unqualified reference resolves lexically, then in the current package;
//   * pkg:name reaches every binding of pkg, exported or not;
//   * :name evaluates to itself and can never be bound; true/false likewise;
//   * use-package copies exactly the exported bindings as they are at that
//     moment (a snapshot: later changes of the source are not seen);
//   * a new package starts with the language package's exports (kept implicit
//     here as the package's "base"; the driver checks the base name by name);
//   * a function body runs with its defining package current, and the caller's
//     package is current again afterwards, error or not;
//   * a load restores the package that was current when it started, error or not.

type vkind byte

const (
	vNil vkind = iota
	vInt
	vKw
	vBool
	vSym // a quoted symbol (only as argument of set/export/... and as macro expansion)
	vFun
	vList
	vStr
)

type val struct {
	k     vkind
	n     int
	s     string
	f     *fun
	l     []val
	loose bool // the value itself is not specified (only error-vs-value class is compared)
}

type fun struct {
	id     int // creation sequence number within one replay (identity, never part of the canonical key)
	macro  bool
	pkg    string
	params []string
	body   []*node
	lex    *frame
}

type frame struct {
	vars map[string]val
	up   *frame
}

func (f *frame) find(name string) *frame {
	for ; f != nil; f = f.up {
		if _, ok := f.vars[name]; ok {
			return f
		}
	}
	return nil
}

func (f *frame) desc() string {
	if f == nil {
		return ""
	}
	var parts []string
	for ; f != nil; f = f.up {
		names := make([]string, 0, len(f.vars))
		for n := range f.vars {
			names = append(names, n)
		}
		sort.Strings(names)
		var b []string
		for _, n := range names {
			b = append(b, n+"="+f.vars[n].desc())
		}
		parts = append(parts, "["+strings.Join(b, ",")+"]")
	}
	return strings.Join(parts, "")
}

// desc is the canonical description of a value: everything that can influence
// a future observation, and nothing else (no creation sequence numbers).
func (v val) desc() string {
	switch v.k {
	case vNil:
		return "nil"
	case vInt:
		return "i" + strconv.Itoa(v.n)
	case vKw:
		return v.s
	case vBool:
		return v.s
	case vSym:
		return "'" + v.s
	case vStr:
		return "\"" + v.s + "\""
	case vFun:
		kind := "fun"
		if v.f.macro {
			kind = "macro"
		}
		return kind + "{" + v.f.pkg + "|" + strings.Join(v.f.params, " ") + "|" + renderForms(v.f.body) + "|" + v.f.lex.desc() + "}"
	case vList:
		var p []string
		for _, e := range v.l {
			p = append(p, e.desc())
		}
		return "(" + strings.Join(p, " ") + ")"
	}
	return "?"
}

// text is the printed form of a value as the interpreter prints it.
func (v val) text() string {
	switch v.k {
	case vNil:
		return "()"
	case vInt:
		return strconv.Itoa(v.n)
	case vKw, vBool:
		return v.s
	case vSym:
		return "'" + v.s
	case vStr:
		return "\"" + v.s + "\""
	case vList:
		if len(v.l) == 0 {
			return "()"
		}
		var p []string
		for _, e := range v.l {
			p = append(p, strings.TrimPrefix(e.text(), "'"))
		}
		return "'(" + strings.Join(p, " ") + ")"
	case vFun:
		return "#<fun>"
	}
	return "?"
}

type merr struct {
	cond string
	why  string
}

type pkgState struct {
	bind    map[string]val
	exports []string // sorted, no duplicates
	// from records, for a binding that use-package (or package creation)
	// copied, the package it was copied from.  Bookkeeping for the coverage
	// counters only: it is not part of the canonical key and no prediction
	// reads it.
	from map[string]string
}

func (p *pkgState) setFrom(name, src string) {
	if p.from == nil {
		p.from = map[string]string{}
	}
	p.from[name] = src
}

type state struct {
	cur  string
	pkgs map[string]*pkgState
	nfun int
}

const (
	userPkg = "user"
	langPkg = "lisp"
)

// newState is a fresh runtime: the language package and the user package,
// both holding their base bindings only (kept implicit), user current.
func newState() *state {
	return &state{cur: userPkg, pkgs: map[string]*pkgState{
		userPkg: {bind: map[string]val{}},
		langPkg: {bind: map[string]val{}},
	}}
}

func (s *state) pkgNames() []string {
	names := make([]string, 0, len(s.pkgs))
	for n := range s.pkgs {
		names = append(names, n)
	}
	sort.Strings(names)
	return names
}

// key is the canonical state: current package + the whole table.  Two
// histories with equal keys have equal futures under the model: the model's
// step function reads nothing else.
func (s *state) key() string {
	var b strings.Builder
	b.WriteString("cur=" + s.cur)
	for _, pn := range s.pkgNames() {
		p := s.pkgs[pn]
		b.WriteString(";" + pn + "{x:" + strings.Join(p.exports, ",") + "|")
		names := make([]string, 0, len(p.bind))
		for n := range p.bind {
			names = append(names, n)
		}
		sort.Strings(names)
		for _, n := range names {
			b.WriteString(n + "=" + p.bind[n].desc() + ",")
		}
		b.WriteString("}")
	}
	return b.String()
}

// tableKey is key() without the current package (program mode restores it).
func (s *state) clone() *state {
	c := &state{cur: s.cur, pkgs: map[string]*pkgState{}, nfun: s.nfun}
	for n, p := range s.pkgs {
		cp := &pkgState{bind: make(map[string]val, len(p.bind)), exports: append([]string(nil), p.exports...)}
		for k, v := range p.bind {
			cp.bind[k] = v
		}
		for k, v := range p.from {
			cp.setFrom(k, v)
		}
		c.pkgs[n] = cp
	}
	return c
}

// features of a transition, for the outcome classes and the non-triviality rule.
const (
	fCrossCall   = 1 << iota // a function body ran with a package other than the caller's current
	fLexHit                  // an unqualified reference resolved lexically
	fLexShadow               // ... while the current package also binds the name
	fPkgHit                  // an unqualified reference resolved in the current package
	fIsolated                // an unqualified reference failed although another package binds the name
	fQualOther               // a qualified reference into a package that is not current
	fQualUnexp               // a qualified reference to an unexported binding
	fSnapshot                // the binding written had been copied elsewhere by use-package: the copies must keep the old value
	fLoadRestore             // a load ended in a package other than the one it restored
	fCopied                  // use-package copied at least one binding
	fNewPkg                  // a package was created
	fMacroSite               // a macro expansion was evaluated at the call site
	fWriteOther              // a definition landed in a package that is not the top-level current one
	fLoaderScope             // an unqualified name in a loaded text went to the package although the lexical scope the loader was called from binds it
)

var featNames = []string{"cross-call", "lex", "lex-shadow", "pkg", "isolated", "qual-other", "qual-unexported", "snapshot", "load-restore", "copied", "new-pkg", "macro-site", "write-other", "loader-scope"}

func featString(f uint32) string {
	var p []string
	for i, n := range featNames {
		if f&(1<<uint(i)) != 0 {
			p = append(p, n)
		}
	}
	return strings.Join(p, "+")
}

const crossPackageFeats = fCrossCall | fLexShadow | fIsolated | fQualOther | fQualUnexp | fSnapshot | fLoadRestore | fCopied | fMacroSite | fWriteOther | fLoaderScope

type interp struct {
	st     *state
	top    string // package current when the top-level operation started
	feats  uint32
	tag    string   // refines the violation class of this operation (a precondition worth naming)
	zone   string   // unspecified zone entered by this operation ("" = fully specified)
	zoneOn []string // Z1: names whose binding in zonePkg may be either the old one or the source's
	zonePk string
	zoneSr string
	// loaders: the lexical frames of the loader calls in progress, innermost
	// last.  Bookkeeping for the loader-scope coverage counter only: no
	// prediction reads it.
	loaders []*frame
}

// underLoaderScope: name is not lexically bound where it stands, but a scope
// some load in progress was called from binds it.
func (in *interp) underLoaderScope(name string) {
	for _, l := range in.loaders {
		if l.find(name) != nil {
			in.feats |= fLoaderScope
			return
		}
	}
}

func isConst(name string) bool { return name == "true" || name == "false" }

func (in *interp) errf(cond, format string, a ...any) *merr {
	return &merr{cond: cond, why: fmt.Sprintf(format, a...)}
}

func (in *interp) eval(n *node, lex *frame) (val, *merr) {
	switch n.k {
	case 'i':
		return val{k: vInt, n: n.i}, nil
	case 'q':
		c := n.kids[0]
		switch c.k {
		case 's':
			return val{k: vSym, s: c.s}, nil
		case 'i':
			return val{k: vInt, n: c.i}, nil
		case 't':
			return val{k: vStr, s: c.s}, nil
		case 'l':
			// a quoted list is data: its elements are not evaluated
			l := make([]val, 0, len(c.kids))
			for _, e := range c.kids {
				v, err := in.eval(nQ(e), lex)
				if err != nil {
					return val{}, err
				}
				l = append(l, v)
			}
			return val{k: vList, l: l}, nil
		case 'q':
			return in.eval(c, lex)
		}
		panic("c08 model: unsupported quoted term " + n.render())
	case 't':
		return val{k: vStr, s: n.s}, nil
	case 's':
		return in.lookup(n.s, lex)
	case 'l':
		return in.evalList(n, lex)
	}
	panic("c08 model: cannot evaluate " + n.render())
}

func (in *interp) lookup(name string, lex *frame) (val, *merr) {
	if isConst(name) {
		return val{k: vBool, s: name}, nil
	}
	if name[0] == ':' {
		return val{k: vKw, s: name}, nil
	}
	if i := strings.IndexByte(name, ':'); i > 0 {
		ns, nm := name[:i], name[i+1:]
		p := in.st.pkgs[ns]
		if p == nil {
			return val{}, in.errf("error", "unknown package %s", ns)
		}
		if isConst(nm) {
			return val{k: vBool, s: nm}, nil
		}
		v, ok := p.bind[nm]
		if !ok {
			return val{}, in.errf("error", "unbound %s", name)
		}
		if ns != in.st.cur {
			in.feats |= fQualOther
		}
		if !contains(p.exports, nm) {
			in.feats |= fQualUnexp
		}
		return v, nil
	}
	cur := in.st.pkgs[in.st.cur]
	if fr := lex.find(name); fr != nil {
		in.feats |= fLexHit
		if _, ok := cur.bind[name]; ok {
			in.feats |= fLexShadow
		}
		return fr.vars[name], nil
	}
	in.underLoaderScope(name)
	if v, ok := cur.bind[name]; ok {
		in.feats |= fPkgHit
		return v, nil
	}
	for pn, p := range in.st.pkgs {
		if pn != in.st.cur {
			if _, ok := p.bind[name]; ok {
				in.feats |= fIsolated
			}
		}
	}
	return val{}, in.errf("error", "unbound %s in %s", name, in.st.cur)
}

func contains(l []string, s string) bool {
	for _, x := range l {
		if x == s {
			return true
		}
	}
	return false
}

var nilVal = val{k: vNil}

func (in *interp) evalList(n *node, lex *frame) (val, *merr) {
	if len(n.kids) == 0 {
		return nilVal, nil
	}
	head := n.kids[0]
	args := n.kids[1:]
	if head.isSym() {
		switch head.s {
		case "set":
			return in.formSet(args, lex)
		case "set!":
			return in.formSetBang(args, lex)
		case "defun":
			return in.formDef(args, lex, false)
		case "defmacro":
			return in.formDef(args, lex, true)
		case "let":
			return in.formLet(args, lex, false)
		case "let*":
			return in.formLet(args, lex, true)
		case "dotimes":
			return in.formDotimes(args, lex)
		case "progn":
			return in.formBody(args, lex)
		case "ignore-errors":
			// an error in the body is absorbed: the form's value is nil
			v, err := in.formBody(args, lex)
			if err != nil {
				return nilVal, nil
			}
			return v, nil
		case "handler-bind":
			return in.formHandlerBind(args, lex)
		case "car":
			v, err := in.eval(args[0], lex)
			if err != nil {
				return val{}, err
			}
			if v.k == vInt {
				return val{}, in.errf("error", "car: argument is not a list")
			}
			panic("c08 model: car is only used on integers")
		case "flet":
			return in.formFlet(args, lex, false)
		case "labels":
			return in.formFlet(args, lex, true)
		case "lambda":
			return in.mkFun(args[0], args[1:], lex, false), nil
		case "list":
			var l []val
			for _, a := range args {
				v, err := in.eval(a, lex)
				if err != nil {
					return val{}, err
				}
				l = append(l, v)
			}
			return val{k: vList, l: l}, nil
		case "error":
			c, ok := args[0].quotedSym()
			if !ok {
				panic("c08 model: error needs a quoted condition")
			}
			for _, a := range args[1:] {
				if _, err := in.eval(a, lex); err != nil {
					return val{}, err
				}
			}
			return val{}, in.errf(c, "raised")
		case "in-package":
			return in.formInPackage(args, lex)
		case "export":
			return in.formExport(args, lex)
		case "use-package":
			return in.formUsePackage(args, lex)
		case "load-string":
			return in.formLoad(args, lex)
		case "load-bytes":
			// (load-bytes (to-bytes "source")): the same program given as bytes
			if b := args[0]; b.k == 'l' && len(b.kids) == 2 && b.kids[0].isSym() && b.kids[0].s == "to-bytes" {
				return in.formLoad(b.kids[1:], lex)
			}
			panic("c08 model: load-bytes needs (to-bytes program)")
		case "load-file":
			// (load-file "location"): the same program read from the source library
			if args[0].k != 'F' {
				panic("c08 model: load-file needs a program file")
			}
			return in.formLoad(args, lex)
		}
	}
	fv, err := in.eval(head, lex)
	if err != nil {
		return val{}, err
	}
	if fv.k != vFun {
		return val{}, in.errf("error", "not a function")
	}
	if fv.f.macro {
		// The macro body runs in its defining package; the expansion is then
		// evaluated where the call stands.
		if len(args) != len(fv.f.params) {
			return val{}, in.errf("error", "arity")
		}
		raw := make([]val, len(args))
		for i := range args {
			raw[i] = val{k: vSym, s: args[i].render()}
		}
		exp, err := in.call(fv.f, raw)
		if err != nil {
			return val{}, err
		}
		var code *node
		switch exp.k {
		case vSym:
			code = nS(exp.s)
		case vInt:
			code = nI(exp.n)
		case vNil:
			return nilVal, nil
		default:
			panic("c08 model: unsupported macro expansion")
		}
		in.feats |= fMacroSite
		return in.eval(code, lex)
	}
	vals := make([]val, 0, len(args))
	for _, a := range args {
		v, err := in.eval(a, lex)
		if err != nil {
			return val{}, err
		}
		vals = append(vals, v)
	}
	return in.call(fv.f, vals)
}

func (in *interp) mkFun(params *node, body []*node, lex *frame, macro bool) val {
	in.st.nfun++
	f := &fun{id: in.st.nfun, macro: macro, pkg: in.st.cur, body: body, lex: lex}
	for _, p := range params.kids {
		f.params = append(f.params, p.s)
	}
	return val{k: vFun, f: f}
}

// call runs a function body with the function's defining package current and
// makes the caller's package current again afterwards, error or not.
func (in *interp) call(f *fun, args []val) (val, *merr) {
	if len(args) != len(f.params) {
		return val{}, in.errf("error", "arity")
	}
	fr := &frame{vars: map[string]val{}, up: f.lex}
	for i, p := range f.params {
		if isConst(p) || p[0] == ':' {
			continue // a constant or keyword can never be bound
		}
		fr.vars[p] = args[i]
	}
	saved := in.st.cur
	if f.pkg != saved {
		in.feats |= fCrossCall
	}
	in.st.cur = f.pkg
	defer func() { in.st.cur = saved }()
	res := nilVal
	for _, b := range f.body {
		v, err := in.eval(b, fr)
		if err != nil {
			return val{}, err
		}
		res = v
	}
	return res, nil
}

// rebound is called whenever target:nm gets a new value: copies taken earlier
// must not follow (snapshot semantics), and the binding is no longer a copy.
func (in *interp) rebound(target, nm string, v val) {
	for pn, p := range in.st.pkgs {
		if pn != target && p.from[nm] == target {
			if old, ok := p.bind[nm]; ok && old.desc() != v.desc() {
				in.feats |= fSnapshot
			}
		}
	}
	delete(in.st.pkgs[target].from, nm)
}

// putGlobal is "bind in the package current at that point" (or in the package
// a qualified target names).
func (in *interp) putGlobal(name string, v val) *merr {
	if name[0] == ':' {
		return in.errf("error", "keyword %s cannot be bound", name)
	}
	target := in.st.cur
	nm := name
	if i := strings.IndexByte(name, ':'); i > 0 {
		target, nm = name[:i], name[i+1:]
	}
	p := in.st.pkgs[target]
	if p == nil {
		return in.errf("error", "unknown package %s", target)
	}
	if isConst(nm) {
		return in.errf("error", "constant %s cannot be rebound", nm)
	}
	in.rebound(target, nm, v)
	p.bind[nm] = v
	if target != in.top {
		in.feats |= fWriteOther
	}
	return nil
}

func (in *interp) formSet(args []*node, lex *frame) (val, *merr) {
	k, err := in.eval(args[0], lex)
	if err != nil {
		return val{}, err
	}
	v, err := in.eval(args[1], lex)
	if err != nil {
		return val{}, err
	}
	if k.k != vSym {
		return val{}, in.errf("error", "set: not a symbol")
	}
	if e := in.putGlobal(k.s, v); e != nil {
		return val{}, e
	}
	return v, nil
}

func (in *interp) formSetBang(args []*node, lex *frame) (val, *merr) {
	name := args[0].s
	v, err := in.eval(args[1], lex)
	if err != nil {
		return val{}, err
	}
	if isConst(name) {
		return val{}, in.errf("error", "constant %s cannot be rebound", name)
	}
	if fr := lex.find(name); fr != nil {
		in.feats |= fLexHit
		if _, ok := in.st.pkgs[in.st.cur].bind[name]; ok {
			in.feats |= fLexShadow
		}
		fr.vars[name] = v
		return val{k: vNil, loose: true}, nil
	}
	in.underLoaderScope(name)
	cur := in.st.pkgs[in.st.cur]
	if _, ok := cur.bind[name]; !ok {
		for pn, p := range in.st.pkgs {
			if _, ok := p.bind[name]; ok && pn != in.st.cur {
				in.feats |= fIsolated
			}
		}
		return val{}, in.errf("error", "set!: %s not bound", name)
	}
	in.rebound(in.st.cur, name, v)
	cur.bind[name] = v
	if in.st.cur != in.top {
		in.feats |= fWriteOther
	}
	return val{k: vNil, loose: true}, nil
}

func (in *interp) formDef(args []*node, lex *frame, macro bool) (val, *merr) {
	name := args[0].s
	f := in.mkFun(args[1], args[2:], lex, macro)
	if e := in.putGlobal(name, f); e != nil {
		return val{}, e
	}
	return val{k: vNil, loose: true}, nil
}

// formLet: let evaluates every initialiser outside the new scope, let* inside
// the scope built so far.
func (in *interp) formLet(args []*node, lex *frame, sequential bool) (val, *merr) {
	fr := &frame{vars: map[string]val{}, up: lex}
	for _, b := range args[0].kids {
		scope := lex
		if sequential {
			scope = fr
		}
		v, err := in.eval(b.kids[1], scope)
		if err != nil {
			return val{}, err
		}
		fr.vars[b.kids[0].s] = v
	}
	res := nilVal
	for _, b := range args[1:] {
		v, err := in.eval(b, fr)
		if err != nil {
			return val{}, err
		}
		res = v
	}
	return res, nil
}

func (in *interp) formBody(forms []*node, lex *frame) (val, *merr) {
	res := nilVal
	for _, b := range forms {
		v, err := in.eval(b, lex)
		if err != nil {
			return val{}, err
		}
		res = v
	}
	return res, nil
}

// formHandlerBind: (handler-bind ((condition (lambda (c &rest d) K))) body...)
// with the catch-all clause and a handler that answers the constant K: an
// error in the body is handled and the form's value is K.
func (in *interp) formHandlerBind(args []*node, lex *frame) (val, *merr) {
	clause := args[0].kids[0]
	if clause.kids[0].s != "condition" {
		panic("c08 model: only the catch-all handler clause is used")
	}
	h := clause.kids[1] // (lambda (c &rest d) K)
	k := h.kids[len(h.kids)-1]
	if k.k != 'i' {
		panic("c08 model: the handler answers a constant")
	}
	v, err := in.formBody(args[1:], lex)
	if err != nil {
		return val{k: vInt, n: k.i}, nil
	}
	return v, nil
}

// formDotimes: (dotimes (var n) body...) runs the body with var bound
// lexically to 0..n-1; its own value is not the subject (nil).
func (in *interp) formDotimes(args []*node, lex *frame) (val, *merr) {
	name := args[0].kids[0].s
	cnt, err := in.eval(args[0].kids[1], lex)
	if err != nil {
		return val{}, err
	}
	if cnt.k != vInt {
		return val{}, in.errf("error", "dotimes: count is not an integer")
	}
	for i := 0; i < cnt.n; i++ {
		fr := &frame{vars: map[string]val{name: {k: vInt, n: i}}, up: lex}
		for _, b := range args[1:] {
			if _, err := in.eval(b, fr); err != nil {
				return val{}, err
			}
		}
	}
	return val{k: vNil, loose: true}, nil
}

// formFlet: local functions live in the same (single) namespace as every
// other lexical binding.  flet bodies do not see the new bindings, labels
// bodies do.
func (in *interp) formFlet(args []*node, lex *frame, recursive bool) (val, *merr) {
	fr := &frame{vars: map[string]val{}, up: lex}
	for _, b := range args[0].kids {
		scope := lex
		if recursive {
			scope = fr
		}
		fr.vars[b.kids[0].s] = in.mkFun(b.kids[1], b.kids[2:], scope, false)
	}
	res := nilVal
	for _, b := range args[1:] {
		v, err := in.eval(b, fr)
		if err != nil {
			return val{}, err
		}
		res = v
	}
	return res, nil
}

// designator: a package or symbol name given as a symbol or as a string.
func (in *interp) designator(n *node, lex *frame) (string, *merr) {
	v, err := in.eval(n, lex)
	if err != nil {
		return "", err
	}
	if v.k != vSym && v.k != vStr {
		panic("c08 model: the alphabet only names packages by symbol or string: " + n.render())
	}
	return v.s, nil
}

func (in *interp) formInPackage(args []*node, lex *frame) (val, *merr) {
	name, err := in.designator(args[0], lex)
	if err != nil {
		return val{}, err
	}
	if in.st.pkgs[name] == nil {
		// A new package starts with the language package's exports (the
		// implicit base) and nothing else.
		np := &pkgState{bind: map[string]val{}}
		lang := in.st.pkgs[langPkg]
		for _, e := range lang.exports {
			v, ok := lang.bind[e]
			if !ok {
				// An exported name without a binding contributes nothing; the
				// new package still starts with every export that has one.
				in.tag = "language-export-unbound"
				continue
			}
			np.bind[e] = v
			np.setFrom(e, langPkg)
			in.feats |= fCopied
		}
		in.st.pkgs[name] = np
		in.feats |= fNewPkg
	}
	in.st.cur = name
	return nilVal, nil
}

// formExport: the export set grows by the union of all names mentioned at any
// depth of the arguments (symbols, strings, lists of those, nested).
func (in *interp) formExport(args []*node, lex *frame) (val, *merr) {
	p := in.st.pkgs[in.st.cur]
	var add func(v val)
	add = func(v val) {
		switch v.k {
		case vSym, vStr:
			if !contains(p.exports, v.s) {
				p.exports = append(p.exports, v.s)
				sort.Strings(p.exports)
			}
		case vList:
			for _, e := range v.l {
				add(e)
			}
		case vNil:
		default:
			panic("c08 model: the alphabet only exports symbols, strings and lists of them")
		}
	}
	vals := make([]val, 0, len(args))
	for _, a := range args {
		v, err := in.eval(a, lex)
		if err != nil {
			return val{}, err
		}
		vals = append(vals, v)
	}
	for _, v := range vals {
		add(v)
	}
	return nilVal, nil
}

// formUsePackage imports the named packages one after the other; the first
// failure stops it (earlier imports stay).
func (in *interp) formUsePackage(args []*node, lex *frame) (val, *merr) {
	names := make([]string, 0, len(args))
	for _, a := range args {
		n, err := in.designator(a, lex)
		if err != nil {
			return val{}, err
		}
		names = append(names, n)
	}
	for _, n := range names {
		if _, err := in.usePackage(n); err != nil {
			return val{}, err
		}
	}
	return nilVal, nil
}

func (in *interp) usePackage(name string) (val, *merr) {
	src := in.st.pkgs[name]
	if src == nil {
		return val{}, in.errf("error", "unknown package %s", name)
	}
	dst := in.st.pkgs[in.st.cur]
	// Unspecified zone Z1: an exported name without a binding.  The statement
	// says which bindings are copied, not what happens to a name that has
	// none.  The model predicts what the pinned tree does (copy in export
	// order up to the first unbound name, then signal an error); a departure
	// that stays inside the loose constraint is not a violation.
	for _, e := range src.exports {
		if _, ok := src.bind[e]; !ok && in.zone == "" {
			in.zone = "use-package:exported-name-unbound"
			in.zoneOn = append([]string(nil), src.exports...)
			in.zonePk = in.st.cur
			in.zoneSr = name
			break
		}
	}
	for _, e := range src.exports {
		v, ok := src.bind[e]
		if !ok {
			return val{}, in.errf("error", "package %s: exported name %s is unbound", name, e)
		}
		if old, had := dst.bind[e]; !had || old.desc() != v.desc() {
			in.feats |= fCopied
		}
		dst.bind[e] = v
		if dst != src {
			dst.setFrom(e, name)
		}
	}
	return nilVal, nil
}

// formLoad: the loaded forms are evaluated in order in the package current at
// that point and with NO lexical environment (a loaded text is a separate
// program: nothing in it stands inside the form that called the loader; lex,
// the loader's scope, is only recorded for the coverage counter); the first
// error stops the load; the package current before the load is current again
// afterwards.
func (in *interp) formLoad(args []*node, lex *frame) (val, *merr) {
	prog := args[0]
	if prog.k != 'P' && prog.k != 'F' {
		panic("c08 model: load-string needs a program")
	}
	if prog.tail != "" {
		// unparsable source: nothing is evaluated
		return val{}, in.errf("error", "parse error")
	}
	saved := in.st.cur
	in.loaders = append(in.loaders, lex)
	restore := func() {
		if in.st.cur != saved {
			in.feats |= fLoadRestore
		}
		in.st.cur = saved
		in.loaders = in.loaders[:len(in.loaders)-1]
	}
	res := nilVal
	for _, f := range prog.kids {
		// loaded code does not see the loader's lexical environment
		v, err := in.eval(f, nil)
		if err != nil {
			restore()
			return val{}, err
		}
		res = v
	}
	restore()
	return res, nil
}

// ---------------------------------------------------------------------------

// predicted is what the model says about one operation.
type predicted struct {
	isErr  bool
	cond   string
	v      val
	why    string
	feats  uint32
	tag    string
	zone   string
	zoneOn []string
	zonePk string
	zoneSr string
	probe  *probe
}

func (p predicted) String() string {
	if p.probe != nil {
		return p.probe.String()
	}
	if p.isErr {
		return "ERR<" + p.cond + "> (" + p.why + ")"
	}
	if p.v.loose || p.v.k == vFun {
		return "VAL<any>"
	}
	return "VAL<" + p.v.text() + ">"
}

// step applies one operation to the model state.
func (s *state) step(op *opDef) predicted {
	if op.probe != nil {
		// Constant / keyword probes: whatever the interpreter answers, nothing
		// may become bound and the current package stays.
		return predicted{probe: op.probe}
	}
	in := &interp{st: s, top: s.cur}
	v, err := in.eval(op.form, nil)
	p := predicted{feats: in.feats, tag: in.tag, zone: in.zone, zoneOn: in.zoneOn, zonePk: in.zonePk, zoneSr: in.zoneSr}
	if err != nil {
		p.isErr, p.cond, p.why = true, err.cond, err.why
		return p
	}
	p.v = v
	return p
}

// probe is the oracle of an operation that tries to bind a constant or a
// keyword: the interpreter may refuse (any error) or answer one of the allowed
// values; it may never show the rebinding, and the table must not change.
type probe struct {
	allowVals []string // nil: any value
	anyVal    bool
}

func (p *probe) String() string {
	if p.anyVal {
		return "ERR<any> or any value, table unchanged"
	}
	return "ERR<any> or VAL in " + fmt.Sprint(p.allowVals) + ", table unchanged"
}
