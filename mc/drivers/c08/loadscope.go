package c08

// loadScopeOps: a source handed to load-string / load-bytes / load-file is a
// separate program text.  Nothing in it stands lexically inside the form that
// called the loader, so an unqualified name in it resolves in the CURRENT
// PACKAGE ("resolves lexically and then in the current package": it has no
// lexical bindings of its own), whatever the loader's lexical scope binds under
// the same name; and a function the loaded text defines closes over nothing of
// the loader.  The model already says so (formLoad evaluates the loaded forms
// with an empty lexical frame); this family supplies the operations: the load
// is called from inside every kind of lexical scope that binds the name a.
//
//	S  scope kind around the loader call (a is 10, the loop index 0, or a local
//	   function answering 20):
//	   let, let*, lambda parameter, dotimes, flet, labels, a closure called
//	   under a let, the parameter of a function made in package p (so that p is
//	   current during the load), the parameter of a named function g, the
//	   parameter of a macro hm
//	E  entry point: load-string, (load-bytes (to-bytes ...)), load-file (an
//	   in-memory source library, ast.go memFiles)
//	T  what the loaded text does with the unqualified name:
//	   read         a
//	   set!         (set! a 4), then the scope answers ITS a (must be untouched)
//	   defun        (defun f () a), then the scope calls (f)
//	   lambda       (lambda () a) is the load's value, called by the scope
//	   nested       the loaded text itself loads a text that reads a
//	   in-q:read    (in-package 'q) a
//	   in-q:defun   (in-package 'q) (defun f () a), then the scope calls (q:f)
//	   set          (set 'a 6), then the scope answers its a       [thorough]
//
// quick: every (S, T) for load-string, every (E, T) under let, every (S, E) for
// read; thorough: the whole product (the macro parameter with read only: a
// macro's result is an expansion).  Every operation is a leaf applied to every
// state reached by at most 2 operations; after defun / in-q:defun the defined
// function is also called by a separate later operation.
var (
	loadScopes  = []string{"let", "let*", "lambda-param", "dotimes", "flet", "labels", "closure-under-let", "param-of-function-made-in-p", "defun-param", "macro-param"}
	loadEntries = []string{"load-string", "load-bytes", "load-file"}
	loadTexts   = []string{"read", "set!", "defun", "lambda", "nested", "in-q:read", "in-q:defun", "set"}
)

// loadScopeLater follow the operations whose loaded text defines f.
var loadScopeLater = []string{"call:f", "call:q:f"}

// loadVia is the loader call of entry point E on the program forms.
func loadVia(E string, forms ...*node) *node {
	switch E {
	case "load-bytes":
		return nCall("load-bytes", nCall("to-bytes", nP(forms...)))
	case "load-file":
		return nCall("load-file", nF(forms...))
	}
	return nCall("load-string", nP(forms...))
}

// inScope puts body (pre..., last) into scope kind S; the operation's value is
// the value of last.
func inScope(S string, pre []*node, last *node) *node {
	body := append(append([]*node{}, pre...), last)
	with := func(head ...*node) *node { return nL(append(head, body...)...) }
	a10 := nL(nL(nS("a"), nI(10)))
	localFn := nL(nL(nS("a"), nL(), nI(20)))
	switch S {
	case "let":
		return with(nS("let"), a10)
	case "let*":
		return with(nS("let*"), a10)
	case "lambda-param":
		return nL(with(nS("lambda"), nL(nS("a"))), nI(10))
	case "dotimes":
		// the loop variable is 0; the value of last is carried out through r
		loop := append(append([]*node{nS("dotimes"), nL(nS("a"), nI(1))}, pre...), nCall("set!", nS("r"), last))
		return nL(nS("let"), nL(nL(nS("r"), nI(0))), nL(loop...), nS("r"))
	case "flet":
		return with(nS("flet"), localFn)
	case "labels":
		return with(nS("labels"), localFn)
	case "closure-under-let":
		return nL(nS("let"), a10, nL(with(nS("lambda"), nL())))
	case "param-of-function-made-in-p":
		return nL(nCall("load-string", nP(inPkg("p"), with(nS("lambda"), nL(nS("a"))))), nI(10))
	case "defun-param":
		return nCall("progn", with(nS("defun"), nS("g"), nL(nS("a"))), nCall("g", nI(10)))
	case "macro-param":
		return nCall("progn", with(nS("defmacro"), nS("hm"), nL(nS("a"))), nCall("hm", nI(10)))
	}
	panic("c08: unknown scope kind " + S)
}

// localRef is how scope kind S reads its own binding of a.
func localRef(S string) *node {
	if S == "flet" || S == "labels" {
		return nCall("a")
	}
	return nS("a")
}

func loadScopeForm(S, E, T string) *node {
	a := nS("a")
	defF := nCall("defun", nS("f"), nL(), a)
	switch T {
	case "read":
		return inScope(S, nil, loadVia(E, a))
	case "set!":
		return inScope(S, []*node{loadVia(E, nCall("set!", a, nI(4)))}, localRef(S))
	case "set":
		return inScope(S, []*node{loadVia(E, setq("a", nI(6)))}, localRef(S))
	case "defun":
		return inScope(S, []*node{loadVia(E, defF)}, nCall("f"))
	case "lambda":
		return inScope(S, nil, nL(loadVia(E, nL(nS("lambda"), nL(), a))))
	case "nested":
		return inScope(S, nil, loadVia(E, loadVia(E, a)))
	case "in-q:read":
		return inScope(S, nil, loadVia(E, inPkg("q"), a))
	case "in-q:defun":
		return inScope(S, []*node{loadVia(E, inPkg("q"), defF)}, nCall("q:f"))
	}
	panic("c08: unknown loaded text " + T)
}

func loadScopeOps() []*opDef {
	var ops []*opDef
	for _, S := range loadScopes {
		for _, E := range loadEntries {
			for _, T := range loadTexts {
				if S == "macro-param" && T != "read" {
					continue
				}
				tier := 1
				if T != "set" && (E == "load-string" || S == "let" || T == "read") {
					tier = 0
				}
				definesF := T == "defun" || T == "in-q:defun"
				ops = append(ops, &opDef{Name: "load-in-scope:" + S + ":" + E + ":" + T, Class: "load-in-scope:" + E + ":" + S,
					form: loadScopeForm(S, E, T), tier: tier, maxLenQ: 3, maxLenT: 3, leaf: true,
					later: definesF, laterSet: loadScopeLater})
			}
		}
	}
	return ops
}
