package c08

import (
	"fmt"
	"sort"
	"strings"
	"sync"

	"github.com/luthersystems/elps/lisp"

	"verif/mc/el"
)

// pkgSnap is the table of one package as read through the public registry API.
type pkgSnap struct {
	names     []string
	vals      map[string]*lisp.LVal
	ext       []string
	extSorted []string
}

// rt is one fresh real runtime plus the snapshot of its package registry taken
// before any operation ran.
type rt struct {
	env  *el.Env
	reg  *lisp.PackageRegistry
	base map[string]*pkgSnap
	lang string
	// langNames: the language package's exported names that are bound, sorted:
	// exactly what a new package must start with
	langNames []string
}

func snapPackage(p *lisp.Package) *pkgSnap {
	s := &pkgSnap{names: p.SymbolNames(), ext: p.Externals()}
	s.extSorted = append([]string(nil), s.ext...)
	sort.Strings(s.extSorted)
	s.vals = make(map[string]*lisp.LVal, len(s.names))
	for _, n := range s.names {
		v, _ := p.Symbol(n)
		s.vals[n] = v
	}
	return s
}

// template is the name-level shape of a fresh runtime's registry (package
// names, symbol names, export lists).  It is deterministic, so it is read once
// per configuration; the per-runtime part of a snapshot is only the identity
// of every bound value.  A fresh runtime that lacked one of the template's
// names would be a harness error; one that had MORE names is caught by the
// first checkTable (SymbolNames is compared in full there).
type template struct {
	pkgNames  []string
	snaps     map[string]*pkgSnap
	langNames []string
}

var (
	tmplOnce [2]sync.Once
	tmpls    [2]*template
)

func templateFor(stdlib bool) *template {
	i := 0
	if stdlib {
		i = 1
	}
	tmplOnce[i].Do(func() {
		env := el.MustEnv(el.Opts{Stdlib: stdlib})
		reg := env.Runtime.Registry
		t := &template{pkgNames: reg.PackageNames(), snaps: map[string]*pkgSnap{}}
		for _, pn := range t.pkgNames {
			t.snaps[pn] = snapPackage(reg.Package(pn))
		}
		if l := t.snaps[reg.Lang]; l != nil {
			for _, n := range l.ext {
				if _, ok := l.vals[n]; ok {
					t.langNames = append(t.langNames, n)
				}
			}
			sort.Strings(t.langNames)
		}
		tmpls[i] = t
	})
	return tmpls[i]
}

func newRT(stdlib, prodReader bool) *rt {
	t := templateFor(stdlib)
	env := el.MustEnv(el.Opts{Stdlib: stdlib, ProdReader: prodReader})
	env.Runtime.Library = memFiles // what load-file reads (ast.go nF)
	r := &rt{env: env, reg: env.Runtime.Registry, base: make(map[string]*pkgSnap, len(t.pkgNames)),
		lang: env.Runtime.Registry.Lang, langNames: t.langNames}
	for _, pn := range t.pkgNames {
		p := r.reg.Package(pn)
		if p == nil {
			panic("harness: fresh runtime lacks package " + pn)
		}
		ts := t.snaps[pn]
		s := &pkgSnap{names: ts.names, ext: ts.ext, extSorted: ts.extSorted, vals: make(map[string]*lisp.LVal, len(ts.names))}
		for _, n := range ts.names {
			v, ok := p.Symbol(n)
			if !ok {
				panic("harness: fresh runtime lacks " + pn + ":" + n)
			}
			s.vals[n] = v
		}
		r.base[pn] = s
	}
	return r
}

// evalForm evaluates ONE top-level form the way the REPL does: read it with the
// runtime's reader and hand it to LEnv.Eval in the root environment.  Unlike a
// Load, this keeps the package an in-package form selected.
func (r *rt) evalForm(src string) (el.Outcome, *lisp.LVal, error) {
	exprs, err := r.env.Runtime.Reader.Read("c08", strings.NewReader(src))
	if err != nil {
		return el.Outcome{}, nil, fmt.Errorf("harness: operation does not parse: %v", err)
	}
	if len(exprs) != 1 {
		return el.Outcome{}, nil, fmt.Errorf("harness: operation is %d forms", len(exprs))
	}
	r.env.Err.Reset()
	v := r.env.Eval(exprs[0])
	return el.Observe(v, ""), v, nil
}

type diff struct {
	kind   string
	detail string
}

func (d diff) String() string { return d.kind + ": " + d.detail }

func diffsString(ds []diff) string {
	var p []string
	for i, d := range ds {
		if i == 6 {
			p = append(p, fmt.Sprintf("... %d more", len(ds)-i))
			break
		}
		p = append(p, d.String())
	}
	return strings.Join(p, " | ")
}

func compareOutcome(pred predicted, o el.Outcome, v *lisp.LVal) []diff {
	got := o.String()
	if pr := pred.probe; pr != nil {
		if o.IsErr || pr.anyVal {
			return nil
		}
		for _, a := range pr.allowVals {
			if o.Text == a {
				return nil
			}
		}
		return []diff{{"value", "a constant/keyword binding became visible: got " + got + ", allowed: " + pr.String()}}
	}
	if pred.isErr {
		if !o.IsErr {
			return []diff{{"class", "model: " + pred.String() + ", got " + got}}
		}
		if o.Cond != pred.cond {
			return []diff{{"condition", "model: " + pred.String() + ", got " + o.Full()}}
		}
		return nil
	}
	if o.IsErr {
		return []diff{{"class", "model: " + pred.String() + ", got " + o.Full()}}
	}
	if pred.v.k == vFun {
		if v != nil && v.Type != lisp.LFun {
			return []diff{{"value", "model: a function, got " + got}}
		}
		return nil
	}
	if !pred.v.loose && o.Text != pred.v.text() {
		return []diff{{"value", "model: " + pred.String() + ", got " + got}}
	}
	return nil
}

// compareOutcomeText is compareOutcome without access to the result value.
func compareOutcomeText(pred predicted, o el.Outcome) []diff { return compareOutcome(pred, o, nil) }

func mergeSorted(a []string, extra []string) []string {
	out := make([]string, 0, len(a)+len(extra))
	out = append(out, a...)
	for _, e := range extra {
		i := sort.SearchStrings(a, e)
		if i < len(a) && a[i] == e {
			continue
		}
		out = append(out, e)
	}
	sort.Strings(out)
	return out
}

func eqStrings(a, b []string) bool {
	if len(a) != len(b) {
		return false
	}
	for i := range a {
		if a[i] != b[i] {
			return false
		}
	}
	return true
}

func listDiff(want, got []string) string {
	w := map[string]bool{}
	g := map[string]bool{}
	for _, x := range want {
		w[x] = true
	}
	for _, x := range got {
		g[x] = true
	}
	var missing, extra []string
	for _, x := range want {
		if !g[x] {
			missing = append(missing, x)
		}
	}
	for _, x := range got {
		if !w[x] {
			extra = append(extra, x)
		}
	}
	if len(missing) == 0 && len(extra) == 0 {
		return fmt.Sprintf("same members, different multiplicity or order: want %d entries %v, got %d entries %v", len(want), clip(want), len(got), clip(got))
	}
	return fmt.Sprintf("missing %v, unexpected %v", clip(missing), clip(extra))
}

func clip(l []string) []string {
	if len(l) > 8 {
		return append(append([]string{}, l[:8]...), fmt.Sprintf("...(%d)", len(l)))
	}
	return l
}

// matchVal compares one binding of the real table with the model's value.
func matchVal(v *lisp.LVal, m val, fids map[int]string, rev map[string]int) string {
	switch m.k {
	case vInt:
		if v.Type != lisp.LInt || v.Int != m.n {
			return fmt.Sprintf("model %s, got %s", m.text(), v.String())
		}
	case vFun:
		if v.Type != lisp.LFun {
			return fmt.Sprintf("model a function, got %s", v.String())
		}
		if v.Package() != m.f.pkg {
			return fmt.Sprintf("model a function defined in package %s, got one of package %s", m.f.pkg, v.Package())
		}
		if v.IsMacro() != m.f.macro {
			return fmt.Sprintf("model macro=%v, got macro=%v", m.f.macro, v.IsMacro())
		}
		fid := v.FID()
		if old, ok := fids[m.f.id]; ok && old != fid {
			return fmt.Sprintf("model: the same function object as elsewhere in the table (%s), got a different one (%s)", old, fid)
		}
		if old, ok := rev[fid]; ok && old != m.f.id {
			return fmt.Sprintf("model: a function object distinct from #%d, got the same one (%s)", old, fid)
		}
		fids[m.f.id] = fid
		rev[fid] = m.f.id
	default:
		if v.String() != m.text() {
			return fmt.Sprintf("model %s, got %s", m.text(), v.String())
		}
	}
	return ""
}

// checkTable reads the FULL package table back through the public registry
// API and compares it with the model: the set of packages, the current
// package, and for every package its complete symbol-name list, every binding
// (base bindings by identity with the language package's, watched bindings by
// value) and its export list.
func (r *rt) checkTable(st *state, wantCur string) []diff {
	var ds []diff
	if cur := r.env.Runtime.Package.Name; cur != wantCur {
		ds = append(ds, diff{"current-package", fmt.Sprintf("model %s, got %s", wantCur, cur)})
	}
	var wantPkgs []string
	for pn := range r.base {
		wantPkgs = append(wantPkgs, pn)
	}
	for pn := range st.pkgs {
		if r.base[pn] == nil {
			wantPkgs = append(wantPkgs, pn)
		}
	}
	sort.Strings(wantPkgs)
	gotPkgs := r.reg.PackageNames()
	if !eqStrings(wantPkgs, gotPkgs) {
		ds = append(ds, diff{"package-set", listDiff(wantPkgs, gotPkgs)})
	}
	lang := r.base[r.lang]
	fids := map[int]string{}
	rev := map[string]int{}
	for _, pn := range gotPkgs {
		p := r.reg.Package(pn)
		mp := st.pkgs[pn]
		b := r.base[pn]
		if mp == nil {
			if b == nil {
				continue // already reported under package-set
			}
			// a package no operation may touch: identical to its snapshot
			names := p.SymbolNames()
			if !eqStrings(b.names, names) {
				ds = append(ds, diff{"foreign-package", pn + " symbols: " + listDiff(b.names, names)})
				continue
			}
			for _, n := range names {
				if v, _ := p.Symbol(n); v != b.vals[n] {
					ds = append(ds, diff{"foreign-package", pn + ":" + n + " was rebound"})
					break
				}
			}
			ext := p.Externals()
			sort.Strings(ext)
			if !eqStrings(b.extSorted, ext) {
				ds = append(ds, diff{"foreign-package", pn + " exports: " + listDiff(b.extSorted, ext)})
			}
			continue
		}
		// a package of the model: base bindings + watched bindings
		var baseNames []string
		var baseVals map[string]*lisp.LVal
		var baseExt []string
		if b != nil {
			baseNames, baseVals, baseExt = b.names, b.vals, b.ext
		} else {
			// a package created by in-package starts with exactly the language
			// package's exports, bound to the language package's own values
			baseNames, baseVals = r.langNames, lang.vals
		}
		extra := make([]string, 0, len(mp.bind))
		for n := range mp.bind {
			extra = append(extra, n)
		}
		wantNames := mergeSorted(baseNames, extra)
		names := p.SymbolNames()
		if !eqStrings(wantNames, names) {
			ds = append(ds, diff{"symbols", "package " + pn + ": " + listDiff(wantNames, names)})
		}
		for _, n := range names {
			v, _ := p.Symbol(n)
			if m, ok := mp.bind[n]; ok {
				if why := matchVal(v, m, fids, rev); why != "" {
					ds = append(ds, diff{"binding", pn + ":" + n + ": " + why})
				}
				continue
			}
			if bv, ok := baseVals[n]; ok && bv != v {
				ds = append(ds, diff{"base-binding", pn + ":" + n + " is not the language package's binding"})
			}
		}
		// The export list is compared as a multiset: its order is not the
		// property's subject, a duplicated entry is (Package.Exports is
		// documented as de-duplicating).
		wantExt := append([]string(nil), baseExt...)
		sort.Strings(wantExt)
		wantExt = mergeSorted(wantExt, mp.exports)
		ext := p.Externals()
		sort.Strings(ext)
		if !eqStrings(wantExt, ext) {
			ds = append(ds, diff{"externals", "package " + pn + ": " + listDiff(wantExt, ext)})
		}
	}
	return ds
}

// zoneCandidate builds, for unspecified zone Z1, the loosest table the
// statement still allows given what the runtime did: every exported name of
// the source is, in the current package, either as it was or as the source has
// it; everything else is as it was.
func (r *rt) zoneCandidate(pre *state, pred predicted) *state {
	cand := pre.clone()
	src := cand.pkgs[pred.zoneSr]
	dst := cand.pkgs[pred.zonePk]
	p := r.reg.Package(pred.zonePk)
	if src == nil || dst == nil || p == nil {
		return cand
	}
	for _, n := range pred.zoneOn {
		sv, ok := src.bind[n]
		if !ok {
			continue
		}
		v, bound := p.Symbol(n)
		if !bound {
			continue
		}
		if matchVal(v, sv, map[int]string{}, map[string]int{}) == "" {
			dst.bind[n] = sv
		}
	}
	return cand
}
