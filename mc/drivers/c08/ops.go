package c08

// The operation alphabet.  Every operation is ONE top-level form.  Names are
// stable identifiers (the replay contract); Class is the stem of the violation
// class.  tier 0 = quick and thorough, tier 1 = thorough only.

type opDef struct {
	Name  string
	Class string
	form  *node
	probe *probe
	src   string
	tier  int
	// core: member of the reduced alphabet the thorough tier uses for its
	// last level (history length 6)
	core bool
	// prog: the transition is ALSO executed in program mode (history + this
	// operation as one LoadString source), not only per form
	prog bool
	// maxLenQ / maxLenT (0 = no limit): the operation is only applied when the
	// history, this operation included, is at most that long (quick / thorough)
	maxLenQ, maxLenT int
	// minLen (0 = no limit): the operation is only applied when the history,
	// this operation included, is at least that long
	minLen int
	// later: after this operation, each of laterOps is additionally applied as
	// a SEPARATE later operation (history + this + later) and checked in full
	later bool
	// leaf: the state this operation reaches is checked but not expanded
	leaf bool
	// leafFrom (0 = never): like leaf, from this history length on
	leafFrom int
	// laterSet: the later operations of this operation (nil: laterOps)
	laterSet []string
}

func (o *opDef) isLeafAt(length int) bool {
	return o.leaf || (o.leafFrom > 0 && length >= o.leafFrom)
}

// laterOps follow an operation flagged `later`: what the rest of a session
// does after a call failed or its error was handled.
var laterOps = []string{"ref:a", "set:a=2", "defun:f-reads-a", "call:f"}

// laterDepth: later-operations are appended while the history, the flagged
// operation included, is at most this long.
const laterDepth = 3

func (o *opDef) allowedAt(length int, thorough bool) bool {
	m := o.maxLenQ
	if thorough {
		m = o.maxLenT
	}
	return (m == 0 || length <= m) && length >= o.minLen
}

// Watched names: a (data), f (function), m (macro).  None of them is a name of
// the language package (checked at start-up).
var watched = []string{"a", "f", "m", "g", "h", "hm", "zz"}

func inPkg(p string) *node           { return nCall("in-package", nQS(p)) }
func setq(sym string, v *node) *node { return nCall("set", nQS(sym), v) }
func letA(n int, body ...*node) *node {
	return nL(append([]*node{nS("let"), nL(nL(nS("a"), nI(n)))}, body...)...)
}

func anyProbe() *probe            { return &probe{anyVal: true} }
func valProbe(v ...string) *probe { return &probe{allowVals: v} }

func buildAlphabet() []*opDef {
	empty := nL()
	ops := []*opDef{
		// --- package control
		{Name: "in-package:p", Class: "in-package", form: inPkg("p")},
		{Name: "in-package:q", Class: "in-package", form: inPkg("q")},
		{Name: "in-package:user", Class: "in-package", form: inPkg("user")},
		{Name: "export:a", Class: "export", form: nCall("export", nQS("a"))},
		{Name: "export:f", Class: "export", form: nCall("export", nQS("f"))},
		{Name: "export:m", Class: "export", form: nCall("export", nQS("m")), tier: 1},
		{Name: "use-package:p", Class: "use-package", form: nCall("use-package", nQS("p"))},
		{Name: "use-package:q", Class: "use-package", form: nCall("use-package", nQS("q"))},
		{Name: "use-package:user", Class: "use-package", form: nCall("use-package", nQS("user")), tier: 1},

		// --- definitions and redefinitions
		{Name: "set:a=1", Class: "set", form: setq("a", nI(1))},
		{Name: "set:a=2", Class: "set", form: setq("a", nI(2))},
		{Name: "set:p:a=3", Class: "set-qualified", form: setq("p:a", nI(3))},
		{Name: "set:q:a=3", Class: "set-qualified", form: setq("q:a", nI(3)), tier: 1},
		{Name: "set!:a=4", Class: "set!", form: nCall("set!", nS("a"), nI(4))},
		{Name: "defun:f-reads-a", Class: "defun", form: nCall("defun", nS("f"), empty, nS("a"))},
		{Name: "defun:f-sets-a=5", Class: "defun", form: nCall("defun", nS("f"), empty, setq("a", nI(5)))},
		{Name: "defmacro:m-expands-a", Class: "defmacro", form: nCall("defmacro", nS("m"), empty, nQS("a"))},
		{Name: "defmacro:m-body-reads-a", Class: "defmacro", form: nCall("defmacro", nS("m"), empty, nS("a")), tier: 1},
		{Name: "let-a:defun:f-closes-over-a", Class: "defun-closure", form: letA(10, nCall("defun", nS("f"), empty, nS("a"))), tier: 1},

		// --- loads
		{Name: "load:q:set-a=6", Class: "load-string", form: nCall("load-string", nP(inPkg("q"), setq("a", nI(6))))},
		{Name: "load:p:nested-q:set-a", Class: "load-string-nested", form: nCall("load-string",
			nP(inPkg("p"), nCall("load-string", nP(inPkg("q"), setq("a", nI(7)))), setq("a", nI(8))))},
		{Name: "load:q:set-a=9:fails", Class: "load-string-failing", form: nCall("load-string",
			nP(inPkg("q"), setq("a", nI(9)), nCall("error", nQS("boom"), nI(1))))},
		{Name: "load:q:unparsable", Class: "load-string-unparsable", form: nCall("load-string",
			nBadP(" (", inPkg("q"), setq("a", nI(9))))},
		{Name: "load:p:nested-q:fails", Class: "load-string-nested-failing", form: nCall("load-string",
			nP(inPkg("p"), nCall("load-string", nP(inPkg("q"), nCall("error", nQS("boom"), nI(1)))), setq("a", nI(8)))), tier: 1},

		{Name: "load:p:lib", Class: "load-string-library", form: nCall("load-string",
			nP(inPkg("p"), nCall("export", nQS("a"), nQS("f")), setq("a", nI(1)),
				nCall("defun", nS("f"), empty, nS("a")), nCall("defmacro", nS("m"), empty, nQS("a"))))},
		{Name: "defun:f-loads-q:set-a=6", Class: "defun-loading", form: nCall("defun", nS("f"), empty,
			nCall("load-string", nP(inPkg("q"), setq("a", nI(6))))), tier: 1},

		// --- the language package changes before a package is created
		{Name: "load:lisp:set-a=14:export-a", Class: "language-package-export", form: nCall("load-string",
			nP(inPkg("lisp"), setq("a", nI(14)), nCall("export", nQS("a")))), tier: 1},
		{Name: "load:lisp:export-a", Class: "language-package-export", form: nCall("load-string",
			nP(inPkg("lisp"), nCall("export", nQS("a"))))},
		// (quick tier too: a binding added to the language package AFTER a package exists is not visible unqualified there)
		{Name: "set:lisp:a=15", Class: "set-qualified-language", form: setq("lisp:a", nI(15))},

		// --- references
		{Name: "ref:a", Class: "ref-unqualified", form: nS("a")},
		{Name: "ref:p:a", Class: "ref-qualified", form: nS("p:a")},
		{Name: "ref:q:a", Class: "ref-qualified", form: nS("q:a")},
		{Name: "ref:user:a", Class: "ref-qualified", form: nS("user:a"), tier: 1},
		{Name: "ref::a", Class: "ref-keyword", form: nS(":a")},
		{Name: "ref:true", Class: "ref-constant", form: nS("true")},
		{Name: "ref:p:false", Class: "ref-constant", form: nS("p:false"), tier: 1},
		{Name: "call:f", Class: "call-unqualified", form: nCall("f")},
		{Name: "call:p:f", Class: "call-qualified", form: nCall("p:f")},
		{Name: "call:q:f", Class: "call-qualified", form: nCall("q:f")},
		{Name: "call:m", Class: "macro-unqualified", form: nCall("m")},
		{Name: "call:p:m", Class: "macro-qualified", form: nCall("p:m")},
		{Name: "call:q:m", Class: "macro-qualified", form: nCall("q:m"), tier: 1},

		// --- lexical scope against package scope
		{Name: "let-a:ref:a", Class: "lexical-ref", form: letA(10, nS("a"))},
		{Name: "let-a:call:f", Class: "lexical-call", form: letA(10, nCall("f"))},
		{Name: "let-a:call:m", Class: "lexical-macro", form: letA(10, nCall("m"))},
		{Name: "let-a:set!:a", Class: "lexical-set!", form: letA(10, nCall("set!", nS("a"), nI(11)), nS("a"))},
		{Name: "let-a:set:a=12", Class: "lexical-set", form: letA(10, setq("a", nI(12)), nS("a"))},
		{Name: "lambda-a:ref:a", Class: "lexical-param", form: nL(nCall("lambda", nL(nS("a")), nS("a")), nI(13))},

		// --- keywords and constants can never be bound
		{Name: "probe:set::a", Class: "bind-keyword:set", probe: anyProbe(), src: "(set ':a 1)"},
		{Name: "probe:let::a", Class: "bind-keyword:let", probe: valProbe(":a"), src: "(let ((:a 1)) :a)"},
		{Name: "probe:lambda::a", Class: "bind-keyword:lambda", probe: valProbe(":a"), src: "((lambda (:a) :a) 1)", tier: 1},
		{Name: "probe:set!::a", Class: "bind-keyword:set!", probe: anyProbe(), src: "(set! :a 1)", tier: 1},
		{Name: "probe:set:true", Class: "bind-constant:set", probe: anyProbe(), src: "(set 'true 1)"},
		{Name: "probe:set:p:false", Class: "bind-constant:set-qualified", probe: anyProbe(), src: "(set 'p:false 1)"},
		{Name: "probe:set!:true", Class: "bind-constant:set!", probe: anyProbe(), src: "(set! true 1)"},
		{Name: "probe:defun:true", Class: "bind-constant:defun", probe: anyProbe(), src: "(defun true () 1)"},
		{Name: "probe:defmacro:false", Class: "bind-constant:defmacro", probe: anyProbe(), src: "(defmacro false () 1)", tier: 1},
		{Name: "probe:let:true", Class: "bind-constant:let", probe: valProbe("true"), src: "(let ((true 1)) true)"},
		{Name: "probe:let*:false", Class: "bind-constant:let*", probe: valProbe("false"), src: "(let* ((false 1)) false)", tier: 1},
		{Name: "probe:lambda:false", Class: "bind-constant:lambda", probe: valProbe("false"), src: "((lambda (false) false) 1)"},
		{Name: "probe:flet:false", Class: "bind-constant:flet", probe: valProbe(), src: "(flet ((false () 1)) (false))"},
		{Name: "probe:labels:true", Class: "bind-constant:labels", probe: valProbe(), src: "(labels ((true () 1)) (true))", tier: 1},
		{Name: "probe:macrolet:true", Class: "bind-constant:macrolet", probe: valProbe(), src: "(macrolet ((true () 1)) (true))", tier: 1},
		{Name: "probe:dotimes:false", Class: "bind-constant:dotimes", probe: valProbe("false", "()"), src: "(dotimes (false 2) false)", tier: 1},
	}
	ops = append(ops, shadowOps()...)
	ops = append(ops, errorCallOps()...)
	ops = append(ops, rebindOps()...)
	ops = append(ops, argumentShapeOps()...)
	ops = append(ops, loadScopeOps()...)
	for _, o := range ops {
		if o.form != nil {
			o.src = o.form.render()
		}
		if coreOps[o.Name] {
			o.core = true
		}
	}
	for n := range coreOps {
		found := false
		for _, o := range ops {
			found = found || o.Name == n
		}
		if !found {
			panic("c08: coreOps names an unknown operation " + n)
		}
	}
	return ops
}

// shadowOps: every qualified reference form P:a (P in user, p, q — including
// the package that is current at that point) under every kind of lexical
// binding of the same name, and P:f as the operator of a call while a local
// function f shadows it.  The model's answer is always the PACKAGE binding
// (or the unbound-symbol error), never the lexical one.
func shadowOps() []*opDef {
	var ops []*opDef
	empty := nL()
	for _, P := range []string{"user", "p", "q"} {
		qa := nS(P + ":a")
		qf := nCall(P + ":f")
		t1 := 1
		ops = append(ops,
			&opDef{Name: "let-a:ref:" + P + ":a", Class: "shadowed-qualified:let", form: letA(10, qa), prog: true},
			&opDef{Name: "let*-a:ref:" + P + ":a", Class: "shadowed-qualified:let*",
				form: nL(nS("let*"), nL(nL(nS("a"), nI(10))), qa), prog: true, tier: t1},
			&opDef{Name: "lambda-a:ref:" + P + ":a", Class: "shadowed-qualified:lambda-param",
				form: nL(nCall("lambda", nL(nS("a")), qa), nI(10)), prog: true},
			// the loop variable is 0; the value read inside the loop is carried out through r
			&opDef{Name: "dotimes-a:ref:" + P + ":a", Class: "shadowed-qualified:dotimes",
				form: nL(nS("let"), nL(nL(nS("r"), nI(0))),
					nL(nS("dotimes"), nL(nS("a"), nI(1)), nCall("set!", nS("r"), qa)), nS("r")), prog: true},
			&opDef{Name: "flet-f:call:" + P + ":f", Class: "shadowed-qualified:flet-operator",
				form: nL(nS("flet"), nL(nL(nS("f"), empty, nI(20))), qf), prog: true},
			&opDef{Name: "labels-f:call:" + P + ":f", Class: "shadowed-qualified:labels-operator",
				form: nL(nS("labels"), nL(nL(nS("f"), empty, nI(20))), qf), prog: true, tier: t1},
		)
		// a function DEFINED in P whose formal is named a and whose body says
		// P:a; P is current while the body runs, whoever calls it
		tP := 1
		if P == "p" {
			tP = 0
		}
		ops = append(ops,
			&opDef{Name: "lambda-made-in:" + P + ":param-a:ref:" + P + ":a", Class: "shadowed-qualified:param-of-function-made-in-package",
				form: nL(nCall("load-string", nP(inPkg(P), nCall("lambda", nL(nS("a")), qa))), nI(10)), prog: true, tier: tP},
			&opDef{Name: "load:" + P + ":defun-g-param-a-reads-" + P + ":a", Class: "defun-param-shadow",
				form: nCall("load-string", nP(inPkg(P), nCall("defun", nS("g"), nL(nS("a")), qa))), tier: tP},
			&opDef{Name: "call:" + P + ":g", Class: "shadowed-qualified:defun-param",
				form: nCall(P+":g", nI(10)), prog: true, tier: tP},
		)
	}
	return ops
}

// (The new values are the ones the alphabet already uses — 4 for set!, the
// writer body for the redefined f — so these shortcuts reach states the search
// has anyway, only sooner.)
//
// rebindOps: every way of CHANGING an existing package-level binding of an
// exporting package P without leaving the current package (so that an import
// can follow within a short history), and imports from an existing and from a
// brand-new package.  The model's rule: an import copies the values current
// at that moment, however they came to be current.
func rebindOps() []*opDef {
	var ops []*opDef
	empty := nL()
	inP := func(P string, forms ...*node) *node {
		return nCall("load-string", nP(append([]*node{inPkg(P)}, forms...)...))
	}
	// A rebinding shortcut is applied while the history (it included) is at
	// most 3 long.  At lengths 1-2 the state it reaches is expanded like any
	// other ("after other operations"); at length 3 it is a leaf and every
	// import of importOps is appended as operation 4 ("immediately").
	mk := func(name, class string, form *node, tier, leafFrom int) *opDef {
		return &opDef{Name: name, Class: class, form: form, tier: tier, maxLenQ: 3, maxLenT: 3,
			leafFrom: leafFrom, later: true, laterSet: importOps}
	}
	for _, P := range []string{"p", "q", "lisp"} {
		tier, leafFrom := 0, 3
		if P != "p" {
			tier, leafFrom = 1, 1
		}
		// set! at top level of P (the Package.Update path)
		ops = append(ops, mk("load:"+P+":set!-a=4", "rebind:set!-toplevel", inP(P, nCall("set!", nS("a"), nI(4))), tier, leafFrom))
		// set! inside a function of P that is called from another package
		ops = append(ops, mk("lambda-made-in:"+P+":set!-a=4", "rebind:set!-in-function",
			nL(inP(P, nL(nS("lambda"), empty, nCall("set!", nS("a"), nI(4))))), tier, leafFrom))
		// set at top level of P
		ops = append(ops, mk("load:"+P+":set-a=2", "rebind:set-toplevel", inP(P, setq("a", nI(2))), 1, 1))
		if P != "lisp" {
			// redefinition of the exported function
			ops = append(ops, mk("load:"+P+":redefun-f", "rebind:defun", inP(P, nCall("defun", nS("f"), empty, setq("a", nI(5)))), tier, leafFrom))
		}
	}
	ops = append(ops,
		mk("load:p:export-m:redefmacro-m", "rebind:defmacro",
			inP("p", nCall("export", nQS("m")), nCall("defmacro", nS("m"), empty, nQS("f"))), 1, 1),
		// The language package: give it a user-visible export, let a package be
		// created (which imports it), then set! the export.  Every package
		// created afterwards must start with the NEW value.  One leaf
		// operation, so that the language package does not become a dimension
		// of the quick tier's state space.
		mk("load:lisp:set-a=14:export-a:new-package:set!-a=4", "rebind:language-export-set!",
			inP("lisp", setq("a", nI(14)), nCall("export", nQS("a")), inPkg("tmp"), inPkg("lisp"), nCall("set!", nS("a"), nI(4))), 0, 1),
		// imports from a package that may or may not exist yet, and an explicit
		// re-import of the language package; leaves at lengths 3-4 and the
		// later-operations of every rebinding shortcut
		&opDef{Name: "load:q:use-package:p", Class: "import-from-other-package", form: inP("q", nCall("use-package", nQS("p"))), minLen: 3, maxLenQ: 4, maxLenT: 4, leafFrom: 1},
		&opDef{Name: "load:q:use-package:user", Class: "import-from-other-package", form: inP("q", nCall("use-package", nQS("user"))), minLen: 3, maxLenQ: 4, maxLenT: 4, leafFrom: 1},
		&opDef{Name: "load:p:use-package:q", Class: "import-from-other-package", form: inP("p", nCall("use-package", nQS("q"))), tier: 1, minLen: 3, maxLenT: 4, leafFrom: 1},
		&opDef{Name: "use-package:lisp", Class: "use-package-language", form: nCall("use-package", nQS("lisp")), minLen: 3, maxLenQ: 4, maxLenT: 4, leafFrom: 1},
	)
	return ops
}

// argumentShapeOps: the ARGUMENT SHAPES export, use-package and in-package
// accept (probed on the pinned tree): names as symbols or strings; for export
// also lists of names, nested to any depth, computed lists, the empty list and
// no argument at all, in every order.  The model: the export set grows by the
// union of all names mentioned at any depth.  Every shape is a leaf operation
// (the export sets themselves are reached through export:a / export:f /
// export:m anyway) followed, as separate later operations, by imports of the
// current package from another package; the export list is read back through
// Package.Externals after the shape itself.
//
// Unspecified and therefore outside the alphabet: elements that are neither
// symbol, string nor list ((export 1) is an error; (export '(a 1) 'f) exports a
// and f and swallows the inner error; (export 'a 1 'f) exports a and then
// fails), keywords as export names, a list as a package designator
// ((use-package '(p)) and (in-package '(p)) are errors), docstring arguments.
func argumentShapeOps() []*opDef {
	q := func(kids ...*node) *node { return nQ(nL(kids...)) } // '(...)
	sy := nS
	var ops []*opDef
	shape := func(name string, tier int, args ...*node) {
		ops = append(ops, &opDef{Name: "export-shape:" + name, Class: "export-shape:" + name,
			form: nCall("export", args...), tier: tier, maxLenQ: 3, maxLenT: 4, leaf: true, later: true, laterSet: shapeImports, prog: true})
	}
	shape("string", 0, nT("a"))
	shape("two-symbols", 0, nQS("a"), nQS("f"))
	shape("list", 0, q(sy("a"), sy("f")))
	shape("symbol-then-list", 0, nQS("a"), q(sy("f"), sy("m")))
	shape("list-then-symbol", 0, q(sy("a"), sy("f")), nQS("m"))
	shape("list-in-the-middle", 0, nQS("a"), q(sy("f")), nQS("m"))
	shape("two-lists", 0, q(sy("a")), q(sy("f")))
	shape("two-lists-then-symbol", 0, q(sy("a")), q(sy("f")), nQS("m"))
	shape("nested-list-then-sibling-inside", 0, q(nL(sy("a")), sy("f")))
	shape("nested-list-then-sibling-outside", 0, q(nL(sy("a")), sy("f")), nQS("m"))
	shape("deeply-nested", 0, q(sy("a"), nL(sy("f"), nL(sy("m")))))
	shape("empty-list", 0, q())
	shape("empty-list-then-symbol", 0, q(), nQS("a"))
	shape("symbol-then-empty-list-then-symbol", 1, nQS("a"), q(), nQS("f"))
	shape("no-arguments", 0)
	shape("duplicate-symbols", 0, nQS("a"), nQS("a"))
	shape("duplicates-in-list-then-symbol", 0, q(sy("a"), sy("a")), nQS("a"))
	shape("strings-in-list-then-string", 0, q(nT("a"), sy("f")), nT("m"))
	shape("symbol-string-list", 0, nQS("a"), nT("f"), q(sy("m")))
	shape("computed-list-then-symbol", 0, nCall("list", nQS("a"), nQS("f")), nQS("m"))
	shape("string-then-list", 1, nT("a"), q(sy("f")))
	shape("list-then-list-of-list", 1, q(sy("a")), q(nL(sy("f"))), nQS("m"))
	shape("symbol-list-list", 1, nQS("m"), q(sy("a")), q(sy("f")))

	des := func(name, class string, tier int, form *node) {
		ops = append(ops, &opDef{Name: name, Class: class, form: form, tier: tier, maxLenQ: 3, maxLenT: 4, leaf: true, prog: true})
	}
	des("use-package-shape:string", "use-package-shape:string", 0, nCall("use-package", nT("p")))
	des("use-package-shape:two-packages", "use-package-shape:two-packages", 0, nCall("use-package", nQS("p"), nQS("q")))
	des("use-package-shape:two-packages-reversed", "use-package-shape:two-packages", 1, nCall("use-package", nQS("q"), nT("p")))
	des("use-package-shape:no-arguments", "use-package-shape:no-arguments", 0, nCall("use-package"))
	des("in-package-shape:string", "in-package-shape:string", 0, nCall("in-package", nT("p")))
	return ops
}

// shapeImports follow every export shape: the current package (user, p or q)
// imported from another package.
var shapeImports = []string{"load:q:use-package:user", "load:q:use-package:p", "load:p:use-package:q", "use-package:p", "use-package:q"}

// importOps follow every rebinding shortcut as a separate later operation
// (those that are not in the tier's alphabet are skipped).
var importOps = []string{"use-package:p", "use-package:q", "load:q:use-package:p", "load:p:use-package:q", "in-package:p", "in-package:q", "use-package:lisp"}

// errorCallOps: a call into another package whose body fails in a form that
// is or is not the last one.  Whatever happens inside a call, when it returns
// or fails the package that was current before it is current again: the rest
// of the same operation and every later operation resolve names, define and
// stamp functions in the caller's package.
func errorCallOps() []*opDef {
	var ops []*opDef
	empty := nL()
	errForm := map[string]func() *node{
		"error":     func() *node { return nCall("error", nQS("boom"), nI(1)) },
		"unbound":   func() *node { return nS("zz") },
		"wrongtype": func() *node { return nCall("car", nI(5)) },
	}
	body := func(k, kind string, last *node) []*node {
		switch k {
		case "first":
			return []*node{errForm[kind](), last}
		case "middle":
			return []*node{nI(1), errForm[kind](), last}
		}
		return []*node{nI(1), errForm[kind]()}
	}
	wrap := func(w string, c *node) *node {
		switch w {
		case "ignore-errors":
			return nCall("ignore-errors", c)
		case "handler-bind":
			h := nL(nS("lambda"), nL(nS("c"), nS("&rest"), nS("d")), nI(99))
			return nL(nS("handler-bind"), nL(nL(nS("condition"), h)), c)
		}
		return c
	}
	follow := map[string]func() *node{
		"ref-a": func() *node { return nS("a") },
		// the same value as the alphabet's (set 'a 2): no new states
		"set-a":   func() *node { return setq("a", nI(2)) },
		"defun-f": func() *node { return nCall("defun", nS("f"), empty, nS("a")) },
		"call-f":  func() *node { return nCall("f") },
	}
	followNames := []string{"ref-a", "set-a", "defun-f", "call-f"}
	wrappers := []string{"bare", "ignore-errors", "handler-bind"}
	ks := []string{"first", "middle", "last"}
	kinds := []string{"error", "unbound", "wrongtype"}

	add := func(name, class string, form *node, tier, lq, lt int, later, prog bool) {
		ops = append(ops, &opDef{Name: name, Class: class, form: form, tier: tier, maxLenQ: lq, maxLenT: lt, later: later, prog: prog})
	}

	// --- named callees: a function h / a macro hm defined in P by the same
	// operation (a leaf operation: its table is checked in full, later
	// operations are appended, but the states it reaches are not expanded, so
	// h and hm do not multiply the state space)
	type named struct {
		P, fn, k, kind string
		tier           int
	}
	defOf := func(d named) *node {
		definer, last := "defun", nS("a")
		if d.fn == "hm" {
			definer, last = "defmacro", nQS("a")
		}
		return nCall("load-string", nP(inPkg(d.P), nL(append([]*node{nS(definer), nS(d.fn), empty}, body(d.k, d.kind, last)...)...)))
	}
	for _, d := range []named{{"p", "h", "first", "error", 0}, {"p", "hm", "first", "error", 0},
		{"q", "h", "middle", "unbound", 1}, {"q", "hm", "middle", "wrongtype", 1}, {"p", "h", "last", "wrongtype", 1}} {
		lq, lt := 3, 4
		if d.tier == 1 {
			lt = 3
		}
		id := d.P + ":" + d.fn + ":" + d.k + ":" + d.kind
		for _, w := range wrappers {
			ops = append(ops, &opDef{Name: "errcall:named:" + id + ":" + w, Class: "error-in-body:named-" + d.fn + ":" + d.k + ":" + w,
				form: nCall("progn", defOf(d), wrap(w, nCall(d.P+":"+d.fn))), tier: d.tier, maxLenQ: lq, maxLenT: lt, later: true, prog: w != "bare", leaf: true})
		}
		if d.tier == 0 {
			w := "ignore-errors"
			if d.fn == "hm" {
				w = "handler-bind"
			}
			for _, f := range followNames {
				ops = append(ops, &opDef{Name: "errcall:named:" + id + ":" + w + ":then:" + f, Class: "error-in-body:named-" + d.fn + ":" + d.k + ":" + w + ":then-" + f,
					form: nCall("progn", defOf(d), wrap(w, nCall(d.P+":"+d.fn)), follow[f]()), maxLenQ: lq, maxLenT: lt, prog: true, leaf: true})
			}
		}
	}

	// --- anonymous callees: a lambda made while P is current, called at once
	lam := func(P, k, kind string) *node {
		l := nL(append([]*node{nS("lambda"), empty}, body(k, kind, nS("a"))...)...)
		return nL(nCall("load-string", nP(inPkg(P), l)))
	}
	quickSet := map[string]bool{"p:first:error": true, "p:middle:unbound": true, "p:last:wrongtype": true, "q:middle:error": true}
	for _, P := range []string{"p", "q"} {
		for _, k := range ks {
			for _, kind := range kinds {
				id := P + ":" + k + ":" + kind
				tier, lq, lt := 1, 3, 3
				if quickSet[id] {
					tier, lq, lt = 0, 3, 4
				}
				for _, w := range wrappers {
					add("errcall:lambda:"+id+":"+w, "error-in-body:lambda:"+k+":"+w, wrap(w, lam(P, k, kind)), tier, lq, lt, true, w != "bare")
				}
			}
		}
	}
	// the rest of the SAME operation after the handled error
	type fu struct {
		P, k, kind string
		tier       int
	}
	for _, c := range []fu{{"p", "first", "error", 0}, {"p", "middle", "unbound", 0}, {"p", "last", "wrongtype", 0},
		{"q", "first", "wrongtype", 1}, {"q", "middle", "error", 1}} {
		for _, w := range wrappers[1:] {
			if c.tier == 1 && w == "handler-bind" {
				continue
			}
			for _, f := range followNames {
				lq, lt := 3, 4
				if c.tier == 1 {
					lt = 3
				}
				add("errcall:lambda:"+c.P+":"+c.k+":"+c.kind+":"+w+":then:"+f, "error-in-body:lambda:"+c.k+":"+w+":then-"+f,
					nCall("progn", wrap(w, lam(c.P, c.k, c.kind)), follow[f]()), c.tier, lq, lt, false, true)
			}
		}
	}
	return ops
}

// coreOps is the reduced alphabet of the thorough tier's last level.
var coreOps = map[string]bool{
	"in-package:p": true, "in-package:q": true, "in-package:user": true,
	"export:a": true, "export:f": true, "use-package:p": true, "use-package:q": true,
	"set:a=1": true, "set:a=2": true, "set:p:a=3": true, "set!:a=4": true,
	"defun:f-reads-a": true, "defun:f-sets-a=5": true, "defmacro:m-expands-a": true,
	"load:q:set-a=6": true, "load:p:lib": true,
	"ref:a": true, "ref:p:a": true, "call:f": true, "call:p:f": true,
	"call:m": true, "let-a:call:f": true,
	"let-a:ref:user:a": true, "let-a:ref:p:a": true,
}

var allOps = buildAlphabet()

func opByName(name string) *opDef {
	for _, o := range allOps {
		if o.Name == name {
			return o
		}
	}
	return nil
}

// alphabet returns the operations of a tier, in the fixed enumeration order.
func alphabet(thorough bool) []*opDef {
	var out []*opDef
	for _, o := range allOps {
		if o.tier == 0 || (thorough && o.tier == 1) {
			out = append(out, o)
		}
	}
	return out
}
