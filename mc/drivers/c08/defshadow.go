package c08

// Definitions under a rebound language name.
//
// "A symbol defined by set, defun or defmacro is bound in the package that is
// current at that point" -- whatever else that package, or the lexical scope
// around the definition, binds.  defun and defmacro are macros of the language
// package; what their expansion mentions must reach the LANGUAGE's operators,
// not whatever the current package or scope calls by the same unqualified
// name.  The general search keeps the language's names out of its alphabet
// (what a program that rebinds `car` means otherwise is not this property's
// subject); this family asks only the statement's question.  For EVERY name N
// the language package exports (read from the registry of a fresh runtime),
// every way W of giving N another meaning at the place of the definition, and
// every definition form D whose own head is not N:
//
//	W  defun / defmacro / set of N in the current package p; use-package of a
//	   package that defines and exports N; N bound by let, flet, labels,
//	   macrolet or as a lambda parameter around the definition
//	D  (defun g () 41)   (defmacro gm () 42)   (set 'gv 43)
//
// one load evaluates  (in-package 'p) <W> (user:verif-here) <D>  -- the host
// builtin, always referenced by its qualified name, records the package that
// is current where the definition stands.  If it was reached (the rebinding
// itself may be refused: true, false, ...), then afterwards, read through the
// registry: that package binds the defined name to a function / macro / 43,
// calling it by its qualified name from package user answers 41 / 42, and
// package user did not gain the name.

import (
	"fmt"
	"sort"
	"strings"
	"sync/atomic"

	"github.com/luthersystems/elps/lisp"

	"verif/mc/core"
	"verif/mc/el"
)

var dsWays = []string{"defun", "defmacro", "set", "use-package", "let", "flet", "labels", "macrolet", "lambda-param"}

type dsDef struct{ head, form, name, call, want string }

var dsDefs = []dsDef{
	{"defun", "(defun g () 41)", "g", "(%s:g)", "41"},
	{"defmacro", "(defmacro gm () 42)", "gm", "(%s:gm)", "42"},
	{"set", "(set 'gv 43)", "gv", "%s:gv", "43"},
}

func dsProgram(n, way string, d dsDef) string {
	here := "(user:verif-here)"
	switch way {
	case "defun":
		return "(in-package 'p) (defun " + n + " (&rest xs) 'shadow) " + here + " " + d.form
	case "defmacro":
		return "(in-package 'p) (defmacro " + n + " (&rest xs) ''shadow) " + here + " " + d.form
	case "set":
		return "(in-package 'p) (set '" + n + " 7) " + here + " " + d.form
	case "use-package":
		return "(in-package 'lib) (defun " + n + " (&rest xs) 'shadow) (export '" + n + ") (in-package 'p) (use-package 'lib) " + here + " " + d.form
	case "let":
		return "(in-package 'p) (let ([" + n + " 7]) " + here + " " + d.form + ")"
	case "flet":
		return "(in-package 'p) (flet ([" + n + " (&rest xs) 'shadow]) " + here + " " + d.form + ")"
	case "labels":
		return "(in-package 'p) (labels ([" + n + " (&rest xs) 'shadow]) " + here + " " + d.form + ")"
	case "macrolet":
		return "(in-package 'p) (macrolet ([" + n + " (&rest xs) ''shadow]) " + here + " " + d.form + ")"
	case "lambda-param":
		return "(in-package 'p) ((lambda (" + n + ") " + here + " " + d.form + ") 7)"
	}
	panic("c08: unknown way " + way)
}

// dsRun evaluates one case; class == "" means the statement held (or the case
// never reached the definition, outcome says why).
func dsRun(n, way string, d dsDef) (class, outcome, expected, got, src string) {
	src = dsProgram(n, way, d)
	var here []string
	env := el.MustEnv(el.Opts{Builtins: []lisp.LBuiltinDef{
		el.Fn("verif-here", nil, func(e *lisp.LEnv, _ *lisp.LVal) *lisp.LVal {
			here = append(here, e.Runtime.Package.Name)
			return lisp.Nil()
		}),
	}})
	res := env.Load(src)
	if len(here) == 0 {
		return "", "definition-not-reached:" + way + ":" + ifErr(res.IsErr, "error", "value"), "", "", src
	}
	pkgName := here[len(here)-1]
	if res.IsErr {
		return "def-under-rebound-language-name:" + way + ":" + d.head + ":definition-fails",
			"", "the definition is evaluated (the name rebound, " + n + ", is not what the definition form calls)", res.String(), src
	}
	pkg := env.Runtime.Registry.Package(pkgName)
	if pkg == nil {
		return "harness-error", "", "package " + pkgName + " exists", "missing", src
	}
	v, ok := pkg.Symbol(d.name)
	bad := func(what, exp, g string) (string, string, string, string, string) {
		return "def-under-rebound-language-name:" + way + ":" + d.head + ":" + what, "", exp, g, src
	}
	if !ok || v == nil {
		return bad("not-bound-in-current-package", d.name+" bound in package "+pkgName, "unbound there")
	}
	switch d.head {
	case "defun":
		if v.Type != lisp.LFun || v.FunType != lisp.LFunNone {
			return bad("bound-to-something-else", "a function", fmt.Sprint(v.Type))
		}
	case "defmacro":
		if v.Type != lisp.LFun || v.FunType != lisp.LFunMacro {
			return bad("bound-to-something-else", "a macro", fmt.Sprint(v.Type))
		}
	case "set":
		if v.Type != lisp.LInt || v.Int != 43 {
			return bad("bound-to-something-else", "43", v.String())
		}
	}
	if pkgName != "user" {
		if uv, ok := env.Runtime.Registry.Package("user").Symbol(d.name); ok && uv != nil {
			return bad("leaks-into-user", d.name+" unbound in package user", "bound there")
		}
	}
	call := env.Load(fmt.Sprintf(d.call, pkgName))
	if call.IsErr || call.Text != d.want {
		return bad("qualified-use-differs", d.want, call.String())
	}
	return "", "defined-in:" + pkgName + ":" + way + ":" + d.head, "", "", src
}

func ifErr(c bool, a, b string) string {
	if c {
		return a
	}
	return b
}

func runDefShadow(r *core.Run) {
	probe := el.MustEnv(el.Opts{})
	lang := probe.Runtime.Registry.Package(probe.Runtime.Registry.Lang)
	names := append([]string(nil), lang.Externals()...)
	sort.Strings(names)
	type cs struct {
		n, way string
		d      dsDef
	}
	var cases []cs
	for _, n := range names {
		if strings.ContainsAny(n, "()[]'\";") {
			continue
		}
		for _, w := range dsWays {
			for _, d := range dsDefs {
				if d.head == n {
					continue
				}
				cases = append(cases, cs{n, w, d})
			}
		}
	}
	var reached int64
	core.ParallelRange(r, int64(len(cases)), nil, func(_ struct{}, i int64) {
		c := cases[i]
		class, outcome, exp, got, src := dsRun(c.n, c.way, c.d)
		r.AddEvals(1)
		r.AddTraces(1)
		if class != "" {
			// re-confirm on fresh runtimes before believing it
			for k := 0; k < 5; k++ {
				if c2, _, _, _, _ := dsRun(c.n, c.way, c.d); c2 != class {
					r.Flaky(map[string]any{"case": src, "class": class})
					return
				}
			}
			r.Violate("c08", class+":"+c.n, kase{Mode: "defshadow", Ops: []string{c.n, c.way, c.d.head}, Src: []string{src}}, exp, got,
				"a symbol defined by set, defun or defmacro is bound in the package that is current at that point")
			r.Outcome("defshadow VIOLATION " + class)
			return
		}
		if strings.HasPrefix(outcome, "defined-in:") {
			atomic.AddInt64(&reached, 1)
		}
		r.Outcome("defshadow " + outcome)
	})
	r.Bound("def_under_rebound_language_name_names", len(names))
	r.Bound("def_under_rebound_language_name_ways", dsWays)
	r.Bound("def_under_rebound_language_name_definitions", []string{dsDefs[0].form, dsDefs[1].form, dsDefs[2].form})
	r.Extra("def_under_rebound_language_name_cases", len(cases))
	r.Extra("def_under_rebound_language_name_definitions_reached", atomic.LoadInt64(&reached))
}

func replayDefShadow(k kase) (bool, string) {
	if len(k.Ops) != 3 {
		return false, "malformed defshadow case"
	}
	for _, d := range dsDefs {
		if d.head == k.Ops[2] {
			class, outcome, exp, got, src := dsRun(k.Ops[0], k.Ops[1], d)
			return class != "", fmt.Sprintf("%s\nclass=%s outcome=%s\nexpected %s\ngot      %s\n", src, class, outcome, exp, got)
		}
	}
	return false, "unknown definition form"
}
