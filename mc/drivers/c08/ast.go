package c08

import (
	"crypto/sha256"
	"encoding/hex"
	"fmt"
	"strconv"
	"strings"

	"github.com/luthersystems/elps/lisp"
)

// node is the abstract term of the tiny form language the driver enumerates.
// The reference model interprets the term; the real interpreter receives the
// term rendered to source text, so the reader is inside the loop.
type node struct {
	k    byte // 'i' int, 's' symbol, 't' string literal, 'q' quote, 'l' list, 'P' program string (argument of load-string), 'F' program file (argument of load-file; s = its location in memFiles)
	i    int
	s    string
	kids []*node
	tail string // 'P' only: raw text appended to the program (used to make it unparsable)
}

func nI(i int) *node          { return &node{k: 'i', i: i} }
func nS(s string) *node       { return &node{k: 's', s: s} }
func nQ(n *node) *node        { return &node{k: 'q', kids: []*node{n}} }
func nT(s string) *node       { return &node{k: 't', s: s} }
func nQS(s string) *node      { return nQ(nS(s)) }
func nL(kids ...*node) *node  { return &node{k: 'l', kids: kids} }
func nP(forms ...*node) *node { return &node{k: 'P', kids: forms} }
func nCall(head string, args ...*node) *node {
	return nL(append([]*node{nS(head)}, args...)...)
}
func nBadP(tail string, forms ...*node) *node {
	return &node{k: 'P', kids: forms, tail: tail}
}

// memLib is the runtime's source library (what load-file reads): an in-memory,
// read-only table location -> program text, filled while the alphabet is built
// (package initialisation, one goroutine) and installed in every runtime.
type memLib map[string]string

func (m memLib) LoadSource(_ lisp.SourceContext, loc string) (string, string, []byte, error) {
	src, ok := m[loc]
	if !ok {
		return "", "", nil, fmt.Errorf("c08: no such source file %q", loc)
	}
	return loc, loc, []byte(src), nil
}

var memFiles = memLib{}

// nF is a program kept in the source library; the term renders as the string
// literal of its location (derived from the text, so equal programs share one
// file and the name is stable across runs).
func nF(forms ...*node) *node {
	text := renderForms(forms)
	h := sha256.Sum256([]byte(text))
	n := &node{k: 'F', kids: forms, s: "c08-" + hex.EncodeToString(h[:6]) + ".lisp"}
	memFiles[n.s] = text
	return n
}

func (n *node) render() string {
	var b strings.Builder
	n.renderTo(&b)
	return b.String()
}

func (n *node) renderTo(b *strings.Builder) {
	switch n.k {
	case 'i':
		b.WriteString(strconv.Itoa(n.i))
	case 's':
		b.WriteString(n.s)
	case 't':
		b.WriteByte('"')
		b.WriteString(escapeString(n.s))
		b.WriteByte('"')
	case 'q':
		b.WriteByte('\'')
		n.kids[0].renderTo(b)
	case 'l':
		b.WriteByte('(')
		for i, k := range n.kids {
			if i > 0 {
				b.WriteByte(' ')
			}
			k.renderTo(b)
		}
		b.WriteByte(')')
	case 'P':
		b.WriteByte('"')
		b.WriteString(escapeString(renderForms(n.kids) + n.tail))
		b.WriteByte('"')
	case 'F':
		b.WriteByte('"')
		b.WriteString(escapeString(n.s))
		b.WriteByte('"')
	}
}

func renderForms(forms []*node) string {
	parts := make([]string, len(forms))
	for i, f := range forms {
		parts[i] = f.render()
	}
	return strings.Join(parts, " ")
}

func escapeString(s string) string {
	s = strings.ReplaceAll(s, `\`, `\\`)
	return strings.ReplaceAll(s, `"`, `\"`)
}

func (n *node) isSym() bool { return n != nil && n.k == 's' }

// quotedSym returns the symbol name of a 'sym node.
func (n *node) quotedSym() (string, bool) {
	if n != nil && n.k == 'q' && n.kids[0].k == 's' {
		return n.kids[0].s, true
	}
	return "", false
}
