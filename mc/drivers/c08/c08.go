// Package c08: packages isolate and resolve names as documented.
//
// Explicit-state breadth-first search over operation HISTORIES in one runtime
// (DESIGN §1a E-BFS, §C08).  A state is the list of top-level forms that
// reaches it; a successor is "replay the whole history on a FRESH real runtime
// plus one more operation".  The reference is a small Go model
// {packages: name -> {bindings, sorted exports}, current package} (model.go)
// that implements the statement literally.  After the new operation the driver
// compares the operation's value / condition, Runtime.Package.Name and the
// FULL package table read back through the public registry API
// (PackageRegistry.PackageNames, Package.SymbolNames / Symbol / Externals).
// States are de-duplicated by the canonical model table.
//
// Every expanded state is additionally replayed as ONE program through
// LEnv.LoadString with the production reader: same effects, the value of the
// last form (or the first error, which stops the load), and the loader's
// package restored.  Transitions whose operation is a qualified reference under
// a lexical binding of the same name (ops.go shadowOps) are executed in both
// modes.  The loaders (load-string, load-bytes, load-file) are additionally
// called from inside every kind of lexical scope that binds a name the loaded
// text uses (loadscope.go): the loaded text sees the package binding only.
package c08

import (
	"os"
	"crypto/sha256"
	"fmt"
	"runtime/debug"
	"sort"
	"strings"
	"sync"
	"sync/atomic"

	"verif/mc/core"
)

func init() {
	core.Register(&core.Driver{Property: "C08", Run: run, Replay: replay})
}

// kase is one straight-line case: a history of operation names; in "forms"
// mode the last one is the operation under test, in "program" mode the whole
// history is loaded as one source text.
type kase struct {
	Mode   string   `json:"mode"`
	Ops    []string `json:"ops"`
	Src    []string `json:"src"`
	Stdlib bool     `json:"stdlib"`
}

type result struct {
	diffs    []diff
	class    string
	preKey   string
	postKey  string
	pred     predicted
	got      string
	harness  string // non-empty: the case could not be judged (prefix diverged, op unparsable)
	zoneSkip string // non-empty: unspecified zone, runtime departed from the prediction inside the loose constraint
	lastOp   *opDef
}

func resolveOps(names []string) ([]*opDef, error) {
	ops := make([]*opDef, len(names))
	for i, n := range names {
		ops[i] = opByName(n)
		if ops[i] == nil {
			return nil, fmt.Errorf("unknown operation %q", n)
		}
	}
	return ops, nil
}

// runForms replays ops[:n-1] on a fresh runtime (checking only that each
// prefix operation lands in the predicted error/value class: every prefix was
// fully checked when it was itself the operation under test) and then checks
// the last operation completely.
func runForms(ops []*opDef, stdlib bool) result {
	var res result
	st := newState()
	r := newRT(stdlib, false)
	for k, op := range ops[:len(ops)-1] {
		pred := st.step(op)
		o, _, err := r.evalForm(op.src)
		if err != nil {
			res.harness = err.Error()
			return res
		}
		if pred.probe == nil && pred.isErr != o.IsErr {
			res.harness = fmt.Sprintf("prefix operation %d (%s) diverged from the run that established it: model %s, got %s", k, op.src, pred, o.Full())
			return res
		}
	}
	op := ops[len(ops)-1]
	res.lastOp = op
	res.preKey = st.key()
	var pre *state
	pre = st.clone()
	pred := st.step(op)
	res.pred = pred
	o, v, err := r.evalForm(op.src)
	if err != nil {
		res.harness = err.Error()
		return res
	}
	res.got = o.Full() + " current=" + r.env.Runtime.Package.Name
	res.postKey = st.key()
	ds := compareOutcome(pred, o, v)
	ds = append(ds, r.checkTable(st, st.cur)...)
	if len(ds) > 0 && pred.zone != "" {
		cand := r.zoneCandidate(pre, pred)
		if len(r.checkTable(cand, cand.cur)) == 0 {
			res.zoneSkip = pred.zone
			return res
		}
	}
	res.diffs = ds
	if len(ds) > 0 {
		res.class = op.Class + ":" + ds[0].kind
		if pred.tag != "" {
			res.class = op.Class + ":" + pred.tag + ":" + ds[0].kind
		}
	}
	return res
}

// runProgram loads the whole history as one source text.  The model: forms
// are evaluated in order, the first error stops the load and is its result,
// otherwise the result is the last form's value; afterwards the package that
// was current before the load ("user") is current again.
func runProgram(ops []*opDef, stdlib bool) result {
	var res result
	st := newState()
	var pred predicted
	srcs := make([]string, len(ops))
	for i, op := range ops {
		srcs[i] = op.src
	}
	tag := ""
	for _, op := range ops {
		pred = st.step(op)
		if pred.tag != "" {
			tag = pred.tag
		}
		if pred.probe != nil || pred.zone != "" {
			// where a load stops is not determined inside an unspecified zone
			res.zoneSkip = "program-with-unspecified-operation"
			return res
		}
		if pred.isErr {
			break
		}
	}
	res.pred = pred
	res.lastOp = ops[len(ops)-1]
	st.cur = userPkg
	res.postKey = st.key()
	r := newRT(stdlib, true)
	o := r.env.Load(strings.Join(srcs, "\n"))
	res.got = o.Full() + " current=" + r.env.Runtime.Package.Name
	ds := compareOutcomeText(pred, o)
	ds = append(ds, r.checkTable(st, userPkg)...)
	res.diffs = ds
	if len(ds) > 0 {
		res.class = "program:" + res.lastOp.Class + ":" + ds[0].kind
		if tag != "" {
			res.class = "program:" + res.lastOp.Class + ":" + tag + ":" + ds[0].kind
		}
	}
	return res
}

func runCase(k kase) result {
	ops, err := resolveOps(k.Ops)
	if err != nil {
		return result{harness: err.Error()}
	}
	if len(ops) == 0 {
		return result{harness: "empty history"}
	}
	if k.Mode == "program" {
		return runProgram(ops, k.Stdlib)
	}
	return runForms(ops, k.Stdlib)
}

// ---------------------------------------------------------------------------

type hkey [16]byte

func hashKey(s string) hkey {
	h := sha256.Sum256([]byte(s))
	var k hkey
	copy(k[:], h[:16])
	return k
}

type cand struct {
	idx int64
	key hkey
}

type explorer struct {
	r   *core.Run
	ops []*opDef

	mu      sync.Mutex
	cands   []cand
	zones   int64
	progs   int64
	ntriv   int64
	evals   int64
	sample  int64
	laterN  int64
	opIndex map[string]int
	zoneIn  int64
	featN   [16]int64
}

// stdlibDepth: forms-mode runtimes carry the standard library (11 more
// packages that must stay untouched) for histories up to this length; longer
// histories (thorough tier only) run on the core runtime (language + user
// package), which halves the cost of a transition.  Program-mode loads always
// carry the standard library.
const stdlibDepth = 4

// progDepth: transitions whose operation is flagged prog (the shadowed
// qualified references) are also executed in program mode when the history,
// operation included, is at most this long.
const progDepth = 4

func (e *explorer) kaseOf(mode string, hist []uint16, op int) kase {
	n := len(hist)
	if op >= 0 {
		n++
	}
	k := kase{Mode: mode, Stdlib: mode == "program" || n <= stdlibDepth}
	for _, h := range hist {
		k.Ops = append(k.Ops, e.ops[h].Name)
		k.Src = append(k.Src, e.ops[h].src)
	}
	if op >= 0 {
		k.Ops = append(k.Ops, e.ops[op].Name)
		k.Src = append(k.Src, e.ops[op].src)
	}
	return k
}

// judgeAs is judge for a case whose class carries a prefix the straight-line
// rerun does not know: the rerun's class is compared by suffix.
func (e *explorer) judgeAs(k kase, res result) {
	if res.harness != "" {
		e.r.Flaky(map[string]any{"case": k, "problem": res.harness})
		return
	}
	for i := 0; i < 5; i++ {
		again := runCase(k)
		if len(again.diffs) == 0 || !strings.HasSuffix(res.class, again.class) {
			e.r.Flaky(map[string]any{"case": k, "first": diffsString(res.diffs), "rerun": diffsString(again.diffs)})
			return
		}
	}
	e.r.Violate("c08", res.class, k, res.pred.String()+" and the model's table", res.got+" || "+diffsString(res.diffs),
		"operation under test: "+res.lastOp.src+" (a later operation after a failed or handled cross-package call)")
}

// judge handles a disagreement: re-confirm 5x in fresh runtimes, then report.
func (e *explorer) judge(k kase, res result) {
	if res.harness != "" {
		e.r.Flaky(map[string]any{"case": k, "problem": res.harness})
		return
	}
	if len(res.diffs) == 0 {
		return
	}
	for i := 0; i < 5; i++ {
		again := runCase(k)
		if again.class != res.class || len(again.diffs) == 0 {
			e.r.Flaky(map[string]any{"case": k, "first": diffsString(res.diffs), "rerun": diffsString(again.diffs)})
			return
		}
	}
	note := ""
	if res.lastOp != nil {
		note = "operation under test: " + res.lastOp.src
	}
	e.r.Violate("c08", res.class, k, res.pred.String()+" and the model's table", res.got+" || "+diffsString(res.diffs), note)
}

func (e *explorer) transition(hist []uint16, op int, idx int64, alsoProgram bool) {
	if alsoProgram && e.ops[op].prog {
		// the same history + operation as ONE source text through LoadString
		h := append(append(make([]uint16, 0, len(hist)+1), hist...), uint16(op))
		e.program(h)
	}
	k := e.kaseOf("forms", hist, op)
	ops := make([]*opDef, 0, len(hist)+1)
	for _, h := range hist {
		ops = append(ops, e.ops[h])
	}
	ops = append(ops, e.ops[op])
	res := runForms(ops, k.Stdlib)
	e.r.AddTransitions(1)
	e.r.AddTraces(1)
	atomic.AddInt64(&e.evals, int64(len(ops)))
	if res.zoneSkip != "" {
		atomic.AddInt64(&e.zones, 1)
		e.r.Outcome(e.ops[op].Class + " UNSPECIFIED-ZONE-DEPARTURE " + res.zoneSkip)
		return // not explored further: the model cannot follow
	}
	if res.harness != "" || len(res.diffs) > 0 {
		e.judge(k, res)
		return // a state the model disagrees with is not expanded
	}
	oc := "VAL"
	switch {
	case res.pred.probe != nil:
		oc = "PROBE"
	case res.pred.isErr:
		oc = "ERR<" + res.pred.cond + ">"
	}
	changed := res.postKey != res.preKey
	cls := e.ops[op].Class + " " + oc
	if changed {
		cls += " table-changed"
	}
	if res.pred.zone != "" {
		cls += " zone:" + res.pred.zone
		atomic.AddInt64(&e.zoneIn, 1)
	}
	if f := featString(res.pred.feats); f != "" {
		cls += " [" + f + "]"
	}
	e.r.Outcome(cls)
	for i := range featNames {
		if res.pred.feats&(1<<uint(i)) != 0 {
			atomic.AddInt64(&e.featN[i], 1)
		}
	}
	if res.pred.feats&crossPackageFeats != 0 {
		atomic.AddInt64(&e.ntriv, 1)
		e.r.Nontrivial(res.preKey + "\x00" + e.ops[op].Name)
		if atomic.AddInt64(&e.sample, 1)%997 == 1 {
			e.r.Sample(map[string]any{"history": k.Src, "model": res.pred.String(), "got": res.got, "features": featString(res.pred.feats)})
		}
	}
	if changed && !e.ops[op].isLeafAt(len(ops)) {
		e.mu.Lock()
		e.cands = append(e.cands, cand{idx: idx, key: hashKey(res.postKey)})
		e.mu.Unlock()
	}
	if e.ops[op].later && len(ops) <= laterDepth {
		// the session goes on after the failed / handled call: each later
		// operation is applied as a separate operation and checked in full
		set := e.ops[op].laterSet
		if set == nil {
			set = laterOps
		}
		for _, ln := range set {
			li, ok := e.opIndex[ln]
			if !ok {
				continue // not in this tier's alphabet
			}
			h := append(append(make([]uint16, 0, len(hist)+1), hist...), uint16(op))
			lk := e.kaseOf("forms", h, li)
			lops := append(append(make([]*opDef, 0, len(ops)+1), ops...), e.ops[li])
			lres := runForms(lops, lk.Stdlib)
			e.r.AddTransitions(1)
			e.r.AddTraces(1)
			atomic.AddInt64(&e.laterN, 1)
			atomic.AddInt64(&e.evals, int64(len(lops)))
			if lres.zoneSkip != "" {
				continue
			}
			if lres.harness != "" || len(lres.diffs) > 0 {
				if lres.class != "" {
					lres.class = "after:" + e.ops[op].Class + ":" + lres.class
				}
				e.judgeAs(lk, lres)
				continue
			}
			e.r.Outcome("later-operation after " + e.ops[op].Class + ": " + e.ops[li].Class)
		}
	}
}

func (e *explorer) program(hist []uint16) {
	if len(hist) == 0 {
		return
	}
	k := e.kaseOf("program", hist, -1)
	res := runCase(k)
	atomic.AddInt64(&e.progs, 1)
	atomic.AddInt64(&e.evals, int64(len(hist)))
	e.r.AddTraces(1)
	if res.zoneSkip != "" {
		e.r.Outcome("program SKIPPED " + res.zoneSkip)
		return
	}
	if res.harness != "" || len(res.diffs) > 0 {
		e.judge(k, res)
		return
	}
	if res.pred.isErr {
		e.r.Outcome("program ERR<" + res.pred.cond + "> stops the load, package restored")
	} else {
		e.r.Outcome("program VAL, package restored")
	}
}

func run(r *core.Run) {
	// quick: every history of length <= 4 over the quick alphabet.
	// thorough: every history of length <= 5 over the full alphabet, plus every
	// extension of a length-5 state by one operation of the reduced (core)
	// alphabet.
	depth, fullDepth := 4, 4
	if r.Thorough() {
		depth, fullDepth = 6, 5
	}
	// Every transition allocates a whole runtime (short-lived garbage) while
	// the live heap (state sets) reaches a few hundred MB at the last thorough
	// level: with the default GOGC the collector re-marks that live heap every
	// few hundred transitions.  Trade memory for CPU, with a hard ceiling.
	defer debug.SetGCPercent(debug.SetGCPercent(250))
	defer debug.SetMemoryLimit(debug.SetMemoryLimit(3 << 30))
	if os.Getenv("VERIF_C08_ONLY") == "defshadow" {
		runDefShadow(r)
		return
	}
	ops := alphabet(r.Thorough())
	e := &explorer{r: r, ops: ops, opIndex: map[string]int{}}
	for i, o := range ops {
		e.opIndex[o.Name] = i
	}
	if len(ops) > 65535 {
		r.Violate("c08", "harness-error", nil, "alphabet fits the history encoding", fmt.Sprint(len(ops)), "")
		return
	}
	for _, ln := range laterOps {
		if _, ok := e.opIndex[ln]; !ok {
			r.Violate("c08", "harness-error", nil, "later operation "+ln+" is in the alphabet", "it is not", "")
			return
		}
	}

	// start-up assertions of the harness (not of the property)
	probeRT := newRT(true, false)
	for _, w := range watched {
		if _, ok := probeRT.base[probeRT.lang].vals[w]; ok {
			r.Violate("c08", "harness-error", nil, "watched name "+w+" is not a language name", "it is", "")
			return
		}
	}
	for _, pn := range []string{"p", "q"} {
		if probeRT.base[pn] != nil {
			r.Violate("c08", "harness-error", nil, "package "+pn+" does not exist in a fresh runtime", "it does", "")
			return
		}
	}
	if len(probeRT.langNames) != len(probeRT.base[probeRT.lang].ext) {
		r.Violate("c08", "harness-error", nil, "every export of the language package is bound", "some are not", "")
		return
	}

	names := make([]string, len(ops))
	for i, o := range ops {
		names[i] = o.src
	}
	r.Bound("max_history_depth", depth)
	r.Bound("forms_mode_runtime", fmt.Sprintf("standard library loaded for histories of length <= %d, core runtime (lisp + user) beyond; program-mode loads: standard library + production reader", stdlibDepth))
	r.Bound("alphabet_size", len(ops))
	r.Bound("full_alphabet_up_to_depth", fullDepth)
	r.Bound("program_mode_per_transition_up_to_depth", progDepth)
	r.Bound("later_operations", laterOps)
	r.Bound("later_operations_after_a_rebinding_shortcut", importOps)
	r.Bound("later_operations_up_to_depth", laterDepth+1)
	r.Bound("load_in_scope_scope_kinds", loadScopes)
	r.Bound("load_in_scope_entry_points", loadEntries)
	r.Bound("load_in_scope_loaded_texts", loadTexts)
	r.Bound("load_in_scope_product", "quick: every (scope, text) for load-string + every (entry point, text) under let + every (scope, entry point) for read, without the text set; thorough: the whole product (macro parameter: read only); each a leaf operation on every state reached by <= 2 operations")
	r.Bound("load_in_scope_later_operations_after_a_loaded_defun", loadScopeLater)
	nls := 0
	for _, o := range ops {
		if strings.HasPrefix(o.Name, "load-in-scope:") {
			nls++
		}
	}
	r.Bound("load_in_scope_operations_in_this_tier", nls)
	limited := map[string]int{}
	minLimited := map[string]int{}
	for _, o := range ops {
		m := o.maxLenQ
		if r.Thorough() {
			m = o.maxLenT
		}
		if m > 0 {
			limited[o.src] = m
		}
		if o.minLen > 0 {
			minLimited[o.src] = o.minLen
		}
	}
	r.Bound("depth_limited_operations(max history length incl. the operation)", limited)
	r.Bound("operations_applied_only_from_history_length", minLimited)
	var coreNames []string
	for _, o := range ops {
		if o.core {
			coreNames = append(coreNames, o.src)
		}
	}
	if depth > fullDepth {
		r.Bound("reduced_alphabet_beyond", coreNames)
		r.Bound("reduced_alphabet_size", len(coreNames))
	}
	r.Bound("alphabet", names)
	r.Bound("packages", []string{"user", "p", "q", "+ every package of a fresh runtime with the standard library (read back, must stay untouched)"})
	r.Bound("watched_names", watched)
	r.Bound("language_exports_checked_per_new_package", len(probeRT.langNames))
	r.Rule("a transition (canonical pre-state, operation) is non-trivial when the model's evaluation of the operation exercised a cross-package mechanism: " +
		"a function body ran in a package other than the caller's, a lexical binding shadowed a package binding, an unqualified name failed although another package binds it, " +
		"a qualified reference crossed packages or reached an unexported binding, a copied binding differs from its source (snapshot), a load restored the package, " +
		"use-package copied a binding, a macro expansion resolved at the call site, a definition landed outside the top-level current package, " +
		"or an unqualified name in a loaded text went to the current package although the lexical scope the loader was called from binds it. " +
		"Load-in-scope family: load-string / load-bytes / load-file called from inside every kind of lexical scope that binds a (let, let*, lambda parameter, dotimes, flet, labels, closure, parameter of a function made in another package, of a named function, of a macro) with a loaded text that reads a, set!s it, defines or returns a function reading it, loads a further text reading it, or does so after its own in-package: the loaded text sees the package binding, the scope keeps its own")
	r.Assume("operations are evaluated one top-level form at a time with LEnv.Eval in the root environment (what the REPL does), so that in-package persists between operations; LEnv.LoadString restores the package and is checked separately (program mode with the production reader and the standard library: one load per expanded state, and one load per transition for every shadowed-qualified-reference operation while the history is at most 4 operations long)")
	r.Assume("a qualified target (set 'p:a v) binds a in package p: docs/lang.md calls a qualified symbol 'another way to spell a name'")
	r.Assume("set! only mutates an existing lexical or current-package binding and signals an error otherwise (docstring of set, error text of set!); the VALUE of set!, defun, defmacro is not specified and only its error/value class is compared")
	r.Assume("errors are compared by condition name only; a reference through an unknown package, use-package of an unknown package and a qualified set into an unknown package are errors that create nothing")
	r.Assume("UNSPECIFIED Z1: use-package of a package that exports a name it does not bind. The statement says which bindings are copied, not what happens to such a name; the model predicts the pinned behaviour (copy in sorted export order up to the unbound name, then an error) and a departure is tolerated (branch not expanded, counted as UNSPECIFIED-ZONE-DEPARTURE) if every exported name is, in the using package, either as before or as in the source, and nothing else changed")
	r.Assume("UNSPECIFIED Z2: whether an attempt to bind true/false/:k is an error or is silently ineffective; asserted: the result never shows the rebinding, no table gains a name, the current package stays")
	r.Assume("after any call returns or fails the package that was current before it is current again; ignore-errors answers nil for an absorbed error, handler-bind with the catch-all clause answers its handler's value (docs of both operators)")
	r.Assume("an import (use-package, or the creation of a package over the language package) copies the values current at that moment, however they came to be current: set, set! at top level or inside a function of the exporting package, qualified set, defun/defmacro redefinition")
	r.Assume("in-package inside a FUNCTION body, set! on a qualified name, and exporting names of the language package are outside the alphabet (the statement does not speak about them); what a program that rebinds a name of the language package means OTHERWISE is outside it too, with one exception the statement does cover: a definition by set / defun / defmacro still binds its name in the current package when the package or the scope around it gives another meaning to any OTHER language name (def-under-rebound-language-name family: every exported language name x 9 ways of rebinding it x 3 definition forms, judged by reading the registry)")
	r.Assume("a source given to load-string / load-bytes / load-file is a separate program text ('Parses and evaluates source-code as ELPS source', 'Loads and evaluates the ELPS source file': the builtins' docstrings): lexically it stands inside nothing, so an unqualified name in it has no lexical binding to resolve to and goes to the current package; the comment in the three builtins says the same ('the loaded code does not share the current lexical environment')")
	r.Assume("canonical state = current package + for every model package its export list and every non-base binding (integers by value; functions by kind, defining package, parameter list, body text and captured lexical bindings). Function identity (which bindings share one function object) is checked against the model in every state but is not part of the key: two functions with equal descriptions are observationally equal for every operation of the alphabet")

	type fstate struct{ hist []uint16 }
	frontier := []fstate{{}}
	seen := map[hkey]struct{}{hashKey(newState().key()): {}}
	levels := []map[string]int64{}
	maxDepth := 0
	lastFull := false
	for d := 1; d <= depth; d++ {
		// operations of this level: the whole alphabet up to fullDepth, the
		// reduced (core) alphabet beyond
		full := d <= fullDepth
		var sub []int
		for i, o := range ops {
			if (full || o.core) && o.allowedAt(d, r.Thorough()) {
				sub = append(sub, i)
			}
		}
		nsub := int64(len(sub))
		e.cands = e.cands[:0]
		n := int64(len(frontier)) * nsub
		var done int64
		core.ParallelRange(r, n, nil, func(_ struct{}, idx int64) {
			i, j := idx/nsub, int(idx%nsub)
			if j == 0 {
				e.program(frontier[i].hist)
			}
			e.transition(frontier[i].hist, sub[j], idx, d <= progDepth)
			atomic.AddInt64(&done, 1)
		})
		if done < n {
			levels = append(levels, map[string]int64{"depth": int64(d), "alphabet": nsub, "expanded_states": int64(len(frontier)), "transitions": done, "complete": 0})
			break // ParallelRange recorded the cap
		}
		sort.Slice(e.cands, func(a, b int) bool { return e.cands[a].idx < e.cands[b].idx })
		var next []fstate
		for _, c := range e.cands {
			if _, ok := seen[c.key]; ok {
				continue
			}
			seen[c.key] = struct{}{}
			i, j := c.idx/nsub, int(c.idx%nsub)
			h := make([]uint16, len(frontier[i].hist)+1)
			copy(h, frontier[i].hist)
			h[len(h)-1] = uint16(sub[j])
			next = append(next, fstate{hist: h})
		}
		levels = append(levels, map[string]int64{"depth": int64(d), "alphabet": nsub, "expanded_states": int64(len(frontier)), "transitions": done, "new_states": int64(len(next)), "complete": 1})
		maxDepth = d
		lastFull = full
		frontier = next
		if len(frontier) == 0 {
			break
		}
	}
	// States first reached at the last level are not expanded; when that level
	// ran the whole alphabet their histories are still replayed as one program.
	if maxDepth == depth && lastFull && len(frontier) > 0 && !r.Expired() {
		core.ParallelRange(r, int64(len(frontier)), nil, func(_ struct{}, i int64) {
			e.program(frontier[i].hist)
		})
	}
	if !r.Expired() {
		runDefShadow(r)
	}
	r.AddStates(int64(len(seen)))
	r.AddEvals(atomic.LoadInt64(&e.evals))
	r.Extra("max_depth_completed", maxDepth)
	r.Extra("levels", levels)
	r.Extra("program_mode_loads", atomic.LoadInt64(&e.progs))
	r.Extra("later_operation_transitions", atomic.LoadInt64(&e.laterN))
	r.Extra("nontrivial_transitions", atomic.LoadInt64(&e.ntriv))
	r.Extra("unspecified_zone_departures", atomic.LoadInt64(&e.zones))
	r.Extra("unspecified_zone_transitions_matching_prediction", atomic.LoadInt64(&e.zoneIn))
	fc := map[string]int64{}
	for i, n := range featNames {
		fc[n] = atomic.LoadInt64(&e.featN[i])
	}
	r.Extra("transitions_by_mechanism", fc)
	fmt.Printf("C08 depth=%d alphabet=%d states=%d transitions=%d program_loads=%d nontrivial_transitions=%d levels=%v\n",
		maxDepth, len(ops), len(seen), r.Transitions, e.progs, e.ntriv, levels)
}

func replay(v core.Violation) (bool, string) {
	k, err := core.CaseOf[kase](v)
	if err != nil {
		return false, err.Error()
	}
	if k.Mode == "defshadow" {
		return replayDefShadow(k)
	}
	res := runCase(k)
	var b strings.Builder
	fmt.Fprintf(&b, "mode=%s\n", k.Mode)
	for i, s := range k.Src {
		fmt.Fprintf(&b, "  %d: %s\n", i, s)
	}
	if res.harness != "" {
		fmt.Fprintf(&b, "could not judge: %s\n", res.harness)
		return false, b.String()
	}
	fmt.Fprintf(&b, "model: %s\ngot:   %s\n", res.pred.String(), res.got)
	if res.zoneSkip != "" {
		fmt.Fprintf(&b, "unspecified zone: %s\n", res.zoneSkip)
	}
	for _, d := range res.diffs {
		fmt.Fprintf(&b, "DIFF %s\n", d)
	}
	return len(res.diffs) > 0, b.String()
}
