package c08

import "testing"

func TestProbe(t *testing.T) {
	r := newRT(true, false)
	for _, s := range []string{
		"(set 'a 1)",
		"(ignore-errors (error 'boom 1))",
		"(ignore-errors 5)",
		"(handler-bind ((condition (lambda (c &rest d) 99))) (error 'boom 1))",
		"(handler-bind ((condition (lambda (c &rest d) 99))) 5)",
		"(handler-bind ((condition (lambda (c &rest d) 99))) zz)",
		"(handler-bind ((condition (lambda (c &rest d) 99))) (car 5))",
		"(car 5)",
		"(progn (ignore-errors ((load-string \"(in-package 'p) (lambda () (error 'boom 1) a)\"))) a)",
		"((load-string \"(in-package 'p) (lambda () 1 zz a)\"))",
		"((load-string \"(in-package 'p) (lambda () 1 (car 5))\"))",
		"(load-string \"(in-package 'p) (defmacro hm () (error 'boom 1) 'a)\")",
		"(p:hm)",
		"(progn (handler-bind ((condition (lambda (c &rest d) 99))) (p:hm)) a)",
		"(progn (ignore-errors (p:hm)) (set 'a 16))",
		"p:a",
		"(progn 1 2)",
		"(progn)",
	} {
		o, _, err := r.evalForm(s)
		t.Log(s, "=>", o.Full(), err, r.env.Runtime.Package.Name)
	}
}
