package main

import (
	"fmt"
	"time"

	"verif/mc/drivers/c02"
	"verif/mc/el"
)

func main() {
	t0 := time.Now()
	for i := 0; i < 200; i++ {
		el.MustEnv(el.Opts{})
	}
	fmt.Println("env", time.Since(t0)/200)
	for _, n := range []int{0, 10, 100, 1000} {
		c := c02.Case{Family: "tail", Shape: []string{"let-body", "cond-clause"}, Topo: 2, Args: "key", Err: "none", N: n}
		for _, cfg := range []string{"tro-on", "tro-on-plain", "tro-off-dormant-debugger", "profiler-attached"} {
			t0 = time.Now()
			for i := 0; i < 20; i++ {
				c02.Execute(c02.Source(c), cfg)
			}
			fmt.Println(n, cfg, time.Since(t0)/20)
		}
	}
}
