package c02

import (
	"context"
	"fmt"
	"strings"

	"github.com/luthersystems/elps/lisp"

	"verif/mc/el"
)

// ---------------------------------------------------------------------------
// entry family: HOST ENTRY POINTS and CONTEXT OBJECTS as a dimension.
//
// The statement quantifies over programs, not over the way the embedder gets
// them into the runtime.  In every other family the loop functions are defined
// and run by ONE call of ONE entry point (LoadString, or LoadStringContext
// under one context object).  Here the program is split in two:
//
//	definitions  (set ..) (defmacro ..) (defun f0 ..) (defun f1 ..)
//	run          (f0 N 0)
//
// and the two halves enter the SAME fresh runtime separately,
//
//	definitions through  load-string | load-program | eval (form by form)
//	    under            no context | a context A | a context A that is
//	                     cancelled once the definitions are loaded
//	run through          load-string | load-program | eval | funcall (host call of f0)
//	    under            no context | the same object A | another live
//	                     context object B | context.Background()
//
// with or without a context installed on the root environment by
// lisp.WithContext (the non-Context entry points then evaluate under it).  A
// closure's environment remembers the context that was current when it was
// created, so "defined under X, run under Y" is the embedding shape in which
// the interpreter's context bookkeeping and its terminal-frame bookkeeping
// meet (library loaded at start-up, requests served under per-request
// contexts).
//
// The relations are the statement's own: constant stack (base-case depth, and
// the per-step maximum where the running context is a monitoring one, equal
// for N = 10 and 100; the N = 100 run completes under a MaxHeightPhysical a
// few frames above the N = 10 peak), transparency against the dormant-debugger
// run of the SAME entry pair, and never-collapsed for the four blocking
// boundaries.  Nothing is compared ACROSS entry pairs.

var entryDefEntries = []string{"load-string", "load-program", "eval"}
var entryRunEntries = []string{"load-string", "load-program", "eval", "funcall"}

// entryCtxPairs: (context of the definitions, context of the run), simplest
// first.  "same" needs a live A.
var entryCtxPairs = [][2]string{
	{"none", "none"}, {"A", "same"},
	{"none", "other"}, {"none", "background"},
	{"A", "none"}, {"A", "other"}, {"A", "background"},
	{"A-cancelled", "none"}, {"A-cancelled", "other"}, {"A-cancelled", "background"},
}

var entryRoots = []string{"", "with-context"}

// entryConfigs: the "plain" configuration is the (none, none) pair of this
// family, so it is not a separate configuration here.
var entryConfigs = []string{cfgOn, cfgOff, cfgProfiler}

type entrySpec struct {
	DefEntry, DefCtx, RunEntry, RunCtx, Root string
	Args                                     []int // operands of the host call of f0 (run entry funcall)
}

// entryParts splits a program of the generic grammar into its definitions and
// its last line, the top-level call.
func entryParts(src string) (defs, top string) {
	s := strings.TrimSuffix(src, "\n")
	i := strings.LastIndex(s, "\n")
	if i < 0 {
		panic("harness: entry family needs a program of at least two lines")
	}
	return s[:i+1], s[i+1:]
}

// enter evaluates text (or, for funcall, calls f0) through one entry point;
// ctx == nil selects the entry point without a context parameter.
func (x *rt) enter(entry string, ctx context.Context, text string, args []int) *lisp.LVal {
	env := x.env
	switch entry {
	case "load-string":
		if ctx == nil {
			return env.LoadString("test", text)
		}
		return env.LoadStringContext(ctx, "test", text)
	case "load-program":
		prog, err := el.Parse("test", text)
		if err != nil {
			panic("harness: " + err.Error())
		}
		if ctx == nil {
			return env.LoadProgram(prog)
		}
		return env.LoadProgramContext(ctx, prog)
	case "eval":
		forms, err := env.Runtime.Reader.Read("test", strings.NewReader(text))
		if err != nil {
			panic("harness: " + err.Error())
		}
		v := lisp.Nil()
		for _, f := range forms {
			if ctx == nil {
				v = env.Eval(f)
			} else {
				v = env.EvalContext(ctx, f)
			}
			if v == nil || v.Type == lisp.LError {
				return v
			}
		}
		return v
	case "funcall":
		fn := env.Get(lisp.Symbol("f0"))
		if fn.Type == lisp.LError {
			return fn
		}
		cells := make([]*lisp.LVal, len(args))
		for i, a := range args {
			cells[i] = lisp.Int(a)
		}
		if ctx == nil {
			return env.FunCall(fn, lisp.SExpr(cells))
		}
		return env.FunCallContext(ctx, fn, lisp.SExpr(cells))
	}
	panic("harness: entry point " + entry)
}

// executeEntry runs one program of the entry family, in a fresh runtime when
// p is nil, else in the worker's runtime for (root, configuration): the
// programs only redefine globals and every program brings its own context
// objects (the root context, which lives as long as its runtime, has its
// step counter and hook reset).
func executeEntry(p *pool, src string, ro runOpts, cfg string) (o obs) {
	es := ro.Entry
	defs, top := entryParts(src)
	var x *rt
	armed := false
	var ctxs []*el.StepCtx
	hook := func(int64) {
		if !armed {
			return // see below
		}
		if h := len(x.env.Runtime.Stack.Frames); h > o.MaxHeight {
			o.MaxHeight = h
		}
		if n := x.env.Runtime.EvalNesting(); n > o.MaxNesting {
			o.MaxNesting = n
		}
	}
	newCtx := func() *el.StepCtx {
		c := el.NewStepCtx()
		c.CancelAt = stepCap
		c.OnStep = hook
		ctxs = append(ctxs, c)
		return c
	}
	key := "entry/" + es.Root + "/" + cfg
	if p != nil {
		x = p.rts[key]
	}
	if x == nil {
		var configs []lisp.Config
		var root *el.StepCtx
		if es.Root == "with-context" {
			root = el.NewStepCtx()
			root.CancelAt = stepCap
			configs = append(configs, lisp.WithContext(root))
		}
		x = newRT(cfg, configs...)
		x.root = root
		if p != nil {
			p.rts[key] = x
		}
	}
	if x.root != nil {
		x.root.N = 0
		x.root.OnStep = hook
		ctxs = append(ctxs, x.root)
	}
	x.uses++
	x.probes = x.probes[:0:0]
	if x.prof != nil {
		*x.prof = countingProfiler{}
	}
	env := x.env
	if ro.Limit > 0 {
		env.Runtime.Stack.MaxTailIterations = ro.Limit
	}
	if ro.MaxPhys > 0 {
		env.Runtime.Stack.MaxHeightPhysical = ro.MaxPhys
	}
	defer func() {
		env.Runtime.Stack.MaxTailIterations = lisp.DefaultMaxTailIterations
		env.Runtime.Stack.MaxHeightPhysical = lisp.DefaultMaxPhysicalStackHeight
		if r := recover(); r != nil {
			o.GoPanic = fmt.Sprint(r)
			if strings.HasPrefix(o.GoPanic, "harness:") {
				panic(r)
			}
			o.Out = el.Outcome{IsErr: true, Cond: "<go-panic-escaped>", Text: o.GoPanic, Out: env.Err.String()}
		}
		o.Probes = x.probes
		if x.prof != nil {
			o.ProfStarts, o.ProfOpen = x.prof.starts, x.prof.open
		}
		for _, c := range ctxs {
			o.Steps += c.N
			if c.N >= stepCap {
				o.Capped = true
			}
		}
		if x.root != nil {
			x.root.OnStep = nil
		}
		if p != nil && (o.GoPanic != "" || o.Capped || len(env.Runtime.Stack.Frames) != 0 || x.uses >= poolUses) {
			delete(p.rts, key)
		}
	}()
	env.Err.Reset()

	var defCtx, runCtx context.Context // nil: the entry point without a context parameter
	var a *el.StepCtx
	switch es.DefCtx {
	case "none":
	case "A", "A-cancelled":
		a = newCtx()
		defCtx = a
	default:
		panic("harness: definition context " + es.DefCtx)
	}
	if v := x.enter(es.DefEntry, defCtx, defs, nil); v == nil || v.Type == lisp.LError {
		o.Out = el.Observe(v, env.Err.String())
		return o
	}
	if es.DefCtx == "A-cancelled" {
		a.Cancel()
	}
	switch es.RunCtx {
	case "none":
	case "same":
		if es.DefCtx != "A" {
			panic("harness: run context `same` needs a live definition context")
		}
		runCtx = a
	case "other":
		runCtx = newCtx()
	case "background":
		runCtx = context.Background()
	default:
		panic("harness: run context " + es.RunCtx)
	}
	// the stack is sampled during the run only, and only when the run's own
	// context is one of the harness's (a stale or root context that some step
	// still consults would give a partial, misleading maximum)
	armed = es.RunCtx == "same" || es.RunCtx == "other" || (es.RunCtx == "none" && x.root != nil)
	o.Out = el.Observe(x.enter(es.RunEntry, runCtx, top, es.Args), env.Err.String())
	return o
}

// entryShapes: the terminal shapes of the family plus each blocking boundary
// on its own (thorough: inserted at every level of every shape of depth <= 1).
func entryShapes(thorough bool) [][]string {
	out := tailShapes(1)
	if thorough {
		return append(out, insertedShapes(1, blockerTokens)...)
	}
	return append(out, insertedShapes(0, blockerTokens)...)
}

// makeEntryGroups: shapes x topology x error mode x root x context pair x
// run entry x definition entry.
//
//	quick     shapes of depth <= 1 and the 4 blockers alone; self and 2-cycle;
//	          error modes none and base (base: the shape is the LAST FORM OF
//	          THE FUNCTION BODY, with no special operator between the function
//	          and it); definitions through load-string
//	thorough  3-cycle and every definition entry; blockers at every level of
//	          the depth <= 1 shapes (those of length 2: definitions through
//	          load-string, self and 2-cycle); and the 225 shapes of depth 2
//	          for the load-string -> funcall pair without a root context
//
// accumulator style throughout (the host call passes plain integers).
func makeEntryGroups(thorough bool) []group {
	defEntries, topos := entryDefEntries[:1], []int{1, 2}
	if thorough {
		defEntries, topos = entryDefEntries, []int{1, 2, 3}
	}
	var gs []group
	add := func(s []string, topo int, em, root string, cp [2]string, re, de string) {
		gs = append(gs, group{Case{Family: "entry", Shape: s, Topo: topo, Args: "acc", Err: em,
			DefEntry: de, DefCtx: cp[0], RunEntry: re, RunCtx: cp[1], Root: root}})
	}
	for _, s := range entryShapes(thorough) {
		for _, topo := range topos {
			for _, em := range []string{"none", "base"} {
				for _, root := range entryRoots {
					for _, cp := range entryCtxPairs {
						for _, re := range entryRunEntries {
							for _, de := range defEntries {
								if len(s) == 2 && (de != "load-string" || topo == 3) {
									continue // (thorough) a blocker inside / around a terminal position: load-string, self and 2-cycle
								}
								add(s, topo, em, root, cp, re, de)
							}
						}
					}
				}
			}
		}
	}
	if thorough {
		for _, s := range tailShapes(2) {
			if len(s) < 2 {
				continue
			}
			for _, cp := range entryCtxPairs {
				add(s, 1, "none", "", cp, "funcall", "load-string")
			}
		}
	}
	return gs
}
