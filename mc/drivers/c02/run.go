package c02

import (
	"fmt"
	"strings"

	"github.com/luthersystems/elps/lisp"

	"verif/mc/el"
)

// configurations of the statement's quantifier.  "on" and "plain" both have
// elimination on; "on" runs under the step-monitoring context (needed to
// sample the stack at every step), "plain" is the stock LoadString path.
const (
	cfgOn       = "tro-on"
	cfgPlain    = "tro-on-plain"
	cfgOff      = "tro-off-dormant-debugger"
	cfgProfiler = "profiler-attached"
)

var allConfigs = []string{cfgOn, cfgPlain, cfgOff, cfgProfiler}

// configsOf lists the configurations a case of the given family runs under.
func configsOf(c Case) []string {
	if c.Family == "entry" {
		return entryConfigs
	}
	return allConfigs
}

// stepCap bounds a run under the monitoring context so that a broken
// evaluator cannot wedge the check; reaching it is reported, never compared.
const stepCap = 4_000_000

// obs is what one execution exposes.
type obs struct {
	Out        el.Outcome
	MaxHeight  int // max len(Stack.Frames) over every evaluation step (0 when not monitored)
	MaxNesting int
	Steps      int64
	Probes     [][]string // frame names (bottom first) at each base-case probe
	ProfStarts int
	ProfOpen   int // profiler spans still open at the end
	GoPanic    string
	Capped     bool
}

type countingProfiler struct{ starts, open int }

func (p *countingProfiler) Start(*lisp.LVal) func() {
	p.starts++
	p.open++
	return func() { p.open-- }
}

type probeDef struct{ sink *[][]string }

func (probeDef) Name() string        { return "c02-probe" }
func (probeDef) Formals() *lisp.LVal { return lisp.Formals() }
func (p probeDef) Eval(env *lisp.LEnv, _ *lisp.LVal) *lisp.LVal {
	fr := env.Runtime.Stack.Frames
	names := make([]string, len(fr))
	for i := range fr {
		names[i] = fr[i].Name
		if names[i] == "" {
			names[i] = "<anon>"
		}
	}
	*p.sink = append(*p.sink, names)
	return lisp.Nil()
}

// rt is one runtime prepared for one configuration.
type rt struct {
	env    *el.Env
	probes [][]string
	prof   *countingProfiler
	uses   int
	root   *el.StepCtx // entry family: the context installed on the root environment
}

func newRT(cfg string, configs ...lisp.Config) *rt {
	x := &rt{}
	x.env = el.MustEnv(el.Opts{Builtins: []lisp.LBuiltinDef{probeDef{sink: &x.probes}}, Configs: configs})
	switch cfg {
	case cfgOff:
		x.env.Runtime.Debugger = el.Dormant{}
	case cfgProfiler:
		x.prof = &countingProfiler{}
		x.env.Runtime.Profiler = x.prof
	}
	return x
}

// pool keeps one runtime per configuration for one worker.  Programs of the
// space only (re)define the globals f0..f2, mb0..mb2, g-n, g-a, so a runtime
// is reused for up to poolUses programs; it is discarded at once if a run
// leaves frames on the stack, is cancelled or panics.  Every disagreement is
// re-confirmed in fresh runtimes (pool == nil) before it is reported.
type pool struct {
	rts map[string]*rt
	// singleFits memoises, per worker, whether one loop of a sequence case
	// stays under the tail-iteration limit (independent of K)
	singleFits map[string]bool
}

const poolUses = 256

func newPool() *pool { return &pool{rts: map[string]*rt{}, singleFits: map[string]bool{}} }

// execute runs src under one configuration, in a fresh runtime when p is nil.
// hostCall is one entry from the host through LEnv.FunCall after the source
// has been loaded (sequence family, starter host-funcall).
type hostCall struct {
	Fn   string
	Args []int
}

// runOpts are the per-program runtime settings.
type runOpts struct {
	Limit   int // Stack.MaxTailIterations for this run (0: the default)
	MaxPhys int // Stack.MaxHeightPhysical for this run (0: the default)
	Host    []hostCall
	Entry   *entrySpec // entry family: how the two halves of the program enter the runtime
}

func execute(p *pool, src string, ro runOpts, cfg string) (o obs) {
	if ro.Entry != nil {
		return executeEntry(p, src, ro, cfg)
	}
	var x *rt
	if p != nil {
		x = p.rts[cfg]
	}
	if x == nil {
		x = newRT(cfg)
		if p != nil {
			p.rts[cfg] = x
		}
	}
	x.uses++
	x.probes = x.probes[:0:0]
	if x.prof != nil {
		*x.prof = countingProfiler{}
	}
	env := x.env
	if ro.Limit > 0 {
		env.Runtime.Stack.MaxTailIterations = ro.Limit
	}
	if ro.MaxPhys > 0 {
		env.Runtime.Stack.MaxHeightPhysical = ro.MaxPhys
	}
	defer func() {
		env.Runtime.Stack.MaxTailIterations = lisp.DefaultMaxTailIterations
		env.Runtime.Stack.MaxHeightPhysical = lisp.DefaultMaxPhysicalStackHeight
		if r := recover(); r != nil {
			o.GoPanic = fmt.Sprint(r)
			o.Out = el.Outcome{IsErr: true, Cond: "<go-panic-escaped>", Text: o.GoPanic, Out: env.Err.String()}
		}
		o.Probes = x.probes
		if x.prof != nil {
			o.ProfStarts, o.ProfOpen = x.prof.starts, x.prof.open
		}
		if p != nil && (o.GoPanic != "" || o.Capped || len(env.Runtime.Stack.Frames) != 0 || x.uses >= poolUses) {
			delete(p.rts, cfg)
		}
	}()
	// host entries: each is a separate FunCall on the same runtime
	host := func(call func(fn, args *lisp.LVal) *lisp.LVal) {
		if o.Out.IsErr || len(ro.Host) == 0 {
			return
		}
		var vals []string
		for _, h := range ro.Host {
			fn := env.Get(lisp.Symbol(h.Fn))
			if fn.Type == lisp.LError {
				o.Out = el.Observe(fn, env.Err.String())
				return
			}
			args := make([]*lisp.LVal, len(h.Args))
			for i, a := range h.Args {
				args[i] = lisp.Int(a)
			}
			v := call(fn, lisp.SExpr(args))
			if v == nil || v.Type == lisp.LError {
				o.Out = el.Observe(v, env.Err.String())
				return
			}
			vals = append(vals, v.String())
		}
		o.Out = el.Outcome{Text: "[" + strings.Join(vals, " ") + "]", Out: env.Err.String()}
	}
	if cfg == cfgPlain {
		o.Out = env.Load(src)
		host(func(fn, args *lisp.LVal) *lisp.LVal { return env.FunCall(fn, args) })
		return o
	}
	ctx := el.NewStepCtx()
	ctx.CancelAt = stepCap
	st := env.Runtime.Stack
	run := env.Runtime
	ctx.OnStep = func(int64) {
		if h := len(st.Frames); h > o.MaxHeight {
			o.MaxHeight = h
		}
		if n := run.EvalNesting(); n > o.MaxNesting {
			o.MaxNesting = n
		}
	}
	o.Out = env.LoadCtx(ctx, src)
	host(func(fn, args *lisp.LVal) *lisp.LVal { return env.FunCallContext(ctx, fn, args) })
	o.Steps = ctx.N
	o.Capped = ctx.N >= stepCap
	return o
}

// fitsLimits reports whether the elimination-off run stayed clear of the
// stack limits (the statement's precondition for transparency).  It is judged
// from the monitored heights, not from the error text, because an
// ignore-errors in the program can swallow the overflow error.
func fitsLimits(off obs) bool {
	if off.Capped || off.GoPanic != "" {
		return false
	}
	if off.MaxHeight >= lisp.DefaultMaxPhysicalStackHeight-2 {
		return false
	}
	if off.MaxNesting >= lisp.DefaultMaxEvalNesting-2 {
		return false
	}
	if off.Out.IsErr && (off.Out.Cond == lisp.CondEvalNestingExceeded || strings.HasPrefix(off.Out.Text, "physical stack height exceeded")) {
		return false
	}
	return true
}

// same compares the statement's observables: value, output, error condition.
func same(a, b el.Outcome) bool {
	if a.IsErr != b.IsErr || a.Out != b.Out {
		return false
	}
	if a.IsErr {
		return a.Cond == b.Cond
	}
	return a.Text == b.Text
}

func countFrames(frames []string, blocker string) int {
	name := blockerFrameName(blocker)
	n := 0
	for _, f := range frames {
		if strings.HasPrefix(blocker, "MACRO-BODY") {
			if strings.HasPrefix(f, name) {
				n++
			}
		} else if f == name {
			n++
		}
	}
	return n
}

func restrictFrames(frames []string, blocker string) string {
	name := blockerFrameName(blocker)
	var out []string
	for _, f := range frames {
		if (strings.HasPrefix(blocker, "MACRO-BODY") && strings.HasPrefix(f, name)) || f == name {
			out = append(out, f)
		}
	}
	return strings.Join(out, " ")
}

// Describe runs c under every configuration and renders what was observed
// (development aid and replay report).
func Describe(c Case) string {
	var b strings.Builder
	src := Source(c)
	for _, cfg := range configsOf(c) {
		o := execute(nil, src, optsOf(c), cfg)
		depth := -1
		fr := ""
		if len(o.Probes) > 0 {
			depth = len(o.Probes[0])
			fr = strings.Join(o.Probes[0], " ")
			if len(fr) > 300 {
				fr = fr[:300] + "…"
			}
		}
		fmt.Fprintf(&b, "N=%d limit=%d %-26s %s max_height=%d base_depth=%d steps=%d\n    base frames: %s\n", c.N, optsOf(c).Limit, cfg, o.Out.String(), o.MaxHeight, depth, o.Steps, fr)
	}
	fs, _ := checkProgram(nil, c, configsOf(c))
	for _, f := range fs {
		fmt.Fprintf(&b, "FINDING %s: expected %s; got %s\n", f.Oracle, f.Expected, f.Got)
	}
	return b.String()
}

// singleLoopsFit reports whether every loop of a sequence case, run ALONE in a
// fresh runtime with elimination on and the case's limit, completes without
// error.  The tail-iteration count of one loop is not simply its number of
// turns (a funcall/apply frame that tail-calls funcall/apply again is itself
// a loop frame and counts its own turns), so the precondition "no single loop
// reaches the limit" is measured, not assumed.
func singleLoopsFit(p *pool, c Case) bool {
	key := fmt.Sprintf("%s|%s|%s|%d|%d", strings.Join(c.Shape, ">"), c.Starter, c.Funcs, c.N, c.Limit)
	if p != nil {
		if v, ok := p.singleFits[key]; ok {
			return v
		}
	}
	starts := []string{"f0"}
	if c.Funcs == "alt" {
		starts = append(starts, "f1")
	}
	fits := true
	for _, fn := range starts {
		c1 := c
		c1.single = fn
		o := execute(nil, Source(c1), optsOf(c1), cfgOn)
		if o.Out.IsErr || o.GoPanic != "" {
			fits = false
		}
	}
	if p != nil {
		p.singleFits[key] = fits
	}
	return fits
}
