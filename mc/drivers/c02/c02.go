// Package c02: tail-call elimination is transparent, tail loops run in
// constant stack, and calls made inside a macro body / handler-bind /
// ignore-errors / nested load are never collapsed.
//
// The space (DESIGN §C02) is every nesting of the 15 terminal positions up to
// a depth, x recursion topology {self, 2-cycle, 3-cycle} x argument style
// {accumulator, &rest, &key} x error mode {none, at iteration N, at iteration
// 1} x definition style {defun, labels} x iteration count ("tail" family); the
// same shapes with one blocking boundary inserted at every level ("blocked"
// family); and the same shapes with one non-tail or macro-expansion position
// inserted at every level ("transparency-only" family).  Every program is
// executed under four configurations {elimination on (monitored), elimination
// on (plain LoadString), elimination off (dormant debugger), profiler
// attached} and three relations between those executions are checked:
//
//	transparency     value, stderr and error condition agree with the
//	                 elimination-off run whenever that run fits the limits
//	constant-stack   (tail family) the maximum stack height sampled at every
//	                 evaluation step, and the stack depth seen by a host builtin
//	                 at the base case, are EQUAL for N = 10, 100, 1000
//	never-collapsed  (blocked family) exactly N frames of the blocker are on
//	                 the stack at the base case, the same blocker frames as in
//	                 the elimination-off run, and the innermost handler-bind /
//	                 ignore-errors is the one that handles an error
//
// A fourth family ("multiform") gives the loop functions bodies of 2-3 forms
// (directly, or inside let / progn / dotimes / a lambda called through
// funcall or apply) in which a NON-last form ends, through any terminal
// shape, in a recursive call on the first, second or last turn of the loop;
// that call must run and return in every configuration (transparency on
// value + stderr + a global activation log), and the main loop must still run
// in constant stack.
//
// A fifth family ("sequence") runs K in {2,3,5} separate loops of n turns on
// ONE runtime (separate top-level forms, a dotimes body, a map callback,
// successive host FunCall entries; one function, two alternating functions or
// a 2-cycle) with Stack.MaxTailIterations set to every value of {n, n+1, 2n-1,
// 2n, K*n-1, K*n}: no single loop reaches the limit, so a limit error that
// appears only with elimination on is a transparency violation.
//
// A sixth family ("chain") makes the LENGTH of the terminal chain the explored
// dimension: one tail call under d nested positions for every d up to 40 / 80,
// and rings of k mutually tail-recursive functions for every k up to 16 / 32
// with 0..4 wrappers per body; constant stack for n and 10n turns, the long
// run again under a small MaxHeightPhysical, and transparency.
//
// A seventh family ("closure") carries closures over the loop functions' own
// parameters (required, &optional, &rest, &key; counter and datum) from one
// turn to later ones (collected, continuation-passing, returned, or invoked by
// the next turn) and uses them after the parameters were rebound: every turn
// must have its own bindings in every configuration (transparency).
//
// An eighth family ("forward") makes the recursive call through a
// call-forwarding builtin passed AS THE TARGET of funcall/apply ((funcall
// 'apply 'f (list ..)), (apply 'funcall 'f ..), unpack, by symbol, by value,
// computed, two levels deep): constant stack and transparency.
//
// A ninth family ("entry") makes the HOST ENTRY POINTS and CONTEXT OBJECTS the
// explored dimension: the definitions and the top-level call of a program
// enter one runtime separately, through every pair of entry points
// (load-string, load-program, eval; + funcall for the call) under every
// relation between the two contexts (none, the same object, another live
// object, one cancelled after the definitions, context.Background(); with or
// without a lisp.WithContext root context): constant stack, transparency and
// never-collapsed for every pair (entry.go).
//
// No expected value is written down except the index of the innermost handler
// (computed from N).
package c02

import (
	"crypto/sha256"
	"fmt"
	"io"
	"log"
	"os"
	"sort"
	"strings"
	"sync"
	"time"

	"verif/mc/core"
)

func init() {
	core.Register(&core.Driver{Property: "C02", Run: run, Replay: replay})
}

type finding struct {
	Oracle   string // transparency | constant-stack | never-collapsed
	Case     Case
	Expected string
	Got      string
	Note     string
}

func (f finding) class() string { return f.Oracle + ":" + f.Case.shapeKey() }

// progResult is what checkProgram hands to the group-level relation.
type progResult struct {
	fits        bool
	heightOn    int // monitored max height, elimination on
	heightProf  int // monitored max height, profiler attached
	heightOff   int
	baseDepth   map[string]int // config -> len(frames) at the base-case probe (-1: no probe)
	outcomeKind string
	iterated    bool
}

// checkProgram executes one program under every configuration and applies the
// per-program relations (transparency, never-collapsed).
func checkProgram(p *pool, c Case, cfgs []string) ([]finding, progResult) {
	if c.Container == "walk" {
		p = nil // stack growth is the dimension: always a fresh runtime, i.e. a fresh call stack
	}
	src := Source(c)
	res := map[string]obs{}
	has := map[string]bool{}
	for _, cfg := range cfgs {
		res[cfg] = execute(p, src, optsOf(c), cfg)
		has[cfg] = true
	}
	if !has[cfgOn] || !has[cfgOff] {
		panic("harness: every program runs at least with elimination on and off")
	}
	on, off := res[cfgOn], res[cfgOff]
	pr := progResult{fits: fitsLimits(off), heightOn: on.MaxHeight, heightProf: -1,
		heightOff: off.MaxHeight, baseDepth: map[string]int{}, iterated: c.N >= 1}
	if has[cfgProfiler] {
		pr.heightProf = res[cfgProfiler].MaxHeight
	}
	for _, cfg := range allConfigs {
		pr.baseDepth[cfg] = -1
		if p := res[cfg].Probes; has[cfg] && len(p) > 0 {
			pr.baseDepth[cfg] = len(p[len(p)-1]) // the main loop's base case (a multiform side call probes earlier)
		}
	}
	var fs []finding
	add := func(oracle, expected, got, note string) {
		cc := c
		cc.Oracle = oracle
		fs = append(fs, finding{Oracle: oracle, Case: cc, Expected: expected, Got: got, Note: note})
	}

	// sequence family: transparency is demanded only when no SINGLE loop
	// reaches the tail-iteration limit (with elimination off the limit is
	// never consulted, so a loop that exceeds it alone differs by design)
	singleExceeds := c.Family == "sequence" && !singleLoopsFit(p, c)

	// (1) transparency
	if singleExceeds {
		// precondition not met: nothing is demanded
	} else if pr.fits {
		for _, cfg := range []string{cfgOn, cfgPlain, cfgProfiler} {
			if has[cfg] && !same(res[cfg].Out, off.Out) {
				add("transparency", cfgOff+": "+off.Out.String(), cfg+": "+res[cfg].Out.String(),
					"value, stderr and error condition must not depend on whether tail calls are eliminated")
				break
			}
		}
	} else {
		// the elimination-off run does not fit the limits: the three
		// elimination-on configurations must still agree with each other
		for _, cfg := range []string{cfgPlain, cfgProfiler} {
			if has[cfg] && !same(res[cfg].Out, on.Out) {
				add("transparency", cfgOn+": "+on.Out.String(), cfg+": "+res[cfg].Out.String(),
					"elimination-off run exceeds the stack limits; the elimination-on configurations must still agree")
				break
			}
		}
	}
	if p := res[cfgProfiler]; has[cfgProfiler] && p.ProfOpen != 0 && p.GoPanic == "" {
		// informational only: the property says nothing about span balance
		pr.outcomeKind = "profiler-spans-unbalanced "
	}

	// (3) never collapsed
	if b, _ := blockerOf(c.Shape); b != "" {
		offFrames := ""
		if len(off.Probes) > 0 {
			offFrames = restrictFrames(off.Probes[0], b)
		}
		for _, cfg := range cfgs {
			o := res[cfg]
			if len(o.Probes) == 0 {
				continue
			}
			if len(o.Probes) != 1 {
				add("never-collapsed", "base case reached once", fmt.Sprintf("%s: base case reached %d times", cfg, len(o.Probes)), "")
				break
			}
			got := countFrames(o.Probes[0], b)
			if got != c.N {
				add("never-collapsed", fmt.Sprintf("exactly %d %s frames on the stack at the base case", c.N, blockerFrameName(b)),
					fmt.Sprintf("%s: %d such frames; stack (bottom first): %s", cfg, got, strings.Join(o.Probes[0], " ")),
					"a call made inside the dynamic extent of "+b+" was collapsed")
				break
			}
			if cfg != cfgOff && len(off.Probes) > 0 && pr.fits {
				if r := restrictFrames(o.Probes[0], b); r != offFrames {
					add("never-collapsed", cfgOff+" blocker frames: "+offFrames, cfg+" blocker frames: "+r, "")
					break
				}
			}
		}
		// the tail-iteration budget: a call that is never collapsed performs no
		// tail iteration, so the run agrees with elimination off even under a
		// budget far below the number of turns
		if c.N == 10 && pr.fits {
			ro := optsOf(c)
			ro.Limit = blockedTailBudget
			o := execute(p, src, ro, cfgOn)
			if !same(o.Out, off.Out) {
				add("never-collapsed", fmt.Sprintf("with MaxTailIterations=%d the %d-turn run agrees with elimination off (no turn through %s is a tail iteration): %s", blockedTailBudget, c.N, blockerFrameName(b), off.Out.String()),
					cfgOn+": "+o.Out.String(), "a call made inside the dynamic extent of "+b+" was collapsed")
			}
		}
		// the semantics that depend on those frames: the innermost handler catches
		if c.N >= 1 && c.Err != "none" {
			want := ""
			switch b {
			case "HANDLER-BIND", "HANDLER-BIND-2": // (the 0-binding spellings install no handler)
				if c.Err == "base" {
					want = "-5001" // -5000-n of the activation with n=1, which called the base case
				} else {
					want = fmt.Sprint(-5000 - c.N) // established by the first activation (n=N)
				}
			case "IGNORE-ERRORS", "IGNORE-ERRORS-ONEFORM":
				want = "()"
			}
			if want != "" {
				for _, cfg := range cfgs {
					o := res[cfg]
					if cfg == cfgOff && !pr.fits {
						continue
					}
					if o.Out.IsErr || o.Out.Text != want {
						add("never-collapsed", "the innermost "+blockerFrameName(b)+" handles the error: value "+want,
							cfg+": "+o.Out.String(), "")
						break
					}
				}
			}
		}
	}

	switch {
	case singleExceeds:
		pr.outcomeKind += "single-loop-exceeds-tail-iteration-limit"
		pr.fits = false // not counted as non-trivial
	case !pr.fits:
		pr.outcomeKind += "off-exceeds-limits"
	case on.Out.IsErr:
		pr.outcomeKind += "error:" + on.Out.Cond
	default:
		pr.outcomeKind += "value"
	}
	return fs, pr
}

// blockedTailBudget is the tail-iteration budget of the extra run of blocked
// programs (at most a funcall/apply frame collapsing onto itself counts a turn
// or two there; the loop's own turns must not count at all).
const blockedTailBudget = 4

// group is the unit of work: all iteration counts of one (shape, topology,
// argument style, error mode).
type group struct{ Case }

func (g group) kase(n int) Case {
	c := g.Case
	c.N, c.Ns, c.Oracle, c.Src = n, nil, "", ""
	return c
}

// nrun is one iteration count and the configurations it is executed under.
type nrun struct {
	N     int
	Cfgs  []string
	Limit int  // sequence family: Stack.MaxTailIterations
	Stack bool // chain family: takes part in the constant-stack relation whatever N is
}

var stackNs = map[int]bool{10: true, 100: true, 1000: true}

var onOff = []string{cfgOn, cfgOff}

// plan lists the runs of a group.
//
// quick: N in {0,1,2,3,10,100} under all four configurations.
//
// thorough: the same, plus N=1000, for tail shapes of depth <= 2 and for
// blocked / transparency-only shapes built on a base shape of depth <= 1.  The
// two big sets (3375 tail shapes of depth 3, 2700 blocked shapes on a base of
// depth 2) run N <= 10 under all four configurations and N=100 under {on, off};
// the depth-3 tail shapes also run N=1000 under {on, off} for the accumulator
// style without error.  (One N=1000 run costs 20-50 ms, 10x the design
// estimate; the profiler and plain configurations differ from "on" by one
// deferred call / the absence of a context and are covered at depth <= 2.)
func plan(g group, thorough bool) []nrun {
	if g.Family == "closure" {
		var out []nrun
		for _, n := range []int{0, 1, 2, 3, 10} {
			out = append(out, nrun{N: n, Cfgs: allConfigs})
		}
		if thorough {
			out = append(out, nrun{N: 100, Cfgs: allConfigs})
		}
		return out
	}
	if g.Family == "entry" {
		// quick: 10 turns under {on, off, profiler}, 100 under {on, off};
		// thorough: both under all three, plus 1000 under {on, off} for tail
		// shapes defined through load-string without a root context
		if thorough && entryTail(g.Case) && g.DefEntry == "load-string" && g.Root == "" {
			// (one N=1000 run costs 10-30 ms: definitions through load-string, no root context)
			return []nrun{{N: 10, Cfgs: entryConfigs}, {N: 100, Cfgs: entryConfigs}, {N: 1000, Cfgs: onOff}}
		}
		if thorough {
			// (blocked shapes: N frames of the blocker per turn, and without a
			// monitoring context an overflow swallowed by ignore-errors could
			// not be told from a fitting run)
			return []nrun{{N: 10, Cfgs: entryConfigs}, {N: 100, Cfgs: entryConfigs}}
		}
		return []nrun{{N: 10, Cfgs: entryConfigs}, {N: 100, Cfgs: onOff}}
	}
	if g.Family == "chain" {
		n := chainTurns(g.Topo)
		return []nrun{{N: n, Cfgs: allConfigs, Stack: true}, {N: 10 * n, Cfgs: onOff, Stack: true}}
	}
	if g.Family == "sequence" {
		// K loops of n turns each; the limit takes every value of
		// {n, n+1, 2n-1, 2n, K*n-1, K*n}: each single loop fits, the sum may not
		turnCounts := []int{3, 10}
		if thorough {
			turnCounts = []int{2, 3, 10, 30}
		}
		var out []nrun
		for _, n := range turnCounts {
			seen := map[int]bool{}
			for _, l := range []int{n, n + 1, 2*n - 1, 2 * n, g.K*n - 1, g.K * n} {
				if !seen[l] {
					seen[l] = true
					out = append(out, nrun{N: n, Cfgs: allConfigs, Limit: l})
				}
			}
		}
		return out
	}
	if g.Family == "multiform" && g.Container == "walk" {
		// N is the length of the left spine: 2N+ frames are live at the
		// bottom, so these depths take the stack across 32, 64, 128, 256 and
		// 512 frames (and, thorough, the sizes in between)
		depths := []int{20, 40, 70, 100, 140, 300}
		if thorough {
			depths = []int{5, 10, 14, 20, 30, 40, 50, 70, 100, 140, 200, 300, 420, 600}
		}
		var out []nrun
		for _, d := range depths {
			out = append(out, nrun{N: d, Cfgs: allConfigs})
		}
		return out
	}
	if g.Family == "multiform" {
		// quick: N <= 10 (the side call needs a reused frame: 2 turns);
		// thorough adds N=100, under {on, off} for side shapes of depth 2
		var out []nrun
		for _, n := range []int{0, 1, 2, 3, 10} {
			out = append(out, nrun{N: n, Cfgs: allConfigs})
		}
		if g.Turn == "every" && !thorough {
			// a side call on every turn: the constant-stack relation needs a second, longer loop
			out = append(out, nrun{N: 40, Cfgs: onOff, Stack: true})
		}
		if thorough {
			if len(g.Shape) <= 1 {
				out = append(out, nrun{N: 100, Cfgs: allConfigs})
			} else {
				out = append(out, nrun{N: 100, Cfgs: onOff})
			}
		}
		return out
	}
	d := len(g.Shape)
	big := (g.Family == "tail" && d >= 3) || (g.Family != "tail" && d-1 >= 2)
	var out []nrun
	for _, n := range []int{0, 1, 2, 3, 10} {
		out = append(out, nrun{N: n, Cfgs: allConfigs})
	}
	if !big {
		out = append(out, nrun{N: 100, Cfgs: allConfigs})
		if thorough {
			out = append(out, nrun{N: 1000, Cfgs: allConfigs})
		}
		return out
	}
	out = append(out, nrun{N: 100, Cfgs: onOff})
	if g.Family == "tail" && g.Args == "acc" && g.Err == "none" && g.Def == "" {
		out = append(out, nrun{N: 1000, Cfgs: onOff})
	}
	return out
}

// chainTurns is the short run's number of turns for a ring of k functions: a
// multiple of k (so that the short and the 10x run end in the same function)
// that is at least 10 and at least two full trips round the ring (so that
// the peak, reached after one trip, is inside the short run).
func chainTurns(k int) int {
	m := 2
	if k*m < 10 {
		m = (10 + k - 1) / k
	}
	return k * m
}

// checkGroup executes the runs of a group and applies the constant-stack relation.
func checkGroup(p *pool, g group, runs []nrun, each func(Case, []string, progResult)) []finding {
	var all []finding
	type hp struct {
		n  int
		pr progResult
	}
	var hs []hp
	for _, nr := range runs {
		c := g.kase(nr.N)
		if nr.Limit > 0 {
			c.Limit = nr.Limit
		}
		fs, pr := checkProgram(p, c, nr.Cfgs)
		if each != nil {
			each(c, nr.Cfgs, pr)
		}
		all = append(all, fs...)
		if stackNs[nr.N] || nr.Stack {
			hs = append(hs, hp{nr.N, pr})
		}
	}
	// (2) constant stack: only for shapes whose call is a tail call all the way
	// (not the stack-growth walks: their N is the recursion DEPTH, not a number of turns)
	if (g.Family == "tail" || g.Family == "multiform" || g.Family == "chain" || g.Family == "forward" || entryTail(g.Case)) && g.Container != "walk" && len(hs) >= 2 {
		measures := []struct {
			name string
			f    func(progResult) int
		}{
			{"max stack height over every step, " + cfgOn, func(p progResult) int { return p.heightOn }},
			{"max stack height over every step, " + cfgProfiler, func(p progResult) int { return p.heightProf }},
			{"stack depth at the base case, " + cfgOn, func(p progResult) int { return p.baseDepth[cfgOn] }},
			{"stack depth at the base case, " + cfgPlain, func(p progResult) int { return p.baseDepth[cfgPlain] }},
			{"stack depth at the base case, " + cfgProfiler, func(p progResult) int { return p.baseDepth[cfgProfiler] }},
		}
		for _, m := range measures {
			// a measure is absent (-1) when the configuration was not run for
			// that N or the base case was not reached (error at iteration 1)
			var parts []string
			var cmpNs []int
			eq, first := true, -1
			for _, h := range hs {
				v := m.f(h.pr)
				if v < 0 {
					continue
				}
				if first < 0 {
					first = v
				}
				if v != first {
					eq = false
				}
				parts = append(parts, fmt.Sprintf("N=%d:%d", h.n, v))
				cmpNs = append(cmpNs, h.n)
			}
			if !eq {
				c := g.kase(cmpNs[len(cmpNs)-1])
				c.Ns = cmpNs
				c.Oracle = "constant-stack"
				all = append(all, finding{Oracle: "constant-stack", Case: c,
					Expected: m.name + ": equal for N in " + fmt.Sprint(cmpNs), Got: strings.Join(parts, " "),
					Note: "a tail loop's stack height must not grow with the number of iterations"})
				break
			}
		}
	}
	// chain family: the interpreter's own limit must agree with the monitor:
	// with MaxHeightPhysical a few frames above the SHORT run's peak, the
	// LONG run completes with the same outcome.
	if (g.Family == "chain" || g.Family == "forward" || entryTail(g.Case)) && len(hs) >= 2 {
		short, long := hs[0], hs[len(hs)-1]
		peak := short.pr.heightOn
		if peak == 0 {
			// entry family, run without a monitoring context: the deepest
			// stack the harness saw is the base-case probe's
			peak = short.pr.baseDepth[cfgOn]
		}
		limit := peak + smallStackMargin
		c := g.kase(long.n)
		src := Source(c)
		ro := optsOf(c)
		ref := execute(p, src, ro, cfgOn)
		ro.MaxPhys = limit
		o := execute(p, src, ro, cfgOn)
		if !same(o.Out, ref.Out) {
			c.Ns = []int{short.n, long.n}
			c.Oracle = "constant-stack"
			all = append(all, finding{Oracle: "constant-stack", Case: c,
				Expected: fmt.Sprintf("the N=%d run completes under MaxHeightPhysical=%d (peak of the N=%d run %d + %d): %s", long.n, limit, short.n, peak, smallStackMargin, ref.Out.String()),
				Got:      o.Out.String(),
				Note:     "a tail loop's stack height must not grow with the number of iterations"})
		}
	}
	return all
}

// entryTail: a case of the entry family whose call is a tail call all the way.
func entryTail(c Case) bool {
	if c.Family != "entry" {
		return false
	}
	b, _ := blockerOf(c.Shape)
	return b == ""
}

// smallStackMargin covers the frames the per-step monitor cannot see (a
// builtin function's own frame exists only between two evaluation steps).
const smallStackMargin = 8

// ---------------------------------------------------------------------------

type explorer struct {
	r *core.Run

	mu        sync.Mutex
	sources   map[[16]byte]struct{}
	violated  map[string][][]string // relation -> shapes already reported (minimal-first reporting)
	subsumed  map[string]int
	found     map[string]int // relation -> disagreeing programs seen (before minimal-first filtering)
	collapsed int64          // tail programs (N>=10) where elimination-off ran strictly higher than elimination-on
	notHigher int64
	heightCmp int64
	sampled   map[string]bool

	entrySampled int
}

func (e *explorer) isSubsumed(f finding) bool {
	for _, s := range e.violated[f.Oracle] {
		if t := f.Case.tokens(); len(s) < len(t) && isSubsequence(s, t) {
			return true
		}
	}
	return false
}

// runsFor reconstructs the runs needed to re-evaluate a finding.
func runsFor(c Case) []nrun {
	if c.Oracle == "constant-stack" && len(c.Ns) > 0 {
		var out []nrun
		for _, n := range c.Ns {
			if c.Family == "chain" {
				out = append(out, nrun{N: n, Cfgs: allConfigs, Stack: true})
				continue
			}
			// (Stack: the iteration counts of a finding are the ones that were compared, whether or not they are
			// among the standard counts)
			out = append(out, nrun{N: n, Cfgs: configsOf(c), Stack: true})
		}
		return out
	}
	return []nrun{{N: c.N, Cfgs: configsOf(c), Limit: c.Limit}}
}

// confirm re-runs the case 5 times in fresh runtimes and keeps a finding only
// if it reproduces (same relation, same case) every time.
func (e *explorer) confirm(g group, f finding) bool {
	for i := 0; i < 5; i++ {
		ok := false
		for _, f2 := range checkGroup(nil, g, runsFor(f.Case), nil) {
			if f2.Oracle == f.Oracle && f2.Case.N == f.Case.N {
				ok = true
			}
		}
		if !ok {
			e.r.Flaky(map[string]any{"case": f.Case, "expected": f.Expected, "got": f.Got, "reproduced_runs": i})
			return false
		}
	}
	return true
}

type pendingFinding struct {
	g group
	f finding
}

func (e *explorer) runGroups(groups []group) {
	r := e.r
	var pending []pendingFinding
	var pmu sync.Mutex
	pendingPerClass := map[string]int{}
	core.ParallelRange(r, int64(len(groups)), func(int) *pool { return newPool() }, func(p *pool, i int64) {
		g := groups[i]
		fs := checkGroup(p, g, plan(g, r.Thorough()), func(c Case, cfgs []string, pr progResult) {
			r.AddEvals(int64(len(cfgs)))
			r.AddTransitions(int64(len(cfgs) - 1)) // outcome comparisons
			blk, _ := blockerOf(c.Shape)
			if blk != "" {
				r.AddTransitions(int64(len(cfgs))) // frame-count checks
			}
			src := Source(c)
			ident := fmt.Sprintf("%s#limit=%d", src, c.Limit)
			if g.Family == "entry" {
				// the way the program enters the runtime is part of its identity
				ident += fmt.Sprintf("#entry=%s/%s->%s/%s root=%s", c.DefEntry, c.DefCtx, c.RunEntry, c.RunCtx, c.Root)
			}
			h := sha256.Sum256([]byte(ident))
			var k [16]byte
			copy(k[:], h[:16])
			e.mu.Lock()
			_, dup := e.sources[k]
			e.sources[k] = struct{}{}
			if (g.Family == "tail" || g.Family == "multiform" || g.Family == "chain" || g.Family == "forward" || (entryTail(g.Case) && pr.heightOn > 0)) && g.Container != "walk" && c.N >= 10 && c.Err != "first" && pr.fits {
				if pr.heightOff > pr.heightOn {
					e.collapsed++
				} else {
					e.notHigher++
				}
			}
			key := g.Family + g.Def + g.Starter + "/" + blk + "/" + c.Err + "/" + fmt.Sprint(len(c.Shape))
			want := !e.sampled[key] && c.N == 3 && (c.Topo == 2 || g.Family == "sequence") && len(e.sampled) < 24
			if g.Family == "entry" {
				// (its own small budget: the family runs after the others)
				key = "entry/" + c.DefCtx + "/" + c.RunCtx + "/" + c.Root
				want = !e.sampled[key] && c.N == 10 && c.Topo == 2 && len(c.Shape) == 1 && c.RunEntry == "funcall" && c.DefCtx != "A-cancelled" && c.Root == "" && e.entrySampled < 4
				if want {
					e.entrySampled++
				}
			}
			if want {
				e.sampled[key] = true
			}
			e.mu.Unlock()
			if want {
				r.Sample(map[string]any{"case": c, "src": src, "outcome": pr.outcomeKind,
					"max_height_on": pr.heightOn, "max_height_off": pr.heightOff})
			}
			if !dup && pr.iterated && pr.fits {
				r.Nontrivial(ident)
			}
			r.Outcome(g.Family + g.Def + " " + blk + " err=" + c.Err + " -> " + pr.outcomeKind)
		})
		if g.Family == "chain" || g.Family == "forward" || entryTail(g.Case) {
			r.AddEvals(2)       // the long run, with and without the small MaxHeightPhysical
			r.AddTransitions(6) // 5 height / base-depth comparisons + the small-stack outcome
		}
		if g.Family == "tail" || (g.Family == "multiform" && r.Thorough()) {
			r.AddTransitions(5) // height / base-depth comparisons across N
		}
		if len(fs) > 0 {
			pmu.Lock()
			for _, f := range fs {
				e.found[f.Oracle]++
				pendingPerClass[f.class()]++
				if pendingPerClass[f.class()] > 3 && g.Family != "chain" && g.Family != "entry" {
					continue // Violate keeps at most 3 cases per class anyway
				}
				// (chain and entry families: every finding is kept so that the 3 reported
				// ones are the smallest depths / ring sizes, whatever the
				// order in which the workers finished)
				pending = append(pending, pendingFinding{g, f})
			}
			pmu.Unlock()
		}
	})
	// report in canonical order: minimal shapes first, later ones subsumed
	sort.SliceStable(pending, func(i, j int) bool {
		a, b := pending[i].f, pending[j].f
		if la, lb := len(a.Case.tokens()), len(b.Case.tokens()); la != lb {
			return la < lb
		}
		if a.class() != b.class() {
			return a.class() < b.class()
		}
		if len(a.Case.Shape) != len(b.Case.Shape) { // chain family: smallest depth first
			return len(a.Case.Shape) < len(b.Case.Shape)
		}
		if a.Case.Topo != b.Case.Topo {
			return a.Case.Topo < b.Case.Topo
		}
		if a.Case.Args != b.Case.Args {
			return a.Case.Args < b.Case.Args
		}
		if a.Case.Err != b.Case.Err {
			return a.Case.Err < b.Case.Err
		}
		if a.Case.N != b.Case.N {
			return a.Case.N < b.Case.N
		}
		if a.Case.RunEntry != b.Case.RunEntry {
			return a.Case.RunEntry < b.Case.RunEntry
		}
		return a.Case.DefEntry < b.Case.DefEntry
	})
	reportedPerClass := map[string]int{}
	for _, pf := range pending {
		f := pf.f
		if e.isSubsumed(f) {
			e.subsumed[f.Oracle]++
			continue
		}
		reportedPerClass[f.class()]++
		if reportedPerClass[f.class()] > 3 {
			continue
		}
		if !e.confirm(pf.g, f) {
			continue
		}
		f.Case.Src = Source(f.Case)
		r.Violate("c02", f.class(), f.Case, f.Expected, f.Got, f.Note)
		// pending is sorted by token count, so a longer shape met later in
		// this same batch (a labels-defined loop) is already subsumed
		e.violated[f.Oracle] = append(e.violated[f.Oracle], f.Case.tokens())
	}
}

// reducedBlocked: shapes with a degenerate blocker spelling get the full cross
// product only in the thorough tier on base shapes of depth <= 1.
var fullDegenerate bool

func reducedBlocked(shape []string) bool {
	return hasDegenerateBlocker(shape) && (!fullDegenerate || len(shape)-1 >= 2)
}

func makeGroups(family string, shapes [][]string) []group {
	var gs []group
	for _, s := range shapes {
		for topo := 1; topo <= 3; topo++ {
			if topo == 3 && hasHeadToken(s) {
				continue // operator-position shapes: self and 2-cycle
			}
			if reducedBlocked(s) {
				// degenerate spellings outside their full cross product: self and
				// mutual recursion, accumulator style, no error / error at iteration N
				if topo <= 2 {
					gs = append(gs, group{Case{Family: family, Shape: s, Topo: topo, Args: "acc", Err: "none"}},
						group{Case{Family: family, Shape: s, Topo: topo, Args: "acc", Err: "base"}})
				}
				continue
			}
			for _, a := range argStyles {
				for _, em := range errModes {
					gs = append(gs, group{Case{Family: family, Shape: s, Topo: topo, Args: a, Err: em}})
				}
				if family == "tail" {
					// the same loop as labels-bound closures (error-free runs only)
					gs = append(gs, group{Case{Family: family, Def: "labels", Shape: s, Topo: topo, Args: a, Err: "none"}})
				}
			}
		}
	}
	return gs
}

// makeClosureGroups: shapes x topology x definition style x parameter style
// x captured parameter x carry mode.
func makeClosureGroups(shapes [][]string) []group {
	var gs []group
	for _, s := range shapes {
		for topo := 1; topo <= 3; topo++ {
			for _, def := range []string{"", "labels"} {
				for _, ps := range closureParams {
					for _, cap := range closureCaptures {
						for _, carry := range closureCarries {
							gs = append(gs, group{Case{Family: "closure", Def: def, Shape: s, Topo: topo, Args: ps, Err: "none",
								Capture: cap, Carry: carry}})
						}
					}
				}
			}
		}
	}
	return gs
}

// makeChainGroups: chain LENGTH as the explored dimension.
//
//	nest  one function (thorough: also a 2-cycle) whose tail call sits under d
//	      nested terminal positions, every d in 1..40 (quick, 4 kinds) / 1..80
//	      (thorough, each of the 15 positions and the 15 in rotation)
//	ring  k mutually tail-recursive functions, every k in 1..16 / 1..32, each
//	      body wrapped in the first w = 0..4 positions of two wrapper lists
func makeChainGroups(thorough bool) []group {
	kinds := []string{"if-then", "let-body", "funcall", "mixed"}
	maxD, maxK, topos := 40, 16, []int{1}
	if thorough {
		kinds = append(append([]string{}, terminalTokens...), "mixed")
		maxD, maxK, topos = 80, 32, []int{1, 2}
	}
	var gs []group
	for d := 1; d <= maxD; d++ {
		for _, t := range kinds {
			for _, topo := range topos {
				gs = append(gs, group{Case{Family: "chain", Chain: "nest:" + t, Shape: nestShape(t, d), Topo: topo, Args: "acc", Err: "none"}})
			}
		}
	}
	for k := 1; k <= maxK; k++ {
		for wi, wn := range ringWrapperNames {
			for w := 0; w <= 4; w++ {
				if w == 0 && wi > 0 {
					continue // no wrapper: the same program for every list
				}
				gs = append(gs, group{Case{Family: "chain", Chain: fmt.Sprintf("ring:%s/w%d", wn, w), Shape: ringWrappers[wn][:w], Topo: k, Args: "acc", Err: "none"}})
			}
		}
	}
	return gs
}

// makeWalkGroups: the stack-growth sub-family of multiform.  quick: 4 shapes
// for the non-last form's call x {self, mutual}, defun, plus the labels
// variant of the direct shape; thorough: every shape of depth <= 1 x {self,
// mutual} x {defun, labels}.
func makeWalkGroups(thorough bool) []group {
	var gs []group
	add := func(shape []string, topo int, def string) {
		gs = append(gs, group{Case{Family: "multiform", Container: "walk", Layout: "SLM", Main: "direct", Def: def,
			Shape: shape, Topo: topo, Args: "acc", Err: "none"}})
	}
	if !thorough {
		for _, sh := range [][]string{{}, {"if-then"}, {"let-body"}, {"funcall"}} {
			for topo := 1; topo <= 2; topo++ {
				add(sh, topo, "")
			}
		}
		add([]string{}, 1, "labels")
		add([]string{}, 2, "labels")
		return gs
	}
	for _, sh := range tailShapes(1) {
		for topo := 1; topo <= 2; topo++ {
			add(sh, topo, "")
			add(sh, topo, "labels")
		}
	}
	return gs
}

// makeForwardGroups: forwarding forms x shapes of depth <= 1 x topology x
// definition style (quick: labels only for the direct shape; accumulator
// style, no error) (thorough: x argument styles x error modes none/base).
func makeForwardGroups(thorough bool) []group {
	var gs []group
	args, errs := []string{"acc"}, []string{"none"}
	if thorough {
		args, errs = argStyles, []string{"none", "base"}
	}
	for _, fw := range forwardForms {
		for _, sh := range tailShapes(1) {
			for topo := 1; topo <= 3; topo++ {
				for _, def := range []string{"", "labels"} {
					if def == "labels" && !thorough && len(sh) > 0 {
						continue
					}
					for _, a := range args {
						for _, em := range errs {
							if def == "labels" && em != "none" {
								continue
							}
							gs = append(gs, group{Case{Family: "forward", Forward: fw, Def: def, Shape: sh, Topo: topo, Args: a, Err: em}})
						}
					}
				}
			}
		}
	}
	return gs
}

// makeSeqGroups: loop shapes x starter x function pattern x K.
func makeSeqGroups(shapes [][]string) []group {
	var gs []group
	for _, s := range shapes {
		for _, st := range starters {
			for _, fp := range funcPatterns {
				for _, k := range []int{2, 3, 5} {
					gs = append(gs, group{Case{Family: "sequence", Shape: s, Topo: 1, Args: "acc", Err: "none",
						Starter: st, Funcs: fp, K: k}})
				}
			}
		}
	}
	return gs
}

// makeMultiGroups: side shapes x (container, main call) x layout x turn x
// (topology, target) x argument styles.  The main call goes through
// funcall/apply only with the plain body container (defun and labels).
func makeMultiGroups(shapes [][]string, args []string) []group {
	type cm struct{ def, container, main string }
	var cms []cm
	for _, m := range mainCalls {
		cms = append(cms, cm{"", "body", m}, cm{"labels", "body", m})
	}
	for _, c := range containers[1:] {
		cms = append(cms, cm{"", c, "direct"})
	}
	type tt struct {
		topo   int
		target string
	}
	tts := []tt{{1, "self"}, {2, "self"}, {2, "next"}}
	var gs []group
	for _, s := range shapes {
		for _, x := range cms {
			for _, lay := range layouts {
				for _, tu := range turns {
					for _, t := range tts {
						for _, a := range args {
							gs = append(gs, group{Case{Family: "multiform", Def: x.def, Shape: s, Topo: t.topo, Args: a, Err: "none",
								Container: x.container, Layout: lay, Turn: tu, Target: t.target, Main: x.main}})
						}
					}
				}
			}
		}
	}
	return gs
}

func byDepth(shapes [][]string) map[int][][]string {
	m := map[int][][]string{}
	for _, s := range shapes {
		m[len(s)] = append(m[len(s)], s)
	}
	return m
}

func run(r *core.Run) {
	// TerminalFID logs through the std logger before panicking on an
	// inconsistent stack; keep a broken build from flooding the output.
	log.SetOutput(io.Discard)

	tailDepth, insDepth, mfDepth := 2, 1, 1
	ns := []int{0, 1, 2, 3, 10, 100}
	if r.Thorough() {
		tailDepth, insDepth, mfDepth = 3, 2, 2
	}
	e := &explorer{r: r, sources: map[[16]byte]struct{}{}, violated: map[string][][]string{},
		subsumed: map[string]int{}, found: map[string]int{}, sampled: map[string]bool{}}

	r.Bound("terminal_positions", terminalTokens)
	fullDegenerate = r.Thorough()
	r.Bound("blocking_boundaries", blockerTokens)
	r.Bound("blocking_boundaries_degenerate_spellings", map[string]any{"tokens": degenerateBlockers,
		"cross_product":         "quick, and thorough on base shapes of depth 2: self and 2-cycle, accumulator style, error modes none/base; thorough on base shapes of depth <= 1: full",
		"tail_iteration_budget": "every blocked program with N=10 is also run with elimination on under MaxTailIterations=4 and must agree with elimination off"})
	r.Bound("transparency_only_positions", append(append([]string{}, nontailTokens...), headTokens...))
	r.Bound("tail_shape_depth", tailDepth)
	r.Bound("blocked_base_shape_depth", insDepth)
	r.Bound("transparency_only_base_shape_depth", 1)
	r.Bound("topologies", []string{"self", "2-cycle", "3-cycle"})
	r.Bound("argument_styles", argStyles)
	r.Bound("error_modes", errModes)
	r.Bound("definition_styles", "top-level defun (all families); labels-bound closures (tail family, error mode none)")
	r.Bound("iteration_counts", ns)
	if r.Thorough() {
		r.Bound("iteration_count_1000", "tail shapes of depth<=2 and blocked/transparency-only shapes on a base shape of depth<=1: all configurations, all styles and error modes; tail shapes of depth 3: accumulator style, defun, no error, configurations on+off")
		r.Bound("iteration_count_100_big_sets", "tail shapes of depth 3 and blocked shapes on a base shape of depth 2 run N=100 under configurations on+off only (N<=10 under all four)")
	}
	r.Bound("multiform_side_shape_depth", mfDepth)
	r.Bound("multiform_dimensions", map[string]any{"containers": containers, "layouts": layouts, "turn_of_side_call": turns,
		"topology_x_side_target": []string{"self/self", "2-cycle/self", "2-cycle/next"}, "main_call": mainCalls,
		"definition_styles": "defun and labels for the body container (each with main call direct|funcall|apply); defun + direct for the other containers",
		"argument_styles":   "quick: acc; thorough: all three for side shapes of depth<=1, acc for depth 2",
		"iteration_counts":  "quick: 0,1,2,3,10; thorough adds 100 (all configurations for depth<=1, on+off for depth 2)"})
	r.Bound("sequence_dimensions", map[string]any{"loop_shape_depth": mfDepth, "starters": starters, "function_patterns": funcPatterns,
		"loops_K": []int{2, 3, 5}, "turns_per_loop_n": "quick 3,10; thorough 2,3,10,30",
		"Stack.MaxTailIterations": "every value of {n, n+1, 2n-1, 2n, K*n-1, K*n}", "argument_style": "acc"})
	r.Bound("multiform_stack_growth", map[string]any{"program": "in-order walk of a thin tree: left child by plain recursion from a non-last body form, right children by tail calls (self, or through a second function and back), walked twice in one runtime",
		"left_spine_depths":           "quick 20,40,70,100,140,300; thorough 5,10,14,20,30,40,50,70,100,140,200,300,420,600 (2 frames and more per level)",
		"shapes_of_the_non_last_call": "quick direct, if-then, let-body, funcall; thorough every shape of depth<=1", "runtime": "always fresh (fresh call stack)"})
	r.Bound("forwarding_builtin_targets", map[string]any{"forms": forwardForms, "shape_depth": 1, "topologies": "self, 2-cycle, 3-cycle",
		"quick": "accumulator style, no error, defun (labels for the direct shape)", "thorough": "all argument styles, error modes none/base, defun and labels",
		"relations": "constant stack (N=10 vs 100 [vs 1000], and the long run under MaxHeightPhysical = short peak + 8), transparency"})
	r.Bound("chain_length_dimensions", map[string]any{
		"nest":  "tail call under d nested terminal positions, every d in 1..40 (quick: if-then, let-body, funcall, the 15 positions in rotation; self recursion) / 1..80 (thorough: each of the 15 positions and the rotation; self and 2-cycle)",
		"ring":  "k mutually tail-recursive functions, every k in 1..16 (quick) / 1..32 (thorough), bodies wrapped in the first w=0..4 of {if-then let-body cond-else progn-last} and {funcall let*-body apply or-last}",
		"turns": "n = the multiple of k that is >= 10 and >= 2k, and 10n", "small_stack": "long run repeated under MaxHeightPhysical = short run's peak + 8"})
	r.Bound("closure_dimensions", map[string]any{"loop_shape_depth": mfDepth, "parameter_styles": closureParams, "captured_parameter": closureCaptures,
		"carry": closureCarries, "topologies": "self, 2-cycle, 3-cycle", "definition_styles": "defun, labels",
		"iteration_counts": "quick 0,1,2,3,10; thorough adds 100", "Stack.MaxTailIterations": closureTailLimit})
	r.Bound("entry_point_dimensions", map[string]any{
		"definition_entry":   "quick: load-string; thorough: " + strings.Join(entryDefEntries, ", ") + " (with / without a context parameter)",
		"run_entry":          entryRunEntries,
		"context_pairs":      "(definitions, run) in " + fmt.Sprint(entryCtxPairs) + ": none = the entry point without a context parameter, A / other = two distinct live monitoring contexts, A-cancelled = A cancelled once the definitions are loaded, background = context.Background()",
		"root_environment":   "without / with a context installed by lisp.WithContext",
		"shapes":             "quick: the 16 terminal shapes of depth <= 1 and each of the 4 blocking boundaries alone; thorough: blockers at every level of the depth <= 1 shapes (a blocker combined with a terminal position: definitions through load-string, self and 2-cycle), and the 225 shapes of depth 2 for load-string -> funcall without a root context",
		"topologies":         "quick: self, 2-cycle; thorough: self, 2-cycle, 3-cycle",
		"error_modes":        "none, base (base: the shape is the last form of the function body itself)",
		"argument_style":     "acc",
		"iteration_counts":   "quick: 10 {on, off, profiler}, 100 {on, off}; thorough: 10, 100 {on, off, profiler}, 1000 {on, off} (tail shapes, definitions through load-string, no root context)",
		"runtime":            "one per worker, root-context mode and configuration, reused like the other families'; every program brings fresh context objects",
		"relations":          "constant stack (N=10 vs 100 [vs 1000]: base-case depth, per-step maximum where the running context is a monitoring one; the long run under MaxHeightPhysical = short peak + 8), transparency against the dormant-debugger run of the same entry pair, never-collapsed for the blockers",
		"program_identities": "a program of this family is (source text, definition entry and context, run entry and context, root mode)",
	})
	r.Bound("configurations", allConfigs)
	r.Rule("a program is every (shape, topology, argument style, error mode, N); non-trivial = it performs at least one recursive call (N>=1) and its elimination-off run stays inside the stack limits so that the transparency relation applies; distinct by source text (entry family: and by entry pair). The entry family splits such a program into its definitions and its top-level call and lets the two halves enter one fresh runtime through every pair of host entry points (load-string, load-program, eval, funcall) under every relation between the two context objects (none, the same, another, a cancelled one, context.Background(); with or without a root context): constant stack, transparency and never-collapsed must hold for every pair")
	r.Assume("elimination off = Runtime.Debugger set to an attached, never-enabled debugger; profiler = a lisp.Profiler that only counts spans")
	r.Assume("max stack height = max len(Runtime.Stack.Frames) sampled at every evaluation step through the context's Err() hook; the 'plain' configuration runs without a context and is compared on outcome and base-case depth only")
	r.Assume("unspecified: step counts, error message text and error stack traces differ legitimately between configurations and are not compared")
	r.Assume("not demanded: a call that merely appears in a macro's expansion is legitimately collapsed; MACRO-BODY means the call is made while the macro body runs (the macro reads its operands from globals because it cannot see the caller's lexical scope; LOAD-STRING likewise)")
	r.Assume("thread-first/thread-last around a form that cannot absorb a threaded operand (cond, let, let*, flet, labels, dotimes, thread-*, and for thread-last everything but a call and if-then) go through an `if` whose then-branch is the operand")
	r.Assume("OP-* positions put the operand in the operator position of a tail call (compound head, zero or one argument, or a let-/labels-bound function called in the head); programs with such a token return functions from the loop (c02-fn) and the top level extracts the payload; self and 2-cycle topologies")
	r.Assume("NT-* positions (including `and`) are not terminal and XP-* positions put the call in a macro's expansion: only transparency is demanded for them")
	r.Assume("multiform: the side call (a recursive call in the tail of a NON-last form of a multi-form body) is made with n=-100, so its activation goes straight to the base case, prints there and logs itself in g-log; the program's value is (list result g-log)")
	r.Assume("sequence: K separate loops of n turns run on ONE runtime with Stack.MaxTailIterations >= n, and no single loop reaches the limit (measured: every loop is also run alone in a fresh runtime with elimination on and the same limit; a case where a lone loop already fails is outside the precondition, e.g. funcall>funcall 2-cycles where the funcall frame is itself a loop frame and counts 3 turns for n=2); with elimination off the limit is never consulted, hence any limit error with elimination on is a transparency violation")
	r.Assume("chain: peak stack height and base-case depth are equal for n and 10n turns, the 10n run completes with elimination on under MaxHeightPhysical = (peak of the n run)+8, and on/off agree; the class names the kind of chain, not its length: the three smallest failing lengths are reported")
	r.Assume("closure: every turn builds a closure over one of the function's own parameters (counter, datum, &rest list) that is used after later turns rebound the parameters (collected and invoked after the loop, continuation-passing, returned, or invoked by the next turn); runs under MaxTailIterations=5000, far above the <=100 turns, only so that a runaway continuation in a broken evaluator stops quickly")
	r.Assume("multiform/walk: every case runs in a fresh runtime so that the call stack's frame slice grows during the first walk; the visit order (g-log) of both walks is part of the value")
	r.Assume("entry: the step monitor hangs on the harness's own context objects, so a run through an entry point without a context parameter (and no root context) or under context.Background() is compared on the base-case depth and on the outcome under the small MaxHeightPhysical only; the stack is sampled during the run half only; nothing is compared across entry pairs (the statement relates executions with elimination on and off, not entry points)")
	r.Assume("one runtime per worker and configuration is reused for up to 256 programs (they only redefine globals); it is dropped when a run leaves frames behind, is cancelled or panics; every disagreement is re-confirmed 5x in fresh runtimes")
	r.Assume("violations are reported minimal-shape-first: a shape that contains an already reported shape (same relation) as a subsequence is counted under subsumed_violations, not reported")

	fam := map[string]map[int][][]string{
		"tail":              byDepth(tailShapes(tailDepth)),
		"blocked":           byDepth(insertedShapes(insDepth, append(append([]string{}, blockerTokens...), degenerateBlockers...))),
		"transparency-only": byDepth(insertedShapes(1, append(append([]string{}, nontailTokens...), headTokens...))),
		"multiform":         byDepth(tailShapes(mfDepth)),
		"sequence":          byDepth(tailShapes(mfDepth)),
		"closure":           byDepth(tailShapes(mfDepth)),
	}
	for _, f := range []string{"tail", "blocked", "transparency-only", "multiform", "sequence", "closure"} {
		n := 0
		for _, ss := range fam[f] {
			n += len(ss)
		}
		r.Bound(f+"_shapes", n)
	}
	// breadth first, the two big sets last, so that a run cut short by the
	// soft deadline has covered every family; within a family shapes are
	// visited by increasing length (minimal-first reporting relies on it)
	steps := []struct {
		family string
		length int
	}{
		{"tail", 0}, {"tail", 1}, {"tail", 2},
		{"blocked", 1}, {"blocked", 2},
		{"transparency-only", 1}, {"transparency-only", 2},
		{"sequence", 0}, {"sequence", 1}, {"sequence", 2},
		{"multiform", 0}, {"multiform", 1}, {"multiform", 2},
		{"walk", 0},
		{"forward", 0},
		{"entry", 0},
		{"chain", 0},
		{"closure", 0}, {"closure", 1}, {"closure", 2},
		{"blocked", 3}, {"tail", 3},
	}
	only := os.Getenv("C02_ONLY") // development aid: run one family
	for _, st := range steps {
		if only != "" && only != st.family {
			continue
		}
		if st.family == "entry" {
			if r.Expired() {
				r.Cap("soft deadline before the entry-point / context family")
				continue
			}
			t0 := time.Now()
			gs := makeEntryGroups(r.Thorough())
			e.runGroups(gs)
			fmt.Fprintf(os.Stderr, "c02: entry points x contexts: %d groups, %.1fs\n", len(gs), time.Since(t0).Seconds())
			continue
		}
		if st.family == "walk" {
			if r.Expired() {
				r.Cap("soft deadline before the stack-growth walks")
				continue
			}
			t0 := time.Now()
			gs := makeWalkGroups(r.Thorough())
			e.runGroups(gs)
			fmt.Fprintf(os.Stderr, "c02: multiform stack-growth walks: %d groups, %.1fs\n", len(gs), time.Since(t0).Seconds())
			continue
		}
		if st.family == "forward" {
			if r.Expired() {
				r.Cap("soft deadline before the forwarding-builtin family")
				continue
			}
			t0 := time.Now()
			gs := makeForwardGroups(r.Thorough())
			e.runGroups(gs)
			fmt.Fprintf(os.Stderr, "c02: forwarding builtins as targets: %d groups, %.1fs\n", len(gs), time.Since(t0).Seconds())
			continue
		}
		if st.family == "chain" {
			if r.Expired() {
				r.Cap("soft deadline before the chain-length family")
				continue
			}
			t0 := time.Now()
			gs := makeChainGroups(r.Thorough())
			e.runGroups(gs)
			fmt.Fprintf(os.Stderr, "c02: chain-length family: %d groups, %.1fs\n", len(gs), time.Since(t0).Seconds())
			continue
		}
		shapes := fam[st.family][st.length]
		if len(shapes) == 0 {
			continue
		}
		if r.Expired() {
			r.Cap(fmt.Sprintf("soft deadline before the %d %s shapes of length %d", len(shapes), st.family, st.length))
			continue
		}
		t0 := time.Now()
		var gs []group
		if st.family == "closure" {
			gs = makeClosureGroups(shapes)
		} else if st.family == "sequence" {
			gs = makeSeqGroups(shapes)
		} else if st.family == "multiform" {
			args := []string{"acc"}
			if r.Thorough() && st.length <= 1 {
				args = argStyles
			}
			gs = makeMultiGroups(shapes, args)
		} else {
			gs = makeGroups(st.family, shapes)
		}
		e.runGroups(gs)
		fmt.Fprintf(os.Stderr, "c02: %s shapes of length %d: %d shapes, %d groups, %.1fs\n", st.family, st.length, len(shapes), len(gs), time.Since(t0).Seconds())
	}
	r.AddStates(int64(len(e.sources)))
	r.Extra("tail_programs_where_elimination_lowered_the_stack", e.collapsed)
	r.Extra("tail_programs_where_it_did_not", e.notHigher)
	r.Extra("subsumed_violations", e.subsumed)
	r.Extra("disagreeing_programs_by_relation", e.found)
}

func replay(v core.Violation) (bool, string) {
	log.SetOutput(io.Discard)
	c, err := core.CaseOf[Case](v)
	if err != nil {
		return false, err.Error()
	}
	g := group{c}
	var b strings.Builder
	fmt.Fprintf(&b, "program:\n%s", Source(c))
	if c.Family == "entry" {
		fmt.Fprintf(&b, "entry: all lines but the last through %s (context: %s), then the last line through %s (context: %s); root context: %q\n",
			c.DefEntry, c.DefCtx, c.RunEntry, c.RunCtx, c.Root)
	}
	for _, nr := range runsFor(c) {
		b.WriteString(Describe(g.kase(nr.N)))
	}
	hit := false
	for _, f := range checkGroup(nil, g, runsFor(c), nil) {
		fmt.Fprintf(&b, "%s: expected %s; got %s\n", f.Oracle, f.Expected, f.Got)
		if f.Oracle == c.Oracle || c.Oracle == "" {
			hit = true
		}
	}
	return hit, b.String()
}
