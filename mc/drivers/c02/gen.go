package c02

import (
	"fmt"
	"strings"
)

// ---------------------------------------------------------------------------
// The program grammar.
//
// A case is a loop of `Topo` functions f0 -> f1 -> ... -> f0 (Topo = 1 is self
// recursion).  Every function has the same body
//
//	(defun fK PARAMS  [error-at-iteration-1 check]
//	  (if (<= n 0) BASE  W1[ W2[ ... Wd[ (f(K+1) ARGS) ] ] ]))
//
// or, in error mode "base" (the loop ends by an error at iteration N),
//
//	(defun fK PARAMS  (if (<= n 0) (error ...) ())  W1[ W2[ ... ] ])
//
// so that the shape is the last form of the function body itself;
//
// where W1..Wd is the *shape*: a sequence of tokens, each of which places its
// operand in one syntactic position of one construct.  Tokens come in three
// groups:
//
//	terminal positions (the 15 the property lists)  - the call stays a tail call
//	blockers (MACRO-BODY HANDLER-BIND IGNORE-ERRORS LOAD-STRING) - the call is made
//	    inside the dynamic extent of a frame that must never be collapsed
//	non-tail positions (NT-*) - the call is NOT in tail position (transparency only)
//	macro-expansion positions (XP-*) - the call appears in a macro's expansion (transparency only)

// terminal positions, in the order of DESIGN.md §C02.
var terminalTokens = []string{
	"if-then", "if-else", "cond-clause", "cond-else", "progn-last", "let-body", "let*-body",
	"flet-body", "labels-body", "or-last", "thread-first-last", "thread-last-last", "dotimes-result",
	"funcall", "apply",
	// the result form of a dotimes whose count is zero / negative (the body never runs; with and without a body form):
	// it is in tail position whatever the count is
	"dotimes-result-zero", "dotimes-result-negative-no-body",
}

var blockerTokens = []string{"MACRO-BODY", "HANDLER-BIND", "IGNORE-ERRORS", "LOAD-STRING"}

// degenerateBlockers are the other spellings of the same four boundaries:
// handler-bind with 0 bindings (one and two body forms, and with the empty
// binding list spliced in by a macro) and with 2 bindings, ignore-errors with
// a single body form, a macro body that is a progn / has two forms, and a
// nested load through load-bytes.
var degenerateBlockers = []string{"HANDLER-BIND-0", "HANDLER-BIND-0-ONEFORM", "HANDLER-BIND-0-SPLICED", "HANDLER-BIND-2",
	"IGNORE-ERRORS-ONEFORM", "MACRO-BODY-PROGN", "MACRO-BODY-TWOFORMS", "LOAD-BYTES"}

func isDegenerateBlocker(t string) bool {
	for _, d := range degenerateBlockers {
		if d == t {
			return true
		}
	}
	return false
}

func hasDegenerateBlocker(shape []string) bool {
	for _, t := range shape {
		if isDegenerateBlocker(t) {
			return true
		}
	}
	return false
}

// positions for which only transparency is demanded: NT-* put the call in a
// non-tail position; XP-* put it in the EXPANSION of a macro (evaluated after
// the macro frame is gone: legitimately a tail call, DESIGN §C02).
var nontailTokens = []string{"NT-arg", "NT-and", "NT-progn-nonlast", "NT-let-value", "NT-if-test", "NT-or-nonlast",
	"XP-macro-identity", "XP-macro-template"}

// OP-* put the operand in the OPERATOR position of a call that is itself in
// tail position: the operand (a recursive call, or a terminal shape ending in
// one) returns a function which is then applied.  The operator expression is
// not a tail expression, so the call in it must not be collapsed.  Programs
// with an OP-* token make every loop result a function (see Source).
var headTokens = []string{"OP-head-0", "OP-head-1", "OP-head-let-bound", "OP-head-labels-bound"}

func hasHeadToken(shape []string) bool {
	for _, t := range shape {
		if strings.HasPrefix(t, "OP-") {
			return true
		}
	}
	return false
}

var argStyles = []string{"acc", "rest", "key"}

var errModes = []string{"none", "base", "first"}

func isBlocker(t string) bool { return t == strings.ToUpper(t) && !strings.HasPrefix(t, "NT-") }
func isNontail(t string) bool { return strings.HasPrefix(t, "NT-") }

// blockerFrameName is the CallFrame.Name the blocker's own frame carries.
func blockerFrameName(t string) string {
	switch {
	case strings.HasPrefix(t, "HANDLER-BIND"):
		return "handler-bind"
	case strings.HasPrefix(t, "IGNORE-ERRORS"):
		return "ignore-errors"
	case t == "LOAD-STRING":
		return "load-string"
	case t == "LOAD-BYTES":
		return "load-bytes"
	case strings.HasPrefix(t, "MACRO-BODY"):
		return "mb" // prefix: mb0, mb1, mb2
	}
	return ""
}

// Case is one program of the space (JSON: the replay contract).
type Case struct {
	Family string   `json:"family"`        // tail | blocked | transparency-only | multiform | sequence | chain | closure | forward | entry
	Def    string   `json:"def,omitempty"` // "" (top-level defun) | labels (the loop is a set of labels-bound closures)
	Shape  []string `json:"shape"`         // outermost first
	Topo   int      `json:"topo"`          // cycle length 1..3
	Args   string   `json:"args"`          // acc | rest | key
	Err    string   `json:"err"`           // none | base | first
	N      int      `json:"n"`
	// multiform family only: the function body has several forms and a
	// NON-last one (the "side form", whose shape is Shape) ends in a
	// recursive call on one chosen turn of the loop.
	Container string `json:"container,omitempty"` // body | let | progn | dotimes | lambda-funcall | lambda-apply | walk
	Layout    string `json:"layout,omitempty"`    // SM | SLM | LSM  (S side form, L log form, M main loop form)
	Turn      string `json:"turn,omitempty"`      // first | second | last | every : the turn(s) on which the side call is made
	Target    string `json:"target,omitempty"`    // self | next : the function the side call calls
	Main      string `json:"main,omitempty"`      // direct | funcall | apply : how the main tail call is made
	// sequence family only: K separate loops of N turns each on one runtime,
	// under Stack.MaxTailIterations = Limit.
	Starter string `json:"starter,omitempty"` // toplevel | dotimes | map | host-funcall
	Funcs   string `json:"funcs,omitempty"`   // same | alt | cycle2
	K       int    `json:"k,omitempty"`
	Limit   int    `json:"limit,omitempty"`
	// single (not serialised): run just ONE loop, started by this function;
	// used to establish that no single loop of the sequence reaches the limit.
	single string
	// closure family only: the loop carries closures over its own parameters.
	// Args is the parameter style (req | opt | rest | key).
	Carry   string `json:"carry,omitempty"`   // collect | cps | return | prev
	Capture string `json:"capture,omitempty"` // counter | data : the parameter the closure captures
	// forward family only: the recursive call is made THROUGH a call-forwarding
	// builtin passed as the target of funcall/apply (see forwardForms).
	Forward string `json:"forward,omitempty"`
	// entry family only: the loop functions are DEFINED through one host entry
	// point under one context and RUN through another entry point under
	// another context (see entry.go).
	DefEntry string `json:"def_entry,omitempty"` // load-string | load-program | eval
	DefCtx   string `json:"def_ctx,omitempty"`   // none | A | A-cancelled
	RunEntry string `json:"run_entry,omitempty"` // load-string | load-program | eval | funcall
	RunCtx   string `json:"run_ctx,omitempty"`   // none | same | other | background
	Root     string `json:"root,omitempty"`      // "" | with-context (lisp.WithContext on the root environment)
	// chain family only: Chain names the explored dimension for the class,
	// "nest:<token>" (Shape is <token> repeated d times, or the 15 positions in
	// rotation for "mixed") or "ring:<wrapper>" (Topo functions in a ring, each
	// body wrapped by Shape).
	Chain string `json:"chain,omitempty"`
	// Ns is set for the constant-stack relation: the iteration counts whose
	// maximum stack heights were compared.
	Ns     []int  `json:"ns,omitempty"`
	Oracle string `json:"oracle,omitempty"`
	Src    string `json:"src,omitempty"` // informational; replay regenerates it
}

// tokens is the shape as used for violation classes and minimal-first
// reporting: a labels-defined loop is marked by a leading pseudo-token.
func (c Case) tokens() []string {
	if c.Family == "chain" {
		// the nesting depth / ring size is the explored dimension, not part of the class
		return []string{"CHAIN-" + c.Chain}
	}
	var t []string
	if c.Def == "labels" {
		t = append(t, "LABELS-LOOP")
	}
	if c.Family == "multiform" {
		t = append(t, "MF-"+c.Container)
	}
	if c.Family == "sequence" {
		t = append(t, "SEQ-"+c.Starter)
	}
	if c.Family == "closure" {
		t = append(t, "CLOS-"+c.Carry)
	}
	if c.Family == "forward" {
		t = append(t, "FWD-"+c.Forward)
	}
	if c.Family == "entry" {
		// the class names the relation between the two contexts (and whether the
		// root environment carries one), not the entry points
		s := "ENTRY-def:" + c.DefCtx + "/run:" + c.RunCtx
		if c.Root != "" {
			s += "/root:" + c.Root
		}
		t = append(t, s)
	}
	return append(t, c.Shape...)
}

func (c Case) shapeKey() string {
	t := c.tokens()
	if len(t) == 0 {
		return "direct"
	}
	return strings.Join(t, ">")
}

// vars names the variables visible at one nesting level: the function's own
// parameters, or (inside a macro body / a loaded string, which do not see the
// caller's lexical scope) the globals the blocker stashed them in.
type vars struct{ n, a string }

// form is a rendered expression with enough structure for thread-first /
// thread-last to re-thread it.
type form struct {
	head string
	args []string
	// fn: head is a function (all args are evaluated operands).
	fn bool
	// bare: this is the recursive call itself, not wrapped by anything.
	bare bool
	// tail: index in args of the operand that holds the tail expression, -1
	// for a function call (the call itself is the tail).
	tail int
	// lead: args[0] is an ordinary evaluated operand whose value is stable
	// under re-evaluation (thread-first may thread it).
	lead bool
}

func (f form) String() string {
	if len(f.args) == 0 {
		return "(" + f.head + ")"
	}
	return "(" + f.head + " " + strings.Join(f.args, " ") + ")"
}

// accExpr is the current accumulator value.
func accExpr(style string, v vars) string {
	if style == "rest" {
		return "(car " + v.a + ")"
	}
	return v.a
}

// callForm is the recursive call made by function k of a topo-cycle.
func callForm(c Case, k int, v vars) form {
	mix := fmt.Sprintf("(- (+ %s %d) %s)", v.n, k+1, accExpr(c.Args, v))
	return callTo(c, (k+1)%c.Topo, v, "(- "+v.n+" 1)", mix)
}

// callTo is a call of function `target` with the given n and accumulator operands.
func callTo(c Case, target int, v vars, dec, mix string) form {
	callee := fmt.Sprintf("f%d", target)
	var args []string
	switch c.Args {
	case "acc":
		args = []string{dec, mix}
	case "rest":
		args = []string{dec, mix, "(nth " + v.a + " 1)"}
	case "key":
		args = []string{":n", dec, ":acc", mix}
	}
	return form{head: callee, args: args, fn: true, bare: true, tail: -1}
}

func tick(level int, v vars) string { return fmt.Sprintf("(debug-print %d %s)", level, v.n) }

// wrap places inner at the position named by tok, at nesting level `level`
// (1 = outermost) of function k.
func wrap(c Case, tok string, level, k int, v vars, inner form) form {
	E := inner.String()
	L := level
	pos := "(> " + v.n + " 0)" // always true in the recursive branch
	neg := "(< " + v.n + " 0)" // always false
	switch tok {
	case "if-then":
		return form{head: "if", args: []string{pos, E, ":dead"}, tail: 1, lead: true}
	case "if-else":
		return form{head: "if", args: []string{neg, ":dead", E}, tail: 2, lead: true}
	case "cond-clause":
		return form{head: "cond", args: []string{"(" + neg + " :dead)", "(" + pos + " " + tick(L, v) + " " + E + ")", "(else :dead)"}, tail: 1}
	case "cond-else":
		return form{head: "cond", args: []string{"(" + neg + " :dead)", "(else " + tick(L, v) + " " + E + ")"}, tail: 1}
	case "progn-last":
		return form{head: "progn", args: []string{tick(L, v), E}, tail: 1, lead: true}
	case "let-body":
		return form{head: "let", args: []string{fmt.Sprintf("([v%d (+ %s 1)])", L, v.n), fmt.Sprintf("(debug-print %d v%d)", L, L), E}, tail: 2}
	case "let*-body":
		return form{head: "let*", args: []string{fmt.Sprintf("([v%d %s] [w%d (+ v%d 1)])", L, v.n, L, L), fmt.Sprintf("(debug-print %d w%d)", L, L), E}, tail: 2}
	case "flet-body":
		return form{head: "flet", args: []string{fmt.Sprintf("([h%d (x) (+ x 1)])", L), fmt.Sprintf("(debug-print %d (h%d %s))", L, L, v.n), E}, tail: 2}
	case "labels-body":
		return form{head: "labels", args: []string{fmt.Sprintf("([h%d (x) (+ x 2)])", L), fmt.Sprintf("(debug-print %d (h%d %s))", L, L, v.n), E}, tail: 2}
	case "or-last":
		return form{head: "or", args: []string{neg, E}, tail: 1, lead: true}
	case "thread-first-last":
		switch {
		case inner.fn:
			// (h a1 a2 ..) == (thread-first a1 (h a2 ..))
			rest := form{head: inner.head, args: inner.args[1:]}
			return form{head: "thread-first", args: []string{inner.args[0], rest.String()}, tail: 1}
		case inner.lead && inner.tail != 0:
			rest := form{head: inner.head, args: inner.args[1:]}
			return form{head: "thread-first", args: []string{inner.args[0], rest.String()}, tail: 1}
		default:
			// intermediary: thread the test of an `if` whose then-branch is E
			return form{head: "thread-first", args: []string{pos, "(if " + E + " :dead)"}, tail: 1}
		}
	case "thread-last-last":
		switch {
		case inner.fn:
			// (h a1 .. ak) == (thread-last ak (h a1 .. ak-1))
			k := len(inner.args) - 1
			rest := form{head: inner.head, args: inner.args[:k]}
			return form{head: "thread-last", args: []string{inner.args[k], rest.String()}, tail: 1}
		case inner.head == "if" && inner.tail == 1:
			rest := form{head: "if", args: inner.args[:2]}
			return form{head: "thread-last", args: []string{inner.args[2], rest.String()}, tail: 1}
		default:
			return form{head: "thread-last", args: []string{":dead", "(if " + pos + " " + E + ")"}, tail: 1}
		}
	case "dotimes-result":
		return form{head: "dotimes", args: []string{fmt.Sprintf("(i%d 1 %s)", L, E), fmt.Sprintf("(debug-print %d i%d)", L, L)}, tail: 0}
	case "dotimes-result-zero":
		return form{head: "dotimes", args: []string{fmt.Sprintf("(i%d 0 %s)", L, E), fmt.Sprintf("(debug-print %d i%d)", L, L)}, tail: 0}
	case "dotimes-result-negative-no-body":
		return form{head: "dotimes", args: []string{fmt.Sprintf("(i%d (- 0 1) %s)", L, E)}, tail: 0}
	case "funcall":
		if inner.bare {
			return form{head: "funcall", args: append([]string{inner.head}, inner.args...), fn: true, tail: -1}
		}
		return form{head: "funcall", args: []string{"(lambda () " + E + ")"}, fn: true, tail: -1}
	case "apply":
		if inner.bare {
			k := len(inner.args) - 1
			ref := "'" + inner.head // global functions are applied by (quoted) name ...
			if c.Def == "labels" {
				ref = inner.head // ... labels-bound ones by value
			}
			a := append([]string{ref}, inner.args[:k]...)
			a = append(a, "(list "+inner.args[k]+")")
			return form{head: "apply", args: a, fn: true, tail: -1}
		}
		return form{head: "apply", args: []string{"(lambda () " + E + ")", "'()"}, fn: true, tail: -1}

	// ---- blockers: E is evaluated inside the dynamic extent of a frame that must not be collapsed
	case "HANDLER-BIND":
		return form{head: "handler-bind", args: []string{"([c02-cond (lambda (c &rest a) (- -5000 " + v.n + "))])", tick(L, v), E}, tail: 2}
	case "IGNORE-ERRORS":
		return form{head: "ignore-errors", args: []string{tick(L, v), E}, tail: 1}
	case "HANDLER-BIND-0":
		return form{head: "handler-bind", args: []string{"()", tick(L, v), E}, tail: 2}
	case "HANDLER-BIND-0-ONEFORM":
		return form{head: "handler-bind", args: []string{"()", E}, tail: 1}
	case "HANDLER-BIND-0-SPLICED":
		// the binding list is spliced in by a macro (see Source): the expansion is (handler-bind () tick E)
		return form{head: "hbm", args: []string{"()", tick(L, v), E}, tail: 2}
	case "HANDLER-BIND-2":
		return form{head: "handler-bind", args: []string{"([c02-other (lambda (c &rest a) -7000)] [c02-cond (lambda (c &rest a) (- -5000 " + v.n + "))])", tick(L, v), E}, tail: 2}
	case "IGNORE-ERRORS-ONEFORM":
		return form{head: "ignore-errors", args: []string{E}, tail: 0}
	case "LOAD-STRING", "LOAD-BYTES":
		// E was rendered over the globals; it contains no string literal.
		if strings.ContainsAny(E, "\"\\") {
			panic("harness: load-string operand needs escaping: " + E)
		}
		load := "(load-string \"" + E + "\")"
		if tok == "LOAD-BYTES" {
			load = "(load-bytes (to-bytes \"" + E + "\"))"
		}
		return form{head: "progn", args: []string{"(set 'g-n " + v.n + ")", "(set 'g-a " + v.a + ")", load}, tail: 2}
	case "MACRO-BODY", "MACRO-BODY-PROGN", "MACRO-BODY-TWOFORMS":
		// the macro mbK (defined at top level, see Source) has E as its body
		return form{head: "progn", args: []string{"(set 'g-n " + v.n + ")", "(set 'g-a " + v.a + ")", fmt.Sprintf("(mb%d)", k)}, tail: 2}

	// ---- non-tail positions
	case "NT-arg":
		return form{head: "+", args: []string{"1", E}, tail: 1}
	case "NT-and":
		return form{head: "and", args: []string{pos, E}, tail: 1}
	case "NT-progn-nonlast":
		return form{head: "progn", args: []string{E, tick(L, v), fmt.Sprintf("(+ %s %d)", v.n, L)}, tail: 0}
	case "NT-let-value":
		return form{head: "let", args: []string{fmt.Sprintf("([r%d %s])", L, E), fmt.Sprintf("(debug-print %d r%d)", L, L), fmt.Sprintf("r%d", L)}, tail: 0}
	case "NT-if-test":
		return form{head: "if", args: []string{E, fmt.Sprintf("(+ %s 1)", v.n), fmt.Sprintf("(+ %s 2)", v.n)}, tail: 0}
	case "NT-or-nonlast":
		return form{head: "or", args: []string{E, ":dead"}, tail: 0}
	case "OP-head-0":
		// ((...E...)) : a zero-argument call whose head is a compound form
		return form{head: E, tail: -1}
	case "OP-head-1":
		return form{head: E, args: []string{v.n}, tail: -1}
	case "OP-head-let-bound":
		return form{head: "let", args: []string{fmt.Sprintf("([g%d (lambda () %s)])", L, E), fmt.Sprintf("((g%d))", L)}, tail: 1}
	case "OP-head-labels-bound":
		return form{head: "labels", args: []string{fmt.Sprintf("([g%d () %s])", L, E), fmt.Sprintf("((g%d))", L)}, tail: 1}
	case "XP-macro-identity":
		return form{head: "mx", args: []string{E}, tail: 0}
	case "XP-macro-template":
		return form{head: "mq", args: []string{E}, tail: 0}
	}
	panic("harness: unknown shape token " + tok)
}

// levelVars computes, for every level 1..d and for the call (index d), which
// variables are in scope: globals below a MACRO-BODY / LOAD-STRING blocker.
func levelVars(c Case) []vars {
	loc := vars{n: "n", a: "acc"}
	if c.Args == "rest" {
		loc.a = "xs"
	}
	out := make([]vars, len(c.Shape)+1)
	cur := loc
	for i, t := range c.Shape {
		out[i] = cur
		if strings.HasPrefix(t, "MACRO-BODY") || strings.HasPrefix(t, "LOAD-") {
			cur = vars{n: "g-n", a: "g-a"}
		}
	}
	out[len(c.Shape)] = cur
	return out
}

// recursive renders the recursive branch of function k and, when the shape
// has a MACRO-BODY blocker, the body of macro mbK.
func recursive(c Case, k int) (rec string, macroBody string) {
	lv := levelVars(c)
	d := len(c.Shape)
	f := callForm(c, k, lv[d])
	if c.Forward != "" {
		f = forwardForm(c, f)
	}
	for i := d - 1; i >= 0; i-- {
		switch c.Shape[i] {
		case "MACRO-BODY":
			macroBody = f.String()
		case "MACRO-BODY-PROGN":
			macroBody = "(progn " + tick(i+1, lv[i+1]) + " " + f.String() + ")"
		case "MACRO-BODY-TWOFORMS":
			macroBody = tick(i+1, lv[i+1]) + " " + f.String()
		}
		f = wrap(c, c.Shape[i], i+1, k, lv[i], f)
	}
	return f.String(), macroBody
}

// Source renders the whole program.
func Source(c Case) string {
	if c.Family == "multiform" && c.Container == "walk" {
		return sourceWalk(c)
	}
	if c.Family == "multiform" {
		return sourceMulti(c)
	}
	if c.Family == "sequence" {
		return sourceSeq(c)
	}
	if c.Family == "closure" {
		return sourceClosure(c)
	}
	var b strings.Builder
	b.WriteString("(set 'g-n 0) (set 'g-a 0)\n")
	for _, t := range c.Shape {
		switch t {
		case "HANDLER-BIND-0-SPLICED":
			b.WriteString("(defmacro hbm (hs &rest body) (quasiquote (handler-bind (unquote hs) (unquote-splicing body))))\n")
		case "XP-macro-identity":
			b.WriteString("(defmacro mx (x) x)\n")
		case "XP-macro-template":
			b.WriteString("(defmacro mq (x) (quasiquote (if true (unquote x) :dead)))\n")
		}
	}
	params := map[string]string{"acc": "(n acc)", "rest": "(n &rest xs)", "key": "(&key n acc)"}[c.Args]
	loc := vars{n: "n", a: "acc"}
	if c.Args == "rest" {
		loc.a = "xs"
	}
	acc := accExpr(c.Args, loc)
	base := "(progn (c02-probe) (debug-print 'base " + acc + ") " + acc + ")"
	fnValued := hasHeadToken(c.Shape)
	if fnValued {
		// every loop result is a function that returns a function of the
		// same kind when applied to < 2 operands, and its payload otherwise
		b.WriteString("(defun c02-fn (v) (lambda (&rest a) (if (> (length a) 1) v (c02-fn v))))\n")
		base = "(progn (c02-probe) (debug-print 'base " + acc + ") (c02-fn " + acc + "))"
	}
	if c.Err == "base" {
		base = "(progn (c02-probe) (debug-print 'base " + acc + ") (error 'c02-cond \"base\" " + acc + "))"
	}
	var defs []string
	for k := 0; k < c.Topo; k++ {
		rec, mb := recursive(c, k)
		if mb != "" {
			fmt.Fprintf(&b, "(defmacro mb%d () %s)\n", k, mb)
		}
		check := ""
		if c.Err == "first" {
			check = fmt.Sprintf("(if (= n %d) (error 'c02-cond \"first\" n) ()) ", c.N-1)
		}
		// skeleton: the loop test is an `if` whose else-branch holds the shape;
		// in error mode "base" the loop instead ends by an error raised from a
		// guard form and the shape is the LAST FORM OF THE FUNCTION BODY (no
		// special-operator frame between the function and the shape).
		body := fmt.Sprintf("%s(if (<= n 0) %s %s)", check, base, rec)
		if c.Err == "base" {
			body = fmt.Sprintf("(if (<= n 0) %s ()) %s", base, rec)
		}
		if c.Def == "labels" {
			defs = append(defs, fmt.Sprintf(" [f%d %s %s]\n", k, params, body))
		} else {
			defs = append(defs, fmt.Sprintf("(defun f%d %s %s)\n", k, params, body))
		}
	}
	top := ""
	switch c.Args {
	case "acc":
		top = fmt.Sprintf("(f0 %d 0)", c.N)
	case "rest":
		top = fmt.Sprintf("(f0 %d 0 7)", c.N)
	case "key":
		top = fmt.Sprintf("(f0 :n %d :acc 0)", c.N)
	}
	if c.Def == "labels" {
		b.WriteString("(labels (\n")
		for _, d := range defs {
			b.WriteString(d)
		}
		b.WriteString(" )\n " + top + ")\n")
		return b.String()
	}
	for _, d := range defs {
		b.WriteString(d)
	}
	if fnValued {
		top = "(" + top + " 0 0)"
	}
	b.WriteString(top + "\n")
	return b.String()
}

// ---------------------------------------------------------------------------
// shape enumeration (canonical order: by length, then lexicographic by token index)

// tailShapes: every sequence over the 15 terminal positions of length 0..depth.
func tailShapes(depth int) [][]string {
	out := [][]string{{}}
	prev := [][]string{{}}
	for d := 1; d <= depth; d++ {
		var cur [][]string
		for _, p := range prev {
			for _, t := range terminalTokens {
				s := append(append([]string{}, p...), t)
				cur = append(cur, s)
			}
		}
		out = append(out, cur...)
		prev = cur
	}
	return out
}

// insertedShapes: every terminal shape of length 0..depth with one token of
// `ins` inserted at every position 0..len.
func insertedShapes(depth int, ins []string) [][]string {
	var out [][]string
	for _, s := range tailShapes(depth) {
		for j := 0; j <= len(s); j++ {
			for _, b := range ins {
				t := make([]string, 0, len(s)+1)
				t = append(t, s[:j]...)
				t = append(t, b)
				t = append(t, s[j:]...)
				out = append(out, t)
			}
		}
	}
	return out
}

func blockerOf(shape []string) (tok string, idx int) {
	for i, t := range shape {
		if isBlocker(t) {
			return t, i
		}
	}
	return "", -1
}

// isSubsequence reports whether a is a subsequence of b.
func isSubsequence(a, b []string) bool {
	i := 0
	for _, t := range b {
		if i < len(a) && a[i] == t {
			i++
		}
	}
	return i == len(a)
}

// ---------------------------------------------------------------------------
// multiform family: function bodies with several forms.
//
//	(defun fK PARAMS  <container>[ S  [L]  M ])
//
//	S = (if (= n TURN) W1[..Wd[ (fT -100 SIDEACC) ]] ())   the side form: on one turn of the loop -- or, Turn "every", on every turn (n > 0) -- a
//	      loop a NON-last form ends, through the shape W, in a recursive call whose
//	      activation (n < 0) goes straight to the base case and prints there
//	L = (set 'g-log (cons n g-log))                        every activation logs itself
//	M = (if (<= n 0) BASE MAINCALL)                        the ordinary tail loop
//
// The side call is not a tail call of the function (S is not the last form),
// so it must be executed and return in every configuration; the program's
// value is (list result g-log).

var containers = []string{"body", "let", "progn", "dotimes", "lambda-funcall", "lambda-apply"}
var layouts = []string{"SM", "SLM", "LSM"}
var turns = []string{"first", "second", "last", "every"}
var mainCalls = []string{"direct", "funcall", "apply"}

func sourceMulti(c Case) string {
	var b strings.Builder
	b.WriteString("(set 'g-n 0) (set 'g-a 0) (set 'g-log ())\n")
	params := map[string]string{"acc": "(n acc)", "rest": "(n &rest xs)", "key": "(&key n acc)"}[c.Args]
	loc := vars{n: "n", a: "acc"}
	if c.Args == "rest" {
		loc.a = "xs"
	}
	acc := accExpr(c.Args, loc)
	base := "(progn (c02-probe) (debug-print 'base " + acc + ") " + acc + ")"
	turn := map[string]int{"first": c.N, "second": c.N - 1, "last": 1}[c.Turn]
	if turn < 1 {
		turn = -7 // no such turn for this N: the side call is never made
	}
	var defs []string
	for k := 0; k < c.Topo; k++ {
		target := k
		if c.Target == "next" {
			target = (k + 1) % c.Topo
		}
		f := callTo(c, target, loc, "-100", "(- -1000 "+loc.n+")")
		for i := len(c.Shape) - 1; i >= 0; i-- {
			f = wrap(c, c.Shape[i], 11+i, k, loc, f)
		}
		S := fmt.Sprintf("(if (= n %d) %s ())", turn, f.String())
		if c.Turn == "every" {
			// a complete nested activation of a loop function on EVERY turn, before the tail call is issued
			S = fmt.Sprintf("(if (> n 0) %s ())", f.String())
		}
		L := "(set 'g-log (cons n g-log))"
		m := callForm(c, k, loc)
		switch c.Main {
		case "funcall", "apply":
			m = wrap(c, c.Main, 1, k, loc, m)
		}
		M := fmt.Sprintf("(if (<= n 0) %s %s)", base, m.String())
		var pre []string
		switch c.Layout {
		case "SM":
			pre = []string{S}
		case "SLM":
			pre = []string{S, L}
		case "LSM":
			pre = []string{L, S}
		default:
			panic("harness: layout " + c.Layout)
		}
		forms := strings.Join(append(append([]string{}, pre...), M), " ")
		body := ""
		switch c.Container {
		case "body":
			body = forms
		case "let":
			body = "(let ([u n]) " + forms + ")"
		case "progn":
			body = "(progn " + forms + ")"
		case "dotimes":
			body = "(dotimes (i9 1 " + M + ") " + strings.Join(pre, " ") + ")"
		case "lambda-funcall":
			body = "(funcall (lambda () " + forms + "))"
		case "lambda-apply":
			body = "(apply (lambda () " + forms + ") '())"
		default:
			panic("harness: container " + c.Container)
		}
		if c.Def == "labels" {
			defs = append(defs, fmt.Sprintf(" [f%d %s %s]\n", k, params, body))
		} else {
			defs = append(defs, fmt.Sprintf("(defun f%d %s %s)\n", k, params, body))
		}
	}
	top := ""
	switch c.Args {
	case "acc":
		top = fmt.Sprintf("(f0 %d 0)", c.N)
	case "rest":
		top = fmt.Sprintf("(f0 %d 0 7)", c.N)
	case "key":
		top = fmt.Sprintf("(f0 :n %d :acc 0)", c.N)
	}
	top = "(list " + top + " g-log)"
	if c.Def == "labels" {
		b.WriteString("(labels (\n")
		for _, d := range defs {
			b.WriteString(d)
		}
		b.WriteString(" )\n " + top + ")\n")
		return b.String()
	}
	for _, d := range defs {
		b.WriteString(d)
	}
	b.WriteString(top + "\n")
	return b.String()
}

// ---------------------------------------------------------------------------
// sequence family: K separate tail loops of N turns on one runtime.

var starters = []string{"toplevel", "dotimes", "map", "host-funcall"}
var funcPatterns = []string{"same", "alt", "cycle2"}

// seqStart names the function that starts loop i.
func seqStart(c Case, i int) string {
	if c.single != "" {
		return c.single
	}
	if c.Funcs == "alt" {
		return fmt.Sprintf("f%d", i%2)
	}
	return "f0"
}

func sourceSeq(c Case) string {
	var b strings.Builder
	b.WriteString("(set 'g-n 0) (set 'g-a 0)\n")
	loc := vars{n: "n", a: "acc"}
	base := "(progn (c02-probe) (debug-print 'base acc) acc)"
	nf := 1
	if c.Funcs != "same" {
		nf = 2
	}
	for k := 0; k < nf; k++ {
		target := k // same, alt: every function is its own loop
		if c.Funcs == "cycle2" {
			target = (k + 1) % 2
		}
		f := callTo(c, target, loc, "(- n 1)", fmt.Sprintf("(- (+ n %d) acc)", k+1))
		f.bare = true
		for i := len(c.Shape) - 1; i >= 0; i-- {
			f = wrap(c, c.Shape[i], i+1, k, loc, f)
		}
		fmt.Fprintf(&b, "(defun f%d (n acc) (if (<= n 0) %s %s))\n", k, base, f.String())
	}
	if c.single != "" {
		c.K = 1
	}
	call := func(i int) string { return fmt.Sprintf("(%s %d %d)", seqStart(c, i), c.N, i) }
	pick := fmt.Sprintf("(%s %d i)", seqStart(c, 0), c.N)
	if c.Funcs == "alt" && c.single == "" {
		pick = fmt.Sprintf("(if (= (mod i 2) 0) (f0 %d i) (f1 %d i))", c.N, c.N)
	}
	switch c.Starter {
	case "toplevel":
		for i := 0; i < c.K; i++ {
			b.WriteString(call(i) + "\n")
		}
		b.WriteString("'finished\n")
	case "dotimes":
		fmt.Fprintf(&b, "(progn (dotimes (i %d) %s) 'finished)\n", c.K, pick)
	case "map":
		var idx []string
		for i := 0; i < c.K; i++ {
			idx = append(idx, fmt.Sprint(i))
		}
		fmt.Fprintf(&b, "(map 'list (lambda (i) %s) '(%s))\n", pick, strings.Join(idx, " "))
	case "host-funcall":
		// the loops are entered from the host, see optsOf
	default:
		panic("harness: starter " + c.Starter)
	}
	return b.String()
}

// optsOf derives the per-run runtime settings of a case.
func optsOf(c Case) runOpts {
	if c.Family == "closure" {
		// a loop of <= 100 turns is far below this; it only keeps a broken
		// evaluator's runaway continuation from spinning for a million turns
		return runOpts{Limit: closureTailLimit}
	}
	if c.Family == "entry" {
		return runOpts{Entry: &entrySpec{DefEntry: c.DefEntry, DefCtx: c.DefCtx, RunEntry: c.RunEntry, RunCtx: c.RunCtx,
			Root: c.Root, Args: []int{c.N, 0}}}
	}
	if c.Family != "sequence" {
		return runOpts{}
	}
	ro := runOpts{Limit: c.Limit}
	if c.single != "" {
		c.K = 1
	}
	if c.Starter == "host-funcall" {
		for i := 0; i < c.K; i++ {
			ro.Host = append(ro.Host, hostCall{Fn: seqStart(c, i), Args: []int{c.N, i}})
		}
	}
	return ro
}

// ---------------------------------------------------------------------------
// chain family: the LENGTH of the terminal chain is the explored dimension.

// nestShape is token repeated d times; "mixed" rotates through the 15 positions.
func nestShape(token string, d int) []string {
	out := make([]string, d)
	for i := range out {
		if token == "mixed" {
			out[i] = terminalTokens[i%len(terminalTokens)]
		} else {
			out[i] = token
		}
	}
	return out
}

// ringWrappers are the body wrappers of ring functions, by name.
var ringWrappers = map[string][]string{
	"special-forms":  {"if-then", "let-body", "cond-else", "progn-last"},
	"calls-and-lets": {"funcall", "let*-body", "apply", "or-last"},
}

var ringWrapperNames = []string{"special-forms", "calls-and-lets"}

// ---------------------------------------------------------------------------
// closure family: loops that carry closures over their OWN PARAMETERS from one
// turn to later turns, and use them after the parameters were rebound.
//
// Every function has a counter n, a datum d (d' = d + n + K) and a carrier c,
// declared in one of four parameter styles (req: (n d c); opt: (n &optional d
// c); rest: (n &rest r) with d = (car r), c = (nth r 1); key: (&key n d c)).
// Each turn builds a closure over the counter or over the datum (for the rest
// style: over the &rest parameter) and
//
//	collect  conses it onto the carrier; the closures are invoked after the loop
//	cps      wraps the carrier: (lambda (v) (funcall c (+ v X))); the base case invokes it
//	return   keeps the FIRST closure in the carrier and returns it; invoked after the loop
//	prev     passes it on as the carrier; the NEXT turn invokes and prints it

const closureTailLimit = 5000

var closureCarries = []string{"collect", "cps", "return", "prev"}
var closureCaptures = []string{"counter", "data"}
var closureParams = []string{"req", "opt", "rest", "key"}

func sourceClosure(c Case) string {
	var b strings.Builder
	b.WriteString("(set 'g-n 0) (set 'g-a 0)\n")
	params := map[string]string{"req": "(n d c)", "opt": "(n &optional d c)", "rest": "(n &rest r)", "key": "(&key n d c)"}[c.Args]
	dE, cE := "d", "c"
	if c.Args == "rest" {
		dE, cE = "(car r)", "(nth r 1)"
	}
	loc := vars{n: "n", a: dE}
	var defs []string
	for k := 0; k < c.Topo; k++ {
		captured := "n"
		if c.Capture == "data" {
			captured = dE
		}
		val := fmt.Sprintf("(+ %d %s)", 1000*(k+1), captured)
		next := ""
		base := cE
		pre := ""
		switch c.Carry {
		case "collect":
			next = "(cons (lambda () " + val + ") " + cE + ")"
		case "cps":
			next = "(lambda (v) (funcall " + cE + " (+ v " + val + ")))"
			base = "(funcall " + cE + " 0)"
		case "return":
			next = "(if " + cE + " " + cE + " (lambda () " + val + "))"
		case "prev":
			next = "(lambda () " + val + ")"
			pre = "(debug-print 'prev n (if " + cE + " (funcall " + cE + ") 'none)) "
		default:
			panic("harness: carry " + c.Carry)
		}
		dNext := fmt.Sprintf("(+ %s n %d)", dE, k+1)
		callee := fmt.Sprintf("f%d", (k+1)%c.Topo)
		args := []string{"(- n 1)", dNext, next}
		if c.Args == "key" {
			args = []string{":n", "(- n 1)", ":d", dNext, ":c", next}
		}
		f := form{head: callee, args: args, fn: true, bare: true, tail: -1}
		for i := len(c.Shape) - 1; i >= 0; i-- {
			f = wrap(c, c.Shape[i], i+1, k, loc, f)
		}
		body := fmt.Sprintf("%s(if (<= n 0) %s %s)", pre, base, f.String())
		if c.Def == "labels" {
			defs = append(defs, fmt.Sprintf(" [f%d %s %s]\n", k, params, body))
		} else {
			defs = append(defs, fmt.Sprintf("(defun f%d %s %s)\n", k, params, body))
		}
	}
	init := "()"
	if c.Carry == "cps" {
		init = "(lambda (v) v)"
	}
	top := fmt.Sprintf("(f0 %d 0 %s)", c.N, init)
	if c.Args == "key" {
		top = fmt.Sprintf("(f0 :n %d :d 0 :c %s)", c.N, init)
	}
	switch c.Carry {
	case "collect":
		top = "(map 'list (lambda (g) (funcall g)) " + top + ")"
	case "return", "prev":
		top = "(let ([g " + top + "]) (if g (funcall g) 'none))"
	}
	if c.Def == "labels" {
		b.WriteString("(labels (\n")
		for _, d := range defs {
			b.WriteString(d)
		}
		b.WriteString(" )\n " + top + ")\n")
		return b.String()
	}
	for _, d := range defs {
		b.WriteString(d)
	}
	b.WriteString(top + "\n")
	return b.String()
}

// ---------------------------------------------------------------------------
// multiform, container "walk": STACK GROWTH as a dimension.
//
// An in-order walk of a thin tree whose left spine has N nodes: the left child
// is reached by plain recursion from a NON-last body form (so N spine frames
// are live while the call stack grows through every reallocation of its frame
// slice), the right child by a tail call.  Node kinds (ty):
//
//	0  spine node S(k): left = S(k-1) if k > 0, right = R1(k)     [tail call]
//	1  R1(k): no left child, right = R2(k)                        [tail call; in the
//	          mutual variant R1 runs in f1 and R2 collapses back into S's frame]
//	2  R2(k): left = Y(k) [plain recursion from the reused frame], no right child
//	3  Y(k): leaf
//
// Every node appends its id 10k+ty to g-log when visited (in-order).  The walk
// is made twice in the SAME runtime, and the case is always executed in a
// FRESH runtime (the call stack has never been deeper than the prelude needs).
func sourceWalk(c Case) string {
	var b strings.Builder
	b.WriteString("(set 'g-n 0) (set 'g-a 0) (set 'g-log ())\n")
	loc := vars{n: "k", a: "ty"}
	var defs []string
	for k := 0; k < c.Topo; k++ {
		self := fmt.Sprintf("f%d", k)
		left := func(args ...string) string {
			f := form{head: self, args: args, fn: true, bare: true, tail: -1}
			for i := len(c.Shape) - 1; i >= 0; i-- {
				f = wrap(c, c.Shape[i], 11+i, k, loc, f)
			}
			return f.String()
		}
		r1 := fmt.Sprintf("f%d", (k+1)%c.Topo) // R1 runs in the next function of the cycle
		r2 := "f0"                             // R2 comes back to the spine's function
		S := "(cond ((and (= ty 0) (> k 0)) " + left("(- k 1)", "0") + ") ((= ty 2) " + left("k", "3") + ") (else ()))"
		L := "(set 'g-log (cons (+ (* k 10) ty) g-log))"
		M := "(cond ((= ty 0) (" + r1 + " k 1)) ((= ty 1) (" + r2 + " k 2)) (else 'done))"
		body := S + " " + L + " " + M
		if c.Def == "labels" {
			defs = append(defs, fmt.Sprintf(" [f%d (k ty) %s]\n", k, body))
		} else {
			defs = append(defs, fmt.Sprintf("(defun f%d (k ty) %s)\n", k, body))
		}
	}
	run := fmt.Sprintf("(progn (set 'g-log ()) (set 'w1 (list (f0 %d 0) g-log)) (set 'g-log ()) (list w1 (f0 %d 0) g-log))", c.N, c.N)
	if c.Def == "labels" {
		b.WriteString("(labels (\n")
		for _, d := range defs {
			b.WriteString(d)
		}
		b.WriteString(" )\n " + run + ")\n")
		return b.String()
	}
	for _, d := range defs {
		b.WriteString(d)
	}
	b.WriteString(run + "\n")
	return b.String()
}

// ---------------------------------------------------------------------------
// forward family: call-forwarding builtins as TARGETS.  funcall, apply and
// unpack forward a call in tail position, so a tail loop whose recursive call
// is (funcall 'apply 'f (list ..)) etc. must still run in constant stack.

var forwardForms = []string{
	"funcall-apply-sym", "funcall-apply-val", "funcall-funcall-sym", "funcall-funcall-val",
	"funcall-unpack-sym", "funcall-unpack-val", "apply-funcall-sym", "apply-apply-sym", "apply-unpack-val",
	"funcall-computed-apply", "funcall-funcall-apply", "funcall-apply-funcall",
}

func forwardForm(c Case, call form) form {
	ref := "'" + call.head
	if c.Def == "labels" {
		ref = call.head
	}
	lst := "(list " + strings.Join(call.args, " ") + ")"
	mk := func(head string, args ...string) form { return form{head: head, args: args, fn: true, tail: -1} }
	flat := func(pre ...string) []string { return append(pre, call.args...) }
	switch c.Forward {
	case "funcall-apply-sym":
		return mk("funcall", "'apply", ref, lst)
	case "funcall-apply-val":
		return mk("funcall", "apply", ref, lst)
	case "funcall-funcall-sym":
		return mk("funcall", flat("'funcall", ref)...)
	case "funcall-funcall-val":
		return mk("funcall", flat("funcall", ref)...)
	case "funcall-unpack-sym":
		return mk("funcall", "'unpack", ref, lst)
	case "funcall-unpack-val":
		return mk("funcall", "unpack", ref, lst)
	case "apply-funcall-sym":
		return mk("apply", "'funcall", ref, lst)
	case "apply-apply-sym":
		return mk("apply", "'apply", ref, "(list "+lst+")")
	case "apply-unpack-val":
		return mk("apply", "unpack", ref, "(list "+lst+")")
	case "funcall-computed-apply":
		return mk("funcall", "(car (list apply))", ref, lst)
	case "funcall-funcall-apply":
		return mk("funcall", "'funcall", "'apply", ref, lst)
	case "funcall-apply-funcall":
		return mk("funcall", "'apply", "'funcall", "(list "+strings.Join(flat(ref), " ")+")")
	}
	panic("harness: forward form " + c.Forward)
}
