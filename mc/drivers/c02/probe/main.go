package main

import (
	"fmt"
	"os"
	"strconv"
	"strings"

	"verif/mc/drivers/c02"
)

// usage: probe shape(a>b>c or direct) topo args err N
func main() {
	var shape []string
	if os.Args[1] != "direct" {
		shape = strings.Split(os.Args[1], ">")
	}
	topo, _ := strconv.Atoi(os.Args[2])
	n, _ := strconv.Atoi(os.Args[5])
	c := c02.Case{Family: os.Args[6], Shape: shape, Topo: topo, Args: os.Args[3], Err: os.Args[4], N: n}
	if len(os.Args) > 7 {
		c.Def = os.Args[7]
	}
	fmt.Print(c02.Source(c))
	fmt.Print(c02.Describe(c))
}
