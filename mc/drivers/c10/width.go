package c10

// Part (8): map WIDTH x BACKING x SINK, decided against a reference model.
//
// A sorted-map's enumeration order is the one observable of a program that sits directly on top of Go's randomized map
// iteration, and an implementation of lisp.Map is free to pick a different strategy per size (a "small" and a "wide"
// path), per backing (lisp/maps.go's sortedmap, libjson's SortedMap) and per way the map reached its size (decoded at
// that size, grown into it, shrunk into it, copied).  Repeating a run only samples Go's iteration seed; here the
// verdict is made deterministic instead: docs/lang.md fixes the traversal order ("key traversal is always done in
// sorted, increasing order"), so for a map with distinct string keys EVERY enumerating sink is a function of the
// entry SET, and a boring Go model (sort.Strings + printing) gives the one permitted text.  Every point of
//
//	width 0..W  x  backing/history  x  key-naming scheme  x  insertion order
//
// is executed in fresh runtimes and every sink's text is compared with the model (and, for the two sinks whose text
// is an error message, with the text the same sink gives for a constructor-built twin in the same runtime).

import (
	"fmt"
	"os"
	"reflect"
	"sort"
	"strconv"
	"strings"
	"sync"

	"github.com/luthersystems/elps/lisp"

	"verif/mc/core"
	"verif/mc/el"
)

type widthCase struct {
	Backing string `json:"backing"`
	N       int    `json:"n"`
	Scheme  string `json:"scheme"`
	Order   string `json:"order"`
	Sink    string `json:"sink,omitempty"` // the disagreeing sink (reports only)
}

// widthKase: the recorded case of part (8); Target and Kind are laid out as in kase, which replay reads first.
type widthKase struct {
	Target target     `json:"target"`
	Kind   string     `json:"kind"`
	Width  *widthCase `json:"width"`
}

func (w widthCase) id() string {
	return fmt.Sprintf("width/%s/n%d/%s/%s", w.Backing, w.N, w.Scheme, w.Order)
}

// how the map under test comes to exist
var widthBackings = []string{
	"ctor",                // (sorted-map k v ...)
	"ctor-grown",          // (sorted-map) then assoc! one entry at a time
	"ctor-assoc-copies",   // a chain of non-mutating assoc, each a copy
	"json-string",         // json:load-string of an n-member object
	"json-bytes",          // json:load-bytes
	"json-message",        // json:load-message of json:dump-message of the constructor-built map
	"json-member",         // the object is a member of a decoded object
	"json-element",        // the object is an element of a decoded array
	"json-reloaded",       // json:load-string of json:dump-string of the constructor-built map
	"json-grown",          // decoded with the first half of the entries, the rest added with assoc!
	"json-shrunk",         // decoded with n + n/2 + 1 entries, the extra ones removed with dissoc!
	"json-assoc-copy",     // decoded with all entries but one, the last added by a non-mutating assoc
	"json-dissoc-copy",    // decoded with one entry too many, removed by a non-mutating dissoc
	"json-grown-past-old", // decoded EMPTY, every entry added with assoc!
}

var widthSchemes = []string{"fixed", "ragged", "mixed"}
var widthOrders = []string{"ascending", "descending", "stride"}

// widthKey: the i-th key of a naming scheme.  Keys are distinct, need no escaping in Lisp or JSON string syntax, and
// (but for "fixed") their byte order is neither their generation order nor its reverse.
func widthKey(scheme string, i int) string {
	switch scheme {
	case "fixed":
		return fmt.Sprintf("k%03d", i)
	case "ragged": // n0 n1 n10 n100 n11 ...: byte order is not numeric order
		return "n" + strconv.Itoa(i)
	default: // "mixed": upper / lower case, digit, underscore and a two-byte letter as first character
		pre := []string{"Z", "a", "B", "é", "_", "0", "z"}
		return pre[i%len(pre)] + strconv.FormatInt(int64(i/len(pre)), 36)
	}
}

// widthSeq: positions 0..n-1 in insertion order.
func widthSeq(order string, n int) []int {
	seq := make([]int, n)
	switch order {
	case "ascending":
		for i := range seq {
			seq[i] = i
		}
	case "descending":
		for i := range seq {
			seq[i] = n - 1 - i
		}
	default: // a permutation with a stride coprime to n
		s := 1
		for _, c := range []int{7, 11, 13, 5, 3} {
			if c < n && gcd(c, n) == 1 {
				s = c
				break
			}
		}
		for i := range seq {
			seq[i] = (i*s + n/2) % n
		}
	}
	return seq
}

func gcd(a, b int) int {
	for b != 0 {
		a, b = b, a%b
	}
	return a
}

type entry struct {
	k string
	v int
}

func lispPairs(es []entry) string {
	var sb strings.Builder
	for _, e := range es {
		fmt.Fprintf(&sb, " \"%s\" %d", e.k, e.v)
	}
	return sb.String()
}

// jsonLit: a JSON object, written as the inside of a Lisp string literal.
func jsonLit(es []entry) string {
	var sb strings.Builder
	sb.WriteString("{")
	for i, e := range es {
		if i > 0 {
			sb.WriteString(", ")
		}
		fmt.Fprintf(&sb, `\"%s\": %d`, e.k, e.v)
	}
	sb.WriteString("}")
	return sb.String()
}

// entriesOf: the n entries of the case in insertion order (value = generation index of the key), and `extra` further
// entries of the same scheme that some backings add and take away again.
func (w widthCase) entries(extra int) (ins []entry, extras []entry) {
	for _, i := range widthSeq(w.Order, w.N) {
		ins = append(ins, entry{widthKey(w.Scheme, i), i})
	}
	for i := w.N; i < w.N+extra; i++ {
		extras = append(extras, entry{widthKey(w.Scheme, i), i})
	}
	return
}

// interleave: extras spread between the wanted entries (so that they are not all inserted last).
func interleave(ins, extras []entry) []entry {
	var out []entry
	j := 0
	for i, e := range ins {
		out = append(out, e)
		if i%2 == 0 && j < len(extras) {
			out = append(out, extras[j])
			j++
		}
	}
	return append(out, extras[j:]...)
}

// setup: the program that binds m (the map under test), c (its twin built by the constructor from the entries in
// key order) and nok (a validator that allows no key).
func (w widthCase) setup() string {
	ins, _ := w.entries(0)
	sorted := append([]entry(nil), ins...)
	sort.Slice(sorted, func(i, j int) bool { return sorted[i].k < sorted[j].k })
	var sb strings.Builder
	fmt.Fprintf(&sb, "(set 'c (sorted-map%s))\n", lispPairs(sorted))
	sb.WriteString("(set 'nok (s:make-validator \"nok\" s:sorted-map (s:no-other-keys)))\n")
	switch w.Backing {
	case "ctor":
		fmt.Fprintf(&sb, "(set 'm (sorted-map%s))", lispPairs(ins))
	case "ctor-grown":
		sb.WriteString("(set 'm (sorted-map))")
		for _, e := range ins {
			fmt.Fprintf(&sb, " (assoc! m \"%s\" %d)", e.k, e.v)
		}
	case "ctor-assoc-copies":
		sb.WriteString("(set 'm (sorted-map))")
		for _, e := range ins {
			fmt.Fprintf(&sb, " (set 'm (assoc m \"%s\" %d))", e.k, e.v)
		}
	case "json-string":
		fmt.Fprintf(&sb, "(set 'm (json:load-string \"%s\"))", jsonLit(ins))
	case "json-bytes":
		fmt.Fprintf(&sb, "(set 'm (json:load-bytes (to-bytes \"%s\")))", jsonLit(ins))
	case "json-message":
		fmt.Fprintf(&sb, "(set 'm (json:load-message (json:dump-message (sorted-map%s))))", lispPairs(ins))
	case "json-member":
		fmt.Fprintf(&sb, "(set 'm (get (json:load-string \"{\\\"a\\\": 1, \\\"obj\\\": %s, \\\"z\\\": [2]}\") \"obj\"))", jsonLit(ins))
	case "json-element":
		fmt.Fprintf(&sb, "(set 'm (nth (json:load-string \"[1, %s, {}]\") 1))", jsonLit(ins))
	case "json-reloaded":
		fmt.Fprintf(&sb, "(set 'm (json:load-string (json:dump-string (sorted-map%s))))", lispPairs(ins))
	case "json-grown":
		h := len(ins) / 2
		fmt.Fprintf(&sb, "(set 'm (json:load-string \"%s\"))", jsonLit(ins[:h]))
		for _, e := range ins[h:] {
			fmt.Fprintf(&sb, " (assoc! m \"%s\" %d)", e.k, e.v)
		}
	case "json-grown-past-old":
		sb.WriteString("(set 'm (json:load-string \"{}\"))")
		for _, e := range ins {
			fmt.Fprintf(&sb, " (assoc! m \"%s\" %d)", e.k, e.v)
		}
	case "json-shrunk":
		_, extras := w.entries(w.N/2 + 1)
		fmt.Fprintf(&sb, "(set 'm (json:load-string \"%s\"))", jsonLit(interleave(ins, extras)))
		for _, e := range extras {
			fmt.Fprintf(&sb, " (dissoc! m \"%s\")", e.k)
		}
	case "json-assoc-copy":
		if len(ins) == 0 {
			// nothing to add: the copy is made by adding and removing a key
			sb.WriteString("(set 'm (dissoc (assoc (json:load-string \"{}\") \"tmp\" 0) \"tmp\"))")
			break
		}
		last := ins[len(ins)-1]
		fmt.Fprintf(&sb, "(set 'm (assoc (json:load-string \"%s\") \"%s\" %d))", jsonLit(ins[:len(ins)-1]), last.k, last.v)
	case "json-dissoc-copy":
		_, extras := w.entries(1)
		fmt.Fprintf(&sb, "(set 'm (dissoc (json:load-string \"%s\") \"%s\"))", jsonLit(interleave(ins, extras)), extras[0].k)
	default:
		panic("unknown backing " + w.Backing)
	}
	return sb.String()
}

// ---------------------------------------------------------------------------
// sinks and the reference model

type widthSink struct {
	name string
	expr string
	// model: the one permitted text given the entries in key order; nil for a sink compared with its twin
	model func(sorted []entry) string
	twin  string // the same sink applied to the constructor-built twin c
}

func quoteList(items []string) string {
	if len(items) == 0 {
		return "'()"
	}
	return "'(" + strings.Join(items, " ") + ")"
}

func modelKeys(es []entry) string {
	var ks []string
	for _, e := range es {
		ks = append(ks, `"`+e.k+`"`)
	}
	return quoteList(ks)
}

func modelPrint(es []entry) string {
	return "(sorted-map" + lispPairs(es) + ")"
}

func modelJSON(es []entry) string {
	var ms []string
	for _, e := range es {
		ms = append(ms, fmt.Sprintf(`"%s":%d`, e.k, e.v))
	}
	return "{" + strings.Join(ms, ",") + "}"
}

func modelValues(es []entry) string {
	var vs []string
	for _, e := range es {
		vs = append(vs, strconv.Itoa(e.v))
	}
	return quoteList(vs)
}

func modelEntries(es []entry) string {
	var ps []string
	for _, e := range es {
		ps = append(ps, fmt.Sprintf(`'("%s" %d)`, e.k, e.v))
	}
	return quoteList(ps)
}

// with one more entry whose key sorts among the others
func withEntry(es []entry, k string, v int) []entry {
	out := append(append([]entry(nil), es...), entry{k, v})
	sort.Slice(out, func(i, j int) bool { return out[i].k < out[j].k })
	return out
}

const goEntriesSink = "<host: LVal.MapEntries()>"

var widthSinks = []widthSink{
	{name: "keys", expr: "(keys m)", model: modelKeys},
	{name: "print", expr: "m", model: modelPrint},
	{name: "format-string", expr: "(format-string \"{}\" m)", model: modelPrint},
	{name: "json-dump", expr: "(json:dump-string m)", model: modelJSON},
	{name: "values-by-key", expr: "(map 'list (lambda (k) (get m k)) (keys m))", model: modelValues},
	{name: "keys-second-call", expr: "(keys m)", model: modelKeys},
	{name: "host-entries", expr: goEntriesSink, model: modelEntries},
	{name: "nested-print", expr: "(vector m (list m))", model: func(es []entry) string {
		return "(vector " + modelPrint(es) + " '(" + modelPrint(es) + "))"
	}},
	{name: "copy-print", expr: "(assoc m \"m\" -1)", model: func(es []entry) string { return modelPrint(withEntry(es, "m", -1)) }},
	{name: "equal-own-json-round-trip", expr: "(equal? m (json:load-string (json:dump-string m)))", model: func([]entry) string { return "true" }},
	{name: "equal-constructor-twin", expr: "(list (equal? m c) (equal? c m))", model: func([]entry) string { return "'(true true)" }},
	{name: "error-message", expr: "(error 'boom m)", twin: "(error 'boom c)"},
	{name: "schema-no-other-keys", expr: "(s:validate nok m)", twin: "(s:validate nok c)"},
}

func sinkText(v *lisp.LVal) string {
	switch v.Type {
	case lisp.LError:
		return fmt.Sprintf("ERR<%s: %s>", v.Str, el.ErrText(v))
	case lisp.LString:
		return v.Str
	}
	return v.String()
}

type widthObs struct {
	Got      []string // per sink
	Want     []string // per sink: the model's text, or the twin's text from the same runtime
	Impl     string   // Go type of the lisp.Map implementation behind m
	SetupErr string
}

// observe: one execution of the case in a fresh runtime.
func (w widthCase) observe() widthObs {
	env := el.MustEnv(el.Opts{Stdlib: true})
	var o widthObs
	if v := env.LEnv.LoadString("width-setup", w.setup()); v.Type == lisp.LError {
		o.SetupErr = sinkText(v)
		return o
	}
	ins, _ := w.entries(0)
	sorted := append([]entry(nil), ins...)
	sort.Slice(sorted, func(i, j int) bool { return sorted[i].k < sorted[j].k })
	eval := func(expr string) string {
		if expr == goEntriesSink {
			m := env.LEnv.LoadString("width-sink", "m")
			if m.Type != lisp.LSortMap {
				return "not a sorted-map: " + sinkText(m)
			}
			return sinkText(m.MapEntries())
		}
		return sinkText(env.LEnv.LoadString("width-sink", expr))
	}
	if m := env.LEnv.LoadString("width-sink", "m"); m.Type == lisp.LSortMap {
		o.Impl = backingType(m)
	}
	for _, s := range widthSinks {
		o.Got = append(o.Got, eval(s.expr))
		if s.model != nil {
			o.Want = append(o.Want, s.model(sorted))
		} else {
			o.Want = append(o.Want, eval(s.twin))
		}
	}
	return o
}

// backingType: the Go type of the lisp.Map implementation behind a sorted-map value (read by reflection: MapData keeps
// it in an unexported embedded field).  Used only to label outcome classes.
func backingType(m *lisp.LVal) (name string) {
	defer func() {
		if recover() != nil {
			name = "unknown"
		}
	}()
	return reflect.ValueOf(m.Map()).Elem().Field(0).Elem().Type().String()
}

type widthFail struct {
	wc       widthCase
	sink     int
	expected string
	got      string
	count    int
	narrow   map[string]int // backing / history -> narrowest disagreeing width
}

// widthClass: the Map implementation behind the map under test (the code whose enumeration is wrong) and the sink
// that showed it; which backings / histories disagree, and from which width on, goes into the note.
func widthClass(impl, sink string) string {
	if impl == "" {
		impl = "setup"
	}
	return "width:" + impl + ":" + sink
}

func allWidthCases(maxN int) []widthCase {
	var out []widthCase
	// simplest first: narrow before wide
	for n := 0; n <= maxN; n++ {
		for _, b := range widthBackings {
			for _, s := range widthSchemes {
				for _, o := range widthOrders {
					out = append(out, widthCase{Backing: b, N: n, Scheme: s, Order: o})
				}
			}
		}
	}
	return out
}

func widthMax(thorough bool) int {
	if v, err := strconv.Atoi(os.Getenv("C10_WIDTH_MAX")); err == nil && v >= 0 {
		return v // development / measurement override; the bound in force is reported as width_max_entries
	}
	if thorough {
		return 264 // past 256
	}
	return 136 // past 8, 16, 32, 64 and 128, the sizes a two-path implementation is likely to switch at
}

func runWidth(r *core.Run) {
	maxN := widthMax(r.Thorough())
	// One fresh runtime per case decides against the model; two texts that both equal the model's text are equal, so
	// further runtimes add only further samples of Go's iteration seed (every case already enumerates its map ~20
	// times, and 9 cases share each width and backing).  The thorough tier runs each case twice and also compares
	// the two runs with each other.
	repeats := 1
	if r.Thorough() {
		repeats = 2
	}
	cases := allWidthCases(maxN)
	r.Bound("width_max_entries", maxN)
	r.Bound("width_backings", len(widthBackings))
	r.Bound("width_key_schemes", len(widthSchemes))
	r.Bound("width_insertion_orders", len(widthOrders))
	r.Bound("width_sinks", len(widthSinks))
	r.Bound("width_cases", len(cases))
	r.Bound("width_fresh_runtimes_per_case", repeats)
	r.Rule("(8) map width x backing x sink against a reference model: EVERY width 0..W of a string-keyed map, in every one of " + strconv.Itoa(len(widthBackings)) +
		" backings / histories (built by the constructor, grown by assoc!, a chain of assoc copies; decoded by json:load-string / load-bytes / load-message, as a member and as an element of a decoded document, re-decoded from its own dump; decoded narrower and grown, decoded wider and shrunk, decoded empty and grown; an assoc / dissoc copy of a decoded map), " +
		"3 key-naming schemes (fixed width; ragged decimals, whose byte order is not their numeric order; mixed case / digit / underscore / two-byte first letters) and 3 insertion orders (ascending, descending, coprime stride), each executed in fresh runtimes; " +
		strconv.Itoa(len(widthSinks)) + " enumerating sinks per case (keys, twice; printed value; format-string; json:dump-string; values fetched in key order; LVal.MapEntries as the host calls it; printed inside a vector and a list; printed assoc copy; equal? with its own JSON round trip; equal? both ways with a constructor-built twin; the message of an error carrying the map; the key s:no-other-keys names). " +
		"Oracle: a Go model (sort.Strings over the entry set, then printing) gives the ONE text each sink may produce, the same in every runtime, for every backing and insertion order; the two error-message sinks must give the text they give for the constructor-built twin in the same runtime; and the texts of the fresh runtimes must be identical. Non-trivial = distinct case with >= 2 entries (an order exists to get wrong)")
	r.Assume("(8) rests on docs/lang.md 'a sorted map ... ensures that key traversal is always done in sorted, increasing order', read as ascending byte order of the key names (what both Map implementations implement); with distinct keys this makes every sink a function of the entry set, which is what turns 'identical on every run whatever Go's map iteration order' into a decidable comparison")
	r.Assume("(8) keys are strings only (the only kind a JSON-decoded map holds) and values are small integers; keys of mixed kind are covered at widths <= 12 by the hand-written targets")

	var mu sync.Mutex
	fails := map[string]*widthFail{}
	record := func(wc widthCase, impl string, sink int, expected, got string) {
		cls := widthClass(impl, widthSinks[sink].name)
		mu.Lock()
		defer mu.Unlock()
		f := fails[cls]
		if f == nil {
			f = &widthFail{wc: wc, sink: sink, expected: expected, got: got, narrow: map[string]int{}}
			fails[cls] = f
		}
		f.count++
		if n, ok := f.narrow[wc.Backing]; !ok || wc.N < n {
			f.narrow[wc.Backing] = wc.N
		}
		// keep the simplest: cases are enumerated narrow-first, but workers run them out of order
		if wc.N < f.wc.N || (wc.N == f.wc.N && wc.id() < f.wc.id()) {
			f.wc, f.sink, f.expected, f.got = wc, sink, expected, got
		}
	}
	r.AddStates(int64(len(cases)))
	core.ParallelRange(r, int64(len(cases)), nil, func(_ struct{}, i int64) {
		wc := cases[i]
		if wc.N >= 2 {
			r.Nontrivial(wc.id())
		}
		var first widthObs
		for rep := 0; rep < repeats; rep++ {
			o := wc.observe()
			r.AddEvals(int64(1 + 2*len(widthSinks)))
			if o.SetupErr != "" {
				record(wc, "", 0, "the map is built", "setup failed: "+o.SetupErr)
				return
			}
			if rep == 0 {
				first = o
				r.AddTraces(1)
				r.Outcome("width:backed-by:" + o.Impl)
			}
			for s := range widthSinks {
				r.AddTransitions(1)
				if o.Got[s] != o.Want[s] {
					what := "the text the reference model gives for the entries in key order: "
					if widthSinks[s].model == nil {
						what = "the text the same sink gives for the constructor-built twin in the same runtime: "
					}
					record(wc, o.Impl, s, what+trunc(o.Want[s], 400), diffAt(o.Want[s], o.Got[s]))
				} else if rep > 0 && o.Got[s] != first.Got[s] {
					r.AddTransitions(1)
					record(wc, o.Impl, s, "the text of the first fresh runtime: "+trunc(first.Got[s], 400), diffAt(first.Got[s], o.Got[s]))
				}
			}
		}
	})
	// report, per class, the narrowest disagreeing case -- after re-confirming it in fresh runtimes
	var classes []string
	for c := range fails {
		classes = append(classes, c)
	}
	sort.Strings(classes)
	for _, cls := range classes {
		f := fails[cls]
		wc := f.wc
		wc.Sink = widthSinks[f.sink].name
		again := 0
		for k := 0; k < 5; k++ {
			if bad, _ := wc.disagrees(); bad {
				again++
			}
		}
		k := widthKase{Target: target{ID: wc.id(), Src: wc.setup() + "\n" + widthSinks[f.sink].expr}, Kind: "width", Width: &wc}
		if again == 0 {
			// seen once, never again in five further runtimes: cannot be replayed, so it is not reported as a violation
			r.Flaky(map[string]any{"class": cls, "case": k, "reproduced": again, "of": 5, "got": f.got})
			continue
		}
		var where []string
		for b, n := range f.narrow {
			where = append(where, fmt.Sprintf("%s from width %d", b, n))
		}
		sort.Strings(where)
		r.Violate("c10", cls, k, f.expected, f.got,
			fmt.Sprintf("narrowest of %d disagreeing (case, runtime) points of this class; it disagreed with the oracle again in %d of 5 further fresh runtimes (the oracle is one fixed text, so an outcome that disagrees only sometimes is itself what the property forbids). Backings / histories that disagree: %s", f.count, again, strings.Join(where, "; ")))
	}
	mid := cases[len(cases)/2]
	r.Sample(widthKase{Target: target{ID: mid.id(), Src: mid.setup()}, Kind: "width", Width: &mid})
}

// disagrees: one more execution of the case in a fresh runtime; does the named sink (or, with no sink named, any sink)
// differ from its oracle?
func (w widthCase) disagrees() (bool, string) {
	o := w.observe()
	if o.SetupErr != "" {
		return true, "setup failed: " + o.SetupErr
	}
	var sb strings.Builder
	bad := false
	for s, sk := range widthSinks {
		if w.Sink != "" && w.Sink != sk.name {
			continue
		}
		if o.Got[s] != o.Want[s] {
			bad = true
			fmt.Fprintf(&sb, "sink %s %s\n  oracle: %s\n  got:    %s\n", sk.name, sk.expr, trunc(o.Want[s], 600), trunc(o.Got[s], 600))
		}
	}
	return bad, sb.String()
}

func replayWidth(k widthKase) (bool, string) {
	if k.Width == nil {
		return false, "no width case recorded"
	}
	// up to five fresh runtimes: the oracle is one fixed text, a defect of this property may meet it now and then
	for i := 1; i <= 5; i++ {
		if bad, rep := k.Width.disagrees(); bad {
			return true, fmt.Sprintf("case %s (fresh runtime %d of 5)\nsetup program:\n%s\n%s", k.Width.id(), i, trunc(k.Width.setup(), 1500), rep)
		}
	}
	return false, fmt.Sprintf("case %s\nsetup program:\n%s\nevery sink gave its oracle's text in 5 fresh runtimes", k.Width.id(), trunc(k.Width.setup(), 1500))
}
