// Package c10: evaluation is deterministic (DESIGN §C10).
//
//  1. history independence   transcript of every target in a fresh runtime after EVERY
//     sequence of <=2 preceding activities in other runtimes of the
//     same process == its transcript in a fresh process with no history
//  2. schedule independence  targets run under the controlled scheduler (all schedules up
//     to the preemption bound) == their solo transcripts
//  3. address independence   no pointer-shaped token in any transcript; transcripts equal
//     across two fresh processes with different heap layouts
//  4. map-order independence R repeated in-process runs (this part samples the Go runtime's
//     per-iteration random start; it is labelled statistical and
//     carries a measured control)
//  8. map width x backing    every width 0..W of a string-keyed map x every backing / history x key
//     naming x insertion order, every enumerating sink against a Go reference
//     model of "traversal in key order" (width.go; exhaustive, not statistical)
//
// transcript = (printed value, stderr, error condition + message + rendered
// stack trace, step count).
package c10

import (
	"bytes"
	"context"
	"encoding/json"
	"fmt"
	"os"
	"os/exec"
	"regexp"
	"sort"
	"strings"
	"sync"

	"github.com/luthersystems/elps/formatter"
	"github.com/luthersystems/elps/lisp"

	"verif/mc/core"
	"verif/mc/el"
	"verif/mc/sched"
)

func init() {
	if mode := os.Getenv("MC_C10_CHILD"); mode != "" {
		childMain(mode)
		os.Exit(0)
	}
	core.Register(&core.Driver{Property: "C10", Run: run, Replay: replay})
}

type target struct {
	ID  string `json:"id"`
	Src string `json:"src"`
}

// transcript of one target in a fresh stdlib runtime.
func transcript(src string, ctx context.Context) string {
	env := el.MustEnv(el.Opts{Stdlib: true})
	lisp.WithMaxSteps(1 << 40)(env.LEnv) // makes the step counter count
	if strings.HasPrefix(src, ";maxalloc=") {
		// a target may ask for a per-operation allocation cap (a configuration of the runtime, part of "a given
		// source under a given configuration")
		var n int
		fmt.Sscanf(src, ";maxalloc=%d", &n)
		env.Runtime.MaxAlloc = n
	}
	env.Err.Reset()
	var v *lisp.LVal
	if ctx != nil {
		v = env.LoadStringContext(ctx, "target", src)
	} else {
		v = env.LoadString("target", src)
	}
	var sb strings.Builder
	if v.Type == lisp.LError {
		fmt.Fprintf(&sb, "ERR<%s: %s>", v.Str, el.ErrText(v))
		var tb bytes.Buffer
		_, _ = (*lisp.ErrorVal)(v).WriteTrace(&tb)
		sb.WriteString(" trace=" + tb.String())
	} else {
		sb.WriteString("VAL<" + v.String() + ">")
	}
	fmt.Fprintf(&sb, " out=%q steps=%d", env.Err.String(), env.Runtime.Steps())
	return sb.String()
}

// ---------------------------------------------------------------------------
// targets

func mapExpr(n int, order int) string {
	keys := []string{"k03", "k11", "k07", "k01", "k09", "k05", "k12", "k02", "k10", "k06", "k04", "k08"}[:n]
	ks := append([]string(nil), keys...)
	switch order {
	case 1:
		sort.Strings(ks)
	case 2:
		sort.Sort(sort.Reverse(sort.StringSlice(ks)))
	}
	var sb strings.Builder
	sb.WriteString("(sorted-map")
	for i, k := range ks {
		if i%2 == 0 {
			fmt.Fprintf(&sb, " \"%s\" %d", k, i)
		} else {
			fmt.Fprintf(&sb, " '%s %d", k, i)
		}
	}
	sb.WriteString(")")
	return sb.String()
}

func handTargets() []target {
	var ts []target
	add := func(id, src string) { ts = append(ts, target{id, src}) }
	for _, n := range []int{1, 2, 3, 5, 8, 12} {
		for ord := 0; ord < 3; ord++ {
			m := mapExpr(n, ord)
			id := fmt.Sprintf("map%d/%d", n, ord)
			add(id+"/print", m)
			add(id+"/format", fmt.Sprintf("(format-string \"{}\" %s)", m))
			add(id+"/debug-print", fmt.Sprintf("(debug-print %s)", m))
			add(id+"/keys", fmt.Sprintf("(keys %s)", m))
			add(id+"/json", fmt.Sprintf("(json:dump-string %s)", m))
			add(id+"/equal", fmt.Sprintf("(equal? %s %s)", m, mapExpr(n, (ord+1)%3)))
			add(id+"/nested", fmt.Sprintf("(list %s (vector %s) (sorted-map \"z\" %s))", m, m, m))
			add(id+"/sortkeys", fmt.Sprintf("(stable-sort string< (map 'list to-string (keys %s)))", m))
			add(id+"/fold", fmt.Sprintf("(foldl (lambda (acc k) (concat 'string acc (to-string k))) \"\" (keys %s))", m))
		}
	}
	// keys that differ only in KIND: a keyword and a string / symbol of the same name are different entries whose
	// order must still be fixed (keys that compare "equal" under some shortcut fall back to Go map order)
	for _, n := range []int{1, 2, 4, 6} {
		names := []string{"id", "kind", "width", "a", "zz", "k07"}[:n]
		var sb, sb2 strings.Builder
		sb.WriteString("(sorted-map")
		sb2.WriteString("(sorted-map")
		for i, nm := range names {
			fmt.Fprintf(&sb, " :%s %d \"%s\" %d", nm, i, nm, i+10)
			fmt.Fprintf(&sb2, " '%s %d :%s %d", nm, i+10, nm, i)
		}
		sb.WriteString(")")
		sb2.WriteString(")")
		m, m2 := sb.String(), sb2.String()
		id := fmt.Sprintf("mapkinds%d", n)
		add(id+"/print", m)
		add(id+"/print-symbols-first", m2)
		add(id+"/keys", fmt.Sprintf("(keys %s)", m))
		add(id+"/json", fmt.Sprintf("(json:dump-string %s)", m))
		add(id+"/equal", fmt.Sprintf("(list (equal? %s %s) (equal? %s %s))", m, m2, m2, m))
		add(id+"/format", fmt.Sprintf("(format-string \"{}\" (list %s %s))", m, m2))
		add(id+"/assoc-later", fmt.Sprintf("(let ([mm %s]) (assoc! mm \"late\" 1) (assoc! mm :late 2) (assoc! mm 'late2 3) (assoc! mm :late2 4) (list mm (keys mm)))", m))
	}
	// closures with captured bindings
	for _, n := range []int{1, 3, 5, 8} {
		var binds, uses []string
		names := []string{"zeta", "alpha", "mu", "beta", "omega", "gamma", "kappa", "delta"}[:n]
		for i, nm := range names {
			binds = append(binds, fmt.Sprintf("[%s %d]", nm, i))
			uses = append(uses, nm)
		}
		add(fmt.Sprintf("closure%d/print", n), fmt.Sprintf("(let (%s) (lambda (x) (list x %s)))", strings.Join(binds, " "), strings.Join(uses, " ")))
		add(fmt.Sprintf("closure%d/to-string", n), fmt.Sprintf("(let (%s) (format-string \"{}\" (lambda (x) (list x %s))))", strings.Join(binds, " "), strings.Join(uses, " ")))
		add(fmt.Sprintf("closure%d/in-error", n), fmt.Sprintf("(let (%s) (error 'boom (lambda (x) (list x %s))))", strings.Join(binds, " "), strings.Join(uses, " ")))
	}
	// errors, traces, gensym, packages, help, schema, misc
	add("err/unbound", "(defun f (x) (g x)) (defun g (y) (+ y zzz)) (f 1)")
	add("err/lambda-trace", "((lambda (a) ((lambda (b) (car b)) a)) 5)")
	add("err/handler", "(handler-bind ([condition (lambda (c &rest d) (list c d))]) (car 5))")
	add("err/rethrow", "(handler-bind ([condition (lambda (c &rest d) (rethrow))]) (defun q () (error 'e1 \"m\" (sorted-map 'b 1 'a 2))) (q))")
	add("err/not-a-function", "(handler-bind ([condition (lambda (c &rest d) d)]) ((car '(5)) 1))")
	add("err/not-a-function-map", "((sorted-map 'b 1 'a 2) 1)")
	add("err/kw-unrecognized-3", "(defun kw (&key a) a) (kw :zz 1 :yy 2 :xx 3)")
	add("err/kw-unrecognized-handler", "(defun kw (&key a b) (list a b)) (handler-bind ([condition (lambda (c &rest d) (list c d))]) (kw :q 1 :a 2 :r 3 :s 4 :t 5))")
	add("err/kw-lambda", "((lambda (&key k) k) :m 1 :n 2 :o 3 :p 4)")
	add("err/kw-odd", "(defun kw (&key a) a) (kw :a 1 :b)")
	add("err/optional-extra", "(defun op (a &optional b) a) (op 1 2 3 4)")
	add("err/arity", "(defun two (a b) a) (two 1)")
	add("gensym", "(list (gensym) (gensym) (gensym))")
	add("gensym-macro", "(defmacro sw (a b) (let ([t (gensym)]) (quasiquote (let ([(unquote t) (unquote a)]) (list (unquote b) (unquote t)))))) (macroexpand '(sw 1 2))")
	add("packages", "(in-package 'zed) (set 'b 1) (set 'a 2) (export 'b 'a) (in-package 'user) (use-package 'zed) (list a b)")
	add("help/packages", "(help:help-packages)")
	add("help/package-lisp", "(help:help-package 'json)")
	add("help/symbols", "(help:help-package-symbols 'time)")
	add("help/help", "(help:help 'map)")
	// export lists: built up by several export calls, including calls that add nothing new and calls naming unbound
	// symbols; the order shows in the help listings and in WHICH unbound export use-package complains about
	const shapes = "(in-package 'shapes) (export 'zeta 'alpha 'mu) (defun alpha () 1) (export '(beta omega) 'gamma) (export 'mu) (export 'alpha 'zeta) (export \"kappa\" 'delta) (export 'delta) (in-package 'user) "
	add("pkg/exports-listing", shapes+"(help:help-package-symbols 'shapes)")
	add("pkg/exports-help-package", shapes+"(help:help-package 'shapes)")
	add("pkg/use-package-first-unbound", shapes+"(handler-bind ([condition (lambda (c &rest d) (list c d))]) (use-package 'shapes))")
	add("pkg/exports-after-reload", shapes+shapes+"(list (handler-bind ([condition (lambda (c &rest d) (list c d))]) (use-package 'shapes)) (help:help-package-symbols 'shapes))")
	// one function value bound under several names of its package, some of them then rebound: the name a call frame,
	// a stack trace and the "name: message" prefix show is picked among the names that are left
	aliasNames := []string{"on-create", "on-update", "on-delete", "zeta-hook", "alpha-hook", "mu-hook"}
	for _, k := range []int{1, 2, 3, 5} {
		var sb strings.Builder
		sb.WriteString("(defun handler (a) (debug-stack) (car a)) ")
		for _, nm := range aliasNames[:k] {
			fmt.Fprintf(&sb, "(set '%s handler) ", nm)
		}
		base := sb.String()
		rebinds := map[string]string{
			"none":         "",
			"last-set":     fmt.Sprintf("(set '%s 1) ", aliasNames[k-1]),
			"last-defun":   fmt.Sprintf("(defun %s () 1) ", aliasNames[k-1]),
			"first-set":    fmt.Sprintf("(set '%s 1) ", aliasNames[0]),
			"home-set":     "(set 'handler 1) ",
			"last+home":    fmt.Sprintf("(set '%s 1) (set 'handler 2) ", aliasNames[k-1]),
			"last-twice":   fmt.Sprintf("(set '%s 1) (set '%s 2) ", aliasNames[k-1], aliasNames[(k-1)/2]),
			"last-set!":    fmt.Sprintf("(set! %s 1) ", aliasNames[k-1]),
			"last-realias": fmt.Sprintf("(set '%s car) ", aliasNames[k-1]),
		}
		for _, rb := range []string{"none", "last-set", "last-defun", "first-set", "home-set", "last+home", "last-twice", "last-set!", "last-realias"} {
			callee := aliasNames[0]
			if rb == "first-set" && k > 1 {
				callee = aliasNames[1]
			} else if rb == "first-set" || (k == 1 && rb != "none" && rb != "home-set") {
				callee = "handler"
			}
			id := fmt.Sprintf("alias%d/%s", k, rb)
			add(id+"/arity", base+rebinds[rb]+fmt.Sprintf("(%s)", callee))
			add(id+"/inner-error", base+rebinds[rb]+fmt.Sprintf("(%s 5)", callee))
			add(id+"/handled", base+rebinds[rb]+fmt.Sprintf("(handler-bind ([condition (lambda (c &rest d) (list c d))]) (%s 5))", callee))
		}
	}
	add("schema/validator-print", "(s:make-validator \"v\" s:int (s:gt 1))")
	add("schema/validate-err", "(s:validate (s:make-validator \"v\" s:int (s:gt 1)) 0)")
	add("schema/validate-arity", "(funcall (s:make-validator \"v\" s:int (s:gt 1)))")
	add("schema/anon-constraint-arity", "(funcall (s:gt 1))")
	add("schema/anon-constraint-arity2", "((s:len 2))")
	add("schema/anon-of-arity", "(handler-bind ([condition (lambda (c &rest d) (list c d))]) (funcall (s:of s:int) 1 2 3))")
	add("schema/deftype", "(s:deftype \"mytype\" s:string (s:len 3)) (s:validate mytype \"ab\")")
	add("schema/has-key", "(s:validate (s:make-validator \"v\" s:sorted-map (s:has-key \"a\" s:int) (s:may-have-key \"b\" s:string)) (sorted-map \"a\" \"x\"))")
	add("json/roundtrip", "(json:dump-string (json:load-string \"{\\\"b\\\":[1,2,{\\\"z\\\":null,\\\"a\\\":true}],\\\"a\\\":1.5}\"))")
	add("json/loaded-keys", "(keys (json:load-string \"{\\\"k07\\\":1,\\\"k03\\\":2,\\\"k11\\\":3,\\\"k01\\\":4,\\\"k09\\\":5,\\\"k05\\\":6,\\\"k12\\\":7,\\\"k02\\\":8}\"))")
	add("json/loaded-print", "(json:load-string \"{\\\"k07\\\":1,\\\"k03\\\":2,\\\"k11\\\":3,\\\"k01\\\":4,\\\"k09\\\":5,\\\"k05\\\":{\\\"z\\\":1,\\\"y\\\":2,\\\"x\\\":3,\\\"w\\\":4,\\\"v\\\":5}}\")")
	add("json/loaded-format", "(format-string \"{}\" (json:load-string \"{\\\"k07\\\":1,\\\"k03\\\":2,\\\"k11\\\":3,\\\"k01\\\":4,\\\"k09\\\":5,\\\"k05\\\":6}\"))")
	add("help/package-core", "(help:help-package 'lisp)")
	// several members of one object fail to load: WHICH failure is reported must not depend on Go map order
	add("json/object-member-errors", "(handler-bind ([condition (lambda (c &rest d) (list c d))]) (json:load-string \"{\\\"k07\\\":77777777777777777777,\\\"k03\\\":33333333333333333333,\\\"k11\\\":11111111111111111111111,\\\"k01\\\":10000000000000000000001,\\\"k09\\\":99999999999999999999,\\\"k05\\\":55555555555555555555}\" :exact-integers true))")
	add("json/nested-member-errors", "(handler-bind ([condition (lambda (c &rest d) (list c d))]) (json:load-bytes (to-bytes \"{\\\"a\\\":{\\\"x\\\":77777777777777777777,\\\"y\\\":33333333333333333333,\\\"z\\\":1},\\\"b\\\":[1,{\\\"p\\\":99999999999999999999,\\\"q\\\":88888888888888888888,\\\"r\\\":66666666666666666666}]}\") :exact-integers true))")
	// the same under an allocation cap: several members of one object exceed it, by different amounts
	add("json/object-members-over-alloc-cap", ";maxalloc=4\n(handler-bind ([condition (lambda (c &rest d) (list c d))]) (json:load-string \"{\\\"k07\\\":[1,2,3,4,5],\\\"k03\\\":[1,2,3,4,5,6],\\\"k11\\\":[1,2,3,4,5,6,7],\\\"k01\\\":{\\\"a\\\":1,\\\"b\\\":2,\\\"c\\\":3,\\\"d\\\":4,\\\"e\\\":5,\\\"f\\\":6,\\\"g\\\":7,\\\"h\\\":8},\\\"k09\\\":[1,2,3,4,5,6,7,8,9]}\"))")
	add("json/nested-members-over-alloc-cap", ";maxalloc=3\n(handler-bind ([condition (lambda (c &rest d) (list c d))]) (json:load-bytes (to-bytes \"{\\\"a\\\":{\\\"x\\\":[1,2,3,4],\\\"y\\\":[1,2,3,4,5],\\\"z\\\":1},\\\"b\\\":[1,{\\\"p\\\":[1,2,3,4,5,6],\\\"q\\\":[1,2,3,4,5,6,7]}]}\")))")
	add("concat/over-alloc-cap", ";maxalloc=4\n(list (handler-bind ([condition (lambda (c &rest d) (list c d))]) (concat 'list '(1 2 3) '(4 5 6))) (handler-bind ([condition (lambda (c &rest d) (list c d))]) (make-sequence 0 100)))")
	add("json/message", "(json:dump-message (sorted-map \"b\" 1 \"a\" (vector 1 2)))")
	add("string/format", "(format-string \"{} {} {}\" 'a (vector 1 (sorted-map 'x 1)) 1.5)")
	add("regexp", "(regexp:regexp-match? (regexp:regexp-compile \"^a+$\") \"aaa\")")
	add("type/deftype", "(deftype point (x y) (sorted-map 'x x 'y y)) (new point 1 2)")
	add("tailloop/steps", "(labels ([lp (i acc) (if (= i 0) acc (lp (- i 1) (+ acc i)))]) (lp 200 0))")
	add("map-callbacks", "(map 'list (lambda (k) (list k (gensym))) (keys (sorted-map 'b 1 'a 2 'c 3)))")
	add("debug-stack", "(defun ds () (debug-stack)) (ds)")
	add("fun-in-map", "(sorted-map 'f (lambda (x) x) 'g car)")
	// instants written with a numeric offset, moved across a daylight-saving change of the zones that use that offset:
	// what is printed is a function of the text, not of the time zone of the host the process runs on
	for _, off := range []string{"Z", "+00:00", "+01:00", "+02:00", "-05:00", "-04:00", "-08:00", "+05:30", "+09:00", "+12:45", "+13:45"} {
		for _, stamp := range []string{"2023-01-15T10:30:00", "2023-07-15T10:30:00.123456789"} {
			for _, d := range []string{"4400h", "-4400h", "1h"} {
				id := fmt.Sprintf("time/offset%s/%s/%s", off, stamp[5:7], d)
				add(id, fmt.Sprintf("(let ([t (time:time-add (time:parse-rfc3339-nano \"%s%s\") (time:parse-duration \"%s\"))]) (list (time:format-rfc3339 t) (time:format-rfc3339-nano t) (time:format-rfc3339 (time:parse-rfc3339 \"%s%s\"))))", stamp, off, d, stamp[:19], off))
			}
		}
	}
	add("fresh/empty-producers", producersProgram(false))
	add("fresh/empty-producers-then-grown", producersProgram(true))
	add("time/format", "(time:format-rfc3339 (time:parse-rfc3339 \"2020-01-02T03:04:05Z\"))")
	add("math", "(list (math:sqrt 2) (math:ceil 2.5) (math:floor 2.5))")
	add("base64", "(base64:encode (to-bytes \"hello\"))")
	return ts
}

// errorTableTargets: one target per registered callable: the error messages
// it gives for every value of V0 in its first two positions.
func errorTableTargets() []target {
	env := el.MustEnv(el.Opts{Stdlib: true})
	reg := env.Runtime.Registry
	vals := []string{"1", "-1", "2.5", `"s"`, "'sym", ":kw", "()", "'(1 2)", "(vector 1)", "(sorted-map 'a 1)", "(lambda (x) x)", "(to-bytes \"ab\")", "true"}
	skip := map[string]bool{"time:sleep": true, "lisp:load-file": true, "lisp:debug-stack": true, "lisp:in-package": true,
		"testing:test": true, "testing:benchmark": true, "testing:benchmark-simple": true, "testing:test-let": true, "testing:test-let*": true,
		"time:utc-now": true, "time:time-elapsed": true, "lisp:gensym": true}
	var ts []target
	pkgs := reg.PackageNames()
	sort.Strings(pkgs)
	for _, pn := range pkgs {
		if pn == "user" {
			continue
		}
		pkg := reg.Package(pn)
		ext := append([]string(nil), pkg.Externals()...)
		sort.Strings(ext)
		for _, sn := range ext {
			v, ok := pkg.Symbol(sn)
			if !ok || v == nil || v.Type != lisp.LFun || skip[pn+":"+sn] {
				continue
			}
			q := pn + ":" + sn
			var sb strings.Builder
			sb.WriteString("(list")
			for _, a := range vals {
				fmt.Fprintf(&sb, " (handler-bind ([condition (lambda (c &rest d) (list c d))]) (%s %s))", q, a)
				fmt.Fprintf(&sb, " (handler-bind ([condition (lambda (c &rest d) (list c d))]) (%s 1 %s))", q, a)
			}
			sb.WriteString(")")
			ts = append(ts, target{"errtable/" + q, sb.String()})
		}
	}
	return ts
}

// callTableTargets: one target per registered callable: every call (q V) and (q V W) over a value set chosen to
// reach both the failing and the succeeding paths of sequence- and string-consuming builtins (empty, homogeneous and
// heterogeneous lists, so that a loop can fail half way).
func callTableTargets() []target {
	env := el.MustEnv(el.Opts{Stdlib: true})
	reg := env.Runtime.Registry
	vals := []string{"()", `(list "a" "b")`, `(list "x" "y" 3)`, `"s"`, "1", "'sym", `(vector "a" 1)`, `(sorted-map "k" 1)`, `(to-bytes "ab")`}
	skip := map[string]bool{"time:sleep": true, "lisp:load-file": true, "lisp:debug-stack": true, "lisp:in-package": true,
		"testing:test": true, "testing:benchmark": true, "testing:benchmark-simple": true, "testing:test-let": true, "testing:test-let*": true,
		"time:utc-now": true, "time:time-elapsed": true, "lisp:gensym": true}
	var ts []target
	pkgs := reg.PackageNames()
	sort.Strings(pkgs)
	const h = "(handler-bind ([condition (lambda (c &rest d) (list c d))]) "
	for _, pn := range pkgs {
		if pn == "user" {
			continue
		}
		pkg := reg.Package(pn)
		ext := append([]string(nil), pkg.Externals()...)
		sort.Strings(ext)
		for _, sn := range ext {
			v, ok := pkg.Symbol(sn)
			if !ok || v == nil || v.Type != lisp.LFun || skip[pn+":"+sn] {
				continue
			}
			q := pn + ":" + sn
			var sb strings.Builder
			sb.WriteString("(list")
			for _, a := range vals {
				fmt.Fprintf(&sb, " %s(%s %s))", h, q, a)
				for _, b := range vals {
					fmt.Fprintf(&sb, " %s(%s %s %s))", h, q, a, b)
				}
			}
			sb.WriteString(")")
			ts = append(ts, target{"calltable/" + q, sb.String()})
		}
	}
	return ts
}

// callSites: for every registered callable the list of single calls (q V) and (q V W), V and W over the call-table
// values plus a string that is malformed in every syntax a library parses (regexp, JSON, time layout, base64, number).
type callSite struct {
	ID    string
	Calls []string
}

func callSites() []callSite {
	vals := []string{"()", `(list "a" "b")`, `"s"`, `"(["`, "1", "'sym", `(vector "a" 1)`, `(sorted-map "k" 1)`, `(to-bytes "ab")`}
	var out []callSite
	for _, t := range callTableTargets() {
		q := strings.TrimPrefix(t.ID, "calltable/")
		cs := callSite{ID: "callsite/" + q}
		for _, a := range vals {
			cs.Calls = append(cs.Calls, fmt.Sprintf("(%s %s)", q, a))
			for _, b := range vals {
				cs.Calls = append(cs.Calls, fmt.Sprintf("(%s %s %s)", q, a, b))
			}
		}
		out = append(out, cs)
	}
	return out
}

// siteTranscript: what the HOST sees for one call loaded on its own: value or condition, message, source location
// and rendered stack trace.
func siteTranscript(env *el.Env, file, src string) string {
	v := env.LoadString(file, src)
	if v.Type != lisp.LError {
		return "VAL<" + v.String() + ">"
	}
	pos := "<no position>"
	if loc, ok := v.Source(); ok {
		pos = fmt.Sprintf("%s:%d:%d", loc.File, loc.Line, loc.Col)
	}
	var tb bytes.Buffer
	_, _ = (*lisp.ErrorVal)(v).WriteTrace(&tb)
	return fmt.Sprintf("ERR<%s: %s> at %s trace=%s", v.Str, el.ErrText(v), pos, tb.String())
}

// runCallSites: every call of every callable, each loaded on its own in one fresh runtime per callable.  With
// relocated=true every call is FIRST made elsewhere: in another runtime, from another file, at another position and
// from inside a function, which is "preceding unrelated activity" that differs from the target only in where it
// happens.
func runCallSites(relocated bool) map[string]string {
	out := map[string]string{}
	for _, cs := range callSites() {
		if relocated {
			other := el.MustEnv(el.Opts{Stdlib: true})
			for _, c := range cs.Calls {
				other.LoadString("elsewhere.lisp", "\n\n   (defun other-caller () "+c+")\n (other-caller)")
			}
		}
		env := el.MustEnv(el.Opts{Stdlib: true})
		var sb strings.Builder
		for _, c := range cs.Calls {
			sb.WriteString(c + " => " + siteTranscript(env, "target", c) + "\n")
		}
		out[cs.ID] = sb.String()
	}
	return out
}

func allTargets(thorough bool) []target {
	ts := handTargets()
	et := errorTableTargets()
	if !thorough {
		// quick: every 4th callable of the error table
		var keep []target
		for i, t := range et {
			if i%4 == 0 {
				keep = append(keep, t)
			}
		}
		et = keep
	}
	return append(ts, et...)
}

// ---------------------------------------------------------------------------
// activities (run in OTHER runtimes of the same process before the target)

type activity struct {
	id  string
	run func()
}

// emptyProducers: expressions whose value is an EMPTY (or small) container handed out by a constructor, a decoder or a
// sequence builtin -- the results a fast path is tempted to share.  The activity below writes into every one of them
// in place in another runtime; the target prints what a fresh runtime then gets from the same expressions.
var emptyProducers = []string{
	`(json:load-string "[]")`, `(json:load-string "{}")`, `(get (json:load-string "{\"a\":[],\"b\":{}}") "a")`, `(get (json:load-string "{\"a\":[],\"b\":{}}") "b")`,
	`(json:load-bytes (to-bytes "[]"))`, `(json:load-string "[[]]")`, `(json:load-string "\"\"")`,
	`(vector)`, `(list)`, `(sorted-map)`, `(string:split "" ",")`, `(keys (sorted-map))`, `(make-sequence 0 0)`,
	`(map 'vector identity '())`, `(map 'list identity (vector))`, `(concat 'vector)`, `(concat 'list)`, `(append 'vector (vector))`, `(append 'list '())`,
	`(to-bytes "")`, `(reverse 'vector (vector))`, `(reverse 'list '())`, `(select 'vector identity (vector))`, `(reject 'list identity '())`, `(zip 'vector (vector))`,
	`(slice 'vector (vector 1) 0 0)`, `(slice 'list '(1) 0 0)`, `(stable-sort < (vector))`, `(regexp:regexp-match (regexp:regexp-compile "x") "y")`,
	`(elpspath:? (vector) '*)`, `(elpspath:? (sorted-map "a" (vector)) "a")`, `(base64:decode "")`, `(cdr '(1))`, `(rest (vector 1))`,
}

func producersProgram(mutate bool) string {
	var sb strings.Builder
	sb.WriteString("(set 'ps (list")
	for _, p := range emptyProducers {
		sb.WriteString(" (ignore-errors " + p + ")")
	}
	sb.WriteString("))\n")
	if mutate {
		sb.WriteString("(map 'list (lambda (p) (ignore-errors (append! p 'residue)) (ignore-errors (assoc! p \"residue\" 1)) (ignore-errors (append-bytes! p \"r\")) (ignore-errors (elpspath:?set! p 0 'residue2))) ps)\n")
	}
	sb.WriteString("ps")
	return sb.String()
}

func activities() []activity {
	load := func(std bool, src string) func() {
		return func() { el.MustEnv(el.Opts{Stdlib: std}).Load(src) }
	}
	return []activity{
		{"validators", load(true, "(s:make-validator \"a\" s:int (s:gt 1) (s:lt 9)) (s:deftype \"tt\" s:string) (s:validate (s:make-validator \"b\" s:any (s:not (s:is-true))) 1)")},
		{"gensyms", load(false, "(list (gensym) (gensym) (gensym) (gensym) (gensym))")},
		{"environments", func() {
			for i := 0; i < 3; i++ {
				el.MustEnv(el.Opts{}).Load("(let ([a 1]) (lambda (x) (lambda (y) (+ x y a))))")
			}
		}},
		{"stdlib", load(true, "(json:dump-string (sorted-map 'a 1))")},
		{"packages", load(false, "(in-package 'zed) (set 'q 1) (export 'q) (in-package 'yy) (defun f () 1)")},
		{"errors", load(true, "(ignore-errors (car 1)) (ignore-errors (error 'x (sorted-map 'z 1))) (handler-bind ([condition (lambda (&rest e) e)]) (zzz))")},
		{"format-text", func() { _, _ = formatter.Format([]byte("(defun f (x) ; c\n (+ x 1))\n"), nil) }},
		{"mutate-empty-results", load(true, producersProgram(true))},
		{"closures", load(false, "(defun mk (n) (lambda () (set! n (+ n 1)))) (set 'c (mk 1)) (funcall c) (funcall c) (deftype pt (x) x) (new pt 1)")},
	}
}

// ---------------------------------------------------------------------------
// child processes

type childOut struct {
	Transcripts map[string]string `json:"transcripts"`
}

func childMain(mode string) {
	thorough := os.Getenv("MC_C10_THOROUGH") != ""
	var ballast [][]byte
	if mode == "ballast" {
		// a different heap layout: large pre-allocation, the collector off
		for i := 0; i < 64; i++ {
			ballast = append(ballast, make([]byte, 1<<20))
		}
	}
	out := childOut{Transcripts: map[string]string{}}
	if mode == "residue" {
		// One P, no collector: a process-wide free list (sync.Pool, package-level scratch) hands the SAME object back
		// on the next call, so residue left by one evaluation is seen by the next one deterministically.  Every call
		// table runs three times in fresh runtimes; ID#1 is the first, ID#2 / ID#3 the later ones.
		for _, t := range callTableTargets() {
			for n := 1; n <= 3; n++ {
				out.Transcripts[fmt.Sprintf("%s#%d", t.ID, n)] = transcript(t.Src, nil)
			}
		}
		b, _ := json.Marshal(out)
		os.Stdout.Write(b)
		return
	}
	if mode == "sites" || mode == "sites-relocated" {
		out.Transcripts = runCallSites(mode == "sites-relocated")
		b, _ := json.Marshal(out)
		os.Stdout.Write(b)
		return
	}
	for _, t := range allTargets(thorough) {
		out.Transcripts[t.ID] = transcript(t.Src, nil)
	}
	_ = ballast
	b, _ := json.Marshal(out)
	os.Stdout.Write(b)
}

func runChild(mode string, thorough bool) (map[string]string, error) {
	exe, err := os.Executable()
	if err != nil {
		return nil, err
	}
	cmd := exec.Command(exe)
	childMode := mode
	var extra []string
	if strings.HasPrefix(mode, "env:") {
		// "env:K=V,K=V": the plain child under a different host environment
		childMode = "plain"
		extra = strings.Split(strings.TrimPrefix(mode, "env:"), ",")
	}
	cmd.Env = append(os.Environ(), "MC_C10_CHILD="+childMode)
	cmd.Env = append(cmd.Env, extra...)
	if thorough {
		cmd.Env = append(cmd.Env, "MC_C10_THOROUGH=1")
	}
	if mode == "ballast" {
		cmd.Env = append(cmd.Env, "GOGC=off")
	}
	if mode == "residue" {
		cmd.Env = append(cmd.Env, "GOGC=off", "GOMAXPROCS=1")
	}
	var ob, eb bytes.Buffer
	cmd.Stdout, cmd.Stderr = &ob, &eb
	if err := cmd.Run(); err != nil {
		return nil, fmt.Errorf("child %s: %v: %s", mode, err, eb.String())
	}
	var co childOut
	if err := json.Unmarshal(ob.Bytes(), &co); err != nil {
		return nil, fmt.Errorf("child %s output: %v", mode, err)
	}
	return co.Transcripts, nil
}

// ---------------------------------------------------------------------------

type kase struct {
	Target  target   `json:"target"`
	History []string `json:"history,omitempty"`
	Kind    string   `json:"kind"`
}

// pointerish matches a rendered memory address only.  A Go type name ("#<native value: *lisp.ErrorVal>") or a
// struct dump is the same text on every run, so it is left to the transcript comparison, which is what decides C10.
var pointerish = regexp.MustCompile(`0xc[0-9a-f]{6,}|\(0x[0-9a-f]+`)

func diffAt(a, b string) string {
	n := len(a)
	if len(b) < n {
		n = len(b)
	}
	i := 0
	for i < n && a[i] == b[i] {
		i++
	}
	lo := i - 50
	if lo < 0 {
		lo = 0
	}
	ha, hb := i+70, i+70
	if ha > len(a) {
		ha = len(a)
	}
	if hb > len(b) {
		hb = len(b)
	}
	return fmt.Sprintf("…%s…  vs  …%s…", a[lo:ha], b[lo:hb])
}

func classOf(kind string, t target, a, b string) string {
	c := kind + ":" + t.ID
	if strings.Contains(a+b, "_validation_fun_") {
		c = kind + ":validator-fun-id:" + t.ID
	}
	return c
}

func run(r *core.Run) {
	ts := allTargets(r.Thorough())
	acts := activities()
	r.Bound("targets", len(ts))
	r.Bound("activities", len(acts))
	r.Bound("history_length", 2)
	r.Rule("targets: hand-written programs that print, enumerate and compare sorted maps of 1..12 keys in 3 insertion orders through 9 sinks, closures with 1..8 captured bindings, errors with stack traces, gensym, packages, help listings, schema validators, JSON; plus one target per exported stdlib/core callable holding its error messages for 13 argument values in 2 positions. " +
		"(1) every target after every sequence of <=2 activities (8 kinds) run in other runtimes of this process vs a fresh process; (2) target pairs under every schedule up to the preemption bound vs solo; (3) two fresh processes with different heap layouts, and a pointer-pattern scan of every transcript; (4) R repeated in-process runs (statistical: samples Go's map-iteration seed); (5) for EVERY exported callable the table of calls (q V) and (q V W) over 9 values (empty / homogeneous / heterogeneous lists, string, int, symbol, vector, map, bytes) run three times in a child process with one P and the collector off, where process-wide free lists hand residue back deterministically: later runs vs the first; (6) for EVERY exported callable each single call (q V) and (q V W) over 9 values (one a string malformed in every library syntax) loaded on its own, in a child process where the same call was first made from another file, position and function in another runtime, vs a child process where it was not: value / condition, message, location and trace as the host sees them; (7) every target in fresh processes started under 12 other host environments (time zones on both sides of every offset the time targets use, a Turkish locale, another home directory and user) vs the ambient one. Non-trivial = distinct target")
	r.Assume("transcript = printed value, stderr, error condition + message + rendered stack trace, step count")
	r.Assume("oracle 4 (map iteration order) is sampling, not enumeration: the Go runtime's per-iteration random start cannot be owned without patching the runtime; a control (a bare Go map of 12 keys iterated R times must show >= 2 orders) is measured on every run")

	if os.Getenv("C10_ONLY") == "width" { // development switch: part (8) alone
		runWidth(r)
		return
	}
	base, err := runChild("plain", r.Thorough())
	if err != nil {
		r.Violate("c10", "harness:child", nil, "child process runs", err.Error(), "")
		return
	}
	ballast, err := runChild("ballast", r.Thorough())
	if err != nil {
		r.Violate("c10", "harness:child", nil, "child process runs", err.Error(), "")
		return
	}
	r.AddStates(int64(len(ts)))
	// (3) address independence
	for _, t := range ts {
		r.Nontrivial(t.ID)
		a, b := base[t.ID], ballast[t.ID]
		r.Outcome(transcriptKind(a))
		r.AddEvals(2)
		r.AddTransitions(1)
		if a != b {
			r.Violate("c10", classOf("process", t, a, b), kase{t, nil, "process"}, "identical transcripts in two fresh processes", diffAt(a, b), "")
		}
		if m := pointerish.FindString(a); m != "" {
			r.Violate("c10", "address-in-output:"+t.ID, kase{t, nil, "address"}, "no memory address or Go-syntax dump in program output", m+" in "+trunc(a, 300), "")
		}
	}
	// (8) map width x backing x sink against the reference model (width.go)
	runWidth(r)
	// (7) host environment: the same targets in fresh processes started under other time zones, locales and home
	// directories ("in every process"; the statement's only host-dependent builtins are utc-now, time-elapsed, sleep and
	// file loading, none of which a target uses)
	r.Bound("host_environments", len(hostEnvs))
	others := make([]map[string]string, len(hostEnvs))
	oerrs := make([]error, len(hostEnvs))
	var hwg sync.WaitGroup
	for i, he := range hostEnvs {
		hwg.Add(1)
		go func(i int, he string) {
			defer hwg.Done()
			others[i], oerrs[i] = runChild("env:"+he, r.Thorough())
		}(i, he)
	}
	hwg.Wait()
	for i, he := range hostEnvs {
		other, err := others[i], oerrs[i]
		if err != nil {
			r.Violate("c10", "harness:child", nil, "child process runs", err.Error(), "")
			return
		}
		for _, t := range ts {
			a, b := base[t.ID], other[t.ID]
			r.AddEvals(1)
			r.AddTransitions(1)
			if a != b {
				r.Violate("c10", classOf("hostenv", t, a, b), kase{t, []string{he}, "hostenv"}, "identical transcripts in fresh processes under different host environments (this one: "+he+")", diffAt(a, b), "")
			}
		}
	}
	// (5) residue of earlier evaluations in process-wide state, decided deterministically in a one-P child
	residue, err := runChild("residue", r.Thorough())
	if err != nil {
		r.Violate("c10", "harness:child", nil, "child process runs", err.Error(), "")
		return
	}
	cts := callTableTargets()
	r.Bound("call_table_callables", len(cts))
	r.AddStates(int64(len(cts)))
	for _, t := range cts {
		r.Nontrivial(t.ID)
		first := residue[t.ID+"#1"]
		r.Outcome("calltable:" + transcriptKind(first))
		for n := 2; n <= 3; n++ {
			r.AddEvals(1)
			r.AddTransitions(1)
			if again := residue[fmt.Sprintf("%s#%d", t.ID, n)]; again != first {
				r.Violate("c10", classOf("residue", t, first, again), kase{t, []string{"the same call table, earlier in the same process"}, "residue"},
					"the transcript of the first run in the process", diffAt(first, again), "")
				break
			}
		}
	}
	// (6) the same call made elsewhere first: location and trace of every single failing call, as the host sees them
	sitesSolo, err1 := runChild("sites", r.Thorough())
	sitesReloc, err2 := runChild("sites-relocated", r.Thorough())
	if err1 != nil || err2 != nil {
		r.Violate("c10", "harness:child", nil, "child process runs", fmt.Sprint(err1, err2), "")
		return
	}
	css := callSites()
	r.Bound("call_site_callables", len(css))
	r.Bound("call_sites_per_callable", len(css[0].Calls))
	r.AddStates(int64(len(css)))
	for _, cs := range css {
		r.Nontrivial(cs.ID)
		a, b := sitesSolo[cs.ID], sitesReloc[cs.ID]
		r.AddEvals(int64(3 * len(cs.Calls)))
		r.AddTransitions(int64(len(cs.Calls)))
		r.Outcome("callsite:" + ifs(strings.Contains(a, "ERR<"), "some-error", "all-values"))
		if a != b {
			t := target{cs.ID, strings.Join(cs.Calls, "\n")}
			r.Violate("c10", classOf("relocated", t, a, b), kase{t, []string{"every call of the table made from another file, position and function in another runtime"}, "relocated"},
				"what the host sees (value / condition, message, location, trace) for each call in a process where it was never made before", diffAt(a, b), "")
		}
	}
	// (1) history independence: every sequence of <= 2 activities
	var hists [][]int
	hists = append(hists, nil)
	for i := range acts {
		hists = append(hists, []int{i})
	}
	for i := range acts {
		for j := range acts {
			hists = append(hists, []int{i, j})
		}
	}
	r.Bound("histories", len(hists))
	// Activities mutate process-global state, so histories are explored
	// sequentially in this process: each history is "activities, then every target".
	for hi, h := range hists {
		if r.Expired() {
			r.Cap(fmt.Sprintf("history %d of %d not started: soft deadline", hi, len(hists)))
			break
		}
		var names []string
		for _, a := range h {
			acts[a].run()
			names = append(names, acts[a].id)
		}
		core.ParallelRange(r, int64(len(ts)), nil, func(_ struct{}, i int64) {
			t := ts[i]
			got := transcript(t.Src, nil)
			r.AddEvals(1)
			r.AddTransitions(1)
			r.AddTraces(1)
			if got != base[t.ID] {
				cls := classOf("history", t, got, base[t.ID])
				if r.Seen(cls) >= 1 {
					r.CountOnly(cls)
					return
				}
				r.Violate("c10", cls, kase{t, names, "history"}, "the transcript of a fresh process with no history", diffAt(base[t.ID], got), "")
			}
		})
		// also: the target run twice in a row in this process (T itself as the preceding activity)
	}
	r.Outcome("history-sweep")
	// (4) repeated runs (statistical)
	R := 8
	if r.Thorough() {
		R = 32
	}
	r.Bound("repeats_R", R)
	orders := map[string]bool{}
	ctl := map[string]int{}
	for i := 0; i < 12; i++ {
		ctl[fmt.Sprintf("k%02d", i)] = i
	}
	for i := 0; i < R; i++ {
		var sb strings.Builder
		for k := range ctl {
			sb.WriteString(k)
		}
		orders[sb.String()] = true
	}
	r.Extra("map_order_control_distinct_orders", len(orders))
	core.ParallelRange(r, int64(len(ts)), nil, func(_ struct{}, i int64) {
		t := ts[i]
		for n := 0; n < R; n++ {
			got := transcript(t.Src, nil)
			r.AddEvals(1)
			if got != base[t.ID] {
				cls := classOf("repeat", t, got, base[t.ID])
				if r.Seen(cls) < 1 {
					r.Violate("c10", cls, kase{t, nil, "repeat"}, "identical transcript on every run", diffAt(base[t.ID], got), "")
				} else {
					r.CountOnly(cls)
				}
				return
			}
		}
	})
	// (2) schedules: pairs of targets under the scheduler
	schedules(r, ts, base)
	r.Sample(kase{ts[0], []string{"validators", "gensyms"}, "history"})
	r.Sample(kase{ts[len(ts)/2], nil, "process"})
	r.Sample(kase{ts[len(ts)-1], []string{"errors"}, "history"})
}

// transcriptKind classifies a transcript for the "distinct outcomes" count: value or error condition, with or
// without printed output.
func transcriptKind(t string) string {
	k := "value"
	if strings.HasPrefix(t, "ERR<") {
		k = "error:" + strings.SplitN(strings.TrimPrefix(t, "ERR<"), ":", 2)[0]
	}
	if !strings.Contains(t, ` out="" `) {
		k += "+output"
	}
	return k
}

func trunc(s string, n int) string {
	if len(s) > n {
		return s[:n]
	}
	return s
}

func schedules(r *core.Run, ts []target, base map[string]string) {
	bound := 1
	if r.Thorough() {
		bound = 2
	}
	r.Bound("schedule_preemption_bound", bound)
	// pairs: each hand target with its successor (short programs only)
	var pairs [][2]target
	hs := handTargets()
	for i := 0; i+1 < len(hs); i += 3 {
		pairs = append(pairs, [2]target{hs[i], hs[(i+7)%len(hs)]})
	}
	r.Bound("schedule_pairs", len(pairs))
	core.ParallelRange(r, int64(len(pairs)), nil, func(_ struct{}, pi int64) {
		p := pairs[pi]
		outs := make([]string, 2)
		mk := func() []sched.Body {
			bodies := make([]sched.Body, 2)
			for i := 0; i < 2; i++ {
				i := i
				bodies[i] = func(ctx context.Context) { outs[i] = transcript(p[i].Src, ctx) }
			}
			return bodies
		}
		// solo under a counting context (step counts are the same as under a budget)
		want := []string{transcript(p[0].Src, el.NewStepCtx()), transcript(p[1].Src, el.NewStepCtx())}
		ex := &sched.Explorer{Mk: mk, Bound: bound, Stop: r.Expired}
		ex.Check = func(tr *sched.Trace) error {
			for i := 0; i < 2; i++ {
				if outs[i] != want[i] {
					return fmt.Errorf("runtime %d (%s): %s", i, p[i].ID, diffAt(want[i], outs[i]))
				}
			}
			return nil
		}
		ex.OnExec = func(tr *sched.Trace) {
			r.AddSchedules(1)
			r.AddTransitions(int64(len(tr.Points)))
		}
		ex.Fail = func(tr *sched.Trace, prefix []int, err error) {
			cls := "schedule:" + p[0].ID + "+" + p[1].ID
			if strings.Contains(err.Error(), "_validation_fun_") {
				cls = "schedule:validator-fun-id:" + p[0].ID + "+" + p[1].ID
			}
			if r.Seen(cls) < 1 {
				r.Violate("c10", cls, kase{p[0], []string{p[1].ID, fmt.Sprint(tr.Choices)}, "schedule"}, "solo transcript", err.Error(), "")
			} else {
				r.CountOnly(cls)
			}
		}
		ex.Explore()
		if ex.Capped {
			r.Cap("schedule exploration stopped by the soft deadline")
		}
	})
}

// hostEnvs: environments a fresh child process is started under (comma-separated K=V).
var hostEnvs = []string{
	"TZ=UTC",
	"TZ=Europe/Paris",
	"TZ=America/New_York",
	"TZ=Asia/Kolkata",
	"TZ=Pacific/Chatham",
	// for every offset the time targets write, a zone that uses it in winter and one that uses it in summer
	"TZ=Europe/London",
	"TZ=Atlantic/Azores",
	"TZ=Europe/Helsinki",
	"TZ=America/Chicago",
	"TZ=America/Halifax",
	"TZ=America/Anchorage",
	"TZ=America/Los_Angeles,LANG=tr_TR.UTF-8,LC_ALL=tr_TR.UTF-8,HOME=/nonexistent-home,USER=nobody",
}

func replay(v core.Violation) (bool, string) {
	k, err := core.CaseOf[kase](v)
	if err != nil {
		return false, err.Error()
	}
	if k.Kind == "width" {
		wk, err := core.CaseOf[widthKase](v)
		if err != nil {
			return false, err.Error()
		}
		return replayWidth(wk)
	}
	if k.Kind == "hostenv" && len(k.History) == 1 {
		a, err1 := runChild("plain", true)
		b, err2 := runChild("env:"+k.History[0], true)
		if err1 != nil || err2 != nil {
			return false, fmt.Sprint(err1, err2)
		}
		return a[k.Target.ID] != b[k.Target.ID], fmt.Sprintf("target %s\nambient environment: %s\nunder %s: %s", k.Target.Src, trunc(a[k.Target.ID], 600), k.History[0], trunc(b[k.Target.ID], 600))
	}
	if k.Kind == "residue" {
		res, err := runChild("residue", true)
		if err != nil {
			return false, err.Error()
		}
		a, b, c := res[k.Target.ID+"#1"], res[k.Target.ID+"#2"], res[k.Target.ID+"#3"]
		return a != b || a != c, fmt.Sprintf("target %s\nfirst run:  %s\nsecond run: %s\nthird run:  %s", k.Target.Src, trunc(a, 600), trunc(b, 600), trunc(c, 600))
	}
	if k.Kind == "relocated" {
		a, err1 := runChild("sites", true)
		b, err2 := runChild("sites-relocated", true)
		if err1 != nil || err2 != nil {
			return false, fmt.Sprint(err1, err2)
		}
		return a[k.Target.ID] != b[k.Target.ID], fmt.Sprintf("calls of %s\n%s", k.Target.ID, diffAt(a[k.Target.ID], b[k.Target.ID]))
	}
	base, err := runChild("plain", true)
	if err != nil {
		return false, err.Error()
	}
	acts := activities()
	for _, h := range k.History {
		for _, a := range acts {
			if a.id == h {
				a.run()
			}
		}
	}
	got := transcript(k.Target.Src, nil)
	want := base[k.Target.ID]
	if want == "" {
		want = transcript(k.Target.Src, nil)
	}
	return got != want, fmt.Sprintf("target %s\nhistory %v\nfresh process: %s\nthis process:  %s", k.Target.Src, k.History, trunc(want, 600), trunc(got, 600))
}

func ifs(c bool, a, b string) string {
	if c {
		return a
	}
	return b
}
