package c20

import (
	"fmt"
	"io"
	"io/fs"
	"os"
	"path/filepath"
	"strings"
	"syscall"
	"testing/fstest"
)

// sandbox is one scratch instance of theLayout on disk plus its pure model.
type sandbox struct {
	B       string            // real path of the scratch base
	W       string            // last component of B ("$W": how B is spelled relative to its parent directory)
	orig    string            // working directory before the run
	m       *model            // full layout
	mNL     *model            // layout without symbolic links (mirror of the MapFS)
	rootN   *node             // B/root in m
	rootNL  *node             // B/root in mNL
	content map[string]string // path relative to B -> file content
	idOf    map[string]string // file content -> file id
	mapfs   fstest.MapFS
}

// realBase returns the real path of dir by walking its components with Lstat
// (harness set-up only; the oracle never asks the OS to resolve anything).
func realBase(dir string) (string, error) {
	dir = filepath.Clean(dir)
	if !filepath.IsAbs(dir) {
		return "", fmt.Errorf("scratch dir %q is not absolute", dir)
	}
	cur := ""
	for _, c := range splitComps(dir) {
		cur += "/" + c
		fi, err := os.Lstat(cur)
		if err != nil {
			return "", err
		}
		if fi.Mode()&os.ModeSymlink != 0 {
			// $TMPDIR passes through a symbolic link: let the OS name the real
			// directory once (set-up, not oracle).
			return filepath.EvalSymlinks(dir)
		}
	}
	return cur, nil
}

func newSandbox() (*sandbox, error) { return newSandboxLayout("", theLayout) }

// newSandboxLayout creates the layout table ents under a new directory of parent ("" = the default temp directory).
func newSandboxLayout(parent string, ents []layoutEnt) (*sandbox, error) {
	orig, err := os.Getwd()
	if err != nil {
		return nil, err
	}
	tmp, err := os.MkdirTemp(parent, "c20-")
	if err != nil {
		return nil, err
	}
	B, err := realBase(tmp)
	if err != nil {
		os.RemoveAll(tmp)
		return nil, err
	}
	if strings.ContainsAny(B, "\"\\$ \t\n") {
		os.RemoveAll(tmp)
		return nil, fmt.Errorf("scratch path %q contains characters the driver does not quote", B)
	}
	sb := &sandbox{B: B, W: baseName(B), orig: orig, content: map[string]string{}, idOf: map[string]string{}, mapfs: fstest.MapFS{}}
	for _, e := range ents {
		p := B + "/" + e.Path
		switch e.Kind {
		case kFifo:
			c := fileContent(e) // what the harness writes into the pipe once somebody opens it for reading
			sb.content[e.Path] = c
			sb.idOf[c] = fileID(e)
			err = syscall.Mkfifo(p, 0o644)
		case kDir:
			err = os.Mkdir(p, 0o755)
		case kFile:
			c := fileContent(e)
			sb.content[e.Path] = c
			sb.idOf[c] = fileID(e)
			err = os.WriteFile(p, []byte(c), 0o644)
		case kLink:
			err = os.Symlink(strings.ReplaceAll(e.Data, "$B", B), p)
		}
		if err != nil {
			sb.close()
			return nil, err
		}
		// the MapFS mirrors root/ without the links
		if rel, ok := strings.CutPrefix(e.Path, "root/"); ok {
			switch e.Kind {
			case kDir:
				sb.mapfs[rel] = &fstest.MapFile{Mode: fs.ModeDir | 0o755}
			case kFile:
				sb.mapfs[rel] = &fstest.MapFile{Data: []byte(fileContent(e)), Mode: 0o644}
			}
		}
	}
	sb.m = newModel(B, ents, false)
	sb.mNL = newModel(B, ents, true)
	sb.rootN = sb.m.base.children["root"]
	sb.rootNL = sb.mNL.base.children["root"]
	return sb, nil
}

func (sb *sandbox) close() {
	_ = os.Chdir(sb.orig)
	_ = os.RemoveAll(sb.B)
}

func (sb *sandbox) expand(s string) string {
	return strings.ReplaceAll(strings.ReplaceAll(s, "$B", sb.B), "$W", sb.W)
}
func (sb *sandbox) template(s string) string {
	return strings.ReplaceAll(strings.ReplaceAll(s, sb.B, "$B"), sb.W, "$W")
}

// chdir moves the process into B/<rel> and returns the model node of it.
func (sb *sandbox) chdir(rel string) (*node, error) {
	p := sb.B
	n := sb.m.base
	if rel != "" {
		p += "/" + rel
		for _, c := range splitComps(rel) {
			n = n.children[c]
		}
	}
	return n, os.Chdir(p)
}

// recFS records every name the library asks the wrapped file system for.  It
// honours the fs.FS contract itself: a name that is not fs.ValidPath is
// rejected with ErrInvalid without reaching the wrapped file system.
type recFS struct {
	inner fs.FS
	asked *[]string
}

func (r recFS) Open(name string) (fs.File, error) {
	*r.asked = append(*r.asked, name)
	if !fs.ValidPath(name) {
		return nil, &fs.PathError{Op: "open", Path: name, Err: fs.ErrInvalid}
	}
	return r.inner.Open(name)
}

// ReadFile makes fs.ReadFile take the same route as with the bare file
// system (os.DirFS and fstest.MapFS both implement fs.ReadFileFS), so the
// wrapped os.DirFS resolves names exactly as in `elps run --root-dir`.
func (r recFS) ReadFile(name string) ([]byte, error) {
	rf, ok := r.inner.(fs.ReadFileFS)
	if !ok {
		f, err := r.Open(name)
		if err != nil {
			return nil, err
		}
		defer f.Close() //nolint:errcheck
		return io.ReadAll(f)
	}
	*r.asked = append(*r.asked, name)
	if !fs.ValidPath(name) {
		return nil, &fs.PathError{Op: "readfile", Path: name, Err: fs.ErrInvalid}
	}
	return rf.ReadFile(name)
}
