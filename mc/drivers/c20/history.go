package c20

// The HISTORY dimension: an explicit enumeration of operation histories on ONE
// library instance.  Parts one and two build a fresh library per case; here a
// library lives through 1..K loads, so that state a library keeps between
// loads (a resolution cache, a remembered directory, ...) is exercised.  The
// oracle of every operation is the same pure model verdict as for a fresh
// instance: the verdict of the model does not depend on history, therefore
// neither may the confinement of the implementation.
//
//	direct histories  every sequence of 1..K operations over
//	                  {LoadSource at top level, env.LoadFile at top level,
//	                   LoadSource from root/ldr.lisp, LoadSource from sub/ldr.lisp}
//	                  x histLocs
//	nested histories  env.LoadFile(<root>/hist.lisp | <root>/sub/hist.lisp) THROUGH
//	                  the library; the file does (ignore-errors (load-file X1)) ...
//	                  (ignore-errors (load-file Xk)) for every sequence X over histLocs
//
// on RelativeFileSystemLibrary (absolute root, root through a symlink,
// relative root) and FSLibrary (fstest.MapFS, os.DirFS).

import (
	"fmt"
	"sort"
	"strconv"
	"strings"
	"sync"

	"github.com/luthersystems/elps/lisp"

	"verif/mc/core"
)

func histSep(i int) string { return "#op" + strconv.Itoa(i) }

// histLocs is the reduced location alphabet, relative to the root directory.
var histLocs = []string{
	"in.lisp", "sub/in.lisp", "sub/deep/in.lisp", // an inside file in each directory
	"lnk_in", "lnk_out", "dlnk_out/secret.lisp", "abs_out", "dlnk_in/in.lisp", // every inside and outside link
	"sub/up/in.lisp", "sub/up/lnk_out", "loop",
	"../outside/secret.lisp", // a refused escape
	"missing.lisp",
}

type histMode struct {
	ID        string
	LoaderRel string // "" = top level
	Prefix    string // from the loader's directory back to the root
	LoadFile  bool
}

var histModes = []histMode{
	{"top-LoadSource", "", "", false},
	{"top-LoadFile", "", "", true},
	{"from-root-file-LoadSource", "ldr.lisp", "", false},
	{"from-sub-file-LoadSource", "sub/ldr.lisp", "../", false},
}

// nested loaders (loaded through the library under test)
var histLoaders = []histMode{
	{"nested:hist.lisp", "hist.lisp", "", true},
	{"nested:sub/hist.lisp", "sub/hist.lisp", "../", true},
}

type histOp struct {
	Mode string `json:"mode"`
	Loc  string `json:"loc"` // relative to the root directory
}

type histCfg struct {
	ID   string
	Part string // rfl | fs
	Root *rootCfg
}

func histConfigs() []histCfg {
	var out []histCfg
	for _, id := range []string{"abs-clean", "abs-via-symlink", "rel"} {
		for i := range rflPhases[0].Roots {
			if rflPhases[0].Roots[i].ID == id {
				out = append(out, histCfg{ID: "rfl:" + id, Part: "rfl", Root: &rflPhases[0].Roots[i]})
			}
		}
	}
	for _, id := range []string{"mapfs", "dirfs", "rootfs"} {
		for i := range fsPhase.Roots {
			if fsPhase.Roots[i].ID == id {
				out = append(out, histCfg{ID: "fs:" + id, Part: "fs", Root: &fsPhase.Roots[i]})
			}
		}
	}
	return out
}

func modeByID(id string) *histMode {
	for i := range histModes {
		if histModes[i].ID == id {
			return &histModes[i]
		}
	}
	for i := range histLoaders {
		if histLoaders[i].ID == id {
			return &histLoaders[i]
		}
	}
	return nil
}

// opResult is the judgement of one operation of a history.
type opResult struct {
	vd       verdict
	o        obs
	mode     string
	L, loc   string // loader location and location string as handed to the library
	kind     string // violation kind, "" = none
	oclass   string
	expected string
	class    string
}

func (sb *sandbox) histVerdict(cfg *histCfg, cwd *node, L, loc string) verdict {
	if cfg.Part == "fs" {
		v, _ := sb.fsVerdict(onDisk(cfg.Root.Spelling), L, "", loc, false)
		return v
	}
	v, _ := sb.rflVerdict(cwd, L, "", loc, false)
	return v
}

func (r *opResult) judge(sb *sandbox, cfg *histCfg, cwd *node, entry int) {
	dirfs := cfg.Part == "fs" && followsLinksOut(cfg.Root.Spelling)
	r.kind, r.oclass, r.expected = judge(cfg.Part, dirfs, &r.vd, entry, &r.o)
	if r.kind != "" {
		d := &drv{}
		r.class = d.violClass(cfg.Part, r.kind, sb, cwd.realPath(), cfg.Root, &ctxCfg{ID: r.mode}, r.L, r.loc)
		if !strings.HasPrefix(r.kind, "outside-served-through-symlink:") {
			r.class = "history:" + r.class
		}
	}
}

// runHistory replays ops on ONE fresh library instance.  For a nested history
// (ops[0].Mode names a hist loader) the loader is loaded through the library
// and performs the loads itself.
func (w *worker) runHistory(cfg *histCfg, cwd *node, ops []histOp) []opResult {
	sb := w.sb
	lib := w.libFor(cfg.Part, cfg.Root)
	fam := ""
	if cfg.Part == "rfl" {
		fam = sb.expand(cfg.Root.Family)
	}
	out := make([]opResult, len(ops))
	m0 := modeByID(ops[0].Mode)
	if m0 != nil && strings.HasPrefix(m0.ID, "nested:") {
		L := loaderLoc(fam, m0.LoaderRel)
		w.hlocs = w.hlocs[:0]
		for i, op := range ops {
			out[i].mode, out[i].L, out[i].loc = m0.ID, L, m0.Prefix+op.Loc
			out[i].vd = sb.histVerdict(cfg, cwd, L, out[i].loc)
			w.hlocs = append(w.hlocs, out[i].loc)
		}
		w.marks = w.marks[:0]
		w.asked = w.asked[:0]
		w.hasked = w.hasked[:0]
		w.env.Runtime.Library = lib
		var panicked string
		func() {
			defer func() {
				if p := recover(); p != nil {
					panicked = fmt.Sprint(p)
					w.freshEnv()
				}
			}()
			v := w.env.LoadFile(L)
			_ = v
		}()
		if len(w.env.Runtime.Stack.Frames) != 0 {
			w.freshEnv()
		}
		marks := w.marks
		entered := len(marks) > 0 && marks[0] == "inside:root/"+m0.LoaderRel
		cur := -1
		for _, mk := range marks {
			if strings.HasPrefix(mk, "#op") {
				cur, _ = strconv.Atoi(mk[3:])
				continue
			}
			if cur >= 0 && cur < len(out) {
				out[cur].o.served = append(out[cur].o.served, mk)
			} else if cur < 0 && mk != "inside:root/"+m0.LoaderRel && len(out) > 0 {
				out[0].o.served = append(out[0].o.served, mk) // something evaluated before the first operation
			}
		}
		for i := range out {
			out[i].o.panicked = panicked
			if i < len(w.hasked) {
				hi := len(w.asked)
				if i+1 < len(w.hasked) {
					hi = w.hasked[i+1]
				}
				out[i].o.asked = append([]string(nil), w.asked[w.hasked[i]:hi]...)
			}
			if len(out[i].o.served) == 0 {
				// under ignore-errors a refusal is not visible as an error; no mark = refused
				out[i].o.isErr = true
				out[i].o.errText = "(no file evaluated)"
				out[i].o.noLoader = !entered
			}
			out[i].judge(sb, cfg, cwd, eLisp)
		}
		return out
	}
	for i, op := range ops {
		m := modeByID(op.Mode)
		if m == nil {
			out[i].o.panicked = "harness: unknown mode " + op.Mode
			continue
		}
		L := ""
		loc := op.Loc
		if m.LoaderRel != "" {
			L = loaderLoc(fam, m.LoaderRel)
			loc = m.Prefix + op.Loc
		} else if cfg.Part == "rfl" {
			loc = fam + "/" + op.Loc
		}
		out[i].mode, out[i].L, out[i].loc = m.ID, L, loc
		out[i].vd = sb.histVerdict(cfg, cwd, L, loc)
		entry := eLoadSource
		cx := &ctxCfg{ID: m.ID, Rel: m.LoaderRel, RealRel: m.LoaderRel}
		if m.LoadFile {
			entry = eLoadFile
		}
		out[i].o = w.exec(lib, cx, L, entry, loc)
		out[i].judge(sb, cfg, cwd, entry)
	}
	return out
}

// histSpace indexes every history of one tier.
type histBlock struct {
	cfg    int
	loader int // -1 = direct history
	length int
	n      int64
}

func histBlocks(K int) ([]histBlock, int64) {
	var blocks []histBlock
	var total int64
	nOps := int64(len(histModes) * len(histLocs))
	for ci := range histConfigs() {
		for k := 1; k <= K; k++ {
			n := int64(1)
			for j := 0; j < k; j++ {
				n *= nOps
			}
			blocks = append(blocks, histBlock{ci, -1, k, n})
			total += n
		}
		for li := range histLoaders {
			for k := 1; k <= K; k++ {
				n := int64(1)
				for j := 0; j < k; j++ {
					n *= int64(len(histLocs))
				}
				blocks = append(blocks, histBlock{ci, li, k, n})
				total += n
			}
		}
	}
	return blocks, total
}

func histAt(blocks []histBlock, i int64) (int, []histOp) {
	for _, b := range blocks {
		if i >= b.n {
			i -= b.n
			continue
		}
		ops := make([]histOp, b.length)
		if b.loader >= 0 {
			S := int64(len(histLocs))
			for j := b.length - 1; j >= 0; j-- {
				ops[j] = histOp{Mode: histLoaders[b.loader].ID, Loc: histLocs[i%S]}
				i /= S
			}
			return b.cfg, ops
		}
		S := int64(len(histModes) * len(histLocs))
		for j := b.length - 1; j >= 0; j-- {
			o := i % S
			i /= S
			ops[j] = histOp{Mode: histModes[o/int64(len(histLocs))].ID, Loc: histLocs[o%int64(len(histLocs))]}
		}
		return b.cfg, ops
	}
	panic("harness: history index out of range")
}

// runHistories is part three of the driver.
func (d *drv) runHistories(K int, tot map[string]int64, info map[string]int64, mu *sync.Mutex) {
	r, sb := d.r, d.sb
	cwd, err := sb.chdir("")
	if err != nil {
		r.Violate("c20", "harness:chdir", nil, "chdir", err.Error(), "")
		return
	}
	cfgs := histConfigs()
	blocks, total := histBlocks(K)
	r.Bound("history_max_operations", K)
	r.Bound("history_locations", histLocs)
	r.Bound("history_operation_modes", []string{histModes[0].ID, histModes[1].ID, histModes[2].ID, histModes[3].ID, histLoaders[0].ID + " (loaded through the library)", histLoaders[1].ID + " (loaded through the library)"})
	var cfgIDs []string
	for _, c := range cfgs {
		cfgIDs = append(cfgIDs, c.ID)
	}
	r.Bound("history_library_configurations", cfgIDs)
	r.Bound("histories", total)
	r.Assume("history part: every history is replayed from scratch on ONE new library instance; the oracle of each operation is the model verdict of that operation alone (history-independent); " +
		"canonical state = set of (library configuration, directory of the cleaned location, model class, observation) touched so far - used for the state count only, every history is executed")

	states := map[string]struct{}{}
	var workers []*worker
	core.ParallelRange(r, total, func(id int) *worker {
		w := newWorker(sb)
		mu.Lock()
		workers = append(workers, w)
		mu.Unlock()
		return w
	}, func(w *worker, i int64) {
		ci, ops := histAt(blocks, i)
		cfg := &cfgs[ci]
		res := w.runHistory(cfg, cwd, ops)
		var touched []string
		for step := range res {
			x := &res[step]
			w.evals++
			w.traces++
			ok := outKey{"history-" + cfg.Part, x.mode, x.vd.desc, x.oclass}
			first := w.outcomes[ok] == 0
			w.outcomes[ok]++
			touched = append(touched, rawDir(lexClean(joinRaw(x.L, x.loc)))+"="+x.vd.desc+">"+x.oclass)
			st := append([]string(nil), touched...)
			sort.Strings(st)
			key := cfg.ID + "|" + strings.Join(uniq(st), ";")
			if _, seen := w.hstates[key]; !seen {
				w.hstates[key] = struct{}{}
			}
			if x.vd.nontrivial && step == len(res)-1 {
				r.Nontrivial("history|" + cfg.ID + "|" + histString(ops))
			}
			if x.kind == "" {
				if first {
					d.maybeSample("history-"+cfg.Part, &rflPhases[0], cfg.Root, &ctxCfg{ID: histString(ops[:step+1])}, entryOf(x.mode), x.loc, &x.vd, x.oclass, &x.o)
				}
				continue
			}
			d.mu.Lock()
			d.vioSeen[x.class]++
			n := d.vioSeen[x.class]
			d.mu.Unlock()
			if n > 3 {
				continue
			}
			k := kase{Part: "history", Phase: rflPhases[0].ID, Root: cfg.ID, Ctx: x.mode, Entry: entryNames[entryOf(x.mode)], Loc: sb.template(x.loc),
				RootSpelling: cfg.Root.Spelling, Loader: sb.template(x.L), Model: x.vd.desc, History: ops[:step+1], Step: step}
			got := sb.template(x.o.text(entryOf(x.mode)))
			rep := 0
			for j := 0; j < 5; j++ {
				k2, c2, _, _, err := runKase(sb, cwd, k)
				if err == nil && k2 == x.kind && c2 == x.class {
					rep++
				}
			}
			if rep < 5 {
				r.Flaky(map[string]any{"case": k, "class": x.class, "reproduced": rep, "of": 5, "got": got})
				continue
			}
			r.Violate("c20", x.class, k, x.expected, got, "history "+histString(ops[:step+1])+"; model of the last operation: "+x.vd.desc)
		}
	})
	for _, w := range workers {
		w.flush(r, tot, info, mu)
		for k := range w.hstates {
			states[k] = struct{}{}
		}
	}
	r.AddStates(int64(len(states)))
	r.Extra("history_canonical_states", len(states))
}

func uniq(s []string) []string {
	out := s[:0]
	for i, x := range s {
		if i == 0 || x != s[i-1] {
			out = append(out, x)
		}
	}
	return out
}

func entryOf(mode string) int {
	switch {
	case strings.HasPrefix(mode, "nested:"):
		return eLisp
	case strings.HasSuffix(mode, "LoadFile"):
		return eLoadFile
	}
	return eLoadSource
}

func histString(ops []histOp) string {
	var p []string
	for _, o := range ops {
		p = append(p, o.Mode+"("+o.Loc+")")
	}
	return strings.Join(p, " ; ")
}

// replayHistory re-executes a recorded history and judges its last operation.
func replayHistory(sb *sandbox, cwd *node, k kase) (kind, class, expected, got string, err error) {
	var cfg *histCfg
	cfgs := histConfigs()
	for i := range cfgs {
		if cfgs[i].ID == k.Root {
			cfg = &cfgs[i]
		}
	}
	if cfg == nil || len(k.History) == 0 || k.Step >= len(k.History) {
		return "", "", "", "", fmt.Errorf("bad history case %+v", k)
	}
	w := newWorker(sb)
	res := w.runHistory(cfg, cwd, k.History)
	x := res[k.Step]
	return x.kind, x.class, x.expected, x.o.text(entryOf(x.mode)) + " model=" + x.vd.desc, nil
}

var _ = lisp.Nil
