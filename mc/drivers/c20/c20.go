// Package c20: source loading cannot escape its configured root.
//
// A scratch directory layout with files and symbolic links inside and outside
// a root is created per run (model.go: theLayout).  Every file's content is
// `(mark "<inside|OUTSIDE>:<path>")`, `mark` being a host builtin that records
// evaluation.  The driver enumerates EVERY location string of up to N path
// components over a fixed component alphabet x spelling form x loading-file
// context x entry point x root spelling, runs the real library / runtime on
// each, and compares with a pure Go model of the layout (model.go) that
// classifies the string as inside / outside / missing / loop.
//
//	served or evaluated  =>  the file is inside the root AND it is the file the
//	                         location denotes as seen from the loading file's
//	                         directory (lexically cleaned or physically resolved)
//	outside              =>  error, no OUTSIDE mark, LoadSource returns no bytes
//
// Refusing a location that is inside is never a violation (the statement is an
// "only if").  Part two drives lisp.FSLibrary over fstest.MapFS and os.DirFS
// behind a recording fs.FS.
//
// Bounds: quick = every sequence of <= 2 components over the 20-component
// alphabet and every sequence of 3 over the 15-component sub-alphabet;
// thorough = <= 3 over 20 and 4 over 15.  Each sequence is spelled in 5 forms
// (4 for the fs part) and run in 7 loading-file contexts x 4 entry points x 8
// root spellings in two working directories (4 file-system configurations).
//
// The working directory is process-wide, so the two working-directory phases
// run one after the other; all workers of a phase share one scratch layout.
//
// Parts three to seven (history.go, cwd.go, scope.go, chain.go, mutate.go) add
// library state, the working directory, the position of the load call, chains
// of loads and layout mutations.  Part eight (observe.go) observes what a load
// READS, not only what it serves: outside objects under inotify watches and an
// outside named pipe, in a private layout per worker ("no part of the outside
// file is read").  Part nine (oneform.go) issues several loads from ONE form of
// a loading file (map / fold / apply / funcall over a list of locations), the
// earlier ones into other directories: every one resolves against the directory
// of the file in which the call is written.
package c20

import (
	"context"
	"fmt"
	"io/fs"
	"os"
	"path/filepath"
	"runtime/debug"
	"sort"
	"strings"
	"sync"

	"github.com/luthersystems/elps/lisp"

	"verif/mc/core"
	"verif/mc/el"
)

func init() {
	core.Register(&core.Driver{Property: "C20", Run: run, Replay: replay})
}

// ---------------------------------------------------------------------------
// the enumerated space

// sigma is the component alphabet.  "" yields `//`, a trailing `/` and (as the
// first component of a relative form) a path rooted at the real `/`.
var sigma = []string{".", "..", "", "sub", "deep", "in.lisp", "secret.lisp", "lnk_in", "lnk_out",
	"dlnk_out", "dlnk_in", "dl2", "up", "loop", "abs_out", "back", "rootx", "outside", "root", "rootlink", "ROOT"}

type formCfg struct {
	ID, Pre, Suf string
}

var rflForms = []formCfg{
	{"relative", "", ""},
	{"abs-under-root", "$B/root/", ""},
	{"abs-under-root-via-symlink", "$B/rootlink/", ""},
	{"abs-outside", "$B/", ""},
	{"abs-dslash-trailing", "$B/root//", "/"},
}

var fsForms = []formCfg{
	{"relative", "", ""},
	{"slash-rooted", "/", ""},
	{"dslash-trailing", "//", "/"},
	{"os-absolute", "$B/root/", ""},
}

// ctxCfg is a loading-file context.  Rel is the loading file as the host
// spelled it (relative to the root), RealRel its real path.
type ctxCfg struct {
	ID      string
	Rel     string
	RealRel string
	Chain   bool // root/chain.lisp is entered; it loads sub/ldr.lisp through the library under test
}

var contexts = []ctxCfg{
	{ID: "top"},
	{ID: "root-file", Rel: "ldr.lisp", RealRel: "ldr.lisp"},
	{ID: "sub-file", Rel: "sub/ldr.lisp", RealRel: "sub/ldr.lisp"},
	{ID: "deep-file", Rel: "sub/deep/ldr.lisp", RealRel: "sub/deep/ldr.lisp"},
	{ID: "via-dlnk_in", Rel: "dlnk_in/ldr.lisp", RealRel: "sub/ldr.lisp"},
	{ID: "via-dl2", Rel: "dl2/ldr.lisp", RealRel: "sub/deep/ldr.lisp"},
	{ID: "chained", Rel: "sub/ldr.lisp", RealRel: "sub/ldr.lisp", Chain: true},
}

const (
	eLisp = iota
	eLoadFile
	eLoadFileContext
	eLoadSource
	nEntries
)

var entryNames = [nEntries]string{"load-file", "LoadFile", "LoadFileContext", "LoadSource"}

// rootCfg is a spelling of the root.  Family is the spelling prefix the
// library itself gives to files under that root (its `trueloc`), which is how
// loading-file locations are spelled in that configuration.
type rootCfg struct {
	ID, Spelling, Family string
}

type phaseCfg struct {
	ID     string
	CwdRel string // process working directory, relative to B
	Roots  []rootCfg
}

var rflPhases = []phaseCfg{
	{ID: "cwd=B", CwdRel: "", Roots: []rootCfg{
		{"abs-clean", "$B/root", "$B/root"},
		{"abs-trailing-slash", "$B/root/", "$B/root"},
		{"abs-via-symlink", "$B/rootlink", "$B/root"},
		{"abs-unclean", "$B/root/sub/..", "$B/root"},
		{"rel", "root", "root"},
		{"rel-via-symlink", "./rootlink/", "root"},
	}},
	{ID: "cwd=B/root/sub", CwdRel: "root/sub", Roots: []rootCfg{
		{"dotdot", "..", ".."},
		{"dotdot-via-symlink", "../../rootlink", "../../root"},
	}},
}

// the FS part: "roots" are file-system kinds x the spelling of loader locations
var fsPhase = phaseCfg{ID: "fs", CwdRel: "", Roots: []rootCfg{
	{"mapfs", "mapfs", ""},
	{"mapfs-slashL", "mapfs", "/"},
	{"dirfs", "dirfs", ""},
	{"dirfs-slashL", "dirfs", "/"},
	{"rootfs", "rootfs", ""},
	{"rootfs-slashL", "rootfs", "/"},
}}

// onDisk: the file system is the real directory tree B/root (os.DirFS, or the os.Root behind
// lisp.NewRootedFSLibrary, which is how elps run/debug/repl --root-dir confine loads).
func onDisk(spelling string) bool { return spelling == "dirfs" || spelling == "rootfs" }

// followsLinksOut: os.DirFS opens whatever a symbolic link inside its directory points to ("DirFS is not a general
// substitute for a chroot-style security mechanism", package os).  An FSLibrary over it serves exactly what that file
// system serves; the confinement of a configured ROOT DIRECTORY is the rootfs kind's subject.
func followsLinksOut(spelling string) bool { return spelling == "dirfs" }

func loaderLoc(family, rel string) string {
	switch family {
	case "":
		return rel
	case "/":
		return "/" + rel
	case ".":
		return rel
	}
	return family + "/" + rel
}

// sigmaDeep is the sub-alphabet used for the longest sequences of a tier: the
// components that can change the directory reached or end in a file of every
// directory (abs_out, back, loop, rootlink and secret.lisp only matter as the
// last or second component and are covered by the shorter sequences).
var sigmaDeep = []string{".", "..", "", "sub", "deep", "in.lisp", "lnk_in", "lnk_out",
	"dlnk_out", "dlnk_in", "dl2", "up", "rootx", "outside", "root", "ROOT"}

// seqBlock is "every sequence of exactly Len components over Alpha".
type seqBlock struct {
	Len   int
	Alpha []string
	n     int64
}

type seqSpace struct {
	blocks []seqBlock
	total  int64
}

func newSeqSpace(full, deep int) *seqSpace { return newSeqSpaceOver(full, deep, sigma, sigmaDeep) }

// newSeqSpaceOver: every sequence of <= full components over alpha, and of full+1..deep components over alphaDeep.
func newSeqSpaceOver(full, deep int, alpha, alphaDeep []string) *seqSpace {
	sp := &seqSpace{}
	for k := 1; k <= deep; k++ {
		b := seqBlock{Len: k, Alpha: alpha}
		if k > full {
			b.Alpha = alphaDeep
		}
		b.n = 1
		for j := 0; j < k; j++ {
			b.n *= int64(len(b.Alpha))
		}
		sp.blocks = append(sp.blocks, b)
		sp.total += b.n
	}
	return sp
}

// at builds the i-th sequence, shortest first, as a '/'-joined string.
func (sp *seqSpace) at(i int64) string {
	for _, b := range sp.blocks {
		if i >= b.n {
			i -= b.n
			continue
		}
		S := int64(len(b.Alpha))
		comps := make([]string, b.Len)
		for j := b.Len - 1; j >= 0; j-- {
			comps[j] = b.Alpha[i%S]
			i /= S
		}
		return strings.Join(comps, "/")
	}
	panic("harness: sequence index out of range")
}

// ---------------------------------------------------------------------------
// the case (replay artefact)

type kase struct {
	Part  string `json:"part"`  // rfl | fs
	Phase string `json:"phase"` // phase id (fixes the working directory)
	Root  string `json:"root"`  // root spelling id | file-system kind id
	Ctx   string `json:"ctx"`
	Entry string `json:"entry"`
	Loc   string `json:"loc"` // "$B" stands for the scratch base of the run
	// informational
	RootSpelling string `json:"root_spelling,omitempty"`
	Loader       string `json:"loader_location,omitempty"`
	Model        string `json:"model,omitempty"`
	// history part: the operations applied to one library instance; Step is the judged one
	History []histOp `json:"history,omitempty"`
	// scope part: the program texts evaluated, in order (location -> source)
	Programs []scopeProg `json:"programs,omitempty"`
	Targets  []string    `json:"targets,omitempty"`
	// chain part: the loads of the chain, outermost first
	Chain []chainStep `json:"chain,omitempty"`
	// mutation part: the layout mutations applied, in order, before the probe
	Mutations []string `json:"mutations,omitempty"`
	Step      int      `json:"step,omitempty"`
}

// ---------------------------------------------------------------------------
// model verdicts

type verdict struct {
	accept     []string // ids of the files that may be served
	desc       string   // model classification (outcome class component)
	nontrivial bool
	escapesFS  bool              // fs part: every reading of the location leaves the file system
	exitLink   map[string]string // fs part over os.DirFS: OUTSIDE file id -> kind of the symlink that leads out
}

func (v *verdict) add(id string) {
	for _, a := range v.accept {
		if a == id {
			return
		}
	}
	v.accept = append(v.accept, id)
}

func (v *verdict) accepts(id string) bool {
	for _, a := range v.accept {
		if a == id {
			return true
		}
	}
	return false
}

func describe(r res, root *node) string {
	switch r.kind {
	case rFile:
		if r.node.under(root) {
			return "inside-file"
		}
		return "outside-file"
	case rDir:
		if r.node.under(root) {
			return "inside-dir"
		}
		return "outside-dir"
	}
	return r.kind.String()
}

type harnessErr struct{ class, expected, got string }

// rflVerdict classifies loc as seen from loader location L (altL: the same
// loader under its other spelling) with the process in cwd.  Two readings are
// modelled: the documented mechanism (join, lexical clean, then resolve links)
// and plain POSIX resolution of the joined string.  A file may be served only
// if one of the readings names it AND it is inside the root.
func (sb *sandbox) rflVerdict(cwd *node, L, altL, loc string, kernel bool) (verdict, *harnessErr) {
	return sb.rflVerdictRoot(cwd, sb.rootN, L, altL, loc, kernel)
}

// rflVerdictRoot is rflVerdict for an arbitrary root directory of the layout.
func (sb *sandbox) rflVerdictRoot(cwd, root *node, L, altL, loc string, kernel bool) (verdict, *harnessErr) {
	var v verdict
	var herr *harnessErr
	for i, l := range []string{L, altL} {
		if i == 1 && (altL == "" || altL == L) {
			break
		}
		raw := joinRaw(l, loc)
		cl := lexClean(raw)
		lex := sb.m.walk(cwd, cl)
		phys := sb.m.walk(cwd, raw)
		for _, r := range []res{lex, phys} {
			if r.kind == rFile && r.node.under(root) {
				v.add(r.node.id)
			}
			if r.kind == rFile || r.kind == rLoop {
				v.nontrivial = true
			}
		}
		if i == 0 {
			v.desc = describe(lex, root)
			if p := describe(phys, root); p != v.desc {
				v.desc += "|posix:" + p
			}
			if kernel {
				if g := filepath.Clean(raw); g != cl {
					herr = &harnessErr{"harness:clean-mismatch", "filepath.Clean(" + raw + ")=" + g, cl}
				}
				if phys.kind != rUnknown {
					b, err := os.ReadFile(raw)
					kid := ""
					if err == nil {
						if kid = sb.idOf[string(b)]; kid == "" {
							kid = "?unknown-content"
						}
					}
					mid := ""
					if phys.kind == rFile {
						mid = phys.node.id
					}
					if kid != mid {
						herr = &harnessErr{"harness:model-vs-kernel", "model: " + raw + " -> " + phys.kind.String() + " " + mid, "kernel: " + kid + fmt.Sprint(" err=", err)}
					}
				}
			}
		}
	}
	return v, herr
}

// fsVerdict models FSLibrary: the location is read relative to the loading
// file's directory, cleaned lexically and re-rooted at the file-system root;
// a result that still starts with `..` leaves the file system.  An absolute
// location from a loading file may be read either way (relative to the
// loader's directory, which is what the implementation does, or re-rooted).
func (sb *sandbox) fsVerdict(dirfs bool, L, altL, loc string, kernel bool) (verdict, *harnessErr) {
	var v verdict
	var herr *harnessErr
	m, root := sb.mNL, sb.rootNL
	if dirfs {
		m, root = sb.m, sb.rootN
	}
	var readings []string
	for i, l := range []string{L, altL} {
		if i == 1 && (altL == "" || altL == L) {
			break
		}
		if l != "" {
			readings = append(readings, rawDir(l)+"/"+loc)
		}
	}
	if L == "" || strings.HasPrefix(loc, "/") {
		readings = append(readings, loc)
	}
	v.escapesFS = true
	for i, raw := range readings {
		t := strings.TrimPrefix(lexClean(raw), "/")
		var d string
		if t == ".." || strings.HasPrefix(t, "../") {
			d = "escapes-fs"
		} else {
			v.escapesFS = false
			r := m.walk(root, t)
			d = describe(r, root)
			if r.kind == rFile {
				v.add(r.node.id) // for os.DirFS this may be an OUTSIDE file behind a symlink: what os.DirFS will open
				v.nontrivial = true
				if !r.node.under(root) {
					if v.exitLink == nil {
						v.exitLink = map[string]string{}
					}
					if _, ok := v.exitLink[r.node.id]; !ok {
						v.exitLink[r.node.id] = m.exitLinkKind(r, root)
					}
				}
			}
			if kernel && dirfs && r.kind != rUnknown {
				b, err := os.ReadFile(sb.B + "/root/" + t)
				kid := ""
				if err == nil {
					if kid = sb.idOf[string(b)]; kid == "" {
						kid = "?unknown-content"
					}
				}
				mid := ""
				if r.kind == rFile {
					mid = r.node.id
				}
				if kid != mid {
					herr = &harnessErr{"harness:model-vs-kernel", "model: root/" + t + " -> " + r.kind.String() + " " + mid, "kernel: " + kid}
				}
			}
		}
		if i == 0 {
			v.desc = d
		} else if !strings.Contains(v.desc, d) {
			v.desc += "|alt:" + d
		}
	}
	return v, herr
}

// ---------------------------------------------------------------------------
// executing one case against the real code

type obs struct {
	isErr    bool
	errText  string
	served   []string // file ids evaluated (runtime entries) or returned (LoadSource), loader marks removed
	rawData  string   // LoadSource: bytes returned
	trueloc  string
	panicked string
	noLoader bool     // the loading file itself could not be entered (chained context)
	asked    []string // fs part: names asked of the file system
	touched  []string // read-observation part: outside objects opened / read while the load ran ("open <id>", "read <id>")
}

type worker struct {
	sb        *sandbox
	env       *el.Env
	marks     []string
	loc       string
	used      bool
	entry     int
	asked     []string
	dirFS     fs.FS                   // os.DirFS(B/root)
	rootFS    fs.FS                   // the file system of lisp.NewRootedFSLibrary(B/root), as cmd/run.go builds it
	progs     map[string]lisp.Program // loading files, parsed once per (location, content)
	hlocs     []string                // history part: the locations a hist.lisp loader asks for
	hasked    []int                   // history part: len(asked) when each nested operation started
	priv      string                  // mutation part: this worker's private temp tree
	privBuilt string                  // ... the tree currently on disk (path) and its state
	privState pstate
	chain     []chainStep // chain part: the loads the link.lisp files still have to perform
	clevel    int
	mlocs     []string            // one-form part: the locations the form of the loading file is applied to
	cbase     map[string]string   // chain part: marks of the same chain driven by LoadFile / load-file only
	sbase     map[string]string   // scope part: outcome of a single top-level load, per (configuration, file, primitive, target)
	hstates   map[string]struct{} // history part: canonical states seen by this worker
	watch     *readWatch          // read-observation part: inotify watches on the outside objects of this worker's private layout
	fifo      string              // ... the outside named pipe of that layout and what the harness writes into it
	fifoData  []byte
	statOf    map[*node]os.FileInfo

	// local counters, flushed at the end
	outcomes map[outKey]int64
	evals    int64
	traces   int64
	info     map[string]int64
}

type outKey struct {
	part, entry, desc, obs string
}

type bdef struct {
	name    string
	formals *lisp.LVal
	fn      func(env *lisp.LEnv, args *lisp.LVal) *lisp.LVal
}

func (b bdef) Name() string                                    { return b.name }
func (b bdef) Formals() *lisp.LVal                             { return b.formals }
func (b bdef) Eval(env *lisp.LEnv, args *lisp.LVal) *lisp.LVal { return b.fn(env, args) }

func newWorker(sb *sandbox) *worker {
	w := &worker{sb: sb, outcomes: map[outKey]int64{}, info: map[string]int64{}, hstates: map[string]struct{}{}, sbase: map[string]string{}, cbase: map[string]string{}, progs: map[string]lisp.Program{}}
	w.dirFS = os.DirFS(sb.B + "/root")
	if lib, err := lisp.NewRootedFSLibrary(sb.B + "/root"); err == nil {
		w.rootFS = lib.FS
	} else {
		panic("c20: NewRootedFSLibrary: " + err.Error())
	}
	w.freshEnv()
	return w
}

func (w *worker) freshEnv() {
	w.env = el.MustEnv(el.Opts{Builtins: append(w.oneFormBuiltins(), []lisp.LBuiltinDef{
		bdef{"mark", lisp.Formals("s"), func(env *lisp.LEnv, args *lisp.LVal) *lisp.LVal {
			w.marks = append(w.marks, args.Cells[0].Str)
			return lisp.String(args.Cells[0].Str)
		}},
		bdef{symLisp, lisp.Formals(), func(env *lisp.LEnv, args *lisp.LVal) *lisp.LVal {
			return lisp.Bool(w.entry == eLisp)
		}},
		bdef{symLoc, lisp.Formals(), func(env *lisp.LEnv, args *lisp.LVal) *lisp.LVal {
			if w.used {
				return env.Errorf("c20: the location under test was already consumed (recursive loader)")
			}
			w.used = true
			return lisp.String(w.loc)
		}},
		bdef{symHLoc, lisp.Formals("i"), func(env *lisp.LEnv, args *lisp.LVal) *lisp.LVal {
			i := args.Cells[0].Int
			if args.Cells[0].Type != lisp.LInt || i < 0 || i >= len(w.hlocs) {
				return env.Errorf("c20: no operation %v in this history", args.Cells[0])
			}
			w.marks = append(w.marks, histSep(i))
			w.hasked = append(w.hasked, len(w.asked))
			return lisp.String(w.hlocs[i])
		}},
		bdef{symChainLisp, lisp.Formals(), func(env *lisp.LEnv, args *lisp.LVal) *lisp.LVal {
			return lisp.Bool(w.clevel < len(w.chain) && w.chain[w.clevel].Prim == "load-file")
		}},
		bdef{symChainLoc, lisp.Formals(), func(env *lisp.LEnv, args *lisp.LVal) *lisp.LVal {
			if w.clevel >= len(w.chain) {
				return env.Errorf("c20: the chain has no level %d", w.clevel)
			}
			st := w.chain[w.clevel]
			w.clevel++
			return lisp.String(st.Req)
		}},
		bdef{symChainGo, lisp.Formals(), func(env *lisp.LEnv, args *lisp.LVal) *lisp.LVal {
			if w.clevel >= len(w.chain) {
				return lisp.Nil() // end of the chain
			}
			st := w.chain[w.clevel]
			w.clevel++
			if st.Prim == "go-LoadFileContext" {
				return env.LoadFileContext(context.Background(), st.Req)
			}
			return env.LoadFile(st.Req)
		}},
		bdef{symSep, lisp.Formals("i"), func(env *lisp.LEnv, args *lisp.LVal) *lisp.LVal {
			w.marks = append(w.marks, histSep(args.Cells[0].Int))
			w.hasked = append(w.hasked, len(w.asked))
			return lisp.Nil()
		}},
		bdef{symGoLoad, lisp.Formals("loc"), func(env *lisp.LEnv, args *lisp.LVal) *lisp.LVal {
			return env.LoadFile(args.Cells[0].Str)
		}},
		bdef{symGoLoadCtx, lisp.Formals("loc"), func(env *lisp.LEnv, args *lisp.LVal) *lisp.LVal {
			return env.LoadFileContext(context.Background(), args.Cells[0].Str)
		}},
		bdef{symHost, lisp.Formals(), func(env *lisp.LEnv, args *lisp.LVal) *lisp.LVal {
			if w.used {
				return env.Errorf("c20: the location under test was already consumed (recursive loader)")
			}
			w.used = true
			switch w.entry {
			case eLoadFile:
				return env.LoadFile(w.loc)
			case eLoadFileContext:
				return env.LoadFileContext(context.Background(), w.loc)
			}
			return env.Errorf("c20: host load with entry %d", w.entry)
		}},
	}...)})
}

// libFor returns a NEW library instance: the cases of parts one and two are
// state-free (library state carried from one load to the next is the subject
// of the history part).
func (w *worker) libFor(part string, rc *rootCfg) lisp.SourceLibrary {
	if part == "fs" {
		if rc.Spelling == "dirfs" {
			return &lisp.FSLibrary{FS: recFS{inner: w.dirFS, asked: &w.asked}}
		}
		if rc.Spelling == "rootfs" {
			return &lisp.FSLibrary{FS: recFS{inner: w.rootFS, asked: &w.asked}}
		}
		return &lisp.FSLibrary{FS: recFS{inner: w.sb.mapfs, asked: &w.asked}}
	}
	return &lisp.RelativeFileSystemLibrary{RootDir: w.sb.expand(rc.Spelling)}
}

func baseName(p string) string {
	if i := strings.LastIndexByte(p, '/'); i >= 0 {
		return p[i+1:]
	}
	return p
}

// loadAt evaluates the content of layout file `rel` as source located at L:
// what LoadLocation(name, L, content) does (ReadLocation, then load), with the
// parse of the loading file cached per location.
func (w *worker) loadAt(L, rel string) *lisp.LVal {
	key := L + "\x00" + rel
	p, ok := w.progs[key]
	if !ok {
		var err error
		p, err = lisp.ReadLocationProgram(el.FastReader().(lisp.LocationReader), baseName(L), L, strings.NewReader(w.sb.content[rel]))
		if err != nil {
			panic("harness: loader does not parse: " + err.Error())
		}
		w.progs[key] = p
	}
	return w.env.LoadProgram(p)
}

// exec runs one case.  L is the location of the loading file ("" at top
// level); for the chained context L is the location of root/chain.lisp.
func (w *worker) exec(lib lisp.SourceLibrary, cx *ctxCfg, L string, entry int, loc string) (o obs) {
	w.marks = w.marks[:0]
	w.asked = w.asked[:0]
	w.loc, w.used, w.entry = loc, false, entry
	defer func() {
		if p := recover(); p != nil {
			o.panicked = fmt.Sprint(p)
			w.freshEnv()
		}
		o.asked = append([]string(nil), w.asked...)
	}()
	if entry == eLoadSource {
		var sc lisp.SourceContext
		if cx.Rel == "" {
			sc = lisp.NewSourceContext("", "")
		} else {
			sc = lisp.NewSourceContext(baseName(L), L)
		}
		_, tl, data, err := lib.LoadSource(sc, loc)
		o.trueloc = tl
		o.rawData = string(data)
		if err != nil {
			o.isErr, o.errText = true, err.Error()
		}
		if len(data) > 0 {
			id := w.sb.idOf[string(data)]
			if id == "" {
				id = "?unknown-content"
			}
			o.served = []string{id}
		}
		return o
	}
	env := w.env
	env.Runtime.Library = lib
	var v *lisp.LVal
	var pre []string
	switch {
	case cx.Rel == "":
		switch entry {
		case eLisp:
			v = env.LoadString("test", "(load-file \""+loc+"\")")
		case eLoadFile:
			v = env.LoadFile(loc)
		case eLoadFileContext:
			v = env.LoadFileContext(context.Background(), loc)
		}
	case cx.Chain:
		pre = []string{"inside:root/chain.lisp", "inside:root/" + cx.RealRel}
		v = w.loadAt(L, "root/chain.lisp")
	default:
		pre = []string{"inside:root/" + cx.RealRel}
		v = w.loadAt(L, "root/"+cx.RealRel)
	}
	if v == nil {
		o.isErr, o.errText = true, "<nil result>"
	} else if v.Type == lisp.LError {
		o.isErr, o.errText = true, el.ErrText(v)
	}
	marks := w.marks
	for i, p := range pre {
		if i >= len(marks) || marks[i] != p {
			o.noLoader = true
			o.served = append([]string(nil), marks[i:]...)
			marks = nil
			break
		}
	}
	if !o.noLoader {
		o.served = append([]string(nil), marks[len(pre):]...)
	}
	if len(env.Runtime.Stack.Frames) != 0 {
		w.info["stack-not-empty-after-load(env rebuilt)"]++
		w.freshEnv()
	}
	return o
}

// judge compares an observation with the model verdict.  It returns the kind
// of violation ("" = none), the observation class and expected/got texts.
func (o *obs) text(entry int) string {
	if o.panicked != "" {
		return "panic: " + o.panicked
	}
	got := fmt.Sprintf("err=%v %q served=%v", o.isErr, o.errText, o.served)
	if entry == eLoadSource {
		got += fmt.Sprintf(" bytes=%q trueloc=%q", o.rawData, o.trueloc)
	}
	if len(o.asked) > 0 {
		got += fmt.Sprintf(" asked=%q", o.asked)
	}
	if len(o.touched) > 0 {
		got += fmt.Sprintf(" outside-objects-touched=%q", o.touched)
	}
	return got
}

func judge(part string, dirfs bool, vd *verdict, entry int, o *obs) (kind, oclass, expected string) {
	switch {
	case o.panicked != "":
		return "panic", "panic", "no panic"
	case o.noLoader && len(o.served) == 0:
		return "", "loading-file-not-entered", ""
	}
	for _, s := range o.served {
		if strings.HasPrefix(s, tagOutside+":") && !(dirfs && vd.accepts(s)) {
			return "outside-served", "served-OUTSIDE", "refused with an error, nothing of an outside file read or evaluated (may serve: " + fmt.Sprint(vd.accept) + ")"
		}
	}
	if o.isErr && strings.Contains(o.rawData, tagOutside) {
		return "outside-bytes-with-error", "error+OUTSIDE-bytes", "no bytes of an outside file"
	}
	if len(o.served) > 1 {
		return "unexpected-marks", "several-files", "at most one file evaluated"
	}
	if len(o.served) == 1 {
		s := o.served[0]
		if !vd.accepts(s) {
			if part == "fs" && vd.escapesFS {
				return "escaping-location-served", "served-wrong", "refused: the location leaves the file system"
			}
			return "wrong-file", "served-wrong", "refused, or the file the location denotes from the loading file's directory: " + fmt.Sprint(vd.accept)
		}
		if len(o.asked) > 0 {
			for _, n := range o.asked {
				if !fs.ValidPath(n) {
					return "served-after-invalid-name", "served-wrong", "no data after asking the file system for an invalid name"
				}
			}
		}
		if strings.HasPrefix(s, tagOutside+":") {
			// only reached for os.DirFS (followsLinksOut): the library serves what the file system it was given
			// serves.  Until 9f5a4b9 this was how `elps run/debug/repl --root-dir` configured a root directory, and
			// it was reported (fixed: they now build lisp.NewRootedFSLibrary, the rootfs kind, where an outside
			// file is "outside-served" above).
			return "", "served-through-symlink(os.DirFS)", ""
		}
		if o.isErr {
			return "", "served-then-error", ""
		}
		return "", "served", ""
	}
	if !o.isErr {
		return "success-without-content", "success-without-content", "an error, or the content of a file"
	}
	return "", "refused", ""
}

// ---------------------------------------------------------------------------
// the driver

type drv struct {
	r  *core.Run
	sb *sandbox

	mu      sync.Mutex
	vioSeen map[string]int
	samples map[string]any
}

func (d *drv) violClass(part string, kind string, sb *sandbox, cwdReal string, rc *rootCfg, cx *ctxCfg, L, loc string) string {
	if part == "fs" {
		if strings.HasPrefix(kind, "outside-served-through-symlink:") {
			return "fslib:dirfs:" + kind // one class per kind of link, whatever the context
		}
		return "fslib:" + rc.ID + ":" + kind + ":ctx=" + cx.ID
	}
	c := "rfl:" + kind + ":root=" + rc.ID + ":ctx=" + cx.ID
	if kind == "outside-served" || kind == "outside-bytes-with-error" || kind == "outside-read" || kind == "outside-opened" {
		// An escape is identified by the root spelling and the way out, not by
		// the loading-file context (keeps the class count small: the core stops
		// a run once 40 cases are recorded).
		c = "rfl:" + kind + ":root=" + rc.ID
		raw := joinRaw(L, loc)
		if !strings.HasPrefix(raw, "/") {
			raw = cwdReal + "/" + raw
		}
		la := lexClean(raw)
		R := sb.B + "/root"
		switch {
		case la == R || strings.HasPrefix(la, R+"/"):
			c += ":through-symlink"
		case strings.HasPrefix(la, R):
			c += ":sibling-prefix"
		default:
			c += ":lexically-outside"
		}
	}
	return c
}

// runKase executes one case straight-line in a fresh runtime.  The process
// must already be in the phase's working directory.
func runKase(sb *sandbox, cwd *node, k kase) (kind, class, expected, got string, err error) {
	if k.Part == "history" {
		return replayHistory(sb, cwd, k)
	}
	if k.Part == "cwd" {
		return runCwdKase(sb, cwd, k)
	}
	if k.Part == "scope" {
		return runScopeKase(sb, cwd, k)
	}
	if k.Part == "chain" {
		return runChainKase(sb, cwd, k)
	}
	if k.Part == "mutation" {
		return runMutationKase(k)
	}
	if k.Part == "oneform" {
		return runOneFormKase(sb, cwd, k)
	}
	if k.Part == "observe" {
		return "", "", "", "", fmt.Errorf("read-observation cases run in a private layout (replayObs)")
	}
	var ph *phaseCfg
	phases := append(append([]phaseCfg(nil), rflPhases...), fsPhase)
	for i := range phases {
		if phases[i].ID == k.Phase {
			ph = &phases[i]
		}
	}
	if ph == nil {
		return "", "", "", "", fmt.Errorf("unknown phase %q", k.Phase)
	}
	var rc *rootCfg
	for i := range ph.Roots {
		if ph.Roots[i].ID == k.Root {
			rc = &ph.Roots[i]
		}
	}
	var cx *ctxCfg
	for i := range contexts {
		if contexts[i].ID == k.Ctx {
			cx = &contexts[i]
		}
	}
	entry := -1
	for i, n := range entryNames {
		if n == k.Entry {
			entry = i
		}
	}
	if rc == nil || cx == nil || entry < 0 {
		return "", "", "", "", fmt.Errorf("unknown root/ctx/entry in %+v", k)
	}
	loc := sb.expand(k.Loc)
	L, altL, execL := locations(sb, rc, cx)
	var vd verdict
	dirfs := k.Part == "fs" && followsLinksOut(rc.Spelling)
	if k.Part == "fs" {
		vd, _ = sb.fsVerdict(onDisk(rc.Spelling), L, altL, loc, false)
	} else {
		vd, _ = sb.rflVerdict(cwd, L, altL, loc, false)
	}
	w := newWorker(sb)
	o := w.exec(w.libFor(k.Part, rc), cx, execL, entry, loc)
	kind, _, expected = judge(k.Part, dirfs, &vd, entry, &o)
	got = o.text(entry)
	if kind != "" {
		d := &drv{}
		class = d.violClass(k.Part, kind, sb, cwd.realPath(), rc, cx, L, loc)
	}
	return kind, class, expected, got + " model=" + vd.desc, nil
}

// locations returns the loader location the model reasons about (L), its
// alternative spelling (altL) and the location handed to the runtime (execL:
// the chain file for the chained context).
func locations(sb *sandbox, rc *rootCfg, cx *ctxCfg) (L, altL, execL string) {
	if cx.Rel == "" {
		return "", "", ""
	}
	fam := sb.expand(rc.Family)
	L = loaderLoc(fam, cx.Rel)
	altL = loaderLoc(fam, cx.RealRel)
	execL = L
	if cx.Chain {
		execL = loaderLoc(fam, "chain.lisp")
		if rc.Family == "/" {
			// FSLibrary's trueloc for the file the chain loads is unrooted
			L, altL = cx.Rel, cx.RealRel
		}
	}
	return
}

func (d *drv) handle(w *worker, part string, ph *phaseCfg, cwd *node, rc *rootCfg, cx *ctxCfg, entry int, L, loc string, vd *verdict, o *obs, dirfs bool) {
	kind, oclass, expected := judge(part, dirfs, vd, entry, o)
	ok := outKey{part, entryNames[entry], vd.desc, oclass}
	first := w.outcomes[ok] == 0
	w.outcomes[ok]++
	if part == "fs" {
		for _, n := range o.asked {
			if !fs.ValidPath(n) {
				w.info["fs: invalid name asked of the file system (rejected by it, nothing served)"]++
				break
			}
		}
	}
	if kind == "" {
		if first {
			d.maybeSample(part, ph, rc, cx, entry, loc, vd, oclass, o)
		}
		return
	}
	class := d.violClass(part, kind, d.sb, cwd.realPath(), rc, cx, L, loc)
	d.mu.Lock()
	d.vioSeen[class]++
	n := d.vioSeen[class]
	d.mu.Unlock()
	if n > 3 {
		return
	}
	got := d.sb.template(o.text(entry))
	k := kase{Part: part, Phase: ph.ID, Root: rc.ID, Ctx: cx.ID, Entry: entryNames[entry], Loc: d.sb.template(loc),
		RootSpelling: rc.Spelling, Loader: d.sb.template(L), Model: vd.desc}
	// re-confirm 5x in fresh runtimes
	rep := 0
	for i := 0; i < 5; i++ {
		k2, c2, _, _, err := runKase(d.sb, cwd, k)
		if err == nil && k2 == kind && c2 == class {
			rep++
		}
	}
	if rep < 5 {
		d.r.Flaky(map[string]any{"case": k, "class": class, "reproduced": rep, "of": 5, "got": got})
		return
	}
	d.r.Violate("c20", class, k, expected, got, "model: "+vd.desc)
}

func (d *drv) maybeSample(part string, ph *phaseCfg, rc *rootCfg, cx *ctxCfg, entry int, loc string, vd *verdict, oclass string, o *obs) {
	key := part + "|" + vd.desc + "|" + oclass
	d.mu.Lock()
	defer d.mu.Unlock()
	if _, ok := d.samples[key]; ok {
		return
	}
	d.samples[key] = map[string]any{"part": part, "phase": ph.ID, "root": rc.Spelling, "ctx": cx.ID, "entry": entryNames[entry],
		"loc": d.sb.template(loc), "model": vd.desc, "may_serve": vd.accept, "observed": oclass, "got": d.sb.template(o.text(entry))}
}

// emitSamples hands the evidence one real case per model class, the classes
// that decide the property first.
func (d *drv) emitSamples() {
	prio := func(k string) int {
		switch {
		case strings.Contains(k, "|outside-file|"):
			return 0
		case strings.Contains(k, "|inside-file|served"):
			return 1
		case strings.Contains(k, "posix:outside-file"), strings.Contains(k, "|escapes-fs|"):
			return 2
		case strings.Contains(k, "OUTSIDE"):
			return 3
		case strings.Contains(k, "loop"), strings.Contains(k, "|inside-file"):
			return 4
		}
		return 5
	}
	keys := make([]string, 0, len(d.samples))
	for k := range d.samples {
		keys = append(keys, k)
	}
	sort.Slice(keys, func(i, j int) bool {
		if pi, pj := prio(keys[i]), prio(keys[j]); pi != pj {
			return pi < pj
		}
		return keys[i] < keys[j]
	})
	for i, k := range keys {
		if i >= 12 {
			break
		}
		d.r.Sample(d.samples[k])
	}
}

func (w *worker) flush(r *core.Run, tot map[string]int64, info map[string]int64, mu *sync.Mutex) {
	r.AddEvals(w.evals)
	r.AddTransitions(w.evals)
	r.AddTraces(w.traces)
	mu.Lock()
	for k, n := range w.outcomes {
		tot[k.part+":"+k.entry+":"+k.desc+" -> "+k.obs] += n
	}
	for k, n := range w.info {
		info[k] += n
	}
	mu.Unlock()
}

func run(r *core.Run) {
	sb, err := newSandbox()
	if err != nil {
		r.Violate("c20", "harness:sandbox", nil, "scratch layout created", err.Error(), "")
		return
	}
	defer sb.close()
	defer debug.SetGCPercent(debug.SetGCPercent(400)) // millions of tiny short-lived parses; the live heap is a few MB
	d := &drv{r: r, sb: sb, vioSeen: map[string]int{}, samples: map[string]any{}}

	// quick: every sequence of <= 2 components over sigma and of 3 over sigmaDeep;
	// thorough: <= 3 over sigma and 4 over sigmaDeep.
	full, deep := 2, 3
	if r.Thorough() {
		full, deep = 3, 4
	}
	sp := newSeqSpace(full, deep)
	nSeq := sp.total
	r.Bound("max_components", deep)
	r.Bound("max_components_over_full_alphabet", full)
	r.Bound("component_alphabet", sigma)
	r.Bound("component_alphabet_longest_sequences", sigmaDeep)
	r.Bound("component_sequences", nSeq)
	r.Bound("rfl_forms", formIDs(rflForms))
	r.Bound("fs_forms", formIDs(fsForms))
	r.Bound("contexts", ctxIDs())
	r.Bound("entry_points", entryNames[:])
	var rootIDs []string
	for _, ph := range rflPhases {
		for _, rc := range ph.Roots {
			rootIDs = append(rootIDs, ph.ID+" root="+rc.Spelling)
		}
	}
	r.Bound("root_spellings", rootIDs)
	r.Bound("fs_kinds", []string{"fstest.MapFS", "os.DirFS(root)", "each with plain and slash-rooted loader locations"})
	r.Bound("layout_entries", len(theLayout))
	r.Rule("every '/'-joined sequence of 1..N components (full alphabet up to N-1, the 15-component sub-alphabet at N) x spelling form x loading-file context x entry point x root spelling " +
		"(chained context has no LoadSource entry). Non-trivial = (working directory, loading-file context, location string) whose model resolution " +
		"(lexically cleaned or POSIX) reaches an existing regular file, inside or outside, or a symlink loop; distinct by that triple. " +
		"Read-observation family: the same enumeration (alphabet extended by an outside named pipe, an outside directory and links to them) in a private layout per worker whose OUTSIDE objects are observed (inotify open/read events, a named-pipe rendezvous) x every confining library (RelativeFileSystemLibrary under 6 root spellings, NewRootedFSLibrary) x entry point x context: no load may open or read an outside object; non-trivial there = a reading of the location reaches an outside file, pipe or directory")
	r.Assume("unspecified: which of two readings of a location applies when they differ - join+lexical clean then resolve links (the documented mechanism) or POSIX resolution of the joined string " +
		"(e.g. dlnk_out/../in.lisp, in.lisp/.): a file named by either reading may be served if it is inside the root, an OUTSIDE file never")
	r.Assume("unspecified: whether the directory of a loading file reached through a directory symlink is its spelled or its real directory; a file named from either may be served")
	r.Assume("refusing a location that is inside the root is never a violation (relative top-level locations under an absolute root, absolute locations under a relative root are always refused)")
	r.Assume("fs.FS part: FSLibrary delegates rejection of names with '..' to the fs.FS contract; an invalid name ASKED is counted (informational), only data SERVED for it would be a violation; " +
		"an absolute location from a loading file may be read relative to the loader's directory or re-rooted")
	r.Assume("fs.FS part: lisp.FSLibrary{FS: os.DirFS(root)} is the configuration `elps run/debug/repl --root-dir` build (cmd/run.go, an anchor file); an OUTSIDE file served through it (os.DirFS follows symlinks out of its directory) violates the statement's first sentence and is reported per kind of link; over fstest.MapFS nothing outside exists")
	r.Assume("the model is validated against the kernel: for every enumerated (context, location) an unconfined os.ReadFile of the joined string must agree with the model's POSIX walk; lexClean must equal filepath.Clean")

	tot := map[string]int64{}
	info := map[string]int64{}
	var mu sync.Mutex

	d.precheck(info)

	// development aid: C20_PARTS=rfl,fs,history restricts the run (reported as capped)
	parts := map[string]bool{"rfl": true, "fs": true, "history": true, "cwd": true, "scope": true, "chain": true, "mutation": true, "observe": true, "oneform": true}
	if s := os.Getenv("C20_PARTS"); s != "" {
		parts = map[string]bool{}
		for _, p := range strings.Split(s, ",") {
			parts[p] = true
		}
		r.Cap("C20_PARTS=" + s + ": only some parts of the space were run")
	}

	// ---- part one: RelativeFileSystemLibrary with RootDir
	for pi := range rflPhases {
		if !parts["rfl"] {
			break
		}
		ph := &rflPhases[pi]
		cwd, err := sb.chdir(ph.CwdRel)
		if err != nil {
			r.Violate("c20", "harness:chdir", nil, "chdir", err.Error(), "")
			return
		}
		// roots grouped by family, in table order
		var fams []string
		byFam := map[string][]*rootCfg{}
		for i := range ph.Roots {
			rc := &ph.Roots[i]
			if _, ok := byFam[rc.Family]; !ok {
				fams = append(fams, rc.Family)
			}
			byFam[rc.Family] = append(byFam[rc.Family], rc)
		}
		n := nSeq * int64(len(rflForms))
		var workers []*worker
		core.ParallelRange(r, n, func(id int) *worker {
			w := newWorker(sb)
			mu.Lock()
			workers = append(workers, w)
			mu.Unlock()
			return w
		}, func(w *worker, i int64) {
			p := sp.at(i / int64(len(rflForms)))
			f := rflForms[i%int64(len(rflForms))]
			loc := sb.expand(f.Pre) + p + f.Suf
			for ci := range contexts {
				cx := &contexts[ci]
				for _, fam := range fams {
					rc0 := byFam[fam][0]
					L, altL, execL := locations(sb, rc0, cx)
					vd, herr := sb.rflVerdict(cwd, L, altL, loc, !cx.Chain)
					w.traces++
					if herr != nil {
						r.Violate("c20", herr.class, kase{Part: "rfl", Phase: ph.ID, Ctx: cx.ID, Loc: sb.template(loc), Loader: sb.template(L)}, sb.template(herr.expected), sb.template(herr.got), "harness self-check")
					}
					if vd.nontrivial {
						r.Nontrivial(ph.CwdRel + "|" + cx.ID + "|" + fam + "|" + sb.template(loc))
					}
					for _, rc := range byFam[fam] {
						for e := 0; e < nEntries; e++ {
							if cx.Chain && e == eLoadSource {
								continue
							}
							o := w.exec(w.libFor("rfl", rc), cx, execL, e, loc)
							w.evals++
							d.handle(w, "rfl", ph, cwd, rc, cx, e, L, loc, &vd, &o, false)
						}
					}
				}
			}
		})
		for _, w := range workers {
			w.flush(r, tot, info, &mu)
		}
		r.AddStates(n)
	}

	// ---- part two: FSLibrary over fstest.MapFS and os.DirFS behind a recording fs.FS
	if parts["fs"] {
		ph := &fsPhase
		cwd, err := sb.chdir("")
		if err != nil {
			r.Violate("c20", "harness:chdir", nil, "chdir", err.Error(), "")
			return
		}
		n := nSeq * int64(len(fsForms))
		var workers []*worker
		core.ParallelRange(r, n, func(id int) *worker {
			w := newWorker(sb)
			mu.Lock()
			workers = append(workers, w)
			mu.Unlock()
			return w
		}, func(w *worker, i int64) {
			p := sp.at(i / int64(len(fsForms)))
			f := fsForms[i%int64(len(fsForms))]
			loc := sb.expand(f.Pre) + p + f.Suf
			for ci := range contexts {
				cx := &contexts[ci]
				for ri := range ph.Roots {
					rc := &ph.Roots[ri]
					dirfs := followsLinksOut(rc.Spelling)
					L, altL, execL := locations(sb, rc, cx)
					if cx.Rel == "" && rc.Family != "" {
						continue // top level has no loader location to spell differently
					}
					vd, herr := sb.fsVerdict(onDisk(rc.Spelling), L, altL, loc, !cx.Chain)
					w.traces++
					if herr != nil {
						r.Violate("c20", herr.class, kase{Part: "fs", Phase: ph.ID, Root: rc.ID, Ctx: cx.ID, Loc: sb.template(loc), Loader: L}, sb.template(herr.expected), sb.template(herr.got), "harness self-check")
					}
					if vd.nontrivial {
						r.Nontrivial("fs|" + rc.ID + "|" + cx.ID + "|" + sb.template(loc))
					}
					for e := 0; e < nEntries; e++ {
						if cx.Chain && e == eLoadSource {
							continue
						}
						o := w.exec(w.libFor("fs", rc), cx, execL, e, loc)
						w.evals++
						d.handle(w, "fs", ph, cwd, rc, cx, e, L, loc, &vd, &o, dirfs)
					}
				}
			}
		})
		for _, w := range workers {
			w.flush(r, tot, info, &mu)
		}
		r.AddStates(n)
	}

	// ---- part three: operation histories on one library instance
	if parts["history"] && !r.Expired() && !r.Saturated() {
		K := 2
		if r.Thorough() {
			K = 3
		}
		d.runHistories(K, tot, info, &mu)
	}

	// ---- part four: the process working directory (and $PWD) as a dimension
	if parts["cwd"] && !r.Expired() && !r.Saturated() {
		d.runCwd(tot, info, &mu)
	}

	// ---- part five: where the load call sits (lexical scope, function defined in another file)
	if parts["scope"] && !r.Expired() && !r.Saturated() {
		d.runScopes(tot, info, &mu)
	}

	// ---- part six: chains of files loaded THROUGH the library, per entry point and spelling
	if parts["chain"] && !r.Expired() && !r.Saturated() {
		d.runChains(tot, info, &mu)
	}

	// ---- part nine: several loads issued from ONE form of a loading file (an earlier one into another directory)
	if parts["oneform"] && !r.Expired() && !r.Saturated() {
		d.runOneForms(tot, info, &mu)
	}

	// ---- part ten: a confining library constructed before its directory exists (late.go)
	if !r.Expired() && !r.Saturated() {
		runLate(r)
	}

	// ---- part seven: layout mutations between loads on one library instance
	if parts["mutation"] && !r.Expired() && !r.Saturated() {
		d.runMutations(tot, info, &mu)
	}

	// ---- part eight: read observation (outside objects whose being opened / read is observable)
	if parts["observe"] && !r.Expired() && !r.Saturated() {
		d.runObserve(tot, info, &mu)
	}

	// outcome classes: counted locally (a shared counter per case would serialise
	// the workers); each distinct class is registered once and the true counts
	// are written to coverage.outcome_counts.
	keys := make([]string, 0, len(tot))
	for k := range tot {
		keys = append(keys, k)
	}
	sort.Strings(keys)
	for _, k := range keys {
		r.Outcome(k)
	}
	r.Extra("outcome_counts", tot)
	d.emitSamples()
	r.Extra("informational", info)
	d.mu.Lock()
	if len(d.vioSeen) > 0 {
		r.Extra("violating_cases_per_class", d.vioSeen)
	}
	d.mu.Unlock()
}

func formIDs(fs []formCfg) []string {
	var out []string
	for _, f := range fs {
		out = append(out, f.ID+": "+f.Pre+"<p>"+f.Suf)
	}
	return out
}

func ctxIDs() []string {
	var out []string
	for _, c := range contexts {
		s := c.ID
		if c.Rel != "" {
			s += " (" + c.Rel + ")"
		}
		out = append(out, s)
	}
	return out
}

// precheck validates the loader-location spellings the driver hands to
// LoadLocation: entering each loading file through the real library under each
// root spelling must yield exactly that `trueloc`.  Informational only.
func (d *drv) precheck(info map[string]int64) {
	sb := d.sb
	for pi := range rflPhases {
		ph := &rflPhases[pi]
		if _, err := sb.chdir(ph.CwdRel); err != nil {
			continue
		}
		for ri := range ph.Roots {
			rc := &ph.Roots[ri]
			lib := &lisp.RelativeFileSystemLibrary{RootDir: sb.expand(rc.Spelling)}
			for _, cx := range contexts {
				if cx.Rel == "" || cx.Chain {
					continue
				}
				enter := loaderLoc(sb.expand(rc.Family), cx.Rel)
				want := loaderLoc(sb.expand(rc.Family), cx.RealRel)
				_, tl, _, err := lib.LoadSource(lisp.NewSourceContext("", ""), enter)
				if err == nil && tl == want {
					info["precheck: library trueloc of a loading file equals the loader location the driver uses"]++
				} else {
					info[fmt.Sprintf("precheck MISMATCH root=%s enter=%s: trueloc=%q err=%v want %q", rc.ID, sb.template(enter), sb.template(tl), err != nil, sb.template(want))]++
				}
			}
		}
	}
	_, _ = sb.chdir("")
}

func replay(v core.Violation) (bool, string) {
	if lk, err := core.CaseOf[lateKase](v); err == nil && lk.Part == "late" {
		return replayLate(lk)
	}
	k, err := core.CaseOf[kase](v)
	if err != nil {
		return false, err.Error()
	}
	if k.Part == "observe" {
		return replayObs(k, v)
	}
	sb, err := newSandbox()
	if err != nil {
		return false, err.Error()
	}
	defer sb.close()
	cwdRel := ""
	for _, ph := range rflPhases {
		if ph.ID == k.Phase {
			cwdRel = ph.CwdRel
		}
	}
	cwd, err := sb.chdir(cwdRel)
	if err != nil {
		return false, err.Error()
	}
	if k.Part == "cwd" {
		cfg := cwdCfgByID(k.Phase)
		if cfg == nil {
			return false, "unknown working-directory configuration " + k.Phase
		}
		restore, n, err := sb.enterCwd(cfg)
		if err != nil {
			return false, err.Error()
		}
		defer restore()
		cwd = n
	}
	kind, class, expected, got, err := runKase(sb, cwd, k)
	if err != nil {
		return false, err.Error()
	}
	rep := fmt.Sprintf("case: %+v\nscratch base B=%s (layout recreated)\nexpected: %s\ngot: %s\nviolation kind: %q class: %q (recorded class %q)",
		k, sb.B, expected, got, kind, class, v.Class)
	return kind != "" && class == v.Class, rep
}
