package c20

// Part six: CHAINS of files loaded THROUGH the library, per entry point.
//
// root/link.lisp, root/sub/link.lisp and root/sub/deep/link.lisp exist on disk
// (and in the MapFS); each evaluates its own mark and then performs the next
// load of the chain with the primitive the case prescribes for that level:
// the load-file builtin (the call expression is in the file), or a host
// builtin calling env.LoadFile / env.LoadFileContext.  A chain is
//
//	entry point  {env.LoadFile, env.LoadFileContext, (load-file ...) from a string}
//	  -> link file 1  x spelling {plain, through an inside->inside directory symlink, ./ noise, dir/../ noise}
//	  [-> link file 2 x spelling, spelled relative to the TRUE directory of link file 1 ...]
//	  -> a sibling: "in.lisp" or "../in.lisp" (every directory holds its own in.lisp)
//
// with a primitive chosen independently at every level.  Nothing is evaluated
// from a string except the entry form: every file is read by the library under
// test, so the location the runtime RECORDS for a loaded file is what supplies
// the loading context of that file's own loads.
//
// Model: a file's base directory is the directory of its true location as the
// library reports it (RelativeFileSystemLibrary with a root: the resolved real
// path; FSLibrary: the cleaned joined name).  Oracle: which file is evaluated
// at every level (by its mark) against the model verdict, confinement, and
// entry-point independence: the same chain driven by env.LoadFile / load-file
// only must evaluate the same files.

import (
	"context"
	"fmt"
	"strings"
	"sync"

	"verif/mc/core"
)

type chainStep struct {
	Prim string `json:"prim"`
	Req  string `json:"req"` // the location string handed to the primitive ("$B" = scratch base in artefacts)
}

var chainEntryPrims = []string{"LoadFile", "LoadFileContext", "load-file"}
var chainNestedPrims = []string{"load-file", "go-LoadFile", "go-LoadFileContext"}
var chainFinals = []string{"in.lisp", "../in.lisp"}

// chainSpellings: root-relative spellings of <dir>/link.lisp.
var chainSpellKinds = []string{"plain", "via-dir-symlink", "dot-noise", "dotdot-noise"}

func chainSpelling(dir int, kind int) string {
	plain := []string{"link.lisp", "sub/link.lisp", "sub/deep/link.lisp"}[dir]
	switch kind {
	case 1:
		return []string{"sub/up/link.lisp", "dlnk_in/link.lisp", "dl2/link.lisp"}[dir]
	case 2:
		return "./" + plain
	case 3:
		return "sub/../" + plain
	}
	return plain
}

func primEntry(p string) int {
	switch p {
	case "LoadFile", "go-LoadFile":
		return eLoadFile
	case "LoadFileContext", "go-LoadFileContext":
		return eLoadFileContext
	}
	return eLisp
}

// chainTrueLoc is the location the library reports for the file that
// (Lprev, req) loads, according to the model; ok=false when the model says no
// file inside the root / file system is loaded.
func (sb *sandbox) chainTrueLoc(cfg *histCfg, cwd *node, Lprev, req string) (string, bool) {
	if cfg.Part == "fs" {
		m, root := sb.mNL, sb.rootNL
		if onDisk(cfg.Root.Spelling) {
			m, root = sb.m, sb.rootN
		}
		raw := req
		if Lprev != "" {
			raw = rawDir(Lprev) + "/" + req
		}
		t := strings.TrimPrefix(lexClean(raw), "/")
		if t == ".." || strings.HasPrefix(t, "../") {
			return "", false
		}
		if r := m.walk(root, t); r.kind != rFile || !r.node.under(root) {
			return "", false
		}
		return t, true
	}
	r := sb.m.walk(cwd, lexClean(joinRaw(Lprev, req)))
	if r.kind != rFile || !r.node.under(sb.rootN) {
		return "", false
	}
	real := r.node.realPath()
	if strings.HasPrefix(cfg.Root.Family, "$B") {
		return real, true
	}
	return strings.TrimPrefix(real, sb.B+"/"), true // relative root "root" with the process in B
}

// chainBack is the way from the directory of L back to the root directory.
func (sb *sandbox) chainBack(cfg *histCfg, L string) string {
	rel := L
	if cfg.Part == "rfl" {
		rel = strings.TrimPrefix(L, scopeFamily(sb, cfg)+"/")
	}
	return strings.Repeat("../", strings.Count(rel, "/"))
}

// genChains enumerates every chain with up to maxLinks link files.
func (sb *sandbox) genChains(cfg *histCfg, cwd *node, maxLinks int) [][]chainStep {
	var out [][]chainStep
	fam := scopeFamily(sb, cfg)
	emit := func(s []chainStep) { out = append(out, append([]chainStep(nil), s...)) }
	var rec func(steps []chainStep, Lprev string, links int)
	rec = func(steps []chainStep, Lprev string, links int) {
		L, ok := sb.chainTrueLoc(cfg, cwd, Lprev, steps[len(steps)-1].Req)
		if !ok {
			emit(steps) // the chain ends at a load the model does not serve
			return
		}
		back := sb.chainBack(cfg, L)
		for _, p := range chainNestedPrims {
			for _, f := range chainFinals {
				emit(append(steps, chainStep{p, f}))
			}
			if links < maxLinks {
				for d := 0; d < 3; d++ {
					for k := range chainSpellKinds {
						rec(append(steps[:len(steps):len(steps)], chainStep{p, back + chainSpelling(d, k)}), L, links+1)
					}
				}
			}
		}
	}
	for _, e := range chainEntryPrims {
		for d := 0; d < 3; d++ {
			for k := range chainSpellKinds {
				rec([]chainStep{{e, loaderLoc(fam, chainSpelling(d, k))}}, "", 1)
			}
		}
	}
	return out
}

// runChain executes a chain on one fresh library and returns the marks in
// evaluation order.
func (w *worker) runChain(cfg *histCfg, steps []chainStep) (marks []string, panicked string) {
	lib := w.libFor(cfg.Part, cfg.Root)
	w.marks = w.marks[:0]
	w.asked = w.asked[:0]
	w.chain = steps[1:]
	w.clevel = 0
	env := w.env
	env.Runtime.Library = lib
	func() {
		defer func() {
			if p := recover(); p != nil {
				panicked = fmt.Sprint(p)
				w.freshEnv()
			}
		}()
		switch steps[0].Prim {
		case "LoadFile":
			env.LoadFile(steps[0].Req)
		case "LoadFileContext":
			env.LoadFileContext(context.Background(), steps[0].Req)
		default:
			env.LoadString("test", "(load-file \""+steps[0].Req+"\")")
		}
	}()
	w.chain = nil
	if len(w.env.Runtime.Stack.Frames) != 0 {
		w.freshEnv()
	}
	return append([]string(nil), w.marks...), panicked
}

type chainResult struct {
	kind, class, expected, got, desc string
	level                            int
	nontrivial                       bool
	oclasses                         []string // per judged level
	descs                            []string
}

func chainLoadedBy(steps []chainStep, k int) string {
	if k == 0 {
		return "none"
	}
	if k == 1 {
		return "entry:" + steps[0].Prim
	}
	return "nested:" + steps[k-1].Prim
}

func (w *worker) judgeChain(cfg *histCfg, cwd *node, steps []chainStep) chainResult {
	sb := w.sb
	dirfs := cfg.Part == "fs" && followsLinksOut(cfg.Root.Spelling)
	p := "rfl"
	if cfg.Part == "fs" {
		p = "fslib"
	}
	marks, panicked := w.runChain(cfg, steps)
	var res chainResult
	res.got = fmt.Sprintf("files evaluated, in order: %v", marks)
	if panicked != "" {
		res.kind, res.class, res.expected, res.got = "panic", "chain:"+p+":panic", "no panic", "panic: "+panicked
		return res
	}
	Lprev := ""
	for k, st := range steps {
		vd := sb.histVerdict(cfg, cwd, Lprev, st.Req)
		var o obs
		if k < len(marks) {
			o.served = []string{marks[k]}
		} else {
			o.isErr, o.errText = true, "(no file evaluated)"
		}
		kind, oclass, expected := judge(cfg.Part, dirfs, &vd, primEntry(st.Prim), &o)
		res.oclasses = append(res.oclasses, oclass)
		res.descs = append(res.descs, vd.desc)
		res.nontrivial = res.nontrivial || vd.nontrivial
		if kind != "" {
			res.kind, res.level, res.expected, res.desc = kind, k, expected, vd.desc
			res.expected = "level " + fmt.Sprint(k) + " (" + st.Prim + " " + sb.template(st.Req) + " from " + sb.template(Lprev) + "): " + expected
			if strings.HasPrefix(kind, "outside-served-through-symlink:") {
				res.class = "fslib:dirfs:" + kind
			} else {
				res.class = "chain:" + p + ":" + kind + ":loaded-by=" + chainLoadedBy(steps, k)
			}
			return res
		}
		if len(o.served) == 0 {
			break
		}
		L, ok := sb.chainTrueLoc(cfg, cwd, Lprev, st.Req)
		if !ok {
			break
		}
		Lprev = L
	}
	if len(marks) > len(steps) {
		res.kind, res.level, res.class = "unexpected-marks", len(steps), "chain:"+p+":unexpected-marks"
		res.expected = "at most one file per level"
		return res
	}
	// entry-point independence
	base := make([]chainStep, len(steps))
	same := true
	for i, st := range steps {
		base[i] = st
		if i == 0 {
			base[i].Prim = "LoadFile"
		} else {
			base[i].Prim = "load-file"
		}
		same = same && base[i].Prim == st.Prim
	}
	if !same {
		var kb strings.Builder
		kb.WriteString(cfg.ID)
		for _, st := range base {
			kb.WriteByte(0)
			kb.WriteString(st.Req)
		}
		key := kb.String()
		bm, ok := w.cbase[key]
		if !ok {
			m, _ := w.runChain(cfg, base)
			bm = strings.Join(m, ",")
			w.cbase[key] = bm
		}
		if got := strings.Join(marks, ","); got != bm {
			bl := strings.Split(bm, ",")
			k := 0
			for k < len(marks) && k < len(bl) && marks[k] == bl[k] {
				k++
			}
			res.kind, res.level = "entry-point-dependent-outcome", k
			res.expected = "the files the same chain evaluates when driven by env.LoadFile and load-file only: [" + bm + "]"
			res.class = "chain:" + p + ":entry-point-dependent-outcome:loaded-by=" + chainLoadedBy(steps, k)
		}
	}
	return res
}

func runChainKase(sb *sandbox, cwd *node, k kase) (kind, class, expected, got string, err error) {
	var cfg *histCfg
	cfgs := scopeConfigs()
	for i := range cfgs {
		if cfgs[i].ID == k.Root {
			cfg = &cfgs[i]
		}
	}
	if cfg == nil || len(k.Chain) == 0 {
		return "", "", "", "", fmt.Errorf("bad chain case %+v", k)
	}
	steps := make([]chainStep, len(k.Chain))
	for i, st := range k.Chain {
		steps[i] = chainStep{st.Prim, sb.expand(st.Req)}
	}
	w := newWorker(sb)
	res := w.judgeChain(cfg, cwd, steps)
	return res.kind, res.class, res.expected, res.got, nil
}

func chainString(sb *sandbox, steps []chainStep) string {
	var p []string
	for _, s := range steps {
		p = append(p, s.Prim+"("+sb.template(s.Req)+")")
	}
	return strings.Join(p, " -> ")
}

func (d *drv) runChains(tot map[string]int64, info map[string]int64, mu *sync.Mutex) {
	r, sb := d.r, d.sb
	cwd, err := sb.chdir("")
	if err != nil {
		r.Violate("c20", "harness:chdir", nil, "chdir", err.Error(), "")
		return
	}
	maxLinks := 2
	if r.Thorough() {
		maxLinks = 3
	}
	cfgs := scopeConfigs()
	type item struct {
		cfg   int
		steps []chainStep
	}
	var items []item
	for ci := range cfgs {
		for _, s := range sb.genChains(&cfgs[ci], cwd, maxLinks) {
			items = append(items, item{ci, s})
		}
	}
	r.Bound("chain_max_link_files", maxLinks)
	r.Bound("chains", len(items))
	r.Bound("chain_entry_points", chainEntryPrims)
	r.Bound("chain_nested_primitives", chainNestedPrims)
	r.Bound("chain_link_spellings", chainSpellKinds)
	r.Bound("chain_final_targets", chainFinals)
	r.Assume("part six: a loaded file's base directory is the directory of its true location as the library reports it (resolved real path under a RootDir; cleaned joined name for FSLibrary); " +
		"a chain ends at the first load the model does not serve")
	var workers []*worker
	core.ParallelRange(r, int64(len(items)), func(id int) *worker {
		w := newWorker(sb)
		mu.Lock()
		workers = append(workers, w)
		mu.Unlock()
		return w
	}, func(w *worker, i int64) {
		it := &items[i]
		cfg := &cfgs[it.cfg]
		res := w.judgeChain(cfg, cwd, it.steps)
		for k := range res.oclasses {
			w.evals++
			w.traces++
			w.outcomes[outKey{"chain-" + cfg.Part, it.steps[k].Prim + "@level" + fmt.Sprint(k), res.descs[k], res.oclasses[k]}]++
		}
		if res.nontrivial {
			r.Nontrivial("chain|" + cfg.ID + "|" + chainString(sb, it.steps))
		}
		if res.kind == "" {
			return
		}
		d.mu.Lock()
		d.vioSeen[res.class]++
		n := d.vioSeen[res.class]
		d.mu.Unlock()
		if n > 3 {
			return
		}
		ts := make([]chainStep, len(it.steps))
		for j, st := range it.steps {
			ts[j] = chainStep{st.Prim, sb.template(st.Req)}
		}
		k := kase{Part: "chain", Phase: rflPhases[0].ID, Root: cfg.ID, Ctx: chainLoadedBy(it.steps, res.level), Entry: it.steps[res.level%len(it.steps)].Prim,
			Loc: ts[res.level%len(ts)].Req, RootSpelling: cfg.Root.Spelling, Model: res.desc, Chain: ts, Step: res.level}
		rep := 0
		for j := 0; j < 5; j++ {
			k2, c2, _, _, err := runKase(sb, cwd, k)
			if err == nil && k2 == res.kind && c2 == res.class {
				rep++
			}
		}
		if rep < 5 {
			r.Flaky(map[string]any{"case": k, "class": res.class, "reproduced": rep, "of": 5, "got": sb.template(res.got)})
			return
		}
		r.Violate("c20", res.class, k, sb.template(res.expected), sb.template(res.got), "chain "+chainString(sb, it.steps))
	})
	for _, w := range workers {
		w.flush(r, tot, info, mu)
	}
	r.AddStates(int64(len(items)))
}
