package c20

// Part five: WHERE the load call sits.
//
// "Relative locations resolve against the directory of the file doing the
// loading": the base directory is that of the file whose source contains the
// load call expression being evaluated (the top stack frame's source), wherever
// in that file the call sits and whoever called the function it sits in.
//
//	S1  one file <dir>/main.lisp with 1..K loads in sequence inside one scope:
//	    top level, progn, let, let*, lambda call, function body, flet, labels,
//	    handler-bind body, dotimes body, macro expansion
//	S2  <A>/util.lisp defines (defun load-sibling (name) (<load> name)); <B>/main.lisp
//	    calls it (at top level and inside a let), A != B: base directory is A
//	S3  as S2 through a third file: <C>/mid.lisp defines (defun via (n) (load-sibling n))
//
// x the load primitive {load-file, a host builtin calling env.LoadFile, one
// calling env.LoadFileContext} x targets in different directories (every
// directory holds an in.lisp with its own mark - the decoys) x
// RelativeFileSystemLibrary (absolute and relative root) and FSLibrary (MapFS,
// os.DirFS).  Program texts are evaluated at explicit locations (what
// LoadLocation does); the loads they perform go through the library.
//
// Oracle: which file is served (by its mark) against the model's verdict for
// (directory of the file containing the call, target), confinement as before,
// and scope independence: the same load at top level of the same file must
// have the same outcome.

import (
	"fmt"
	"strconv"
	"strings"
	"sync"

	"github.com/luthersystems/elps/lisp"

	"verif/mc/core"
	"verif/mc/el"
)

type scopeProg struct {
	Loc string `json:"loc"`
	Src string `json:"src"`
}

type scopeTpl struct {
	ID, Kind, Src string
}

var scopeTpls = []scopeTpl{
	{"top-level", "top-level", "{BODY}"},
	{"progn", "top-level", "(progn {BODY})"},
	{"let", "child-scope", "(let ([z 1]) {BODY})"},
	{"let*", "child-scope", "(let* ([z 1] [y z]) {BODY})"},
	{"lambda-call", "child-scope", "((lambda () {BODY}))"},
	{"function-body", "child-scope", "(defun c20-f () {BODY})\n(c20-f)"},
	{"flet", "child-scope", "(flet ([g () {BODY}]) (g))"},
	{"labels", "child-scope", "(labels ([g () {BODY}]) (g))"},
	{"handler-bind", "child-scope", "(handler-bind ([condition (lambda (c &rest a) ())]) {BODY})"},
	{"dotimes", "child-scope", "(dotimes (i 1) {BODY})"},
	{"macro-expansion", "macro-expansion", "(defmacro c20-m () (quote (progn {BODY})))\n(c20-m)"},
}

var scopeCallerTpls = []scopeTpl{scopeTpls[0], scopeTpls[2]}

var scopeLoadFns = []struct {
	Name  string
	Entry int
}{{"load-file", eLisp}, {symGoLoad, eLoadFile}, {symGoLoadCtx, eLoadFileContext}}

// scopeDirs: directory (relative to the root) and the way back to the root.
var scopeDirs = []struct{ Dir, Back string }{{"", ""}, {"sub", "../"}, {"sub/deep", "../../"}}

// scopeTargets are spelled relative to the ROOT; "@in.lisp" is the bare name
// in.lisp, i.e. the same-named file of whatever directory is the base.
var scopeTargets = []string{"@in.lisp", "in.lisp", "sub/in.lisp", "sub/deep/in.lisp", "lnk_out", "../outside/in.lisp", "missing.lisp"}

func spellTarget(t, back string) string {
	if strings.HasPrefix(t, "@") {
		return t[1:]
	}
	return back + t
}

// scenario is one case of part five.
type scenario struct {
	cfg     int
	fn      int
	kind    string // top-level | child-scope | macro-expansion | function-in-other-file | function-via-third-file
	id      string
	progs   []scopeProg // Loc relative to the root ("sub/main.lisp")
	base    int         // index into scopeDirs: directory of the file containing the load call
	targets []string    // as spelled in the source
}

func fileIn(dir, name string) string {
	if dir == "" {
		return name
	}
	return dir + "/" + name
}

func scopeBody(call string, targets []string) string {
	var sb strings.Builder
	for i, t := range targets {
		if i > 0 {
			sb.WriteByte(' ')
		}
		sb.WriteString("(" + symSep + " " + strconv.Itoa(i) + ") ")
		c := "(" + call + " \"" + t + "\")"
		if i < len(targets)-1 {
			c = "(ignore-errors " + c + ")"
		}
		sb.WriteString(c)
	}
	return sb.String()
}

func targetSeqs(maxLen int, back string) [][]string {
	var out [][]string
	var rec func(prefix []string, k int)
	rec = func(prefix []string, k int) {
		if len(prefix) > 0 {
			out = append(out, append([]string(nil), prefix...))
		}
		if k == 0 {
			return
		}
		for _, t := range scopeTargets {
			rec(append(prefix, spellTarget(t, back)), k-1)
		}
	}
	rec(nil, maxLen)
	// shortest first
	var sorted [][]string
	for l := 1; l <= maxLen; l++ {
		for _, s := range out {
			if len(s) == l {
				sorted = append(sorted, s)
			}
		}
	}
	return sorted
}

func buildScenarios(thorough bool) []scenario {
	k1, k2, k3 := 2, 2, 1
	if thorough {
		k1, k2, k3 = 3, 2, 2
	}
	var out []scenario
	ncfg := len(scopeConfigs())
	for ci := 0; ci < ncfg; ci++ {
		for fi, fn := range scopeLoadFns {
			// S1
			for di, d := range scopeDirs {
				for _, seq := range targetSeqs(k1, d.Back) {
					for _, t := range scopeTpls {
						out = append(out, scenario{cfg: ci, fn: fi, kind: t.Kind, id: "S1:" + t.ID + ":in=" + fileIn(d.Dir, "main.lisp"), base: di, targets: seq,
							progs: []scopeProg{{fileIn(d.Dir, "main.lisp"), strings.Replace(t.Src, "{BODY}", scopeBody(fn.Name, seq), 1)}}})
					}
				}
			}
			// S2 / S3
			for ai, a := range scopeDirs {
				util := scopeProg{fileIn(a.Dir, "util.lisp"), "(defun load-sibling (name) (" + fn.Name + " name))"}
				for bi, b := range scopeDirs {
					if ai == bi {
						continue
					}
					for _, seq := range targetSeqs(k2, a.Back) {
						for _, t := range scopeCallerTpls {
							out = append(out, scenario{cfg: ci, fn: fi, kind: "function-in-other-file", id: "S2:defined-in=" + util.Loc + ":called-from=" + fileIn(b.Dir, "main.lisp") + ":" + t.ID,
								base: ai, targets: seq, progs: []scopeProg{util, {fileIn(b.Dir, "main.lisp"), strings.Replace(t.Src, "{BODY}", scopeBody("load-sibling", seq), 1)}}})
						}
					}
					for ci3, c := range scopeDirs {
						if ci3 == ai || ci3 == bi {
							continue
						}
						mid := scopeProg{fileIn(c.Dir, "mid.lisp"), "(defun via (n) (load-sibling n))"}
						for _, seq := range targetSeqs(k3, a.Back) {
							out = append(out, scenario{cfg: ci, fn: fi, kind: "function-via-third-file", id: "S3:defined-in=" + util.Loc + ":via=" + mid.Loc + ":called-from=" + fileIn(b.Dir, "main.lisp"),
								base: ai, targets: seq, progs: []scopeProg{util, mid, {fileIn(b.Dir, "main.lisp"), scopeBody("via", seq)}}})
						}
					}
				}
			}
		}
	}
	return out
}

func scopeConfigs() []histCfg {
	var out []histCfg
	for _, c := range histConfigs() {
		if c.ID != "rfl:abs-via-symlink" {
			out = append(out, c)
		}
	}
	return out
}

func scopeFamily(sb *sandbox, cfg *histCfg) string {
	if cfg.Part == "rfl" {
		return sb.expand(cfg.Root.Family)
	}
	return ""
}

// runScope evaluates the programs of a scenario (locations already absolute
// for the configuration) with one fresh library and returns one observation
// per load.
func (w *worker) runScope(cfg *histCfg, progs []scopeProg, nOps int) []obs {
	lib := w.libFor(cfg.Part, cfg.Root)
	w.marks = w.marks[:0]
	w.asked = w.asked[:0]
	w.hasked = w.hasked[:0]
	w.env.Runtime.Library = lib
	var panicked string
	func() {
		defer func() {
			if p := recover(); p != nil {
				panicked = fmt.Sprint(p)
				w.freshEnv()
			}
		}()
		for _, p := range progs {
			prog, err := lisp.ReadLocationProgram(el.FastReader().(lisp.LocationReader), baseName(p.Loc), p.Loc, strings.NewReader(p.Src))
			if err != nil {
				panic("harness: scope program does not parse: " + err.Error() + "\n" + p.Src)
			}
			_ = w.env.LoadProgram(prog)
		}
	}()
	if len(w.env.Runtime.Stack.Frames) != 0 {
		w.freshEnv()
	}
	out := make([]obs, nOps)
	cur := -1
	for _, mk := range w.marks {
		if strings.HasPrefix(mk, "#op") {
			cur, _ = strconv.Atoi(mk[3:])
			continue
		}
		if cur >= 0 && cur < nOps {
			out[cur].served = append(out[cur].served, mk)
		} else if nOps > 0 {
			out[0].served = append(out[0].served, "?before-first-load:"+mk)
		}
	}
	for i := range out {
		out[i].panicked = panicked
		if i < len(w.hasked) {
			hi := len(w.asked)
			if i+1 < len(w.hasked) {
				hi = w.hasked[i+1]
			}
			out[i].asked = append([]string(nil), w.asked[w.hasked[i]:hi]...)
		}
		if len(out[i].served) == 0 {
			out[i].isErr = true
			out[i].errText = "(no file evaluated)"
		}
	}
	return out
}

func servedKey(o *obs) string {
	if o.panicked != "" {
		return "panic"
	}
	return strings.Join(o.served, ",")
}

// baseline is the outcome of the same single load at top level of the file at L.
func (w *worker) scopeBaseline(cfg *histCfg, L string, fn int, target string) string {
	key := cfg.ID + "\x00" + L + "\x00" + scopeLoadFns[fn].Name + "\x00" + target
	if v, ok := w.sbase[key]; ok {
		return v
	}
	o := w.runScope(cfg, []scopeProg{{L, scopeBody(scopeLoadFns[fn].Name, []string{target})}}, 1)
	v := servedKey(&o[0])
	w.sbase[key] = v
	return v
}

type scopeResult struct {
	vd       verdict
	o        obs
	kind     string
	oclass   string
	expected string
	class    string
}

func scopeClass(sb *sandbox, cfg *histCfg, cwd *node, kind, skind, L, loc string) string {
	if strings.HasPrefix(kind, "outside-served-through-symlink:") {
		d := &drv{}
		return d.violClass(cfg.Part, kind, sb, cwd.realPath(), cfg.Root, &ctxCfg{ID: skind}, L, loc)
	}
	p := "rfl"
	if cfg.Part == "fs" {
		p = "fslib"
	}
	return "scope:" + p + ":" + kind + ":" + skind
}

// judgeScope runs the programs and judges every load.  L is the location of
// the file that contains the load call.
func (w *worker) judgeScope(cfg *histCfg, cwd *node, skind string, progs []scopeProg, L string, fn int, targets []string) []scopeResult {
	sb := w.sb
	dirfs := cfg.Part == "fs" && followsLinksOut(cfg.Root.Spelling)
	obsv := w.runScope(cfg, progs, len(targets))
	res := make([]scopeResult, len(targets))
	for i, t := range targets {
		x := &res[i]
		x.o = obsv[i]
		x.vd = sb.histVerdict(cfg, cwd, L, t)
		x.kind, x.oclass, x.expected = judge(cfg.Part, dirfs, &x.vd, scopeLoadFns[fn].Entry, &x.o)
		if x.kind == "" {
			if b := w.scopeBaseline(cfg, L, fn, t); b != servedKey(&x.o) {
				x.kind, x.oclass = "scope-dependent-outcome", "differs-from-top-level"
				x.expected = "the outcome of the same load at top level of " + sb.template(L) + ": served=[" + b + "]"
			}
		}
		if x.kind != "" {
			x.class = scopeClass(sb, cfg, cwd, x.kind, skind, L, t)
		}
	}
	return res
}

func runScopeKase(sb *sandbox, cwd *node, k kase) (kind, class, expected, got string, err error) {
	var cfg *histCfg
	cfgs := scopeConfigs()
	for i := range cfgs {
		if cfgs[i].ID == k.Root {
			cfg = &cfgs[i]
		}
	}
	fn := -1
	for i, f := range scopeLoadFns {
		if f.Name == k.Entry {
			fn = i
		}
	}
	if cfg == nil || fn < 0 || k.Step >= len(k.Targets) {
		return "", "", "", "", fmt.Errorf("bad scope case %+v", k)
	}
	progs := make([]scopeProg, len(k.Programs))
	for i, p := range k.Programs {
		progs[i] = scopeProg{sb.expand(p.Loc), p.Src}
	}
	w := newWorker(sb)
	res := w.judgeScope(cfg, cwd, k.Model, progs, sb.expand(k.Loader), fn, k.Targets)
	x := res[k.Step]
	return x.kind, x.class, x.expected, x.o.text(scopeLoadFns[fn].Entry) + " model=" + x.vd.desc, nil
}

func (d *drv) runScopes(tot map[string]int64, info map[string]int64, mu *sync.Mutex) {
	r, sb := d.r, d.sb
	cwd, err := sb.chdir("")
	if err != nil {
		r.Violate("c20", "harness:chdir", nil, "chdir", err.Error(), "")
		return
	}
	scs := buildScenarios(r.Thorough())
	cfgs := scopeConfigs()
	var tplIDs []string
	for _, t := range scopeTpls {
		tplIDs = append(tplIDs, t.ID)
	}
	r.Bound("scope_scenarios", len(scs))
	r.Bound("scope_templates", tplIDs)
	r.Bound("scope_load_primitives", []string{"load-file", "host builtin -> env.LoadFile", "host builtin -> env.LoadFileContext"})
	r.Bound("scope_targets", scopeTargets)
	r.Bound("scope_directories", []string{"root", "root/sub", "root/sub/deep"})
	r.Assume("part five: the base directory of a relative location is the directory of the file whose source contains the load call being evaluated (top stack frame), " +
		"also when the call sits in a function defined in another file; a macro defined in one file and expanded in another is not enumerated (which file 'contains' the expanded call is unspecified)")
	var workers []*worker
	core.ParallelRange(r, int64(len(scs)), func(id int) *worker {
		w := newWorker(sb)
		mu.Lock()
		workers = append(workers, w)
		mu.Unlock()
		return w
	}, func(w *worker, i int64) {
		sc := &scs[i]
		cfg := &cfgs[sc.cfg]
		fam := scopeFamily(sb, cfg)
		progs := make([]scopeProg, len(sc.progs))
		for j, p := range sc.progs {
			progs[j] = scopeProg{loaderLoc(fam, p.Loc), p.Src}
		}
		// the file containing the load call: main.lisp (S1) or util.lisp (S2, S3)
		L := progs[0].Loc
		res := w.judgeScope(cfg, cwd, sc.kind, progs, L, sc.fn, sc.targets)
		for step := range res {
			x := &res[step]
			w.evals++
			w.traces++
			ok := outKey{"scope-" + cfg.Part, scopeLoadFns[sc.fn].Name + "@" + sc.kind, x.vd.desc, x.oclass}
			first := w.outcomes[ok] == 0
			w.outcomes[ok]++
			if x.vd.nontrivial && step == len(res)-1 {
				r.Nontrivial("scope|" + cfg.ID + "|" + sc.id + "|" + strings.Join(sc.targets, ","))
			}
			if x.kind == "" {
				if first {
					d.maybeSample("scope-"+cfg.Part, &rflPhases[0], cfg.Root, &ctxCfg{ID: sc.id}, scopeLoadFns[sc.fn].Entry, sc.targets[step], &x.vd, x.oclass, &x.o)
				}
				continue
			}
			d.mu.Lock()
			d.vioSeen[x.class]++
			n := d.vioSeen[x.class]
			d.mu.Unlock()
			if n > 3 {
				continue
			}
			tp := make([]scopeProg, len(progs))
			for j, p := range progs {
				tp[j] = scopeProg{sb.template(p.Loc), p.Src}
			}
			k := kase{Part: "scope", Phase: rflPhases[0].ID, Root: cfg.ID, Ctx: sc.id, Entry: scopeLoadFns[sc.fn].Name, Loc: sc.targets[step],
				RootSpelling: cfg.Root.Spelling, Loader: sb.template(L), Model: sc.kind, Programs: tp, Targets: sc.targets, Step: step}
			got := sb.template(x.o.text(scopeLoadFns[sc.fn].Entry))
			rep := 0
			for j := 0; j < 5; j++ {
				k2, c2, _, _, err := runKase(sb, cwd, k)
				if err == nil && k2 == x.kind && c2 == x.class {
					rep++
				}
			}
			if rep < 5 {
				r.Flaky(map[string]any{"case": k, "class": x.class, "reproduced": rep, "of": 5, "got": got})
				continue
			}
			r.Violate("c20", x.class, k, x.expected, got, "load "+strconv.Itoa(step)+" of "+sc.id+"; the call sits in "+sb.template(L)+"; model: "+x.vd.desc)
		}
	})
	for _, w := range workers {
		w.flush(r, tot, info, mu)
	}
	r.AddStates(int64(len(scs)))
}
