package c20

// Part ten: a confining library CONSTRUCTED BEFORE its directory is there.
//
// lisp.NewRootedFSLibrary(dir) is how elps run / debug / repl --root-dir build
// their library.  Every other part builds it over an existing directory.  Here
// the constructor is called for every way the directory can be missing (the
// directory itself, its parent, a dangling link in its place), the layout is
// provisioned afterwards, and the escape table runs against whatever the
// constructor handed back.  Refusing at construction is fine; a library that
// was handed out must confine like one built over the finished directory: no
// location may serve the outside file's content.

import (
	"fmt"
	"os"
	"path/filepath"
	"strings"

	"github.com/luthersystems/elps/lisp"
	"verif/mc/core"
)

type lateCtx struct{ name, loc string }

func (c lateCtx) Name() string     { return c.name }
func (c lateCtx) Location() string { return c.loc }

var lateMissing = []string{"directory-missing", "parent-missing", "dangling-link-in-its-place", "existing-empty-directory"}

var lateLocs = []string{"in.lisp", "link.lisp", "dl/outside.lisp", "sub/uplink.lisp", "../outside.lisp", "./link.lisp", "sub/../link.lisp", "dl/late/in.lisp"}

var lateLoaders = []lateCtx{{"", ""}, {"in.lisp", "in.lisp"}, {"sub/in.lisp", "sub/in.lisp"}}

const lateSecret = "(set 'leaked \"outside\")"

func lateRun(missing string, loaderIdx int, loc string) (outcome string, detail string, err error) {
	tmp, err := os.MkdirTemp("", "c20late")
	if err != nil {
		return "", "", err
	}
	defer os.RemoveAll(tmp)
	root := filepath.Join(tmp, "late")
	switch missing {
	case "parent-missing":
		root = filepath.Join(tmp, "later", "late")
	case "dangling-link-in-its-place":
		if err := os.Symlink(filepath.Join(tmp, "elsewhere"), root); err != nil {
			return "", "", err
		}
	case "existing-empty-directory":
		if err := os.Mkdir(root, 0o755); err != nil {
			return "", "", err
		}
	}
	lib, cerr := lisp.NewRootedFSLibrary(root)
	if cerr != nil {
		return "refused-at-construction", cerr.Error(), nil
	}
	// provision: the directory appears after the library was built
	if missing == "dangling-link-in-its-place" {
		os.Remove(root)
	}
	must := func(e error) {
		if e != nil && err == nil {
			err = e
		}
	}
	must(os.MkdirAll(filepath.Join(root, "sub"), 0o755))
	must(os.WriteFile(filepath.Join(root, "in.lisp"), []byte("(set 'mark \"inside\")"), 0o644))
	must(os.WriteFile(filepath.Join(root, "sub", "in.lisp"), []byte("(set 'mark \"inside-sub\")"), 0o644))
	must(os.WriteFile(filepath.Join(filepath.Dir(root), "outside.lisp"), []byte(lateSecret), 0o644))
	must(os.Symlink("../outside.lisp", filepath.Join(root, "link.lisp")))
	must(os.Symlink("../../outside.lisp", filepath.Join(root, "sub", "uplink.lisp")))
	must(os.Symlink("..", filepath.Join(root, "dl")))
	if err != nil {
		return "", "", err
	}
	_, trueloc, data, lerr := lib.LoadSource(lateLoaders[loaderIdx], loc)
	if lerr != nil {
		return "refused", lerr.Error(), nil
	}
	if strings.Contains(string(data), "leaked") {
		return "outside-served", fmt.Sprintf("location %q (true location %q) served the outside file: %s", loc, trueloc, data), nil
	}
	return "inside-served", trueloc, nil
}

type lateKase struct {
	Part    string `json:"part"` // "late"
	Missing string `json:"missing"`
	Loader  int    `json:"loader"`
	Loc     string `json:"loc"`
}

func runLate(r *core.Run) {
	n := len(lateMissing) * len(lateLoaders) * len(lateLocs)
	r.Bound("late_root_cases", n)
	r.Rule("late-root family: lisp.NewRootedFSLibrary called while its directory is missing (the directory / its parent / a dangling link in its place; an existing empty directory as control), the layout provisioned afterwards (inside files, links to an outside file and to the outside directory), then every location of the escape table from every loading file: the constructor may refuse, but a library it hands out never serves the outside file")
	core.ParallelRange(r, int64(n), nil, func(_ struct{}, i int64) {
		x := int(i)
		loc := lateLocs[x%len(lateLocs)]
		x /= len(lateLocs)
		ld := x % len(lateLoaders)
		x /= len(lateLoaders)
		missing := lateMissing[x]
		out, detail, err := lateRun(missing, ld, loc)
		r.AddEvals(1)
		r.AddTransitions(1)
		r.AddStates(1)
		if err != nil {
			r.Violate("c20", "late:harness-error", lateKase{"late", missing, ld, loc}, "a scratch layout", err.Error(), "")
			return
		}
		r.Outcome("late:" + missing + ":" + out)
		if out != "refused-at-construction" {
			r.Nontrivial("late\x00" + missing + "\x00" + loc)
		}
		if out == "outside-served" {
			cls := "late:" + missing + ":outside-served"
			if r.Seen(cls) >= 2 {
				r.CountOnly(cls)
				return
			}
			r.Violate("c20", cls, lateKase{"late", missing, ld, loc}, "refused, or an inside file", detail, "library built by lisp.NewRootedFSLibrary before the directory existed")
		}
	})
}

func replayLate(k lateKase) (bool, string) {
	out, detail, err := lateRun(k.Missing, k.Loader, k.Loc)
	if err != nil {
		return false, err.Error()
	}
	return out == "outside-served", fmt.Sprintf("constructed while: %s; loader %v; location %q => %s (%s)", k.Missing, lateLoaders[k.Loader], k.Loc, out, detail)
}
