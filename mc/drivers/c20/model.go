package c20

// The reference model: a PURE description of the scratch layout (a table of
// directories, regular files and symbolic links) and a POSIX path walker over
// that table.  Nothing here touches the operating system; the driver
// cross-checks the walker against the kernel (an unconfined os.ReadFile of the
// same string) for every enumerated location, which validates the model, not
// the implementation.

import (
	"strings"
)

type entKind int

const (
	kDir entKind = iota
	kFile
	kLink
	kFifo // a named pipe (read-observation part): a non-directory whose being opened is observable without reading it
)

// layoutEnt is one row of the layout table.  Path is relative to the scratch
// base B.  Data is the tag of a regular file ("inside" / "OUTSIDE" / a loader
// kind) or the target of a symbolic link ("$B" expands to the base).
type layoutEnt struct {
	Path string
	Kind entKind
	Data string
}

const (
	tagInside  = "inside"
	tagOutside = "OUTSIDE"
	tagLoader  = "loader" // inside; content additionally performs the load under test
	tagChain   = "chain"  // inside; content loads sub/ldr.lisp which performs the load under test
	tagLink    = "link"   // inside; content performs the next load of a chain with the primitive the case prescribes for that level
	tagHist    = "hist"   // inside; content performs up to three loads in a row, each with its errors ignored
	// tagMulti+":<form>" (oneform.go): inside; content performs 2..3 loads from ONE form
)

// theLayout is the layout of DESIGN §C20 with these additions: every
// directory holds a file of the SAME name (in.lisp) carrying a distinct mark,
// so that resolving a relative location against the wrong directory yields a
// different, identifiable file; a depth-changing directory link (dl2), an
// absolute link to an outside file (abs_out), a link from outside back into
// the root (outside/back) and loader files.
var theLayout = append(append([]layoutEnt(nil), baseLayout...), oneLayout()...)

// baseLayout: the hand-written part; oneLayout() (oneform.go) adds one loading file per form and directory.
var baseLayout = []layoutEnt{
	{"root", kDir, ""},
	{"root/in.lisp", kFile, tagInside},
	{"root/ldr.lisp", kFile, tagLoader},
	{"root/chain.lisp", kFile, tagChain},
	{"root/hist.lisp", kFile, tagHist},
	{"root/link.lisp", kFile, tagLink},
	{"root/sub", kDir, ""},
	{"root/sub/in.lisp", kFile, tagInside},
	{"root/sub/ldr.lisp", kFile, tagLoader},
	{"root/sub/hist.lisp", kFile, tagHist},
	{"root/sub/link.lisp", kFile, tagLink},
	{"root/sub/deep", kDir, ""},
	{"root/sub/deep/in.lisp", kFile, tagInside},
	{"root/sub/deep/ldr.lisp", kFile, tagLoader},
	{"root/sub/deep/link.lisp", kFile, tagLink},
	{"root/sub/up", kLink, ".."},
	{"root/lnk_in", kLink, "in.lisp"},
	{"root/lnk_out", kLink, "../outside/secret.lisp"},
	{"root/dlnk_out", kLink, "../outside"},
	{"root/dlnk_in", kLink, "sub"},
	{"root/dl2", kLink, "sub/deep"},
	{"root/loop", kLink, "loop"},
	{"root/abs_out", kLink, "$B/outside/secret.lisp"},
	{"outside", kDir, ""},
	{"outside/secret.lisp", kFile, tagOutside},
	{"outside/in.lisp", kFile, tagOutside},
	{"outside/back", kLink, "../root"},
	{"rootx", kDir, ""},
	{"rootx/secret.lisp", kFile, tagOutside},
	{"rootx/in.lisp", kFile, tagOutside},
	// a sibling whose name differs from the root's only in letter case (the file system here is case-sensitive)
	{"ROOT", kDir, ""},
	{"ROOT/secret.lisp", kFile, tagOutside},
	{"ROOT/in.lisp", kFile, tagOutside},
	{"rootlink", kLink, "root"},
	{"in.lisp", kFile, tagOutside},
	{"secret.lisp", kFile, tagOutside},
}

// fileID is the identity carried by a file's mark: "<inside|OUTSIDE>:<path relative to B>".
func fileID(e layoutEnt) string {
	if e.Data == tagOutside {
		return tagOutside + ":" + e.Path
	}
	return tagInside + ":" + e.Path
}

const (
	symLisp = "c20-lisp?"
	symLoc  = "c20-loc"
	symHost = "c20-host-load"
	symHLoc = "c20-hloc"
	symSep  = "c20-sep"
	// chain part: a link.lisp file performs the next load of the chain
	symChainLisp = "c20-chain-lisp?"
	symChainLoc  = "c20-chain-loc"
	symChainGo   = "c20-chain-go"
	// host builtins that call the Go entry points from wherever the call sits
	symGoLoad    = "c20-go-load"
	symGoLoadCtx = "c20-go-load-ctx"
)

// fileContent is what is written to disk (and into the MapFS).
func fileContent(e layoutEnt) string {
	m := "(mark \"" + fileID(e) + "\")\n"
	if id, ok := strings.CutPrefix(e.Data, tagMulti+":"); ok {
		return m + multiContent(id)
	}
	switch e.Data {
	case tagLoader:
		return m + "(if (" + symLisp + ") (load-file (" + symLoc + ")) (" + symHost + "))\n"
	case tagChain:
		return m + "(load-file \"sub/ldr.lisp\")\n"
	case tagLink:
		return m + "(if (" + symChainLisp + ") (load-file (" + symChainLoc + ")) (" + symChainGo + "))\n"
	case tagHist:
		for i := 0; i < 3; i++ {
			m += "(ignore-errors (load-file (" + symHLoc + " " + string(rune('0'+i)) + ")))\n"
		}
		return m
	}
	return m
}

// ---------------------------------------------------------------------------

type node struct {
	name     string
	kind     entKind
	parent   *node
	children map[string]*node
	partial  bool   // an ancestor of B: children other than the listed one are unknown
	target   string // link
	id       string // file
}

type model struct {
	fsroot *node    // "/"
	base   *node    // B
	baseC  []string // components of B's real path
}

func splitComps(p string) []string {
	var out []string
	for _, c := range strings.Split(p, "/") {
		if c != "" {
			out = append(out, c)
		}
	}
	return out
}

// newModel builds the tree for base real path B from a layout table.  With
// noLinks the symbolic links are left out (the MapFS mirror).
func newModel(B string, ents []layoutEnt, noLinks bool) *model {
	m := &model{fsroot: &node{name: "", kind: kDir, partial: true, children: map[string]*node{}}}
	cur := m.fsroot
	m.baseC = splitComps(B)
	for _, c := range m.baseC {
		n := &node{name: c, kind: kDir, parent: cur, partial: true, children: map[string]*node{}}
		cur.children[c] = n
		cur = n
	}
	cur.partial = false
	m.base = cur
	for _, e := range ents {
		if noLinks && e.Kind == kLink {
			continue
		}
		comps := splitComps(e.Path)
		d := m.base
		for _, c := range comps[:len(comps)-1] {
			d = d.children[c]
		}
		n := &node{name: comps[len(comps)-1], kind: e.Kind, parent: d}
		switch e.Kind {
		case kDir:
			n.children = map[string]*node{}
		case kFile, kFifo:
			n.id = fileID(e)
		case kLink:
			n.target = strings.ReplaceAll(e.Data, "$B", B)
		}
		d.children[n.name] = n
	}
	return m
}

type resKind int

const (
	rFile resKind = iota
	rDir
	rMissing
	rNotDir
	rLoop
	rUnknown // left the modelled part of the file system (outside B and not an ancestor of B)
)

func (k resKind) String() string {
	return [...]string{"file", "dir", "missing", "notdir", "loop", "unknown-outside"}[k]
}

type res struct {
	kind    resKind
	node    *node   // rFile / rDir
	viaLink bool    // at least one symbolic link was traversed
	links   []*node // the symbolic links traversed, in order
}

func (n *node) realPath() string {
	if n.parent == nil {
		return "/"
	}
	var parts []string
	for x := n; x.parent != nil; x = x.parent {
		parts = append(parts, x.name)
	}
	var sb strings.Builder
	for i := len(parts) - 1; i >= 0; i-- {
		sb.WriteByte('/')
		sb.WriteString(parts[i])
	}
	return sb.String()
}

func (n *node) under(anc *node) bool {
	for x := n; x != nil; x = x.parent {
		if x == anc {
			return true
		}
	}
	return false
}

const maxLinks = 40

// walk resolves path the way the kernel does (POSIX path resolution): from
// `start` unless the path is absolute, one component at a time, `..` taken
// physically, every symbolic link followed (also in the last component), a
// non-directory with components left (even `.` or a trailing slash) is
// ENOTDIR, the empty path is ENOENT.
func (m *model) walk(start *node, path string) res {
	if path == "" {
		return res{kind: rMissing}
	}
	cur := start
	if path[0] == '/' {
		cur = m.fsroot
	}
	// pending components, last element is the next one
	var pend []string
	push := func(p string) {
		cs := strings.Split(p, "/")
		for i := len(cs) - 1; i >= 0; i-- {
			pend = append(pend, cs[i])
		}
	}
	push(path)
	links := 0
	via := false
	var trav []*node
	for len(pend) > 0 {
		c := pend[len(pend)-1]
		pend = pend[:len(pend)-1]
		if cur.kind != kDir {
			return res{kind: rNotDir, viaLink: via}
		}
		switch c {
		case "", ".":
			continue
		case "..":
			if cur.parent != nil {
				cur = cur.parent
			}
			continue
		}
		ch, ok := cur.children[c]
		if !ok {
			if cur.partial {
				return res{kind: rUnknown, viaLink: via}
			}
			return res{kind: rMissing, viaLink: via}
		}
		if ch.kind == kLink {
			links++
			via = true
			trav = append(trav, ch)
			if links > maxLinks {
				return res{kind: rLoop, viaLink: true}
			}
			if strings.HasPrefix(ch.target, "/") {
				cur = m.fsroot
			}
			push(ch.target)
			continue
		}
		cur = ch
	}
	if cur.kind == kDir {
		return res{kind: rDir, node: cur, viaLink: via, links: trav}
	}
	return res{kind: rFile, node: cur, viaLink: via, links: trav}
}

// lexClean is Rob Pike's lexical path cleaning (what filepath.Clean does on
// unix), written out so that the model owns its own definition; the driver
// cross-checks it against filepath.Clean on every enumerated string.
func lexClean(p string) string {
	if p == "" {
		return "."
	}
	abs := p[0] == '/'
	var out []string
	for _, c := range strings.Split(p, "/") {
		switch c {
		case "", ".":
		case "..":
			if len(out) > 0 && out[len(out)-1] != ".." {
				out = out[:len(out)-1]
			} else if !abs {
				out = append(out, "..")
			}
		default:
			out = append(out, c)
		}
	}
	s := strings.Join(out, "/")
	if abs {
		return "/" + s
	}
	if s == "" {
		return "."
	}
	return s
}

// rawDir is the directory part of a loader location, without cleaning.
func rawDir(L string) string {
	i := strings.LastIndexByte(L, '/')
	switch {
	case i < 0:
		return "."
	case i == 0:
		return "/"
	}
	return L[:i]
}

// joinRaw is "the location as seen from the loading file": loc itself when it
// is absolute or there is no loading file, else <directory of L>/<loc>.
func joinRaw(L, loc string) string {
	if strings.HasPrefix(loc, "/") || L == "" {
		return loc
	}
	return rawDir(L) + "/" + loc
}

// exitLinkKind names the first traversed symbolic link that leads out of
// root: "absolute-link" (absolute target), "file-link" (the link itself
// denotes a file) or "dir-link".
func (m *model) exitLinkKind(r res, root *node) string {
	for _, l := range r.links {
		t := m.walk(l.parent, l.target)
		if (t.kind == rFile || t.kind == rDir) && t.node.under(root) {
			continue
		}
		switch {
		case strings.HasPrefix(l.target, "/"):
			return "absolute-link"
		case t.kind == rFile:
			return "file-link"
		}
		return "dir-link"
	}
	return "no-link"
}
