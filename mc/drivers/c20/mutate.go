package c20

// Part seven: LAYOUT MUTATIONS as history operations.
//
// A library instance lives through: [a warm-up load], then 1..K mutations of
// the directory layout, each followed by the whole location alphabet on the
// SAME instance and - as the reference - on a FRESH instance over the same
// (new) layout.  Every case works in a private temp tree, so parallel cases
// cannot disturb each other:
//
//	T/g1/tree/{in.lisp, old.lisp, sub/in.lisp, dlink->sub, flink->in.lisp, d/in.lisp, [new.lisp]}
//	T/g2/tree/{in.lisp, old.lisp->../../g1/tree/old.lisp, back->../../g1/tree, sub/in.lisp, dlink->sub, flink->in.lisp, d/in.lisp}
//	T/outside/{secret.lisp, in.lisp}
//	T/current -> g1/tree     (a root that IS a symlink)
//	T/hop     -> g1          (a root that PASSES THROUGH a symlink: T/hop/tree)
//
// Mutations (all idempotent "set" operations): retarget the root link (other
// inside tree, outside, back), retarget the link in the root's path, retarget
// a directory link and a file link inside the root (inside, outside, back),
// replace a directory by a symlink and vice versa, create and remove files.
//
// Oracle: the pure model is REBUILT from the mutated layout table; a served
// file's real path must lie under the root as it resolves NOW, it must be the
// file the location denotes NOW, and the same instance must agree with the
// fresh instance (history independence).  The mutated model is cross-checked
// against the kernel after every mutation.

import (
	"fmt"
	"os"
	"strings"
	"sync"
	"sync/atomic"

	"github.com/luthersystems/elps/lisp"

	"verif/mc/core"
)

// pstate is the mutable part of the private layout.
type pstate struct {
	Current string // target of T/current
	Hop     string // target of T/hop
	Dlink   string // target of g1/tree/dlink
	Flink   string // target of g1/tree/flink
	DIsLink bool   // g1/tree/d is a symlink to ../../outside instead of a directory
	HasNew  bool   // g1/tree/new.lisp exists
	HasIn   bool   // g1/tree/in.lisp exists
}

var pstate0 = pstate{Current: "g1/tree", Hop: "g1", Dlink: "sub", Flink: "in.lisp", HasIn: true}

func (s pstate) entries() []layoutEnt {
	e := []layoutEnt{
		{"g1", kDir, ""}, {"g1/tree", kDir, ""},
		{"g1/tree/old.lisp", kFile, tagInside},
		{"g1/tree/sub", kDir, ""}, {"g1/tree/sub/in.lisp", kFile, tagInside},
		{"g1/tree/dlink", kLink, s.Dlink}, {"g1/tree/flink", kLink, s.Flink},
	}
	if s.HasIn {
		e = append(e, layoutEnt{"g1/tree/in.lisp", kFile, tagInside})
	}
	if s.HasNew {
		e = append(e, layoutEnt{"g1/tree/new.lisp", kFile, tagInside})
	}
	if s.DIsLink {
		e = append(e, layoutEnt{"g1/tree/d", kLink, "../../outside"})
	} else {
		e = append(e, layoutEnt{"g1/tree/d", kDir, ""}, layoutEnt{"g1/tree/d/in.lisp", kFile, tagInside})
	}
	e = append(e,
		layoutEnt{"g2", kDir, ""}, layoutEnt{"g2/tree", kDir, ""},
		layoutEnt{"g2/tree/in.lisp", kFile, tagInside},
		layoutEnt{"g2/tree/old.lisp", kLink, "../../g1/tree/old.lisp"},
		layoutEnt{"g2/tree/back", kLink, "../../g1/tree"},
		layoutEnt{"g2/tree/sub", kDir, ""}, layoutEnt{"g2/tree/sub/in.lisp", kFile, tagInside},
		layoutEnt{"g2/tree/dlink", kLink, "sub"}, layoutEnt{"g2/tree/flink", kLink, "in.lisp"},
		layoutEnt{"g2/tree/d", kDir, ""}, layoutEnt{"g2/tree/d/in.lisp", kFile, tagInside},
		layoutEnt{"outside", kDir, ""}, layoutEnt{"outside/secret.lisp", kFile, tagInside}, layoutEnt{"outside/in.lisp", kFile, tagInside},
		layoutEnt{"current", kLink, s.Current}, layoutEnt{"hop", kLink, s.Hop},
	)
	return e
}

func privContent(rel string) string { return "(mark \"inside:" + rel + "\")\n" }

func privID(content string) string {
	s, ok := strings.CutPrefix(content, "(mark \"")
	if !ok {
		return "?unknown-content"
	}
	s, ok = strings.CutSuffix(s, "\")\n")
	if !ok {
		return "?unknown-content"
	}
	return s
}

// buildPriv creates the tree for state s under T (T is emptied first).
func buildPriv(T string, s pstate) error {
	if err := os.RemoveAll(T); err != nil {
		return err
	}
	if err := os.Mkdir(T, 0o755); err != nil {
		return err
	}
	for _, e := range s.entries() {
		p := T + "/" + e.Path
		var err error
		switch e.Kind {
		case kDir:
			err = os.Mkdir(p, 0o755)
		case kFile:
			err = os.WriteFile(p, []byte(privContent(e.Path)), 0o644)
		case kLink:
			err = os.Symlink(e.Data, p)
		}
		if err != nil {
			return err
		}
	}
	return nil
}

func relink(p, target string) error {
	if err := os.Remove(p); err != nil && !os.IsNotExist(err) {
		return err
	}
	return os.Symlink(target, p)
}

// applyPriv performs on disk exactly the edits that turn state a into state b.
func applyPriv(T string, a, b pstate) error {
	var err error
	step := func(f func() error) {
		if err == nil {
			err = f()
		}
	}
	if a.Current != b.Current {
		step(func() error { return relink(T+"/current", b.Current) })
	}
	if a.Hop != b.Hop {
		step(func() error { return relink(T+"/hop", b.Hop) })
	}
	if a.Dlink != b.Dlink {
		step(func() error { return relink(T+"/g1/tree/dlink", b.Dlink) })
	}
	if a.Flink != b.Flink {
		step(func() error { return relink(T+"/g1/tree/flink", b.Flink) })
	}
	if a.DIsLink != b.DIsLink {
		step(func() error { return os.RemoveAll(T + "/g1/tree/d") })
		if b.DIsLink {
			step(func() error { return os.Symlink("../../outside", T+"/g1/tree/d") })
		} else {
			step(func() error { return os.Mkdir(T+"/g1/tree/d", 0o755) })
			step(func() error {
				return os.WriteFile(T+"/g1/tree/d/in.lisp", []byte(privContent("g1/tree/d/in.lisp")), 0o644)
			})
		}
	}
	for _, f := range []struct {
		was, is bool
		rel     string
	}{{a.HasNew, b.HasNew, "g1/tree/new.lisp"}, {a.HasIn, b.HasIn, "g1/tree/in.lisp"}} {
		f := f
		if f.was && !f.is {
			step(func() error { return os.Remove(T + "/" + f.rel) })
		}
		if !f.was && f.is {
			step(func() error { return os.WriteFile(T+"/"+f.rel, []byte(privContent(f.rel)), 0o644) })
		}
	}
	return err
}

type mutation struct {
	ID, Kind string
	Apply    func(s *pstate)
}

var mutations = []mutation{
	{"root-link->g2/tree", "retarget-root", func(s *pstate) { s.Current = "g2/tree" }},
	{"root-link->outside", "retarget-root", func(s *pstate) { s.Current = "outside" }},
	{"root-link->g1/tree", "retarget-root", func(s *pstate) { s.Current = "g1/tree" }},
	{"root-component->g2", "retarget-root-component", func(s *pstate) { s.Hop = "g2" }},
	{"root-component->g1", "retarget-root-component", func(s *pstate) { s.Hop = "g1" }},
	{"dir-link->outside", "retarget-dir-link", func(s *pstate) { s.Dlink = "../../outside" }},
	{"dir-link->d", "retarget-dir-link", func(s *pstate) { s.Dlink = "d" }},
	{"dir-link->sub", "retarget-dir-link", func(s *pstate) { s.Dlink = "sub" }},
	{"file-link->outside", "retarget-file-link", func(s *pstate) { s.Flink = "../../outside/secret.lisp" }},
	{"file-link->sub/in.lisp", "retarget-file-link", func(s *pstate) { s.Flink = "sub/in.lisp" }},
	{"file-link->in.lisp", "retarget-file-link", func(s *pstate) { s.Flink = "in.lisp" }},
	{"dir->symlink-outside", "dir<->symlink", func(s *pstate) { s.DIsLink = true }},
	{"symlink->dir", "dir<->symlink", func(s *pstate) { s.DIsLink = false }},
	{"create-new.lisp", "create-remove-file", func(s *pstate) { s.HasNew = true }},
	{"remove-new.lisp", "create-remove-file", func(s *pstate) { s.HasNew = false }},
	{"remove-in.lisp", "create-remove-file", func(s *pstate) { s.HasIn = false }},
	{"create-in.lisp", "create-remove-file", func(s *pstate) { s.HasIn = true }},
}

func mutationByID(id string) *mutation {
	for i := range mutations {
		if mutations[i].ID == id {
			return &mutations[i]
		}
	}
	return nil
}

type privRoot struct{ ID, Rel string }

var privRoots = []privRoot{{"symlink-root", "current"}, {"symlink-component", "hop/tree"}, {"plain-root", "g1/tree"}}

// privProbes: "$R" = root spelling, "$T" = private tree.
var privProbes = []string{"$R/in.lisp", "$R/sub/in.lisp", "$R/old.lisp", "$R/back/in.lisp", "$R/dlink/in.lisp", "$R/flink",
	"$R/d/in.lisp", "$R/new.lisp", "$R/missing.lisp", "$R/../outside/secret.lisp",
	"$T/g1/tree/in.lisp", "$T/g2/tree/in.lisp", "$T/g1/tree/old.lisp", "$T/outside/secret.lisp"}

var privWarmups = []string{"", "$R/in.lisp", "$R/missing.lisp", "$T/outside/secret.lisp"}

var privPrims = []struct {
	Name  string
	Entry int
}{{"LoadSource", eLoadSource}, {"LoadFile", eLoadFile}}

// privLoad performs one load on lib and returns the id served ("" = refused).
func (w *worker) privLoad(lib lisp.SourceLibrary, prim int, loc string) (o obs) {
	defer func() {
		if p := recover(); p != nil {
			o.panicked = fmt.Sprint(p)
			w.freshEnv()
		}
	}()
	if privPrims[prim].Entry == eLoadSource {
		_, tl, data, err := lib.LoadSource(lisp.NewSourceContext("", ""), loc)
		o.trueloc, o.rawData = tl, string(data)
		if err != nil {
			o.isErr, o.errText = true, err.Error()
		}
		if len(data) > 0 {
			o.served = []string{privID(string(data))}
		}
		return o
	}
	w.marks = w.marks[:0]
	w.env.Runtime.Library = lib
	v := w.env.LoadFile(loc)
	if v == nil || v.Type == lisp.LError {
		o.isErr = true
		if v != nil {
			o.errText = (*lisp.ErrorVal)(v).ErrorMessage()
		}
	}
	o.served = append([]string(nil), w.marks...)
	if len(w.env.Runtime.Stack.Frames) != 0 {
		w.freshEnv()
	}
	return o
}

// privVerdict is the model verdict for an absolute location at top level under
// the root as it resolves NOW in model m.  Ids are tagged relative to that root.
func privVerdict(m *model, rootSpelling, loc string) (vd verdict, root *node) {
	if r := m.walk(m.base, rootSpelling); r.kind == rDir {
		root = r.node
	}
	lex := m.walk(m.base, lexClean(loc))
	phys := m.walk(m.base, loc)
	for _, r := range []res{lex, phys} {
		if r.kind == rFile && root != nil && r.node.under(root) {
			vd.add(r.node.id)
		}
		if r.kind == rFile || r.kind == rLoop {
			vd.nontrivial = true
		}
	}
	dr := root
	if dr == nil {
		dr = &node{} // nothing is under an unresolvable root
	}
	vd.desc = describe(lex, dr)
	if p := describe(phys, dr); p != vd.desc {
		vd.desc += "|posix:" + p
	}
	return vd, root
}

func privRetag(m *model, root *node, id string) string {
	rel, ok := strings.CutPrefix(id, tagInside+":")
	if !ok {
		return id
	}
	r := m.walk(m.base, rel)
	if r.kind == rFile && root != nil && r.node.under(root) {
		return id
	}
	return tagOutside + ":" + rel
}

type mutViolation struct {
	kind, class, expected, got, desc string
	mi, pi                           int // after mutation mi, probe pi
}

// runMutationCase executes one case in the private tree T and returns every
// violation found (harness problems are returned as kind "harness:...").
func (w *worker) runMutationCase(T string, rt *privRoot, warm string, muts []*mutation, prim int) (vios []mutViolation, loads int, nontrivial bool) {
	// The private tree is built once per worker and brought back to the initial
	// state by undoing the previous case's mutations (same edits a mutation makes).
	var err error
	if w.privBuilt == T {
		err = applyPriv(T, w.privState, pstate0)
	} else {
		err = buildPriv(T, pstate0)
	}
	if err != nil {
		w.privBuilt = ""
		return []mutViolation{{kind: "harness:private-tree", class: "harness:private-tree", got: err.Error()}}, 0, false
	}
	w.privBuilt, w.privState = T, pstate0
	st := pstate0
	R := T + "/" + rt.Rel
	spell := func(p string) string { return strings.ReplaceAll(strings.ReplaceAll(p, "$R", R), "$T", T) }
	lib := &lisp.RelativeFileSystemLibrary{RootDir: R}
	if warm != "" {
		w.privLoad(lib, prim, spell(warm))
		loads++
	}
	for mi, mu := range muts {
		next := st
		mu.Apply(&next)
		if err := applyPriv(T, st, next); err != nil {
			w.privBuilt = ""
			return append(vios, mutViolation{kind: "harness:mutation", class: "harness:mutation", got: mu.ID + ": " + err.Error()}), loads, nontrivial
		}
		st = next
		w.privState = st
		m := newModel(T, st.entries(), false)
		for pi, p := range privProbes {
			loc := spell(p)
			vd, root := privVerdict(m, R, loc)
			nontrivial = nontrivial || vd.nontrivial
			// the mutated model against the kernel
			if phys := m.walk(m.base, loc); phys.kind != rUnknown {
				b, err := os.ReadFile(loc)
				kid, mid := "", ""
				if err == nil {
					kid = privID(string(b))
				}
				if phys.kind == rFile {
					mid = phys.node.id
				}
				if kid != mid {
					vios = append(vios, mutViolation{kind: "harness:model-vs-kernel", class: "harness:model-vs-kernel", expected: "model: " + mid, got: "kernel: " + kid, mi: mi, pi: pi})
					continue
				}
			}
			same := w.privLoad(lib, prim, loc)
			fresh := w.privLoad(&lisp.RelativeFileSystemLibrary{RootDir: R}, prim, loc)
			loads += 2
			for _, o := range []*obs{&same, &fresh} {
				for i := range o.served {
					o.served[i] = privRetag(m, root, o.served[i])
				}
			}
			for i := range vd.accept {
				vd.accept[i] = privRetag(m, root, vd.accept[i])
			}
			entry := privPrims[prim].Entry
			kind, oclass, expected := judge("rfl", false, &vd, entry, &same)
			w.outcomes[outKey{"mutation", privPrims[prim].Name, vd.desc, oclass}]++
			who := "same instance"
			if kind == "" {
				if k2, _, e2 := judge("rfl", false, &vd, entry, &fresh); k2 != "" {
					kind, expected, who = k2, e2, "FRESH instance"
					same = fresh
				}
			}
			if kind == "" && servedKey(&same) != servedKey(&fresh) {
				kind = "history-dependent-outcome"
				expected = "the outcome of a fresh library instance over the same layout: served=[" + servedKey(&fresh) + "]"
			}
			if kind != "" {
				vios = append(vios, mutViolation{kind: kind, class: "mutation:rfl:" + kind + ":root=" + rt.ID, expected: expected,
					got: who + ": " + same.text(entry), desc: vd.desc, mi: mi, pi: pi})
			}
		}
	}
	return vios, loads, nontrivial
}

// privTempBase prefers a memory file system for the private trees: a mutation
// is a handful of unlink/symlink calls, and on a journalling disk file system
// each of them waits for the journal.  $TMPDIR, when set, is honoured.
func privTempBase() string {
	if os.Getenv("TMPDIR") == "" {
		if fi, err := os.Stat("/dev/shm"); err == nil && fi.IsDir() {
			if d, err := os.MkdirTemp("/dev/shm", "c20probe-"); err == nil {
				_ = os.Remove(d)
				return "/dev/shm"
			}
		}
	}
	return ""
}

func runMutationKase(k kase) (kind, class, expected, got string, err error) {
	T, err := os.MkdirTemp(privTempBase(), "c20m-")
	if err != nil {
		return "", "", "", "", err
	}
	defer os.RemoveAll(T)
	if T, err = realBase(T); err != nil {
		return "", "", "", "", err
	}
	var rt *privRoot
	for i := range privRoots {
		if privRoots[i].ID == k.Root {
			rt = &privRoots[i]
		}
	}
	prim := -1
	for i, p := range privPrims {
		if p.Name == k.Entry {
			prim = i
		}
	}
	var muts []*mutation
	for _, id := range k.Mutations {
		if m := mutationByID(id); m != nil {
			muts = append(muts, m)
		}
	}
	if rt == nil || prim < 0 || len(muts) != len(k.Mutations) || len(muts) == 0 {
		return "", "", "", "", fmt.Errorf("bad mutation case %+v", k)
	}
	w := &worker{outcomes: map[outKey]int64{}, info: map[string]int64{}, progs: map[string]lisp.Program{}}
	w.freshEnv()
	vios, _, _ := w.runMutationCase(T+"/t", rt, k.Ctx, muts, prim)
	for _, v := range vios {
		if v.mi == len(muts)-1 && v.pi == k.Step {
			return v.kind, v.class, v.expected, strings.ReplaceAll(v.got, T+"/t", "$T") + " model=" + v.desc, nil
		}
	}
	return "", "", "", "no violation at that probe", nil
}

func (d *drv) runMutations(tot map[string]int64, info map[string]int64, mu *sync.Mutex) {
	r := d.r
	// quick: <= 2 mutations, warm-up {none, an inside file}; thorough: <= 3, all warm-ups
	K, warmups := 2, privWarmups[:2]
	if r.Thorough() {
		K, warmups = 3, privWarmups
	}
	P, err := os.MkdirTemp(privTempBase(), "c20m-")
	if err == nil {
		defer os.RemoveAll(P)
		P, err = realBase(P)
	}
	if err != nil {
		r.Violate("c20", "harness:private-trees", nil, "private temp directory", err.Error(), "")
		return
	}
	// mutation sequences of length 1..K
	var seqs [][]*mutation
	var rec func(prefix []*mutation, k int)
	rec = func(prefix []*mutation, k int) {
		if len(prefix) > 0 {
			seqs = append(seqs, append([]*mutation(nil), prefix...))
		}
		if k == 0 {
			return
		}
		for i := range mutations {
			rec(append(prefix[:len(prefix):len(prefix)], &mutations[i]), k-1)
		}
	}
	rec(nil, K)
	nCases := int64(len(privRoots) * len(warmups) * len(privPrims) * len(seqs))
	var mids []string
	for _, m := range mutations {
		mids = append(mids, m.ID)
	}
	r.Bound("mutation_max_sequence", K)
	r.Bound("mutation_operations", mids)
	r.Bound("mutation_root_spellings", []string{"$T/current (a symlink)", "$T/hop/tree (through a symlink)", "$T/g1/tree (plain)"})
	r.Bound("mutation_probe_locations", privProbes)
	r.Bound("mutation_warmup_loads", warmups)
	r.Bound("mutation_cases", nCases)
	r.Assume("part seven: every case runs in a private temp tree; the model is rebuilt from the mutated layout table and cross-checked against the kernel after every mutation; " +
		"the root is the directory RootDir resolves to at the time of the load")
	var wid int32
	var workers []*worker
	var states int64
	core.ParallelRange(r, nCases, func(id int) *worker {
		w := newWorker(d.sb)
		w.priv = fmt.Sprintf("%s/w%d", P, atomic.AddInt32(&wid, 1))
		mu.Lock()
		workers = append(workers, w)
		mu.Unlock()
		return w
	}, func(w *worker, i int64) {
		x := i
		si := x % int64(len(seqs))
		x /= int64(len(seqs))
		prim := int(x % int64(len(privPrims)))
		x /= int64(len(privPrims))
		warm := warmups[x%int64(len(warmups))]
		x /= int64(len(warmups))
		rt := &privRoots[x]
		muts := seqs[si]
		vios, loads, nontrivial := w.runMutationCase(w.priv, rt, warm, muts, prim)
		w.evals += int64(loads)
		w.traces += int64(len(muts) * len(privProbes))
		atomic.AddInt64(&states, int64(len(muts)))
		var ids []string
		for _, m := range muts {
			ids = append(ids, m.ID)
		}
		if nontrivial {
			r.Nontrivial("mutation|" + rt.ID + "|" + warm + "|" + strings.Join(ids, ","))
		}
		for _, v := range vios {
			if v.mi != len(muts)-1 && !strings.HasPrefix(v.kind, "harness:") {
				continue // reported by the shorter sequence
			}
			d.mu.Lock()
			d.vioSeen[v.class]++
			n := d.vioSeen[v.class]
			d.mu.Unlock()
			if n > 3 {
				continue
			}
			k := kase{Part: "mutation", Phase: "private-tree", Root: rt.ID, Ctx: warm, Entry: privPrims[prim].Name, Loc: privProbes[v.pi],
				RootSpelling: "$T/" + rt.Rel, Model: v.desc, Mutations: ids, Step: v.pi}
			got := strings.ReplaceAll(v.got, w.priv, "$T")
			if strings.HasPrefix(v.kind, "harness:") {
				r.Violate("c20", v.class, k, v.expected, got, "harness self-check")
				continue
			}
			rep := 0
			for j := 0; j < 5; j++ {
				k2, c2, _, _, err := runMutationKase(k)
				if err == nil && k2 == v.kind && c2 == v.class {
					rep++
				}
			}
			if rep < 5 {
				r.Flaky(map[string]any{"case": k, "class": v.class, "reproduced": rep, "of": 5, "got": got})
				continue
			}
			r.Violate("c20", v.class, k, v.expected, got, "warm-up "+warm+"; mutations "+strings.Join(ids, " ; ")+"; then probe "+privProbes[v.pi]+"; model: "+v.desc)
		}
	})
	for _, w := range workers {
		w.flush(r, tot, info, mu)
	}
	r.AddStates(states)
}
