package c20

// Part eight: READ OBSERVATION.
//
// Parts one to seven observe what a load SERVES (bytes returned, marks
// evaluated).  The statement also says that "no part of the outside file is
// read": a load that is refused in the end must not have opened or read the
// outside object on the way.  Reading an ordinary outside file leaves no trace
// in the result, so this part makes the act of reading observable:
//
//   - every worker owns a PRIVATE copy of the layout, extended by an outside
//     named pipe (outside/fifo.lisp), an outside directory with a file-like name
//     (outside/dir.lisp) and links to them inside the root;
//   - an inotify instance watches every outside regular file and the outside
//     directory dir.lisp for IN_OPEN and IN_ACCESS (the harness itself never
//     opens them while the watches exist; the model is cross-checked against the
//     kernel with stat(2), which raises no event);
//   - the named pipe is observed by a rendezvous: while a load whose location
//     spells a name of the pipe runs, the harness polls open(O_WRONLY|O_NONBLOCK)
//     on it, which succeeds (instead of ENXIO) exactly when somebody holds or is
//     parked in an open for reading.  The first success writes the pipe's
//     content, `(mark "OUTSIDE:outside/fifo.lisp")`, so that the reader gets data
//     and end-of-file; nothing here waits on a clock.
//
// The enumeration is the one of parts one and two (component sequences x
// spelling forms x loading-file contexts x entry points x root spellings) over
// the extended alphabet, against every library that CONFINES loads to a root
// directory: RelativeFileSystemLibrary{RootDir} and lisp.NewRootedFSLibrary.
// os.DirFS is documented not to confine and fstest.MapFS has no outside.
//
// Oracle: the verdicts of parts one and two, and additionally NO outside object
// is opened or read by any load.  The process working directory is the parent
// directory of all private layouts, so relative root spellings ("$W/root", $W
// being the name of a worker's layout directory) are enumerated as well.

import (
	"fmt"
	"os"
	"path/filepath"
	"runtime"
	"sort"
	"strings"
	"sync"
	"syscall"
	"unsafe"

	"github.com/luthersystems/elps/lisp"

	"verif/mc/core"
)

var obsExtra = []layoutEnt{
	{"outside/fifo.lisp", kFifo, tagOutside},
	{"outside/dir.lisp", kDir, ""},
	{"root/lnk_fifo", kLink, "../outside/fifo.lisp"},
	{"root/lnk_dir", kLink, "../outside/dir.lisp"},
}

var obsLayout = append(append([]layoutEnt(nil), theLayout...), obsExtra...)

// obsWatchedDirs are the outside DIRECTORIES under watch: only one that a location can denote as the object to
// load.  Outside directories that are merely passed through (outside, rootx, B) are not watched: the statement
// speaks of the outside file, not of how a path is resolved.
var obsWatchedDirs = []string{"outside/dir.lisp"}

var obsSigma = append(append([]string(nil), sigma...), "fifo.lisp", "dir.lisp", "lnk_fifo", "lnk_dir")

// obsSigmaDeep: the components that lead out of the root or name an outside object (longest sequences of a tier).
// The names of the pipe are left to the shorter sequences: a load whose location spells one runs under the
// rendezvous, which costs a polling goroutine.
var obsSigmaDeep = []string{"..", "sub", "up", "dlnk_out", "outside", "rootx", "secret.lisp", "dir.lisp", "lnk_out", "lnk_dir"}

var obsRflForms = append(append([]formCfg(nil), rflForms...), formCfg{"relative-from-cwd", "$W/", ""})

var obsPhase = phaseCfg{ID: "observe-rfl", Roots: []rootCfg{
	{"abs-clean", "$B/root", "$B/root"},
	{"abs-trailing-slash", "$B/root/", "$B/root"},
	{"abs-via-symlink", "$B/rootlink", "$B/root"},
	{"abs-unclean", "$B/root/sub/..", "$B/root"},
	{"rel", "$W/root", "$W/root"},
	{"rel-via-symlink", "./$W/rootlink/", "$W/root"},
}}

var obsFsPhase = phaseCfg{ID: "observe-fs", Roots: []rootCfg{
	{"rootfs", "rootfs", ""},
	{"rootfs-slashL", "rootfs", "/"},
}}

// ---------------------------------------------------------------------------
// the recorder

const (
	inAccess    = 0x1
	inOpen      = 0x20
	inQOverflow = 0x4000
)

type readWatch struct {
	fd    int
	names map[int32]string // watch descriptor -> object id
	buf   []byte
}

// newReadWatch watches the outside regular files and obsWatchedDirs of sb.
func newReadWatch(sb *sandbox, ents []layoutEnt) (*readWatch, error) {
	fd, err := syscall.InotifyInit1(syscall.IN_NONBLOCK | syscall.IN_CLOEXEC)
	if err != nil {
		return nil, err
	}
	rw := &readWatch{fd: fd, names: map[int32]string{}, buf: make([]byte, 4096)}
	add := func(rel, id string) error {
		wd, err := syscall.InotifyAddWatch(fd, sb.B+"/"+rel, inOpen|inAccess)
		if err != nil {
			return err
		}
		rw.names[int32(wd)] = id
		return nil
	}
	for _, e := range ents {
		if e.Kind == kFile && e.Data == tagOutside {
			if err := add(e.Path, fileID(e)); err != nil {
				rw.close()
				return nil, err
			}
		}
	}
	for _, d := range obsWatchedDirs {
		if err := add(d, tagOutside+"-DIR:"+d); err != nil {
			rw.close()
			return nil, err
		}
	}
	return rw, nil
}

func (rw *readWatch) close() {
	if rw != nil {
		_ = syscall.Close(rw.fd)
	}
}

// drain returns the events recorded since the last call as sorted, distinct "open <id>" / "read <id>" strings.
func (rw *readWatch) drain() []string {
	if rw == nil {
		return nil
	}
	var out []string
	for {
		n, err := syscall.Read(rw.fd, rw.buf)
		if err == syscall.EINTR {
			continue
		}
		if err != nil || n <= 0 {
			break // EAGAIN: nothing (more) recorded
		}
		for off := 0; off+syscall.SizeofInotifyEvent <= n; {
			ev := (*syscall.InotifyEvent)(unsafe.Pointer(&rw.buf[off]))
			off += syscall.SizeofInotifyEvent + int(ev.Len)
			id := rw.names[ev.Wd]
			if ev.Mask&inQOverflow != 0 {
				out = append(out, "open ?event-queue-overflow")
				continue
			}
			if ev.Mask&inOpen != 0 {
				out = append(out, "open "+id)
			}
			if ev.Mask&inAccess != 0 {
				out = append(out, "read "+id)
			}
		}
	}
	if len(out) < 2 {
		return out
	}
	sort.Strings(out)
	w := 1
	for i := 1; i < len(out); i++ {
		if out[i] != out[w-1] {
			out[w] = out[i]
			w++
		}
	}
	return out[:w]
}

// ---------------------------------------------------------------------------
// the worker of this part

func newObsWorker(sb *sandbox) (*worker, error) {
	w := newWorker(sb)
	w.statOf = map[*node]os.FileInfo{}
	for _, e := range obsLayout {
		if e.Kind == kFifo {
			w.fifo = sb.B + "/" + e.Path
			w.fifoData = []byte(sb.content[e.Path])
		}
	}
	var err error
	w.watch, err = newReadWatch(sb, obsLayout)
	return w, err
}

// mentionsPipe: the pipe can only be opened through one of its names (outside/fifo.lisp, root/lnk_fifo).
func mentionsPipe(loc string) bool { return strings.Contains(loc, "fifo") }

// execObserved runs one case and records which outside objects were touched while it ran.
func (w *worker) execObserved(lib lisp.SourceLibrary, cx *ctxCfg, L string, entry int, loc string) (o obs) {
	pipeOpened := false
	if w.fifo == "" || !mentionsPipe(loc) {
		o = w.exec(lib, cx, L, entry, loc)
	} else {
		// The load runs in its own goroutine; this one offers the pipe a writer until the load has returned.  An
		// open for reading of a pipe without a writer parks in open(2): the load cannot return before the offer
		// is taken, and the offer cannot be taken (ENXIO) unless the pipe was opened for reading.
		done := make(chan obs, 1)
		go func() { done <- w.exec(lib, cx, L, entry, loc) }()
	wait:
		for {
			select {
			case o = <-done:
				break wait
			default:
			}
			fd, err := syscall.Open(w.fifo, syscall.O_WRONLY|syscall.O_NONBLOCK|syscall.O_CLOEXEC, 0)
			if err != nil {
				for j := 0; j < 32 && len(done) == 0; j++ {
					runtime.Gosched() // a few cheap looks at the result between two system calls
				}
				continue
			}
			if !pipeOpened {
				pipeOpened = true
				_, _ = syscall.Write(fd, w.fifoData) // once: the reader gets the content, then end-of-file
			}
			_ = syscall.Close(fd)
		}
	}
	o.touched = w.watch.drain()
	if pipeOpened {
		o.touched = append(o.touched, "open "+tagOutside+"-FIFO:outside/fifo.lisp")
	}
	return o
}

// statCheck validates the model's POSIX walk of raw against the kernel WITHOUT opening anything (stat raises no
// inotify event and does not block on a pipe).
func (w *worker) statCheck(raw string, phys res) *harnessErr {
	if phys.kind == rUnknown {
		return nil
	}
	fi, err := os.Stat(raw)
	switch phys.kind {
	case rFile, rDir:
		want, ok := w.statOf[phys.node]
		if !ok {
			want, _ = os.Lstat(phys.node.realPath())
			w.statOf[phys.node] = want
		}
		if err != nil || want == nil || !os.SameFile(fi, want) || fi.IsDir() != (phys.kind == rDir) {
			return &harnessErr{"harness:model-vs-kernel", "model: " + raw + " -> " + phys.kind.String() + " " + phys.node.realPath(), fmt.Sprint("kernel: stat err=", err)}
		}
	default:
		if err == nil {
			return &harnessErr{"harness:model-vs-kernel", "model: " + raw + " -> " + phys.kind.String(), "kernel: stat succeeds, mode " + fi.Mode().String()}
		}
	}
	return nil
}

// judgeObs: the verdict of parts one and two, and no outside object touched.
func judgeObs(part string, vd *verdict, entry int, o *obs) (kind, oclass, expected string) {
	kind, oclass, expected = judge(part, false, vd, entry, o)
	if len(o.touched) == 0 {
		return
	}
	oclass += "+OUTSIDE-touched"
	if kind != "" {
		return
	}
	kind = "outside-opened"
	for _, t := range o.touched {
		if strings.HasPrefix(t, "read ") {
			kind = "outside-read"
		}
	}
	return kind, oclass, "no outside object is opened or read by a load: a location that resolves outside the root is refused before anything of the outside file is read (may serve: " + fmt.Sprint(vd.accept) + ")"
}

// touchedKinds names the kinds of outside objects touched (class component).
func touchedKinds(touched []string) string {
	var file, dir, pipe bool
	for _, t := range touched {
		switch {
		case strings.Contains(t, tagOutside+"-DIR:"):
			dir = true
		case strings.Contains(t, tagOutside+"-FIFO:"):
			pipe = true
		default:
			file = true
		}
	}
	var ks []string
	if file {
		ks = append(ks, "file")
	}
	if dir {
		ks = append(ks, "directory")
	}
	if pipe {
		ks = append(ks, "pipe")
	}
	return strings.Join(ks, "+")
}

func obsClass(sub, kind string, sb *sandbox, cwdReal string, rc *rootCfg, cx *ctxCfg, L, loc string, o *obs) string {
	d := &drv{}
	if kind != "outside-read" && kind != "outside-opened" {
		return "observe:" + d.violClass(sub, kind, sb, cwdReal, rc, cx, L, loc)
	}
	// Touching an outside object is identified by the library, the way out and the kind of object, not by the
	// root spelling or the loading-file context (the case carries those).
	if sub == "fs" {
		return "observe:fslib:" + rc.Spelling + ":" + kind + ":object=" + touchedKinds(o.touched)
	}
	c := d.violClass(sub, kind, sb, cwdReal, rc, cx, L, loc) // rfl:<kind>:root=<id>:<way out>
	way := c[strings.LastIndexByte(c, ':')+1:]
	return "observe:rfl:" + kind + ":" + way + ":object=" + touchedKinds(o.touched)
}

// obsVerdict computes the model verdict of one (context, root family, location) of this part.
func (w *worker) obsVerdict(sub string, cwd *node, rc *rootCfg, cx *ctxCfg, loc string, check bool) (vd verdict, L, execL string, herr *harnessErr) {
	sb := w.sb
	L, altL, execL := locations(sb, rc, cx)
	if sub == "fs" {
		vd, _ = sb.fsVerdict(true, L, altL, loc, false)
		return vd, L, execL, nil
	}
	vd, _ = sb.rflVerdict(cwd, L, altL, loc, false)
	if check {
		raw := joinRaw(L, loc)
		herr = w.statCheck(raw, sb.m.walk(cwd, raw))
		if g := lexClean(raw); herr == nil && g != filepath.Clean(raw) {
			herr = &harnessErr{"harness:clean-mismatch", "filepath.Clean(" + raw + ")=" + filepath.Clean(raw), g}
		}
	}
	return vd, L, execL, herr
}

// reachesOutsideObject: the case decides this part's oracle (a reading names an outside file, pipe or directory).
func reachesOutsideObject(vd *verdict) bool {
	return strings.Contains(vd.desc, "outside-file") || strings.Contains(vd.desc, "outside-dir")
}

// ---------------------------------------------------------------------------
// replay

func obsPhaseByID(id string) (*phaseCfg, string) {
	switch id {
	case obsPhase.ID:
		return &obsPhase, "rfl"
	case obsFsPhase.ID:
		return &obsFsPhase, "fs"
	}
	return nil, ""
}

// runObsKase executes one case of this part straight-line in a NEW private layout under P.  The process working
// directory must be P.
func runObsKase(P string, k kase) (kind, class, expected, got string, err error) {
	ph, sub := obsPhaseByID(k.Phase)
	if ph == nil {
		return "", "", "", "", fmt.Errorf("unknown phase %q", k.Phase)
	}
	var rc *rootCfg
	for i := range ph.Roots {
		if ph.Roots[i].ID == k.Root {
			rc = &ph.Roots[i]
		}
	}
	var cx *ctxCfg
	for i := range contexts {
		if contexts[i].ID == k.Ctx {
			cx = &contexts[i]
		}
	}
	entry := -1
	for i, n := range entryNames {
		if n == k.Entry {
			entry = i
		}
	}
	if rc == nil || cx == nil || entry < 0 {
		return "", "", "", "", fmt.Errorf("unknown root/ctx/entry in %+v", k)
	}
	sb, err := newSandboxLayout(P, obsLayout)
	if err != nil {
		return "", "", "", "", err
	}
	defer os.RemoveAll(sb.B)
	w, err := newObsWorker(sb)
	defer w.watch.close()
	if err != nil {
		return "", "", "", "", err
	}
	cwd := sb.m.base.parent
	loc := sb.expand(k.Loc)
	vd, L, execL, _ := w.obsVerdict(sub, cwd, rc, cx, loc, false)
	o := w.execObserved(w.libFor(sub, rc), cx, execL, entry, loc)
	kind, _, expected = judgeObs(sub, &vd, entry, &o)
	if kind != "" {
		class = obsClass(sub, kind, sb, cwd.realPath(), rc, cx, L, loc, &o)
	}
	return kind, class, expected, sb.template(o.text(entry)) + " model=" + vd.desc, nil
}

// obsParent creates the common parent directory of the private layouts and moves the process into it.
func obsParent() (P string, restore func(), err error) {
	orig, err := os.Getwd()
	if err != nil {
		return "", nil, err
	}
	P, err = os.MkdirTemp(privTempBase(), "c20o-")
	if err != nil {
		return "", nil, err
	}
	restore = func() {
		_ = os.Chdir(orig)
		_ = os.RemoveAll(P)
	}
	if P, err = realBase(P); err == nil {
		err = os.Chdir(P)
	}
	if err != nil {
		restore()
		return "", nil, err
	}
	return P, restore, nil
}

func replayObs(k kase, v core.Violation) (bool, string) {
	P, restore, err := obsParent()
	if err != nil {
		return false, err.Error()
	}
	defer restore()
	kind, class, expected, got, err := runObsKase(P, k)
	if err != nil {
		return false, err.Error()
	}
	rep := fmt.Sprintf("case: %+v\nprivate layout under %s (recreated; $B = the layout, $W = its directory name, working directory = its parent)\nexpected: %s\ngot: %s\nviolation kind: %q class: %q (recorded class %q)",
		k, P, expected, got, kind, class, v.Class)
	return kind != "" && class == v.Class, rep
}

// ---------------------------------------------------------------------------
// the run

func (d *drv) handleObs(P string, w *worker, sub string, ph *phaseCfg, cwd *node, rc *rootCfg, cx *ctxCfg, entry int, L, loc string, vd *verdict, o *obs) {
	kind, oclass, expected := judgeObs(sub, vd, entry, o)
	ok := outKey{"observe-" + sub, entryNames[entry], vd.desc, oclass}
	first := w.outcomes[ok] == 0
	w.outcomes[ok]++
	if kind == "" {
		if first && reachesOutsideObject(vd) {
			d.maybeSampleObs(w.sb, sub, rc, cx, entry, loc, vd, oclass, o)
		}
		return
	}
	class := obsClass(sub, kind, w.sb, cwd.realPath(), rc, cx, L, loc, o)
	d.mu.Lock()
	d.vioSeen[class]++
	n := d.vioSeen[class]
	d.mu.Unlock()
	if n > 3 {
		return
	}
	got := w.sb.template(o.text(entry))
	k := kase{Part: "observe", Phase: ph.ID, Root: rc.ID, Ctx: cx.ID, Entry: entryNames[entry], Loc: w.sb.template(loc),
		RootSpelling: rc.Spelling, Loader: w.sb.template(L), Model: vd.desc}
	rep := 0
	for i := 0; i < 5; i++ {
		k2, c2, _, _, err := runObsKase(P, k)
		if err == nil && k2 == kind && c2 == class {
			rep++
		}
	}
	if rep < 5 {
		d.r.Flaky(map[string]any{"case": k, "class": class, "reproduced": rep, "of": 5, "got": got})
		return
	}
	d.r.Violate("c20", class, k, expected, got, "model: "+vd.desc+"; $B = the private layout, $W = its directory name, working directory = its parent")
}

func (d *drv) maybeSampleObs(sb *sandbox, sub string, rc *rootCfg, cx *ctxCfg, entry int, loc string, vd *verdict, oclass string, o *obs) {
	key := "observe-" + sub + "|" + vd.desc + "|" + oclass
	d.mu.Lock()
	defer d.mu.Unlock()
	if _, ok := d.samples[key]; ok {
		return
	}
	n := 0
	for k := range d.samples {
		if strings.HasPrefix(k, "observe-") {
			n++
		}
	}
	if n >= 3 {
		return // the evidence shows 12 samples in all; leave room for the other parts
	}
	d.samples[key] = map[string]any{"part": "observe-" + sub, "root": rc.Spelling, "ctx": cx.ID, "entry": entryNames[entry],
		"loc": sb.template(loc), "model": vd.desc, "may_serve": vd.accept, "observed": oclass, "outside_objects_touched": len(o.touched), "got": sb.template(o.text(entry))}
}

func (d *drv) runObserve(tot map[string]int64, info map[string]int64, mu *sync.Mutex) {
	r := d.r
	// quick: every sequence of <= 2 components over the 24-component alphabet and of 3 over the 10-component
	// sub-alphabet; thorough: <= 3 and 4.
	full, deep := 2, 3
	if r.Thorough() {
		full, deep = 3, 4
	}
	sp := newSeqSpaceOver(full, deep, obsSigma, obsSigmaDeep)
	var extra []string
	for _, e := range obsExtra {
		s := e.Path
		switch e.Kind {
		case kFifo:
			s += " (named pipe)"
		case kDir:
			s += "/"
		case kLink:
			s += " -> " + e.Data
		}
		extra = append(extra, s)
	}
	var rootIDs []string
	for _, rc := range obsPhase.Roots {
		rootIDs = append(rootIDs, "RelativeFileSystemLibrary root="+rc.Spelling)
	}
	rootIDs = append(rootIDs, "NewRootedFSLibrary($B/root), plain and slash-rooted loader locations")
	r.Bound("observe_layout_additions", extra)
	r.Bound("observe_component_alphabet", obsSigma)
	r.Bound("observe_component_alphabet_longest_sequences", obsSigmaDeep)
	r.Bound("observe_max_components", deep)
	r.Bound("observe_max_components_over_full_alphabet", full)
	r.Bound("observe_component_sequences", sp.total)
	r.Bound("observe_rfl_forms", formIDs(obsRflForms))
	r.Bound("observe_libraries", rootIDs)
	r.Assume("part eight (read observation): every worker runs in a private copy of the layout; 'opened' = an inotify IN_OPEN event on an outside regular file or on the outside directory dir.lisp, or a successful " +
		"open(O_WRONLY|O_NONBLOCK) of the outside named pipe while the load runs (possible only if somebody opened it for reading); 'read' = an IN_ACCESS event. stat/lstat/readlink of outside objects " +
		"(path resolution) and opening outside directories that are merely passed through are NOT judged. lisp.FSLibrary over os.DirFS is documented not to confine and is not part of this family")

	P, restore, err := obsParent()
	if err != nil {
		r.Violate("c20", "harness:private-layouts", nil, "parent directory of the private layouts", err.Error(), "")
		return
	}
	defer restore()

	var workers []*worker
	mkWorker := func(id int) *worker {
		sb, err := newSandboxLayout(P, obsLayout)
		if err != nil {
			r.Violate("c20", "harness:private-layouts", nil, "private layout created", err.Error(), "")
			return nil
		}
		w, err := newObsWorker(sb)
		mu.Lock()
		if err != nil {
			info["observe: inotify unavailable ("+err.Error()+"): only the named pipe is observed"]++
			r.Cap("read observation: inotify unavailable (" + err.Error() + "), outside regular files and directories were not observed by every worker")
		}
		workers = append(workers, w)
		mu.Unlock()
		return w
	}
	runPhase := func(ph *phaseCfg, sub string, forms []formCfg) {
		var fams []string
		byFam := map[string][]*rootCfg{}
		for i := range ph.Roots {
			rc := &ph.Roots[i]
			key := rc.Family
			if sub == "fs" {
				key = rc.ID // the loader spelling is part of the configuration there
			}
			if _, ok := byFam[key]; !ok {
				fams = append(fams, key)
			}
			byFam[key] = append(byFam[key], rc)
		}
		n := sp.total * int64(len(forms))
		first := len(workers)
		core.ParallelRange(r, n, mkWorker, func(w *worker, i int64) {
			if w == nil {
				return
			}
			sb := w.sb
			cwd := sb.m.base.parent
			p := sp.at(i / int64(len(forms)))
			f := forms[i%int64(len(forms))]
			loc := sb.expand(f.Pre) + p + f.Suf
			for ci := range contexts {
				cx := &contexts[ci]
				for _, fam := range fams {
					rc0 := byFam[fam][0]
					if sub == "fs" && cx.Rel == "" && rc0.Family != "" {
						continue // top level has no loader location to spell differently
					}
					vd, L, execL, herr := w.obsVerdict(sub, cwd, rc0, cx, loc, !cx.Chain)
					w.traces++
					if herr != nil {
						r.Violate("c20", herr.class, kase{Part: "observe", Phase: ph.ID, Ctx: cx.ID, Loc: sb.template(loc), Loader: sb.template(L)}, sb.template(herr.expected), sb.template(herr.got), "harness self-check")
					}
					if reachesOutsideObject(&vd) {
						r.Nontrivial("observe|" + sub + "|" + cx.ID + "|" + fam + "|" + sb.template(loc))
					}
					for _, rc := range byFam[fam] {
						for e := 0; e < nEntries; e++ {
							if cx.Chain && e == eLoadSource {
								continue
							}
							o := w.execObserved(w.libFor(sub, rc), cx, execL, e, loc)
							w.evals++
							if mentionsPipe(loc) {
								w.info["observe: loads run under the named-pipe rendezvous"]++
							}
							d.handleObs(P, w, sub, ph, cwd, rc, cx, e, L, loc, &vd, &o)
						}
					}
				}
			}
		})
		for _, w := range workers[first:] {
			if w == nil {
				continue
			}
			// the harness's own control: an unconfined read of an outside file IS recorded by this worker's watches
			if w.watch != nil {
				_, _ = os.ReadFile(w.sb.B + "/outside/secret.lisp")
				if ev := w.watch.drain(); len(ev) == 2 {
					info["observe: control read of an outside file recorded as open+read by the worker's watches"]++
				} else {
					r.Violate("c20", "harness:recorder-blind", nil, "open and read events for an unconfined os.ReadFile of $B/outside/secret.lisp", fmt.Sprint(ev), "harness self-check")
				}
			}
			w.flush(r, tot, info, mu)
			w.watch.close()
			_ = os.RemoveAll(w.sb.B)
		}
		r.AddStates(n)
	}
	runPhase(&obsPhase, "rfl", obsRflForms)
	if !r.Expired() && !r.Saturated() {
		runPhase(&obsFsPhase, "fs", fsForms)
	}
}
