package c20

// Part four: the process working directory as an explored dimension.
//
// The working directory is entered plainly (root, a sub-directory, a directory
// outside the root) or THROUGH A SYMBOLIC LINK (inside->outside,
// outside->inside, inside->inside), with $PWD holding the logical path (what a
// shell, or os.Chdir + os.Setenv("PWD", ...), leaves behind: os.Getwd then
// answers with the LOGICAL path) and with $PWD unset (os.Getwd answers with
// the physical path).  For each such directory the location alphabet is run
// against absolute and relative spellings of the root (".", "..", "../root",
// a relative path through a symlink, a relative path to a sub-directory root),
// relative and absolute locations, with and without a loading-file context,
// through all four entry points.
//
// The oracle is unchanged and knows nothing about $PWD: the model resolves a
// relative string from the PHYSICAL working directory, exactly as the kernel
// does, and a served file's real path must lie under the real root.
//
// chdir and the environment are process-global, so the configurations run one
// after the other; the workers of one configuration share it.

import (
	"fmt"
	"os"
	"strings"
	"sync"

	"verif/mc/core"
)

type cwdCfg struct {
	ID      string
	Logical string // how the directory is entered, relative to B (may pass through a symlink)
	PWD     string // "logical": $PWD = B/<Logical>; "unset": no $PWD
	Kind    string // plain | symlink-logical | symlink-unset (class component)
}

var cwdCfgs = []cwdCfg{
	{"root", "root", "logical", "plain"},
	{"sub", "root/sub", "unset", "plain"},
	{"outside", "outside", "logical", "plain"},
	{"in->out:root/dlnk_out,PWD=logical", "root/dlnk_out", "logical", "symlink-logical"},
	{"in->out:root/dlnk_out,PWD=unset", "root/dlnk_out", "unset", "symlink-unset"},
	{"out->in:outside/back,PWD=logical", "outside/back", "logical", "symlink-logical"},
	{"out->in:outside/back,PWD=unset", "outside/back", "unset", "symlink-unset"},
	{"out->in:outside/back/sub,PWD=logical", "outside/back/sub", "logical", "symlink-logical"},
	{"in->in:root/dlnk_in,PWD=logical", "root/dlnk_in", "logical", "symlink-logical"},
	{"in->in:root/dlnk_in,PWD=unset", "root/dlnk_in", "unset", "symlink-unset"},
	{"in->in:root/dl2,PWD=logical", "root/dl2", "logical", "symlink-logical"},
}

func cwdCfgByID(id string) *cwdCfg {
	for i := range cwdCfgs {
		if cwdCfgs[i].ID == id {
			return &cwdCfgs[i]
		}
	}
	return nil
}

// enterCwd moves the process into the configuration and returns the model
// node of the PHYSICAL directory and a function restoring $PWD and the
// directory.
func (sb *sandbox) enterCwd(c *cwdCfg) (restore func(), phys *node, err error) {
	r := sb.m.walk(sb.m.base, c.Logical)
	if r.kind != rDir {
		return nil, nil, fmt.Errorf("harness: working directory %s is not a directory of the model", c.Logical)
	}
	oldPWD, hadPWD := os.LookupEnv("PWD")
	restore = func() {
		if hadPWD {
			_ = os.Setenv("PWD", oldPWD)
		} else {
			_ = os.Unsetenv("PWD")
		}
		_ = os.Chdir(sb.B)
	}
	logical := sb.B + "/" + c.Logical
	if err = os.Chdir(logical); err != nil {
		return restore, nil, err
	}
	want := logical
	if c.PWD == "logical" {
		err = os.Setenv("PWD", logical)
	} else {
		err = os.Unsetenv("PWD")
		want = r.node.realPath()
	}
	if err != nil {
		return restore, nil, err
	}
	// harness self-check: os.Getwd must answer as the configuration intends
	if got, gerr := os.Getwd(); gerr != nil || got != want {
		return restore, nil, fmt.Errorf("harness: os.Getwd() = %q, %v; the configuration %s wants %q", got, gerr, c.ID, want)
	}
	return restore, r.node, nil
}

// relPath is the lexical relative path from directory `from` to `to`; both are
// model nodes, i.e. real, symlink-free paths, so the result is exact.
func relPath(from, to *node) string {
	var a, b []*node
	for x := from; x != nil; x = x.parent {
		a = append([]*node{x}, a...)
	}
	for x := to; x != nil; x = x.parent {
		b = append([]*node{x}, b...)
	}
	i := 0
	for i < len(a) && i < len(b) && a[i] == b[i] {
		i++
	}
	var parts []string
	for j := i; j < len(a); j++ {
		parts = append(parts, "..")
	}
	for j := i; j < len(b); j++ {
		parts = append(parts, b[j].name)
	}
	if len(parts) == 0 {
		return "."
	}
	return strings.Join(parts, "/")
}

// cwdRoot is a root spelling valid in one working directory.
type cwdRoot struct {
	rootCfg
	node *node  // the real root directory
	Kind string // abs | rel (class component)
}

func (sb *sandbox) cwdRoots(phys *node) []cwdRoot {
	root, sub := sb.rootN, sb.rootN.children["sub"]
	relRoot, relSub, relB := relPath(phys, root), relPath(phys, sub), relPath(phys, sb.m.base)
	return []cwdRoot{
		{rootCfg{"abs", "$B/root", "$B/root"}, root, "abs"},
		{rootCfg{"abs-via-symlink", "$B/rootlink", "$B/root"}, root, "abs"},
		{rootCfg{"abs-sub", "$B/root/sub", "$B/root/sub"}, sub, "abs"},
		{rootCfg{"rel", relRoot, relRoot}, root, "rel"},
		{rootCfg{"rel-via-symlink", lexClean(relB + "/rootlink"), relRoot}, root, "rel"},
		{rootCfg{"rel-sub", relSub, relSub}, sub, "rel"},
	}
}

// cwdSigma is the component alphabet of part four: what climbs, what names a
// file in every directory, and the directories and links that lead out.
var cwdSigma = []string{"..", ".", "in.lisp", "secret.lisp", "sub", "root", "outside", "lnk_out", "dlnk_out", "up"}

var cwdForms = []formCfg{
	{"relative", "", ""},
	{"abs-under-root", "$B/root/", ""},
	{"abs-outside", "$B/", ""},
}

func cwdSeqSpace(n int) *seqSpace {
	sp := &seqSpace{}
	for k := 1; k <= n; k++ {
		b := seqBlock{Len: k, Alpha: cwdSigma, n: 1}
		for j := 0; j < k; j++ {
			b.n *= int64(len(cwdSigma))
		}
		sp.blocks = append(sp.blocks, b)
		sp.total += b.n
	}
	return sp
}

// cwdContexts: no loading file, a loading file in the root, one in sub.
func cwdContexts() []*ctxCfg {
	var out []*ctxCfg
	for i := range contexts {
		switch contexts[i].ID {
		case "top", "root-file", "sub-file":
			out = append(out, &contexts[i])
		}
	}
	return out
}

// cwdLoader returns the loader location for context cx under root rt ("" at
// top level; ok=false when the loading file is not inside that root).
func (sb *sandbox) cwdLoader(rt *cwdRoot, cx *ctxCfg) (L string, ok bool) {
	if cx.Rel == "" {
		return "", true
	}
	rel := cx.RealRel
	if rt.node != sb.rootN {
		var in bool
		if rel, in = strings.CutPrefix(rel, "sub/"); !in {
			return "", false
		}
	}
	return loaderLoc(sb.expand(rt.Family), rel), true
}

// retag renames a file id by its position relative to `root` (the marks in
// the files are relative to B/root; a sub-directory root makes some of them
// outside).
func (sb *sandbox) retag(id string, root *node) string {
	i := strings.IndexByte(id, ':')
	if i < 0 || root == sb.rootN {
		return id
	}
	r := sb.m.walk(sb.m.base, id[i+1:])
	if r.kind == rFile && r.node.under(root) {
		return tagInside + id[i:]
	}
	return tagOutside + id[i:]
}

func cwdClass(kind string, rt *cwdRoot, c *cwdCfg) string {
	return "cwd:rfl:" + kind + ":root=" + rt.Kind + ":cwd=" + c.Kind
}

// cwdCase runs and judges one case of part four.
func (w *worker) cwdCase(c *cwdCfg, phys *node, rt *cwdRoot, cx *ctxCfg, L string, entry int, loc string, vd *verdict) (o obs, kind, oclass, expected string) {
	o = w.exec(w.libFor("rfl", &rt.rootCfg), cx, L, entry, loc)
	for i := range o.served {
		o.served[i] = w.sb.retag(o.served[i], rt.node)
	}
	kind, oclass, expected = judge("rfl", false, vd, entry, &o)
	return
}

func (sb *sandbox) cwdVerdict(phys *node, rt *cwdRoot, L, loc string, kernel bool) (verdict, *harnessErr) {
	vd, herr := sb.rflVerdictRoot(phys, rt.node, L, "", loc, kernel)
	for i := range vd.accept {
		vd.accept[i] = sb.retag(vd.accept[i], rt.node)
	}
	return vd, herr
}

func runCwdKase(sb *sandbox, phys *node, k kase) (kind, class, expected, got string, err error) {
	c := cwdCfgByID(k.Phase)
	if c == nil {
		return "", "", "", "", fmt.Errorf("unknown working-directory configuration %q", k.Phase)
	}
	var rt *cwdRoot
	roots := sb.cwdRoots(phys)
	for i := range roots {
		if roots[i].ID == k.Root {
			rt = &roots[i]
		}
	}
	var cx *ctxCfg
	for _, x := range cwdContexts() {
		if x.ID == k.Ctx {
			cx = x
		}
	}
	entry := -1
	for i, n := range entryNames {
		if n == k.Entry {
			entry = i
		}
	}
	if rt == nil || cx == nil || entry < 0 {
		return "", "", "", "", fmt.Errorf("unknown root/ctx/entry in %+v", k)
	}
	L, ok := sb.cwdLoader(rt, cx)
	if !ok {
		return "", "", "", "", fmt.Errorf("loading file of %s is outside root %s", cx.ID, rt.ID)
	}
	loc := sb.expand(k.Loc)
	vd, _ := sb.cwdVerdict(phys, rt, L, loc, false)
	w := newWorker(sb)
	o, kind, _, expected := w.cwdCase(c, phys, rt, cx, L, entry, loc, &vd)
	if kind != "" {
		class = cwdClass(kind, rt, c)
	}
	return kind, class, expected, o.text(entry) + " model=" + vd.desc, nil
}

func (d *drv) runCwd(tot map[string]int64, info map[string]int64, mu *sync.Mutex) {
	r, sb := d.r, d.sb
	N := 2
	if r.Thorough() {
		N = 3
	}
	sp := cwdSeqSpace(N)
	n := sp.total * int64(len(cwdForms))
	var ids []string
	for _, c := range cwdCfgs {
		ids = append(ids, c.ID)
	}
	r.Bound("cwd_configurations", ids)
	r.Bound("cwd_component_alphabet", cwdSigma)
	r.Bound("cwd_max_components", N)
	r.Bound("cwd_location_strings", n)
	r.Bound("cwd_root_spellings", []string{"$B/root", "$B/rootlink", "$B/root/sub", "<relative path to root: . | .. | ../root | ../..>", "<relative path through rootlink>", "<relative path to root/sub: sub | . | ../root/sub | ..>"})
	r.Bound("cwd_contexts", []string{"top", "root-file", "sub-file"})
	r.Assume("part four: the oracle ignores $PWD - a relative string is resolved from the PHYSICAL working directory, as the kernel does; the configurations run one after the other because chdir and the environment are process-global")
	ctxs := cwdContexts()
	for ci := range cwdCfgs {
		if r.Expired() || r.Saturated() {
			break
		}
		c := &cwdCfgs[ci]
		restore, phys, err := sb.enterCwd(c)
		if err != nil {
			if restore != nil {
				restore()
			}
			r.Violate("c20", "harness:cwd", kase{Part: "cwd", Phase: c.ID}, "working directory entered", err.Error(), "")
			continue
		}
		roots := sb.cwdRoots(phys)
		var workers []*worker
		core.ParallelRange(r, n, func(id int) *worker {
			w := newWorker(sb)
			mu.Lock()
			workers = append(workers, w)
			mu.Unlock()
			return w
		}, func(w *worker, i int64) {
			p := sp.at(i / int64(len(cwdForms)))
			f := cwdForms[i%int64(len(cwdForms))]
			loc := sb.expand(f.Pre) + p + f.Suf
			for _, cx := range ctxs {
				for ri := range roots {
					rt := &roots[ri]
					L, ok := sb.cwdLoader(rt, cx)
					if !ok {
						continue
					}
					vd, herr := sb.cwdVerdict(phys, rt, L, loc, ri == 0)
					w.traces++
					if herr != nil {
						r.Violate("c20", herr.class, kase{Part: "cwd", Phase: c.ID, Root: rt.ID, Ctx: cx.ID, Loc: sb.template(loc), Loader: sb.template(L)}, sb.template(herr.expected), sb.template(herr.got), "harness self-check")
					}
					if vd.nontrivial && ri == 0 {
						r.Nontrivial("cwd|" + c.Logical + "|" + cx.ID + "|" + sb.template(loc))
					}
					for e := 0; e < nEntries; e++ {
						o, kind, oclass, expected := w.cwdCase(c, phys, rt, cx, L, e, loc, &vd)
						w.evals++
						ok := outKey{"cwd", entryNames[e], vd.desc, oclass}
						first := w.outcomes[ok] == 0
						w.outcomes[ok]++
						if kind == "" {
							if first {
								d.maybeSample("cwd", &phaseCfg{ID: c.ID}, &rt.rootCfg, cx, e, loc, &vd, oclass, &o)
							}
							continue
						}
						class := cwdClass(kind, rt, c)
						d.mu.Lock()
						d.vioSeen[class]++
						seen := d.vioSeen[class]
						d.mu.Unlock()
						if seen > 3 {
							continue
						}
						k := kase{Part: "cwd", Phase: c.ID, Root: rt.ID, Ctx: cx.ID, Entry: entryNames[e], Loc: sb.template(loc),
							RootSpelling: rt.Spelling, Loader: sb.template(L), Model: vd.desc}
						got := sb.template(o.text(e))
						rep := 0
						for j := 0; j < 5; j++ {
							k2, c2, _, _, err := runKase(sb, phys, k)
							if err == nil && k2 == kind && c2 == class {
								rep++
							}
						}
						if rep < 5 {
							r.Flaky(map[string]any{"case": k, "class": class, "reproduced": rep, "of": 5, "got": got})
							continue
						}
						r.Violate("c20", class, k, expected, got, fmt.Sprintf("working directory entered as $B/%s (physical %s), $PWD %s; model: %s", c.Logical, sb.template(phys.realPath()), c.PWD, vd.desc))
					}
				}
			}
		})
		restore()
		for _, w := range workers {
			w.flush(r, tot, info, mu)
		}
		r.AddStates(n)
	}
}
