package c20

// Part nine: SEVERAL loads issued from ONE form of a loading file.
//
// For every form below root/m-<form>.lisp, root/sub/m-<form>.lisp and
// root/sub/deep/m-<form>.lisp exist on disk (and in the MapFS).  Each evaluates
// its own mark and then ONE top-level form which performs 2..3 loads without a
// freshly evaluated call expression per load: a builtin applies the load
// primitive to the elements of a list of locations
//
//	(map 'list load-file LOCS)   (select ...) (all? ...) (foldl ...) (foldr ...)
//	(apply map 'list load-file (list LOCS))   (funcall map 'list load-file LOCS)
//	a variable holding the primitive, a lambda calling it, apply / funcall of it
//	inside a lambda, a host builtin looping over env.LoadFile / LoadFileContext
//
// (oneShapes; LOCS is handed over by a host builtin, the call expressions are
// written in the file).  The load primitive is load-file or a host builtin
// calling env.LoadFile / env.LoadFileContext from wherever the call sits, as in
// chain.go.  A case is
//
//	library configuration x entry point {env.LoadFile, env.LoadFileContext, (load-file ...) from a string}
//	  -> <dir>/m-<form>.lisp                    dir in {root, sub, sub/deep}, form = shape x primitive
//	  -> a sequence of 2..3 locations: the first over every directory x the
//	     spellings of chain.go plus the bare sibling, "../" sibling and child
//	     directory; the later ones a sibling, a "../" sibling, a subdirectory or
//	     a plain file of each directory.  Every directory holds its own in.lisp,
//	     so a location resolved against the directory of a file loaded EARLIER
//	     from the same form (instead of the directory of the loading file) yields a
//	     different mark, a refusal, or an outside file.
//
// Model: every location of the sequence is resolved from the true location of
// the loading file (in which the call expression is written), whatever was
// loaded before it from the same form.  An error ends the form, so the sequence
// is judged up to the first load that serves nothing.  Oracle: the mark
// evaluated at every position against the model verdict of that position,
// confinement as elsewhere, and form independence: the same loads written as
// separate top-level forms of the same file must evaluate the same files.

import (
	"context"
	"fmt"
	"strconv"
	"strings"
	"sync"

	"github.com/luthersystems/elps/lisp"

	"verif/mc/core"
)

const (
	tagMulti  = "multi" // inside; content performs the loads of a one-form case
	symMAt    = "c20-m-at?"
	symMLocs  = "c20-mlocs"
	symMLoc   = "c20-mloc"
	oneSepID  = "separate-forms"
	oneMaxLen = 3
)

// onePrims: the load primitive as written in the file, and its name in artefacts.
var onePrims = []struct{ Fn, Prim string }{
	{"load-file", "load-file"},
	{symGoLoad, "go-LoadFile"},
	{symGoLoadCtx, "go-LoadFileContext"},
}

// oneShape is a way for one form to issue several loads.  {F} is the load
// primitive, {L} the expression yielding the list of locations.  GoOnly: the
// shape needs a host builtin (two-argument fold step, host loop).
type oneShape struct {
	ID, Tpl string
	GoOnly  bool
}

var oneShapes = []oneShape{
	// a builtin applies the primitive itself
	{"map-list", "(map 'list {F} {L})", false},
	{"map-vector", "(map 'vector {F} {L})", false},
	{"select", "(select 'list {F} {L})", false},
	{"all?", "(all? {F} {L})", false},
	{"foldl", "(foldl {F}-acc () {L})", true},
	{"foldr", "(foldr {F}-racc () (reverse 'list {L}))", true},
	{"apply-map", "(apply map 'list {F} (list {L}))", false},
	{"funcall-map", "(funcall map 'list {F} {L})", false},
	{"global-variable-map", "(progn (set 'c20-fv {F}) (map 'list c20-fv {L}))", false},
	{"host-loop", "({F}-each {L})", true},
	// the primitive is called from a lambda / a child scope
	{"map-lambda", "(map 'list (lambda (l) ({F} l)) {L})", false},
	{"map-lambda-apply", "(map 'list (lambda (l) (apply {F} (list l))) {L})", false},
	{"let-variable-map", "(let ([f {F}]) (map 'list f {L}))", false},
	{"let-variable-funcall", "(let ([f {F}]) (map 'list (lambda (l) (funcall f l)) {L}))", false},
	{"foldl-lambda", "(foldl (lambda (acc l) ({F} l)) () {L})", false},
	{"foldr-lambda", "(foldr (lambda (l acc) ({F} l)) () (reverse 'list {L}))", false},
	{"function-body-map", "(progn (defun c20-mf (ls) (map 'list {F} ls)) (c20-mf {L}))", false},
}

// oneForm is a (shape, primitive) pair; ID names it in artefacts and (File) on disk.
type oneForm struct {
	ID    string
	Shape string
	Prim  int
}

// oneForms lists the forms: per primitive the separate-forms baseline first,
// then the shapes in table order.
func oneForms() []oneForm {
	var out []oneForm
	for pi, p := range onePrims {
		out = append(out, oneForm{oneSepID + ":" + p.Prim, oneSepID, pi})
		for _, s := range oneShapes {
			if s.GoOnly && pi == 0 {
				continue
			}
			out = append(out, oneForm{s.ID + ":" + p.Prim, s.ID, pi})
		}
	}
	return out
}

// File is the name of the loading file that holds the form (one per directory).
func (f *oneForm) File() string {
	return "m-" + strings.NewReplacer(":", "-", "?", "p").Replace(f.ID) + ".lisp"
}

// oneLayout: every form's loading file in every directory.
func oneLayout() []layoutEnt {
	var out []layoutEnt
	for _, d := range oneDirs {
		for _, f := range oneForms() {
			out = append(out, layoutEnt{"root/" + fileIn(d, f.File()), kFile, tagMulti + ":" + f.ID})
		}
	}
	return out
}

// multiContent is the text of form id's loading file after its mark: the form,
// as a genuine top-level form.  The separate-forms baseline is one top-level
// form per load (the third only when the case has a third location).
func multiContent(id string) string {
	f := oneFormByID(id)
	if f == nil {
		panic("harness: unknown one-form id " + id)
	}
	fn := onePrims[f.Prim].Fn
	if f.Shape == oneSepID {
		var b strings.Builder
		for i := 0; i < oneMaxLen; i++ {
			n := strconv.Itoa(i)
			call := "(" + fn + " (" + symMLoc + " " + n + "))"
			if i >= 2 {
				call = "(if (" + symMAt + " " + n + ") " + call + " ())"
			}
			b.WriteString(call + "\n")
		}
		return b.String()
	}
	for _, s := range oneShapes {
		if s.ID == f.Shape {
			return strings.ReplaceAll(strings.ReplaceAll(s.Tpl, "{F}", fn), "{L}", "("+symMLocs+")") + "\n"
		}
	}
	panic("harness: unknown one-form shape " + f.Shape)
}

// oneFormBuiltins are the host builtins the m-<form>.lisp files use.
func (w *worker) oneFormBuiltins() []lisp.LBuiltinDef {
	goload := func(env *lisp.LEnv, withCtx bool, loc *lisp.LVal) *lisp.LVal {
		if loc.Type != lisp.LString {
			return env.Errorf("c20: location is not a string: %v", loc.Type)
		}
		if withCtx {
			return env.LoadFileContext(context.Background(), loc.Str)
		}
		return env.LoadFile(loc.Str)
	}
	defs := []lisp.LBuiltinDef{
		bdef{symMAt, lisp.Formals("i"), func(env *lisp.LEnv, args *lisp.LVal) *lisp.LVal {
			return lisp.Bool(args.Cells[0].Int < len(w.mlocs))
		}},
		bdef{symMLocs, lisp.Formals(), func(env *lisp.LEnv, args *lisp.LVal) *lisp.LVal {
			cells := make([]*lisp.LVal, len(w.mlocs))
			for i, l := range w.mlocs {
				cells[i] = lisp.String(l)
			}
			return lisp.QExpr(cells)
		}},
		bdef{symMLoc, lisp.Formals("i"), func(env *lisp.LEnv, args *lisp.LVal) *lisp.LVal {
			i := args.Cells[0].Int
			if args.Cells[0].Type != lisp.LInt || i < 0 || i >= len(w.mlocs) {
				return env.Errorf("c20: no location %v in this case", args.Cells[0])
			}
			return lisp.String(w.mlocs[i])
		}},
	}
	for _, v := range []struct {
		name string
		ctx  bool
	}{{symGoLoad, false}, {symGoLoadCtx, true}} {
		v := v
		defs = append(defs,
			// fold steps: foldl calls (f acc element), foldr calls (f element acc)
			bdef{v.name + "-acc", lisp.Formals("acc", "loc"), func(env *lisp.LEnv, args *lisp.LVal) *lisp.LVal {
				return goload(env, v.ctx, args.Cells[1])
			}},
			bdef{v.name + "-racc", lisp.Formals("loc", "acc"), func(env *lisp.LEnv, args *lisp.LVal) *lisp.LVal {
				return goload(env, v.ctx, args.Cells[0])
			}},
			// a host function that performs every load itself, stopping at the first error
			bdef{v.name + "-each", lisp.Formals("locs"), func(env *lisp.LEnv, args *lisp.LVal) *lisp.LVal {
				ret := lisp.Nil()
				for _, c := range args.Cells[0].Cells {
					ret = goload(env, v.ctx, c)
					if ret.Type == lisp.LError {
						return ret
					}
				}
				return ret
			}},
		)
	}
	return defs
}

// ---------------------------------------------------------------------------
// the enumerated space

var oneDirs = []string{"", "sub", "sub/deep"}

func oneInSpelling(dir, kind int) string {
	plain := []string{"in.lisp", "sub/in.lisp", "sub/deep/in.lisp"}[dir]
	switch kind {
	case 1:
		return []string{"sub/up/in.lisp", "dlnk_in/in.lisp", "dl2/in.lisp"}[dir]
	case 2:
		return "./" + plain
	case 3:
		return "sub/../" + plain
	}
	return plain
}

func oneMainSpelling(dir, kind int, f *oneForm) string {
	return strings.TrimSuffix(oneInSpelling(dir, kind), "in.lisp") + f.File()
}

func appendUniq(s []string, x string) []string {
	for _, y := range s {
		if y == x {
			return s
		}
	}
	return append(s, x)
}

// oneAlphabets returns the location alphabets of a loading file in directory dir
// whose way back to the root is `back`: later = the bare sibling, the "../"
// sibling, the child directory's file and the plain file of every directory;
// first = later plus every directory's file under the other spellings.
func oneAlphabets(dir int, back string) (first, later []string) {
	later = []string{"in.lisp", "../in.lisp"}
	if child := []string{"sub/in.lisp", "deep/in.lisp", ""}[dir]; child != "" {
		later = appendUniq(later, child)
	}
	for d := 0; d < 3; d++ {
		later = appendUniq(later, back+oneInSpelling(d, 0))
	}
	first = append([]string(nil), later...)
	for d := 0; d < 3; d++ {
		for k := 1; k < len(chainSpellKinds); k++ {
			first = appendUniq(first, back+oneInSpelling(d, k))
		}
	}
	return first, later
}

type oneItem struct {
	cfg   int
	entry string // entry-point primitive
	dir   int    // directory of the loading file
	spell int    // spelling of the entry location
	seq   []string
}

// genOneItems enumerates the cases, shortest sequences first.
func (sb *sandbox) genOneItems(cfgs []histCfg, cwd *node, thorough bool) []oneItem {
	spells := []int{0}
	if thorough {
		spells = []int{0, 1}
	}
	rep := &oneForms()[0] // the loading files of a directory are siblings: any of them tells whether the spelling is served
	var out []oneItem
	for length := 2; length <= oneMaxLen; length++ {
		for ci := range cfgs {
			cfg := &cfgs[ci]
			fam := scopeFamily(sb, cfg)
			for _, e := range chainEntryPrims {
				for dir := range oneDirs {
					for _, sp := range spells {
						L0, ok := sb.chainTrueLoc(cfg, cwd, "", loaderLoc(fam, oneMainSpelling(dir, sp, rep)))
						if !ok {
							continue // the model does not serve the loading file under this spelling (no links in a MapFS)
						}
						first, later := oneAlphabets(dir, sb.chainBack(cfg, L0))
						// quick: sequences of 3 start in the reduced alphabet; thorough: the first TWO range over the full one
						a0, a1 := first, later
						if length == 3 && !thorough {
							a0 = later
						}
						if thorough {
							a1 = first
						}
						base := oneItem{cfg: ci, entry: e, dir: dir, spell: sp}
						for _, x := range a0 {
							for _, y := range a1 {
								if length == 2 {
									it := base
									it.seq = []string{x, y}
									out = append(out, it)
									continue
								}
								for _, z := range later {
									it := base
									it.seq = []string{x, y, z}
									out = append(out, it)
								}
							}
						}
					}
				}
			}
		}
	}
	return out
}

// ---------------------------------------------------------------------------
// running and judging

// runOneForm enters the loading file at req through the entry point and
// returns the marks in evaluation order.
func (w *worker) runOneForm(cfg *histCfg, entry, req string, locs []string) (marks []string, panicked string) {
	lib := w.libFor(cfg.Part, cfg.Root)
	w.marks = w.marks[:0]
	w.asked = w.asked[:0]
	w.chain = nil
	w.mlocs = locs
	env := w.env
	env.Runtime.Library = lib
	func() {
		defer func() {
			if p := recover(); p != nil {
				panicked = fmt.Sprint(p)
				w.freshEnv()
			}
		}()
		switch entry {
		case "LoadFile":
			env.LoadFile(req)
		case "LoadFileContext":
			env.LoadFileContext(context.Background(), req)
		default:
			env.LoadString("test", "(load-file \""+req+"\")")
		}
	}()
	w.mlocs = nil
	if len(w.env.Runtime.Stack.Frames) != 0 {
		w.freshEnv()
	}
	return append([]string(nil), w.marks...), panicked
}

// oneModel is the model of an item: one verdict per level (0 = the entry load
// of the loading file, k = the k-th load of the form) and whether the case is
// non-trivial: some load after the first is served while an EARLIER load of the
// form was served from a directory other than that of the loading file.
type oneModel struct {
	vds        []verdict
	nontrivial bool
}

func (sb *sandbox) oneModelOf(cfg *histCfg, cwd *node, req, L0 string, seq []string) oneModel {
	var m oneModel
	m.vds = append(m.vds, sb.histVerdict(cfg, cwd, "", req))
	elsewhere := false
	for _, loc := range seq {
		vd := sb.histVerdict(cfg, cwd, L0, loc)
		m.vds = append(m.vds, vd)
		L, ok := sb.chainTrueLoc(cfg, cwd, L0, loc)
		if !ok {
			break
		}
		if elsewhere {
			m.nontrivial = true
		}
		if rawDir(L) != rawDir(L0) {
			elsewhere = true
		}
	}
	return m
}

type oneResult struct {
	kind, class, expected, got, desc string
	level                            int
	oclasses, descs                  []string
	marks                            []string
}

func onePart(cfg *histCfg) string {
	if cfg.Part == "fs" {
		return "fslib"
	}
	return "rfl"
}

// judgeOneForm runs one form of an item and judges every level.  baseline is
// the marks of the separate-forms variant ("" = this is the baseline / none).
func (w *worker) judgeOneForm(cfg *histCfg, cwd *node, m *oneModel, entry, req, L0 string, f *oneForm, seq []string, baseline *[]string) oneResult {
	sb := w.sb
	dirfs := cfg.Part == "fs" && followsLinksOut(cfg.Root.Spelling)
	p := onePart(cfg)
	marks, panicked := w.runOneForm(cfg, entry, req, seq)
	var res oneResult
	res.marks = marks
	res.got = fmt.Sprintf("files evaluated, in order: %v", marks)
	if panicked != "" {
		res.kind, res.class, res.expected, res.got = "panic", "oneform:"+p+":panic:form="+f.Shape, "no panic", "panic: "+panicked
		return res
	}
	judged := 0
	for k := range m.vds {
		vd := &m.vds[k]
		var o obs
		if k < len(marks) {
			o.served = []string{marks[k]}
		} else {
			o.isErr, o.errText = true, "(no file evaluated)"
		}
		prim, from, loc := entry, "", req
		if k > 0 {
			prim, from, loc = onePrims[f.Prim].Prim, L0, seq[k-1]
		}
		kind, oclass, expected := judge(cfg.Part, dirfs, vd, primEntry(prim), &o)
		res.oclasses = append(res.oclasses, oclass)
		res.descs = append(res.descs, vd.desc)
		judged = k + 1
		if kind != "" {
			res.kind, res.level, res.desc = kind, k, vd.desc
			res.expected = "load " + strconv.Itoa(k) + " (" + prim + " " + sb.template(loc) + " written in " + sb.template(from) + "): " + expected
			res.class = "oneform:" + p + ":" + kind + ":form=" + f.Shape
			return res
		}
		if len(o.served) == 0 {
			break
		}
	}
	if len(marks) > judged {
		res.kind, res.level, res.class = "unexpected-marks", judged, "oneform:"+p+":unexpected-marks:form="+f.Shape
		res.expected = "nothing evaluated after an error ended the form, at most one file per load"
		return res
	}
	if baseline != nil && len(marks) > 0 && len(*baseline) > 0 {
		// position 0 is the loading file's own mark (one file per form)
		bl := (*baseline)[1:]
		if got, want := strings.Join(marks[1:], ","), strings.Join(bl, ","); got != want {
			k := 0
			for k+1 < len(marks) && k < len(bl) && marks[k+1] == bl[k] {
				k++
			}
			res.kind, res.level = "form-dependent-outcome", k+1
			res.expected = "the files the same loads evaluate when each is a separate top-level form of the same file: [" + want + "]"
			res.class = "oneform:" + p + ":form-dependent-outcome:form=" + f.Shape
		}
	}
	return res
}

func oneFormByID(id string) *oneForm {
	fs := oneForms()
	for i := range fs {
		if fs[i].ID == id {
			return &fs[i]
		}
	}
	return nil
}

func runOneFormKase(sb *sandbox, cwd *node, k kase) (kind, class, expected, got string, err error) {
	var cfg *histCfg
	cfgs := scopeConfigs()
	for i := range cfgs {
		if cfgs[i].ID == k.Root {
			cfg = &cfgs[i]
		}
	}
	f := oneFormByID(k.Ctx)
	if cfg == nil || f == nil || len(k.Targets) == 0 {
		return "", "", "", "", fmt.Errorf("bad one-form case %+v", k)
	}
	req := sb.expand(k.Loc)
	L0, ok := sb.chainTrueLoc(cfg, cwd, "", req)
	if !ok {
		return "", "", "", "", fmt.Errorf("one-form case: the model does not serve the loading file %s", k.Loc)
	}
	seq := make([]string, len(k.Targets))
	for i, t := range k.Targets {
		seq[i] = sb.expand(t)
	}
	m := sb.oneModelOf(cfg, cwd, req, L0, seq)
	w := newWorker(sb)
	var base *[]string
	if f.Shape != oneSepID {
		sep := oneFormByID(oneSepID + ":" + onePrims[f.Prim].Prim)
		b, _ := w.runOneForm(cfg, k.Entry, rawDir(req)+"/"+sep.File(), seq)
		base = &b
	}
	res := w.judgeOneForm(cfg, cwd, &m, k.Entry, req, L0, f, seq, base)
	return res.kind, res.class, res.expected, res.got, nil
}

func (d *drv) runOneForms(tot map[string]int64, info map[string]int64, mu *sync.Mutex) {
	r, sb := d.r, d.sb
	cwd, err := sb.chdir("")
	if err != nil {
		r.Violate("c20", "harness:chdir", nil, "chdir", err.Error(), "")
		return
	}
	cfgs := scopeConfigs()
	items := sb.genOneItems(cfgs, cwd, r.Thorough())
	forms := oneForms()
	var shapeTexts []string
	shapeTexts = append(shapeTexts, oneSepID+": ({F} LOC0) ({F} LOC1) ... as separate top-level forms (baseline)")
	for _, s := range oneShapes {
		shapeTexts = append(shapeTexts, s.ID+": "+strings.ReplaceAll(s.Tpl, "{L}", "LOCS"))
	}
	f0, l0 := oneAlphabets(1, "../")
	r.Bound("oneform_items", len(items))
	r.Bound("oneform_forms_per_item", len(forms))
	r.Bound("oneform_shapes", shapeTexts)
	r.Bound("oneform_primitives", []string{"load-file", symGoLoad + " -> env.LoadFile", symGoLoadCtx + " -> env.LoadFileContext"})
	r.Bound("oneform_entry_points", chainEntryPrims)
	r.Bound("oneform_loading_files", []string{"root/m-<form>.lisp", "root/sub/m-<form>.lisp", "root/sub/deep/m-<form>.lisp"})
	r.Bound("oneform_sequence_lengths", []int{2, oneMaxLen})
	r.Bound("oneform_first_location_alphabet(from root/sub)", f0)
	r.Bound("oneform_later_location_alphabet(from root/sub)", l0)
	if r.Thorough() {
		r.Bound("oneform_sequences", "length 2: first x first; length 3: first x first x later; loading file entered under its plain spelling and through a directory symlink")
	} else {
		r.Bound("oneform_sequences", "length 2: first x later; length 3: later x later x later; loading file entered under its plain spelling")
	}
	r.Rule("one-form family: every (library configuration, entry point, directory of the loading file, location sequence) x every (form shape, load primitive). " +
		"Non-trivial = per the model some load after the first is served although an earlier load of the same form was served from a directory other than that of the loading file " +
		"(a base directory taken from the earlier file would name a different file); distinct by configuration, entry point, loading file and sequence")
	r.Assume("part nine: every location of a sequence is resolved from the true location of the file in which the call expression is written, whatever the same form loaded before; " +
		"an error ends the form, so a sequence is judged up to its first load that serves nothing; map, select and all? apply their function to the elements first to last " +
		"(foldl by data dependence; foldr last to first, it is given the reversed list)")
	var workers []*worker
	core.ParallelRange(r, int64(len(items)), func(id int) *worker {
		w := newWorker(sb)
		mu.Lock()
		workers = append(workers, w)
		mu.Unlock()
		return w
	}, func(w *worker, i int64) {
		it := &items[i]
		cfg := &cfgs[it.cfg]
		fam := scopeFamily(sb, cfg)
		var baselines [3]*[]string
		for fi := range forms {
			f := &forms[fi]
			req := loaderLoc(fam, oneMainSpelling(it.dir, it.spell, f))
			L0, ok := sb.chainTrueLoc(cfg, cwd, "", req)
			if !ok {
				r.Violate("c20", "harness:oneform-loading-file", nil, "the model serves "+sb.template(req), "not served", "harness self-check")
				return
			}
			m := sb.oneModelOf(cfg, cwd, req, L0, it.seq)
			w.traces++
			if fi == 0 && m.nontrivial {
				r.Nontrivial("oneform|" + cfg.ID + "|" + it.entry + "|" + sb.template(rawDir(req)) + "|" + strings.Join(it.seq, ","))
			}
			res := w.judgeOneForm(cfg, cwd, &m, it.entry, req, L0, f, it.seq, baselines[f.Prim])
			if f.Shape == oneSepID {
				mk := res.marks
				baselines[f.Prim] = &mk
			}
			for k := range res.oclasses {
				w.evals++
				who := "entry:" + it.entry
				if k > 0 {
					who = f.Shape
				}
				w.outcomes[outKey{"oneform-" + cfg.Part, who, res.descs[k], res.oclasses[k]}]++
			}
			if res.kind == "" {
				continue
			}
			d.mu.Lock()
			d.vioSeen[res.class]++
			n := d.vioSeen[res.class]
			d.mu.Unlock()
			if n > 3 {
				continue
			}
			steps := []chainStep{{it.entry, sb.template(req)}}
			for _, l := range it.seq {
				steps = append(steps, chainStep{onePrims[f.Prim].Prim, sb.template(l)})
			}
			k := kase{Part: "oneform", Phase: rflPhases[0].ID, Root: cfg.ID, Ctx: f.ID, Entry: it.entry, Loc: sb.template(req),
				RootSpelling: cfg.Root.Spelling, Loader: sb.template(L0), Model: res.desc, Targets: it.seq, Chain: steps, Step: res.level}
			rep := 0
			for j := 0; j < 5; j++ {
				k2, c2, _, _, err := runKase(sb, cwd, k)
				if err == nil && k2 == res.kind && c2 == res.class {
					rep++
				}
			}
			if rep < 5 {
				r.Flaky(map[string]any{"case": k, "class": res.class, "reproduced": rep, "of": 5, "got": sb.template(res.got)})
				continue
			}
			form := oneSepID
			for _, s := range oneShapes {
				if s.ID == f.Shape {
					form = strings.ReplaceAll(strings.ReplaceAll(s.Tpl, "{F}", onePrims[f.Prim].Fn), "{L}", "'(\""+strings.Join(it.seq, "\" \"")+"\")")
				}
			}
			r.Violate("c20", res.class, k, sb.template(res.expected), sb.template(res.got),
				"the form of "+sb.template(L0)+" (entered by "+it.entry+"): "+form)
		}
	})
	for _, w := range workers {
		w.flush(r, tot, info, mu)
	}
	r.AddStates(int64(len(items)))
}
