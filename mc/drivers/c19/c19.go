// Package c19: static arity diagnostics agree with the evaluator's binder.
//
// Exhaustive tables (DESIGN §C19):
//
//	T1  every name of the core registry x every argument count 0..max+2
//	T2  every legal user signature shape x every argument list over {1,:a,:b,:z} up to a length bound
//	T3  every shadowing context x call placement x builtin name
//
// The oracle is the real evaluator: a call "fails argument binding" iff the
// load ends in one of the binder's errors AND the innermost frame of the
// error is the callee invoked at the line of the call under test.  The
// linter's verdict is the presence of a builtin-arity / if-arity / user-arity
// diagnostic on that line.
package c19

import (
	"fmt"
	"os"
	"sort"
	"strings"
	"sync"

	"github.com/luthersystems/elps/analysis"
	"github.com/luthersystems/elps/lint"
	"github.com/luthersystems/elps/lisp"

	"verif/mc/core"
	"verif/mc/el"
)

func init() {
	core.Register(&core.Driver{Property: "C19", Run: run, Replay: replay})
}

type kase struct {
	Table    string `json:"table"`
	Src      string `json:"src"`
	Line     int    `json:"line"`     // 1-based line of the call under test
	Callee   string `json:"callee"`   // name whose binding is under test
	HasKey   bool   `json:"has_key"`  // signature has &key (only soundness is required)
	Class    string `json:"class"`    // stable class for known-finding matching
	WantPkg  string `json:"want_pkg"` // package of the callee the call must reach ("" = any)
	Registry bool   `json:"registry"` // callee is a core-registry name
}

type verdict struct {
	Reported   bool
	Diags      []string
	Fails      bool
	FailsCount bool // the failure is "invalid number of arguments"
	RunDetail  string
}

var (
	acfgOnce sync.Once
	acfg     *analysis.Config
	acfgErr  error
)

func analysisConfig() (*analysis.Config, error) {
	acfgOnce.Do(func() {
		dir, err := os.MkdirTemp("", "c19ws")
		if err != nil {
			acfgErr = err
			return
		}
		defer os.RemoveAll(dir)
		acfg, acfgErr = lint.BuildAnalysisConfig(&lint.LintConfig{Workspace: dir})
	})
	return acfg, acfgErr
}

var arityAnalyzers = []*lint.Analyzer{lint.AnalyzerBuiltinArity, lint.AnalyzerIfArity, lint.AnalyzerUserArity}

var binderErrors = []string{
	"invalid number of arguments",
	"function called with an odd number of keyword arguments",
	"argument is not a keyword",
	"unrecognized keyword argument",
}

func isBinderError(msg string) bool {
	for _, p := range binderErrors {
		if strings.HasPrefix(msg, p) {
			return true
		}
	}
	return false
}

func evaluate(k kase) (verdict, error) {
	var v verdict
	cfg, err := analysisConfig()
	if err != nil {
		return v, err
	}
	l := &lint.Linter{Analyzers: arityAnalyzers}
	diags, err := l.LintFileWithAnalysis([]byte(k.Src), "t.lisp", cfg)
	if err != nil {
		return v, fmt.Errorf("lint: %w", err)
	}
	for _, d := range diags {
		if d.Pos.Line == k.Line {
			v.Reported = true
			v.Diags = append(v.Diags, d.Analyzer+": "+d.Message)
		}
	}
	env, err := el.NewEnv(el.Opts{})
	if err != nil {
		return v, err
	}
	res := env.LoadString("t.lisp", k.Src)
	v.RunDetail = el.Observe(res, "").Full()
	if res.Type == lisp.LError {
		msg := el.ErrText(res)
		st := res.CallStack()
		if isBinderError(msg) && st != nil && len(st.Frames) > 0 {
			top := st.Frames[len(st.Frames)-1]
			atLine := top.Source != nil && top.Source.Line == k.Line
			v.RunDetail += fmt.Sprintf(" top=%s:%s@%v", top.Package, top.Name, top.Source)
			if atLine && top.Name == k.Callee && (k.WantPkg == "" || top.Package == k.WantPkg) {
				v.Fails = true
				v.FailsCount = strings.HasPrefix(msg, "invalid number of arguments")
			}
		}
	}
	return v, nil
}

func check(r *core.Run, k kase) {
	v, err := evaluate(k)
	r.AddEvals(1)
	r.AddTransitions(1)
	if err != nil {
		r.Violate("c19", "harness-error", k, "lint+eval run", err.Error(), "")
		return
	}
	r.Outcome(fmt.Sprintf("%s reported=%v fails=%v", k.Table, v.Reported, v.Fails))
	if v.Reported || v.Fails {
		r.Nontrivial(k.Src)
	}
	if v.Reported && !v.Fails {
		r.Violate("c19", "unsound:"+k.Class, k, "reported only if the call fails argument binding",
			fmt.Sprintf("reported %v but run: %s", v.Diags, v.RunDetail), "")
	}
	if v.Fails && !v.Reported && !k.HasKey {
		r.Violate("c19", "missed:"+k.Class, k, "a failing direct call (no &key) is reported",
			"not reported; run: "+v.RunDetail, "")
	}
	// second sentence, which has no keyword carve-out: an accepted program never fails with an
	// invalid-number-of-arguments error on a direct call (other binder errors of a keyword signature -- an unknown
	// keyword, a keyword without value -- are only subject to the soundness half)
	if v.FailsCount && !v.Reported && k.HasKey {
		r.Violate("c19", "accepted-but-wrong-count:"+k.Class, k, "an accepted direct call never fails with invalid number of arguments",
			"not reported; run: "+v.RunDetail, "")
	}
}

// ---------------------------------------------------------------------------

type sig struct {
	name          string
	req, opt, key int
	rest          bool
	kind          string // builtin | op | macro
}

func parseFormals(f *lisp.LVal) (s sig, ok bool) {
	if f == nil {
		return s, false
	}
	mode := 0
	for _, c := range f.Cells {
		if c.Type != lisp.LSymbol {
			return s, false
		}
		switch c.Str {
		case "&optional":
			mode = 1
		case "&rest":
			mode = 2
		case "&key":
			mode = 3
		default:
			switch mode {
			case 0:
				s.req++
			case 1:
				s.opt++
			case 2:
				s.rest = true
			case 3:
				s.key++
			}
		}
	}
	return s, true
}

// modelFails is the boring binder model for k inert positional arguments.
func (s sig) modelFails(k int) bool {
	if k < s.req {
		return true
	}
	if s.rest {
		return false
	}
	extra := k - s.req - s.opt
	if extra <= 0 {
		return false
	}
	return true // extra positional `1`s: too many, or not keywords
}

func registrySigs() []sig {
	var out []sig
	add := func(kind string, defs []lisp.LBuiltinDef) {
		for _, d := range defs {
			s, ok := parseFormals(d.Formals())
			if !ok {
				continue
			}
			s.name, s.kind = d.Name(), kind
			out = append(out, s)
		}
	}
	add("builtin", lisp.DefaultBuiltins())
	add("op", lisp.DefaultSpecialOps())
	add("macro", lisp.DefaultMacros())
	sort.Slice(out, func(i, j int) bool { return out[i].name < out[j].name })
	return out
}

func ones(k int) string {
	return strings.TrimSpace(strings.Repeat(" 1", k))
}

func call(name string, k int) string {
	if k == 0 {
		return "(" + name + ")"
	}
	return "(" + name + " " + ones(k) + ")"
}

func tableRegistry() []kase {
	var ks []kase
	for _, s := range registrySigs() {
		max := s.req + s.opt + s.key + 2
		if s.rest || s.key > 0 {
			max = s.req + s.opt + 6
		}
		for k := 0; k <= max; k++ {
			ks = append(ks, kase{Table: "T1-registry", Src: call(s.name, k), Line: 1, Callee: s.name,
				HasKey: s.key > 0, Class: fmt.Sprintf("registry:%s/%d", s.name, k), WantPkg: "lisp", Registry: true})
		}
	}
	return ks
}

// tableRegistryKeys: core-registry callables with &key parameters x keyword-shaped argument lists: every
// sequence of up to 3 pairs over {declared keys, an undeclared key} (repeats included: a repeated keyword
// binds fine, the last one wins) after the required positionals.
func tableRegistryKeys() []kase {
	var ks []kase
	add := func(kind string, defs []lisp.LBuiltinDef) {
		for _, d := range defs {
			s, ok := parseFormals(d.Formals())
			if !ok || s.key == 0 {
				continue
			}
			var keys []string
			inKey := false
			for _, c := range d.Formals().Cells {
				if c.Str == "&key" {
					inKey = true
					continue
				}
				if inKey && !strings.HasPrefix(c.Str, "&") {
					keys = append(keys, ":"+c.Str)
				}
			}
			alpha := append(append([]string{}, keys...), ":zz")
			for n := 0; n <= 3; n++ {
				total := 1
				for i := 0; i < n; i++ {
					total *= len(alpha)
				}
				for idx := 0; idx < total; idx++ {
					x := idx
					args := strings.TrimSpace(strings.Repeat(" 1", s.req))
					for i := 0; i < n; i++ {
						args += " " + alpha[x%len(alpha)] + " 1"
						x /= len(alpha)
					}
					ks = append(ks, kase{Table: "T1-registry-keys", Src: "(" + d.Name() + " " + strings.TrimSpace(args) + ")", Line: 1, Callee: d.Name(),
						HasKey: true, Class: "registry-keys:" + d.Name(), WantPkg: "lisp", Registry: true})
				}
			}
		}
	}
	add("builtin", lisp.DefaultBuiltins())
	add("op", lisp.DefaultSpecialOps())
	add("macro", lisp.DefaultMacros())
	return ks
}

// user signature shapes: req* [&optional o+] ([&rest r] | [&key k+])
type ushape struct {
	req, opt, key int
	rest          bool
}

func (u ushape) formals() string {
	var p []string
	for i := 0; i < u.req; i++ {
		p = append(p, fmt.Sprintf("r%d", i))
	}
	if u.opt > 0 {
		p = append(p, "&optional")
		for i := 0; i < u.opt; i++ {
			p = append(p, fmt.Sprintf("o%d", i))
		}
	}
	if u.rest {
		p = append(p, "&rest", "rr")
	}
	if u.key > 0 {
		p = append(p, "&key")
		for i := 0; i < u.key; i++ {
			p = append(p, string(rune('a'+i)))
		}
	}
	return "(" + strings.Join(p, " ") + ")"
}

func userShapes() []ushape {
	var out []ushape
	for req := 0; req <= 2; req++ {
		for opt := 0; opt <= 2; opt++ {
			out = append(out, ushape{req: req, opt: opt})
			out = append(out, ushape{req: req, opt: opt, rest: true})
			for key := 1; key <= 2; key++ {
				out = append(out, ushape{req: req, opt: opt, key: key})
			}
		}
	}
	return out
}

func tableUser(maxLen int) []kase {
	alpha := []string{"1", ":a", ":b", ":z"}
	var ks []kase
	for _, definer := range []string{"defun", "defmacro"} {
		for _, u := range userShapes() {
			for n := 0; n <= maxLen; n++ {
				total := 1
				for i := 0; i < n; i++ {
					total *= len(alpha)
				}
				for idx := 0; idx < total; idx++ {
					args := make([]string, n)
					x := idx
					allOnes := true
					for i := 0; i < n; i++ {
						args[i] = alpha[x%len(alpha)]
						if x%len(alpha) != 0 {
							allOnes = false
						}
						x /= len(alpha)
					}
					// keyword-shaped arguments are only interesting for &key / &rest
					// signatures and as plain data for the others; keep the full table
					// for key signatures, positional-only plus one keyword probe otherwise.
					if u.key == 0 && !allOnes && n > 3 {
						continue
					}
					src := fmt.Sprintf("(%s f %s 7)\n(f%s)", definer, u.formals(), pre(args))
					ks = append(ks, kase{Table: "T2-user-" + definer, Src: src, Line: 2, Callee: "f", HasKey: u.key > 0,
						Class: fmt.Sprintf("user:%s:%s", definer, u.formals()), WantPkg: "user"})
					// the same callee with an EMPTY body and with a docstring-only body (stubs): argument binding does
					// not depend on what the body is
					if allOnes || u.key > 0 {
						for bi, body := range []string{"", " \"doc only\""} {
							src := fmt.Sprintf("(%s f %s%s)\n(f%s)", definer, u.formals(), body, pre(args))
							ks = append(ks, kase{Table: "T2-user-" + definer, Src: src, Line: 2, Callee: "f", HasKey: u.key > 0,
								Class: fmt.Sprintf("user:%s:%s:%s", definer, u.formals(), []string{"empty-body", "docstring-body"}[bi]), WantPkg: "user"})
						}
					}
				}
			}
		}
	}
	return ks
}

func pre(args []string) string {
	if len(args) == 0 {
		return ""
	}
	return " " + strings.Join(args, " ")
}

// ---------------------------------------------------------------------------
// T3: shadowing contexts.  Each template places ONE call `CALL` to the
// builtin name B on its own line; whether it reaches lisp:B is decided by the
// real evaluator.

type shadowTpl struct {
	id   string
	src  string // uses {B} for the name, {CALL} for the wrong-arity call (own line), {OK} for a correct call
	line int
}

func shadowTemplates() []shadowTpl {
	t := []shadowTpl{
		{"none", "{CALL}", 1},
		{"let/body", "(let ([{B} (lambda (&rest a) 0)])\n{CALL})", 2},
		{"let/value", "(let ([{B}\n{CALL}]) 0)", 2},
		{"let/other-value", "(let ([zz\n{CALL}] [{B} (lambda (&rest a) 0)]) 0)", 2},
		{"let/outside-after", "(let ([{B} (lambda (&rest a) 0)]) 0)\n{CALL}", 2},
		{"let/outside-before", "(progn\n{CALL}\n(let ([{B} (lambda (&rest a) 0)]) 0))", 2},
		{"let*/body", "(let* ([{B} (lambda (&rest a) 0)])\n{CALL})", 2},
		{"let*/value", "(let* ([{B}\n{CALL}]) 0)", 2},
		{"let*/later-value", "(let* ([{B} (lambda (&rest a) 0)] [zz\n{CALL}]) 0)", 2},
		{"flet/body", "(flet ([{B} (&rest a) 0])\n{CALL})", 2},
		{"flet/own-body", "(flet ([{B} (&rest a)\n{CALL}]) ({B} 1 2 3 4 5 6 7 8 9))", 2},
		{"flet/outside-after", "(flet ([{B} (&rest a) 0]) 0)\n{CALL}", 2},
		{"labels/body", "(labels ([{B} (&rest a) 0])\n{CALL})", 2},
		{"labels/outside-after", "(labels ([{B} (&rest a) 0]) 0)\n{CALL}", 2},
		{"macrolet/body", "(macrolet ([{B} (&rest a) 0])\n{CALL})", 2},
		{"macrolet/outside-after", "(macrolet ([{B} (&rest a) 0]) 0)\n{CALL}", 2},
		{"lambda-param/body", "((lambda ({B})\n{CALL}) (lambda (&rest a) 0))", 2},
		{"lambda-param/outside", "((lambda ({B}) 0) 1)\n{CALL}", 2},
		{"defun-param/body", "(defun g ({B})\n{CALL})\n(g (lambda (&rest a) 0))", 2},
		{"defun-param/outside", "(defun g ({B}) 0)\n{CALL}", 2},
		// every KIND of parameter shadows: &optional, &rest and &key names, in defun, lambda, flet and labels
		{"defun-optional-param/body", "(defun g (&optional {B})\n{CALL})\n(g (lambda (&rest a) 0))", 2},
		{"defun-rest-param/body", "(defun g (&rest {B})\n(let ([{B} (car {B})])\n{CALL}))\n(g (lambda (&rest a) 0))", 3},
		{"defun-key-param/body", "(defun g (x &key {B})\n{CALL})\n(g 1 :{B} (lambda (&rest a) 0))", 2},
		{"defun-key-param-only/body", "(defun g (&key {B})\n{CALL})\n(g :{B} (lambda (&rest a) 0))", 2},
		{"defun-optional-then-key/body", "(defun g (&optional y &key {B})\n{CALL})\n(g 1 :{B} (lambda (&rest a) 0))", 2},
		{"lambda-key-param/body", "((lambda (&key {B})\n{CALL}) :{B} (lambda (&rest a) 0))", 2},
		{"lambda-optional-param/body", "((lambda (&optional {B})\n{CALL}) (lambda (&rest a) 0))", 2},
		{"flet-key-param/body", "(flet ([g (&key {B})\n{CALL}]) (g :{B} (lambda (&rest a) 0)))", 2},
		{"labels-key-param/body", "(labels ([g (x &key {B})\n{CALL}]) (g 1 :{B} (lambda (&rest a) 0)))", 2},
		{"labels-param/body", "(labels ([g ({B})\n{CALL}]) (g (lambda (&rest a) 0)))", 2},
		{"defmacro-param/body", "(defmacro gm ({B})\n{CALL})\n(gm 1)", 2},
		{"defun-key-param/outside", "(defun g (&key {B}) 0)\n{CALL}", 2},
		{"flet-param/body", "(flet ([g ({B})\n{CALL}]) (g (lambda (&rest a) 0)))", 2},
		{"global-defun/before", "(defun {B} (&rest a) 0)\n{CALL}", 2},
		{"global-defun/after", "(progn\n{CALL}\n)\n(defun {B} (&rest a) 0)", 2},
		// a definition binds its name in the package at ANY nesting depth: every wrapper shape up to depth 3
		{"global-defun/in-let/before", "(let ([zq 0]) (defun {B} (&rest a) 0))\n{CALL}", 2},
		{"global-defun/in-let-let/before", "(let ([zq 0]) (let ([zr 1]) (defun {B} (&rest a) 0)))\n{CALL}", 2},
		{"global-defun/in-let-progn/before", "(let ([zq 0]) (progn (defun {B} (&rest a) 0)))\n{CALL}", 2},
		{"global-defun/in-progn-progn/before", "(progn (progn (defun {B} (&rest a) 0)))\n{CALL}", 2},
		{"global-defun/in-if-progn/before", "(if true (progn (defun {B} (&rest a) 0)))\n{CALL}", 2},
		{"global-defun/in-let-let-let/before", "(let ([zq 0]) (let* ([zr 1]) (let ([zs 2]) (defun {B} (&rest a) 0))))\n{CALL}", 2},
		{"global-defmacro/in-let-let/before", "(let ([zq 0]) (let ([zr 1]) (defmacro {B} (&rest a) 0)))\n{CALL}", 2},
		{"global-set/in-let-let/before", "(let ([zq 0]) (let ([zr 1]) (set '{B} (lambda (&rest a) 0))))\n{CALL}", 2},
		{"global-set/before", "(set '{B} (lambda (&rest a) 0))\n{CALL}", 2},
		{"global-set/after", "(progn\n{CALL}\n)\n(set '{B} (lambda (&rest a) 0))", 2},
		{"other-package-defun", "(in-package 'other)\n(defun {B} (&rest a) 0)\n(in-package 'user)\n{CALL}", 4},
		{"dotimes-var/body", "(dotimes ({B} 1)\n{CALL})", 2},
		// several package sections in one file: what a top-level definition shadows must not depend on in-package forms
		// that come LATER in the file, nor on sections of other packages in between
		{"global-defun/before/later-in-package", "(defun {B} (&rest a) 0)\n{CALL}\n(in-package 'other)\n(in-package 'user)", 2},
		{"global-defun/before/sections-between", "(defun {B} (&rest a) 0)\n(in-package 'other)\n(set 'zq 1)\n(in-package 'user)\n{CALL}", 5},
		{"global-defun/before/trailing-in-package", "(defun {B} (&rest a) 0)\n{CALL}\n(in-package 'user)", 2},
		{"global-defmacro/before/later-in-package", "(defmacro {B} (&rest a) 0)\n{CALL}\n(in-package 'other)\n(in-package 'user)", 2},
		{"section-defun/call-in-same-section/then-user", "(in-package 'zlib)\n(defun {B} (&rest a) 0)\n{CALL}\n(in-package 'user)", 3},
		{"section-defun/call-in-same-section/last", "(in-package 'user)\n(in-package 'zlib)\n(defun {B} (&rest a) 0)\n{CALL}", 4},
		{"section-defun/call-after-reentering", "(in-package 'zlib)\n(defun {B} (&rest a) 0)\n(in-package 'user)\n(in-package 'zlib)\n{CALL}", 5},
		{"let/body/later-in-package", "(let ([{B} (lambda (&rest a) 0)])\n{CALL})\n(in-package 'other)\n(in-package 'user)", 2},
		{"flet/body/later-in-package", "(flet ([{B} (&rest a) 0])\n{CALL})\n(in-package 'other)\n(in-package 'user)", 2},
		{"none/later-in-package", "{CALL}\n(in-package 'other)\n(in-package 'user)", 1},
		{"none/in-other-section", "(in-package 'zlib)\n{CALL}\n(in-package 'user)", 2},
		// a shadowing form that is OVER, then the call inside a LATER, unrelated binding form (state kept between forms)
		{"let/then-inside-later-let", "(let ([{B} (lambda (&rest a) 0)]) 0)\n(let ([zz 1])\n{CALL})", 3},
		{"let/then-inside-later-let-value", "(let ([{B} (lambda (&rest a) 0)]) 0)\n(let ([zz\n{CALL}]) zz)", 3},
		{"flet/then-inside-later-let*", "(flet ([{B} (&rest a) 0]) 0)\n(let* ([zz 1])\n{CALL})", 3},
		{"labels/then-inside-later-flet", "(labels ([{B} (&rest a) 0]) 0)\n(flet ([zg () 1])\n{CALL})", 3},
		{"macrolet/then-inside-later-labels", "(macrolet ([{B} (&rest a) 0]) 0)\n(labels ([zg () 1])\n{CALL})", 3},
		{"let-in-defun/then-inside-let-in-later-defun", "(defun zf1 () (let ([{B} (lambda (&rest a) 0)]) 0))\n(defun zf2 () (let ([zz 1])\n{CALL}))\n(zf2)", 3},
		{"let/then-inside-later-lambda-body", "(let ([{B} (lambda (&rest a) 0)]) 0)\n((lambda (zz)\n{CALL}) 1)", 3},
		// placements without any shadowing: the call sits in a position of a special form that an analyzer may
		// mistake for a binding list or skip as "not code"
		{"placed/dotimes-count", "(dotimes (zi\n{CALL}\n) zi)", 2},
		{"placed/dotimes-result", "(dotimes (zi 1\n{CALL}\n) zi)", 2},
		{"placed/dotimes-body", "(dotimes (zi 1)\n{CALL})", 2},
		{"placed/let-value", "(let ([zv\n{CALL}]) zv)", 2},
		{"placed/let*-second-value", "(let* ([zv 1] [zw\n{CALL}]) zw)", 2},
		{"placed/if-test", "(if\n{CALL}\n1 2)", 2},
		{"placed/if-else", "(if false 1\n{CALL})", 2},
		{"placed/cond-test", "(cond (\n{CALL}\n1))", 2},
		{"placed/cond-else-body", "(cond (false 1) (else\n{CALL}))", 2},
		{"placed/and-arg", "(and true\n{CALL})", 2},
		{"placed/or-arg", "(or false\n{CALL})", 2},
		{"placed/handler-bind-body", "(handler-bind ([nomatch (lambda (c &rest d) 0)])\n{CALL})", 2},
		{"placed/handler-expression", "(handler-bind ([condition (progn\n{CALL}\n(lambda (c &rest d) 0))]) (error 'x))", 2},
		{"placed/in-handler", "(handler-bind ([xx (lambda (c &rest d)\n{CALL})]) (error 'xx))", 2},
		{"placed/ignore-errors-then-value", "(progn (ignore-errors 1)\n{CALL})", 2},
		{"placed/thread-first-initial", "(thread-first\n{CALL}\n(list))", 2},
		{"placed/thread-last-step-arg", "(thread-last 1 (list\n{CALL}))", 2},
		// a threading form used as a STEP of an enclosing one: where the outer value lands decides which of the inner
		// form's children are still evaluated as written (under thread-last it is appended, the inner seed stays a seed)
		{"placed/nested-thread/last-over-first-seed", "(thread-last (list 1) (thread-first\n{CALL}\n(list)))", 2},
		{"placed/nested-thread/last-over-last-seed", "(thread-last (list 1) (thread-last\n{CALL}\n(list)))", 2},
		{"placed/nested-thread/first-over-first-step-arg", "(thread-first 1 (thread-first (list) (list\n{CALL})))", 2},
		{"placed/quasiquote-unquote", "(quasiquote (1 (unquote\n{CALL})))", 2},
		{"placed/set-value", "(set 'zq\n{CALL})", 2},
		{"placed/lambda-body-called", "((lambda ()\n{CALL}))", 2},
		{"placed/labels-body", "(labels ([zg () 1])\n{CALL})", 2},
		{"placed/labels-function-body", "(labels ([zg ()\n{CALL}]) (zg))", 2},
		{"placed/macrolet-body", "(macrolet ([zm () 1])\n{CALL})", 2},
		{"placed/assert-arg", "(assert\n{CALL})", 2},
		{"placed/argument-of-user-function", "(defun zf (a) a)\n(zf\n{CALL})", 3},
		// the call comes AFTER an earlier sibling of every kind a tree walk may treat specially (not descended into,
		// descended into with a scope, leaf): leaving that sibling must not end the walk of the enclosing form
		{"placed/after-sibling/quasiquote-template", "(list (quasiquote (za zb))\n{CALL})", 2},
		{"placed/after-sibling/quasiquote-with-unquote", "(list (quasiquote (za (unquote (+ 1 2))))\n{CALL})", 2},
		{"placed/after-sibling/quoted-list", "(list '(za zb)\n{CALL})", 2},
		{"placed/after-sibling/lambda", "(list (lambda (zx) zx)\n{CALL})", 2},
		{"placed/after-sibling/let", "(list (let ([zx 1]) zx)\n{CALL})", 2},
		{"placed/after-sibling/handler-bind", "(list (handler-bind ([condition (lambda (c &rest d) 0)]) 1)\n{CALL})", 2},
		{"placed/after-sibling/labels", "(list (labels ([zg () 1]) (zg))\n{CALL})", 2},
		{"placed/after-sibling/macrolet", "(list (macrolet ([zm () 1]) (zm))\n{CALL})", 2},
		{"placed/after-sibling/function-ref", "(list #'list\n{CALL})", 2},
		{"placed/after-sibling/expr-shorthand", "(list #^(+ % 1)\n{CALL})", 2},
		{"placed/after-sibling/string", "(list \"za\"\n{CALL})", 2},
		{"placed/after-sibling/vector-literal", "(list [1 2]\n{CALL})", 2},
		{"placed/after-sibling/empty-list", "(list ()\n{CALL})", 2},
		{"placed/after-sibling/dotimes", "(list (dotimes (zi 1) zi)\n{CALL})", 2},
		{"placed/after-sibling/cond", "(list (cond (false 1) (else 2))\n{CALL})", 2},
		{"placed/after-sibling/thread-first", "(list (thread-first 1 (list))\n{CALL})", 2},
		{"placed/let-body-after-template-binding", "(let ([zt (quasiquote (za zb))])\n{CALL})", 2},
		{"placed/defun-body-after-template", "(defun zf () (quasiquote (za)))\n(defun zg () (list (quasiquote (za))\n{CALL}))\n(zg)", 3},
		{"placed/progn-after-template", "(progn (quasiquote (za zb))\n{CALL})", 2},
		{"placed/deeper-after-template", "(list (list (quasiquote (za))) (list 1\n{CALL}))", 2},
	}
	return t
}

func tableShadow(names []sig) []kase {
	var ks []kase
	for _, s := range names {
		// a call with a definitely wrong positional count
		var k int
		switch {
		case s.req > 0:
			k = 0
		case !s.rest && s.key == 0:
			k = s.req + s.opt + 1
		default:
			continue
		}
		cl := call(s.name, k)
		for _, t := range shadowTemplates() {
			src := strings.ReplaceAll(strings.ReplaceAll(t.src, "{CALL}", cl), "{B}", s.name)
			ks = append(ks, kase{Table: "T3-shadow", Src: src, Line: t.line, Callee: s.name, HasKey: s.key > 0,
				Class: "shadow:" + t.id + ":" + s.kind + ":" + s.name, WantPkg: "lisp", Registry: true})
		}
	}
	return ks
}

func run(r *core.Run) {
	if _, err := analysisConfig(); err != nil {
		r.Violate("c19", "harness-error", nil, "analysis config", err.Error(), "")
		return
	}
	sigs := registrySigs()
	maxLen := 4
	shadowNames := sigs
	if !r.Thorough() {
		// quick: a fixed spread of 16 names over builtins, operators and macros
		want := map[string]bool{"car": true, "cons": true, "map": true, "if": true, "let": true, "lambda": true,
			"defun": true, "not": true, "length": true, "nth": true, "get": true, "assoc": true, "quote": true,
			"progn": true, "list": true, "funcall": true, "concat": true, "defmacro": true, "thread-first": true, "set": true}
		shadowNames = nil
		for _, s := range sigs {
			if want[s.name] {
				shadowNames = append(shadowNames, s)
			}
		}
	} else {
		maxLen = 6
	}
	var all []kase
	t1 := append(tableRegistry(), tableRegistryKeys()...)
	t2 := tableUser(maxLen)
	t3 := tableShadow(shadowNames)
	all = append(all, t1...)
	all = append(all, t2...)
	all = append(all, t3...)
	r.Bound("registry_names", len(sigs))
	r.Bound("T1_calls", len(t1))
	r.Bound("T2_user_calls", len(t2))
	r.Bound("T2_max_args", maxLen)
	r.Bound("T3_shadow_sources", len(t3))
	r.Bound("T3_names", len(shadowNames))
	r.Rule("T1: every core-registry name x every argument count 0..max+2 (rest/key: ..req+opt+6) with inert arguments; " +
		"T2: every legal user signature shape (<=2 required, <=2 optional, rest | <=2 keys) via defun and defmacro x every argument list over {1,:a,:b,:z} up to the length bound; " +
		"T3: every shadowing template x call placement x name. Non-trivial = the linter reported or the evaluator's binder failed at the call; distinct by source text")
	r.Assume("a call 'fails argument binding' iff the load's error text starts with one of the binder's four messages and the error's innermost frame is the callee at the call's line")
	r.Assume("lint is run the way `elps lint --workspace` runs it: BuildAnalysisConfig over an empty workspace, analyzers builtin-arity + if-arity + user-arity")

	// model cross-check of T1 (binder model vs the real binder)
	core.ParallelRange(r, int64(len(all)), nil, func(_ struct{}, i int64) {
		check(r, all[i])
	})
	r.AddStates(int64(len(sigs) + len(userShapes())*2 + len(shadowTemplates())))
	for _, s := range sigs {
		for k := 0; k <= s.req+s.opt+2; k++ {
			kk := kase{Table: "T1m", Src: call(s.name, k), Line: 1, Callee: s.name, WantPkg: "lisp"}
			if s.key > 0 {
				continue
			}
			v, err := evaluate(kk)
			if err != nil {
				continue
			}
			r.AddTraces(1)
			if v.Fails != s.modelFails(k) {
				r.Violate("c19", fmt.Sprintf("binder-model:%s/%d", s.name, k), kk,
					fmt.Sprintf("binder model says fails=%v", s.modelFails(k)), "evaluator: "+v.RunDetail, "")
			}
		}
	}
	if len(all) > 0 {
		r.Sample(all[0])
		r.Sample(all[len(t1)+len(t2)/2])
		r.Sample(all[len(all)-1])
		r.Sample(all[len(t1)+len(t2)+len(t3)/3])
	}
}

func replay(v core.Violation) (bool, string) {
	k, err := core.CaseOf[kase](v)
	if err != nil {
		return false, err.Error()
	}
	vd, err := evaluate(k)
	if err != nil {
		return false, err.Error()
	}
	rep := fmt.Sprintf("src:\n%s\nreported=%v %v\nfails=%v %s", k.Src, vd.Reported, vd.Diags, vd.Fails, vd.RunDetail)
	bad := (vd.Reported && !vd.Fails) || (vd.Fails && !vd.Reported && !k.HasKey)
	return bad, rep
}
