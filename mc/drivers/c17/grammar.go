package c17

// The statically scoped program grammar of C17 and its exhaustive enumerator.
//
// A program is a sequence of top-level items (the "skeleton") followed by a
// final expression; items carry expression holes.  The weight of a program is
// its node count: every form below costs 1 (its name, parameter list and
// bracketed binding names included) plus the weight of its sub-terms; an
// integer literal, a keyword, a quoted symbol and a variable reference are one
// node each; a defmacro (form + template), a macrolet, a two-binding let/let*
// and a funcall of (function n) or of a #^ lambda cost 2.  The
// enumerator visits EVERY program of weight <= the bound exactly once per
// family, in a fixed order (no Go map is iterated on the way).
//
// Rendering rules that cost no weight: the k-th integer literal of a session
// is the number k (so every binding has its own value), and every function
// body is wrapped as (list <fresh literal> body), so which function a call
// reached is visible in the result.
//
// Names come from a tiny pool shared by every binder (variables, functions,
// parameters, globals), so that shadowing, "same name as function and
// variable", redefinition, the same name in two packages or two files all
// arise from name collisions.  The scoping discipline of the generator is the
// documented one (lang.md "Scope", "let vs let*", "flet vs labels"): a
// reference may only name something that is bound at that point (locally, or
// globally somewhere in the session).  Preconditions of the statement
// enforced by construction:
//   - no symbol is computed at run time (no intern/gensym/eval, no quoted
//     symbol in function-designator position; quoted symbols are data only);
//   - defun/defmacro/set-definitions/export/in-package/use-package occur at top
//     level only ((set 'g ...) inside a body only assigns a global that a
//     top-level set defines, and only in sessions without packages);
//   - macros are hygienic for the session: a template's binder uses the
//     reserved name `t`, a defmacro whose template mentions a global is never
//     called where that name is locally bound, a macrolet macro whose template
//     mentions an enclosing local is never called where that name was rebound;
//   - a package never defines a name it also imports with use-package.

import (
	"fmt"
	"strconv"
	"strings"
)

type kind uint8

const (
	kLit      kind = iota // auto-numbered integer literal
	kKw                   // :n
	kQSym                 // 'n
	kQList                // '(n :n)
	kQQ                   // (quasiquote ('n (n :n) [n])): a template OUTSIDE any macro that mentions n as data only
	kRef                  // n
	kQRef                 // pkg:n           (pkg index in p)
	kList                 // (list k0 k1)
	kCall                 // (n k0)
	kCall0                // (n)
	kCallKey              // (n :p k0)
	kQCall                // (pkg:n k0)
	kMCall                // (m<i> k0)        global macro i (index in n)
	kLet                  // (let ([n k0]) k1)
	kLet2                 // (let ([n k0] [p k1]) k2)
	kLetS2                // (let* ([n k0] [p k1]) k2)
	kFlet                 // (flet ([n (p) k0]) k1)
	kLabels               // (labels ([n (p) k0]) k1)
	kLambda               // (lambda (n) k0)
	kProgn                // (progn k0 k1)
	kSetBang              // (set! n k0)
	kDebug                // (debug-print k0)
	kGSet                 // (set 'n k0)      assignment of a top-level-set global
	kDotimes              // (dotimes (n 2) k0)
	kMacrolet             // (macrolet ([lm (p) (quasiquote T)]) k0)   template variant in n, free name in q
	kLMCall               // (lm k0)
	kFunArg               // (funcall (function n) k0)
	kPrefix               // (funcall #^(list % n) k0)
	kDotimesC             // (dotimes (n k0 [kR]) [kB]): full control sequence; q&2 = result form present, q&1 = body present; kids = count, result?, body?
)

type term struct {
	k    kind
	n    int8
	p    int8
	q    int8
	kids []*term
}

// ---------------------------------------------------------------------------
// configuration of one enumeration

type gcfg struct {
	Names       []string // binder pool
	MaxW        int      // node-count bound of a whole program
	Let2        bool     // two-binding let / let*
	Dotimes     bool
	DotimesCtl  bool // dotimes with a full control sequence (var COUNT [RESULT]): COUNT any expression of the scope around the loop, RESULT any expression of the loop's scope; body empty or one statement
	Macrolet    bool
	GSet        bool   // (set 'g v) assignments inside expressions
	GSetExpr    bool   // (set 'g v) also in value position (it returns v)
	NeedGSet    bool   // keep only sessions that assign a global from inside an expression
	FunArg      bool   // (function n) and #^ prefix lambdas
	Styles      int    // defun parameter styles: 1 = plain, 4 = plain,&key,&optional,&rest
	Packages    bool   // in-package / export / use-package / pkg:name
	Files       bool   // file break item
	Macros      bool   // defmacro items
	ExportForms bool   // export items also in list form (export '(n m)) and string form (export "n")
	MaxBreaks   int    // file breaks per session when Files is set (0 = 1)
	NestedSet   bool   // top-level (set 'n v) forms nested in a non-function top-level form (if / progn / let / cond / dotimes / handler-bind)
	LangName    bool   // Names[0] is a name the language itself binds (builtin, special operator, stock macro, stdlib export)
	Wrap        string // function that tags function bodies (default list)
	Prelude     string // text put in front of the first file (costs no weight)
	Stdlib      bool   // sessions run in a runtime with the standard library loaded
	QTemplates  bool   // defmacro templates that mention pkg:name
	Redefine    bool   // the same (package, name) may be defined twice at top level
	MaxItems    int    // max top-level items before the final expression
	Data        bool   // keyword and quoted-symbol data leaves
	FixParam    bool   // defun parameters always use the last pool name
	DefNames    int    // number of pool names usable for top-level definitions (0 = all)
	HoleMaxW    int    // max weight of a hole inside an item (0 = unbounded)
	FinalMaxW   int    // max weight of the final expression (0 = unbounded)
}

// per-skeleton context: what the holes may refer to
type gctx struct {
	globals  uint8      // names globally defined somewhere in the session (any package)
	setNames [2]uint8   // names defined by a top-level set, per package
	keyFns   [][2]int8  // (n, p) of &key functions
	zeroFns  uint8      // names with an &optional / &rest definition (callable with no argument)
	macros   []macroDef // global macros
	qdefs    [][2]int8  // (pkg, n) defined
}

type macroDef struct {
	param int8
	tmpl  int8
	free  int8 // name mentioned free by the template, -1 none
	fpkg  int8 // package qualifier of that mention (pkg:name), -1 = unqualified
}

func (c *gctx) key() string {
	var b strings.Builder
	fmt.Fprintf(&b, "%d/%d.%d/%d|", c.globals, c.setNames[0], c.setNames[1], c.zeroFns)
	for _, k := range c.keyFns {
		fmt.Fprintf(&b, "k%d.%d", k[0], k[1])
	}
	for _, m := range c.macros {
		fmt.Fprintf(&b, "m%d.%d.%d.%d", m.param, m.tmpl, m.free, m.fpkg)
	}
	for _, q := range c.qdefs {
		fmt.Fprintf(&b, "q%d.%d", q[0], q[1])
	}
	return b.String()
}

type scope struct {
	local  uint8 // names bound locally
	lmac   bool  // a macrolet macro `lm` is in scope
	lmFree int8  // 1 + the name its template mentions free (0 = none)
	lmDead bool  // that name was rebound since the macrolet: calling lm here would capture (not statically scoped)
	pkg    int8  // package the enclosing top-level item is evaluated in
}

type memoKey struct {
	ctx    int
	nt     uint8
	w      int8
	local  uint8
	lmac   bool
	lmFree int8
	lmDead bool
	pkg    int8
}

type gen struct {
	cfg    gcfg
	ctxIDs map[string]int
	ctxs   []*gctx
	memo   map[memoKey][]*term
}

func newGen(cfg gcfg) *gen {
	return &gen{cfg: cfg, ctxIDs: map[string]int{}, memo: map[memoKey][]*term{}}
}

func (g *gen) ctxID(c *gctx) int {
	k := c.key()
	if id, ok := g.ctxIDs[k]; ok {
		return id
	}
	id := len(g.ctxs)
	g.ctxIDs[k] = id
	cc := *c
	g.ctxs = append(g.ctxs, &cc)
	return id
}

const (
	ntExpr uint8 = iota
	ntArg
	ntStmt
)

var litTerm = &term{k: kLit}

// macro templates (global defmacro and macrolet): p is the macro parameter, g a free name
const nTemplates = 6

// wrappers of a nested top-level set: 1 if/both branches (then runs), 2 if/both (else runs), 3 if/one branch,
// 4 progn, 5 let, 6 cond, 7 dotimes, 8 handler-bind
const nSetWraps = 9

func templateText(tmpl int8, p string, free string) string {
	switch tmpl {
	case 0:
		return "(list (unquote " + p + ") 0)"
	case 1: // free name as a variable
		return "(list (unquote " + p + ") " + free + ")"
	case 2: // free name as a function
		return "(" + free + " (unquote " + p + "))"
	case 3: // template-local binder
		return "(let ([t (unquote " + p + ")]) (list t t))"
	case 4: // the parameter's NAME as data: quoted symbol, quoted list, bracket list
		return "(list (unquote " + p + ") '" + p + " '(" + p + " 0) [" + p + "])"
	case 5: // a local of the macro body (always renameable), used and mentioned as data
		return "(list (unquote tl) 'tl '(tl 0) [tl])"
	}
	return "()"
}

// macroBody is the body of a macro with template tmpl: the quasiquote itself, for template 5 inside a let that
// binds the macro-body local tl.
func macroBody(tmpl int8, p string, free string) string {
	q := "(quasiquote " + templateText(tmpl, p, free) + ")"
	if tmpl == 5 {
		return "(let ([tl " + p + "]) " + q + ")"
	}
	return q
}

func templateHasFree(tmpl int8) bool { return tmpl == 1 || tmpl == 2 }

// exprs returns every non-literal expression of weight exactly w.
func (g *gen) list(ctx int, nt uint8, w int, sc scope) []*term {
	if w <= 0 {
		return nil
	}
	k := memoKey{ctx, nt, int8(w), sc.local, sc.lmac, sc.lmFree, sc.lmDead, sc.pkg}
	if l, ok := g.memo[k]; ok {
		return l
	}
	var out []*term
	switch nt {
	case ntExpr:
		out = g.genExpr(ctx, w, sc)
	case ntArg:
		out = g.genArg(ctx, w, sc)
	case ntStmt:
		out = g.genStmt(ctx, w, sc)
	}
	g.memo[k] = out
	return out
}

func (g *gen) genArg(ctx int, w int, sc scope) []*term {
	var out []*term
	if w == 1 {
		out = append(out, litTerm)
		if g.cfg.Data {
			for n := range g.cfg.Names {
				out = append(out, &term{k: kKw, n: int8(n)})
			}
			for n := range g.cfg.Names {
				out = append(out, &term{k: kQSym, n: int8(n)})
			}
			out = append(out, &term{k: kQList, n: 0})
			for n := range g.cfg.Names {
				out = append(out, &term{k: kQQ, n: int8(n)})
			}
		}
	}
	out = append(out, g.list(ctx, ntExpr, w, sc)...)
	return out
}

// split2 calls f for every (a,b) with a+b == total, a,b >= 1
func split2(total int, f func(a, b int)) {
	for a := 1; a < total; a++ {
		f(a, total-a)
	}
}

func split3(total int, f func(a, b, c int)) {
	for a := 1; a < total-1; a++ {
		for b := 1; a+b < total; b++ {
			f(a, b, total-a-b)
		}
	}
}

func (g *gen) genExpr(ctx int, w int, sc scope) []*term {
	c := g.ctxs[ctx]
	nn := len(g.cfg.Names)
	bound := sc.local | c.globals
	var out []*term
	with := func(sc scope, n int) scope { return sc.bind(n) }
	if w == 1 {
		for n := 0; n < nn; n++ {
			if bound&(1<<uint(n)) != 0 {
				out = append(out, &term{k: kRef, n: int8(n)})
			}
		}
		for _, q := range c.qdefs {
			out = append(out, &term{k: kQRef, p: q[0], n: q[1]})
		}
		for n := 0; n < nn; n++ {
			if c.zeroFns&(1<<uint(n)) != 0 {
				out = append(out, &term{k: kCall0, n: int8(n)})
			}
		}
		return out
	}
	// (list E E)
	split2(w-1, func(a, b int) {
		for _, x := range g.list(ctx, ntExpr, a, sc) {
			for _, y := range g.list(ctx, ntExpr, b, sc) {
				out = append(out, &term{k: kList, kids: []*term{x, y}})
			}
		}
	})
	// (n A)
	args := g.list(ctx, ntArg, w-1, sc)
	for n := 0; n < nn; n++ {
		if bound&(1<<uint(n)) == 0 {
			continue
		}
		for _, a := range args {
			out = append(out, &term{k: kCall, n: int8(n), kids: []*term{a}})
		}
	}
	// (n :p A)
	for _, kf := range c.keyFns {
		for _, a := range args {
			out = append(out, &term{k: kCallKey, n: kf[0], p: kf[1], kids: []*term{a}})
		}
	}
	// (pkg:n A)
	for _, q := range c.qdefs {
		for _, a := range args {
			out = append(out, &term{k: kQCall, p: q[0], n: q[1], kids: []*term{a}})
		}
	}
	// (m A): only where the template's free name is not locally bound
	for i, m := range c.macros {
		if m.free >= 0 && m.fpkg < 0 && sc.local&(1<<uint(m.free)) != 0 { // a qualified mention cannot be captured by a local
			continue
		}
		for _, a := range args {
			out = append(out, &term{k: kMCall, n: int8(i), kids: []*term{a}})
		}
	}
	if sc.lmac && !sc.lmDead {
		for _, a := range args {
			out = append(out, &term{k: kLMCall, kids: []*term{a}})
		}
	}
	// (let ([n A]) E)
	for n := 0; n < nn; n++ {
		split2(w-1, func(a, b int) {
			for _, v := range g.list(ctx, ntArg, a, sc) {
				for _, body := range g.list(ctx, ntExpr, b, with(sc, n)) {
					out = append(out, &term{k: kLet, n: int8(n), kids: []*term{v, body}})
				}
			}
		})
	}
	if g.cfg.Let2 {
		for n := 0; n < nn; n++ {
			for p := 0; p < nn; p++ {
				split3(w-2, func(a, b, cc int) {
					inner := with(with(sc, n), p)
					for _, v1 := range g.list(ctx, ntArg, a, sc) {
						// let: second value sees the outer scope
						for _, v2 := range g.list(ctx, ntArg, b, sc) {
							for _, body := range g.list(ctx, ntExpr, cc, inner) {
								out = append(out, &term{k: kLet2, n: int8(n), p: int8(p), kids: []*term{v1, v2, body}})
							}
						}
						// let*: second value sees the first binding
						for _, v2 := range g.list(ctx, ntArg, b, with(sc, n)) {
							for _, body := range g.list(ctx, ntExpr, cc, inner) {
								out = append(out, &term{k: kLetS2, n: int8(n), p: int8(p), kids: []*term{v1, v2, body}})
							}
						}
					}
				})
			}
		}
	}
	// (flet ([n (p) E]) E) / (labels ...)
	for n := 0; n < nn; n++ {
		for p := 0; p < nn; p++ {
			split2(w-1, func(a, b int) {
				bodies := g.list(ctx, ntExpr, b, with(sc, n))
				for _, fb := range g.list(ctx, ntExpr, a, with(sc, p)) {
					for _, body := range bodies {
						out = append(out, &term{k: kFlet, n: int8(n), p: int8(p), kids: []*term{fb, body}})
					}
				}
				for _, fb := range g.list(ctx, ntExpr, a, with(with(sc, n), p)) {
					for _, body := range bodies {
						out = append(out, &term{k: kLabels, n: int8(n), p: int8(p), kids: []*term{fb, body}})
					}
				}
			})
		}
	}
	// (lambda (n) E)
	for n := 0; n < nn; n++ {
		for _, body := range g.list(ctx, ntExpr, w-1, with(sc, n)) {
			out = append(out, &term{k: kLambda, n: int8(n), kids: []*term{body}})
		}
	}
	// (progn S E)
	split2(w-1, func(a, b int) {
		for _, s := range g.list(ctx, ntStmt, a, sc) {
			for _, e := range g.list(ctx, ntExpr, b, sc) {
				out = append(out, &term{k: kProgn, kids: []*term{s, e}})
			}
		}
	})
	if g.cfg.Macrolet {
		// (macrolet ([lm (p) (quasiquote T)]) E): template 0, 3 (no free name) or 1, 2 over a LOCALLY bound name
		for p := 0; p < nn; p++ {
			closed := sc
			closed.lmac, closed.lmFree, closed.lmDead = true, 0, false
			for t := int8(0); t < nTemplates; t++ {
				if !templateHasFree(t) {
					if p != 0 {
						continue // the parameter name is irrelevant for a closed template: keep one
					}
					for _, body := range g.list(ctx, ntExpr, w-2, closed) {
						out = append(out, &term{k: kMacrolet, n: t, p: int8(p), q: -1, kids: []*term{body}})
					}
					continue
				}
				for f := 0; f < nn; f++ {
					if bound&(1<<uint(f)) == 0 {
						continue
					}
					inner := closed
					inner.lmFree = int8(f + 1)
					for _, body := range g.list(ctx, ntExpr, w-2, inner) {
						out = append(out, &term{k: kMacrolet, n: t, p: int8(p), q: int8(f), kids: []*term{body}})
					}
				}
			}
		}
	}
	if g.cfg.GSetExpr {
		// (set 'g A) as an expression: assignment of a global that the package's own top-level set defines
		for n := 0; n < nn; n++ {
			if c.setNames[sc.pkg]&(1<<uint(n)) != 0 {
				for _, a := range g.list(ctx, ntArg, w-1, sc) {
					out = append(out, &term{k: kGSet, n: int8(n), kids: []*term{a}})
				}
			}
		}
	}
	if g.cfg.DotimesCtl {
		// (dotimes (n A R)) and (dotimes (n A R) S): with a result form the loop is an expression; R (and S) belong
		// to the loop's scope, where n is the loop variable (it holds the number of turns when R is evaluated)
		for n := 0; n < nn; n++ {
			inner := sc.bind(n)
			split2(w-1, func(a, b int) {
				for _, cnt := range g.list(ctx, ntArg, a, sc) {
					for _, res := range g.list(ctx, ntArg, b, inner) {
						out = append(out, &term{k: kDotimesC, n: int8(n), q: 2, kids: []*term{cnt, res}})
					}
				}
			})
			split3(w-1, func(a, b, cc int) {
				for _, cnt := range g.list(ctx, ntArg, a, sc) {
					for _, res := range g.list(ctx, ntArg, b, inner) {
						for _, s := range g.list(ctx, ntStmt, cc, inner) {
							out = append(out, &term{k: kDotimesC, n: int8(n), q: 3, kids: []*term{cnt, res, s}})
						}
					}
				}
			})
		}
	}
	if g.cfg.FunArg {
		for n := 0; n < nn; n++ {
			if bound&(1<<uint(n)) == 0 {
				continue
			}
			for _, a := range g.list(ctx, ntArg, w-2, sc) {
				out = append(out, &term{k: kFunArg, n: int8(n), kids: []*term{a}})
				out = append(out, &term{k: kPrefix, n: int8(n), kids: []*term{a}})
			}
		}
	}
	return out
}

// bind enters a binder of name n.
func (sc scope) bind(n int) scope {
	sc.local |= 1 << uint(n)
	if sc.lmac && sc.lmFree == int8(n+1) {
		sc.lmDead = true
	}
	return sc
}

func (g *gen) genStmt(ctx int, w int, sc scope) []*term {
	c := g.ctxs[ctx]
	nn := len(g.cfg.Names)
	bound := sc.local | c.globals
	var out []*term
	if w < 2 {
		return nil
	}
	args := g.list(ctx, ntArg, w-1, sc)
	for n := 0; n < nn; n++ {
		if bound&(1<<uint(n)) != 0 {
			for _, a := range args {
				out = append(out, &term{k: kSetBang, n: int8(n), kids: []*term{a}})
			}
		}
	}
	for _, a := range args {
		if a.k == kLit {
			continue
		}
		out = append(out, &term{k: kDebug, kids: []*term{a}})
	}
	if g.cfg.GSet {
		for n := 0; n < nn; n++ {
			if c.setNames[sc.pkg]&(1<<uint(n)) != 0 { // assignment only: the package's own top-level set defines it
				for _, a := range args {
					out = append(out, &term{k: kGSet, n: int8(n), kids: []*term{a}})
				}
			}
		}
	}
	if g.cfg.Dotimes {
		for n := 0; n < nn; n++ {
			inner := sc.bind(n)
			for _, s := range g.list(ctx, ntStmt, w-1, inner) {
				out = append(out, &term{k: kDotimes, n: int8(n), kids: []*term{s}})
			}
		}
	}
	if g.cfg.DotimesCtl {
		// (dotimes (n A)) and (dotimes (n A) S): the count A is an expression of the scope AROUND the loop (it is
		// evaluated before the loop variable exists), the body statement S one of the loop's scope
		for n := 0; n < nn; n++ {
			inner := sc.bind(n)
			for _, a := range g.list(ctx, ntArg, w-1, sc) {
				out = append(out, &term{k: kDotimesC, n: int8(n), q: 0, kids: []*term{a}})
			}
			split2(w-1, func(a, b int) {
				for _, cnt := range g.list(ctx, ntArg, a, sc) {
					for _, s := range g.list(ctx, ntStmt, b, inner) {
						out = append(out, &term{k: kDotimesC, n: int8(n), q: 1, kids: []*term{cnt, s}})
					}
				}
			})
		}
	}
	return out
}

// ---------------------------------------------------------------------------
// top-level skeletons

type itemKind uint8

const (
	itDefun    itemKind = iota // (defun n (p) <E>)   style: 0 plain, 1 &key, 2 &optional, 3 &rest
	itDefmacro                 // (defmacro m<i> (p) (quasiquote T))
	itSet                      // (set 'n <A>)
	itExport                   // (export 'n)
	itPkg                      // (in-package 'q) / (in-package 'user): toggles
	itUse                      // (use-package 'q)
	itBreak                    // file break
	itStmt                     // <S> at top level
	itFinal                    // <E>
)

type item struct {
	k     itemKind
	n, p  int8
	style int8
	tmpl  int8
	free  int8
	fpkg  int8 // defmacro: package qualifier of the template's free name, -1 = unqualified
	pkg   int8 // package the item is evaluated in (0 user, 1 q)
	hole  int  // weight of the hole
	fill  *term
}

var pkgNames = []string{"user", "q"}

var stylePrefix = []string{"", "&key ", "&optional ", "&rest "}

// skeletons calls f for every item sequence (holes carry weights, not yet
// filled) of total weight <= MaxW that ends in a final expression.
func (g *gen) skeletons(f func(items []item)) {
	var items []item
	nn := len(g.cfg.Names)
	type st struct {
		pkg      int8
		files    int
		defined  map[[2]int8]bool // (pkg,n) defined by defun/set (for export/redefinition)
		exported map[[2]int8]bool
		used     bool // use-package 'q seen in user
		nmacros  int
	}
	var rec func(left int, s st)
	holeW := func(left, min int, f func(h int)) {
		max := left
		if g.cfg.HoleMaxW > 0 && max > g.cfg.HoleMaxW {
			max = g.cfg.HoleMaxW
		}
		for h := min; h <= max; h++ {
			f(h)
		}
	}
	clone := func(m map[[2]int8]bool) map[[2]int8]bool {
		o := make(map[[2]int8]bool, len(m)+1)
		for k, v := range m {
			o[k] = v
		}
		return o
	}
	rec = func(left int, s st) {
		// final expression: any weight 1..left
		fmax := left
		if g.cfg.FinalMaxW > 0 && fmax > g.cfg.FinalMaxW {
			fmax = g.cfg.FinalMaxW
		}
		for h := 1; h <= fmax; h++ {
			items = append(items, item{k: itFinal, pkg: s.pkg, hole: h})
			f(items)
			items = items[:len(items)-1]
		}
		if len(items) >= g.cfg.MaxItems || left < 3 {
			return
		}
		push := func(it item, cost int, ns st) {
			it.pkg = s.pkg
			items = append(items, it)
			rec(left-cost, ns)
			items = items[:len(items)-1]
		}
		// defun: 1 (form, with its name and parameter list) + hole
		nstyles := g.cfg.Styles
		dn := nn
		if g.cfg.DefNames > 0 && g.cfg.DefNames < nn {
			dn = g.cfg.DefNames
		}
		for n := int8(0); n < int8(dn); n++ {
			key := [2]int8{s.pkg, n}
			if s.defined[key] && !g.cfg.Redefine {
				continue
			}
			for p := int8(0); p < int8(nn); p++ {
				if g.cfg.FixParam && p != int8(nn-1) {
					continue
				}
				for style := int8(0); style < int8(nstyles); style++ {
					holeW(left-2, 1, func(h int) { // leave >= 1 for the final expression
						ns := s
						ns.defined = clone(s.defined)
						ns.defined[key] = true
						push(item{k: itDefun, n: n, p: p, style: style, hole: h}, 1+h, ns)
					})
				}
			}
		}
		// set: 1 + hole
		for n := int8(0); n < int8(dn); n++ {
			key := [2]int8{s.pkg, n}
			if s.defined[key] && !g.cfg.Redefine {
				continue
			}
			holeW(left-2, 1, func(h int) {
				ns := s
				ns.defined = clone(s.defined)
				ns.defined[key] = true
				push(item{k: itSet, n: n, hole: h}, 1+h, ns)
			})
			if g.cfg.NestedSet {
				// the same definition nested in a top-level non-function form: the
				// wrapper costs 1, the second set of an if with two branches 1 more
				for wr := int8(1); wr < nSetWraps; wr++ {
					extra := 1
					if wr <= 2 {
						extra = 2
					}
					holeW(left-2-extra, 1, func(h int) {
						ns := s
						ns.defined = clone(s.defined)
						ns.defined[key] = true
						push(item{k: itSet, n: n, style: wr, hole: h}, 1+extra+h, ns)
					})
				}
			}
		}
		// defmacro: weight 2 (form, template); at most 1 macro per session
		if g.cfg.Macros && s.nmacros < 1 && left >= 4 {
			for p := int8(0); p < int8(nn); p++ {
				for t := int8(0); t < nTemplates; t++ {
					if !templateHasFree(t) {
						if p != 0 {
							continue
						}
						ns := s
						ns.nmacros++
						push(item{k: itDefmacro, n: int8(s.nmacros), p: p, tmpl: t, free: -1, fpkg: -1}, 2, ns)
						continue
					}
					for fr := int8(0); fr < int8(nn); fr++ {
						ns := s
						ns.nmacros++
						push(item{k: itDefmacro, n: int8(s.nmacros), p: p, tmpl: t, free: fr, fpkg: -1}, 2, ns)
					}
					// the same template with a package-qualified mention (pkg:name); the
					// parameter name is irrelevant for it: keep one
					if g.cfg.QTemplates && p == 0 {
						npk := int8(1)
						if g.cfg.Packages {
							npk = 2
						}
						for fp := int8(0); fp < npk; fp++ {
							for fr := int8(0); fr < int8(dn); fr++ {
								ns := s
								ns.nmacros++
								push(item{k: itDefmacro, n: int8(s.nmacros), p: p, tmpl: t, free: fr, fpkg: fp}, 2, ns)
							}
						}
					}
				}
			}
		}
		// top-level statement
		holeW(left-1, 2, func(h int) {
			push(item{k: itStmt, hole: h}, h, s)
		})
		if g.cfg.Packages {
			// export: weight 1; only names defined in the current package somewhere is not known
			// yet (forward export is legal), so any pool name may be exported once per package
			for n := int8(0); n < int8(dn); n++ {
				key := [2]int8{s.pkg, n}
				if s.exported[key] {
					continue
				}
				ns := s
				ns.exported = clone(s.exported)
				ns.exported[key] = true
				push(item{k: itExport, n: n}, 1, ns)
				if g.cfg.ExportForms {
					// (export "n") and (export '(n m)): the builtin accepts strings and lists of names
					push(item{k: itExport, n: n, style: 2}, 1, ns)
					for m := int8(0); m < int8(dn); m++ {
						k2 := [2]int8{s.pkg, m}
						if m == n || s.exported[k2] {
							continue
						}
						ns2 := ns
						ns2.exported = clone(ns.exported)
						ns2.exported[k2] = true
						push(item{k: itExport, n: n, p: m, style: 1}, 1, ns2)
					}
				}
			}
			// package toggle: weight 1
			{
				ns := s
				ns.pkg = 1 - s.pkg
				push(item{k: itPkg, n: ns.pkg}, 1, ns)
			}
			if s.pkg == 0 && !s.used {
				ns := s
				ns.used = true
				push(item{k: itUse}, 1, ns)
			}
		}
		maxBreaks := 1
		if g.cfg.MaxBreaks > 0 {
			maxBreaks = g.cfg.MaxBreaks
		}
		if g.cfg.Files && s.files < maxBreaks && len(items) > 0 {
			ns := s
			ns.files = s.files + 1
			ns.pkg = 0
			ns.used = false
			push(item{k: itBreak}, 1, ns)
		}
	}
	rec(g.cfg.MaxW, st{defined: map[[2]int8]bool{}, exported: map[[2]int8]bool{}})
}

// useful reports whether the skeleton is worth filling: structural
// restrictions that remove programs which cannot exercise anything new
// (stated in the evidence as part of the grammar).
// exportsName reports whether an export item names pool name n.
func (it item) exportsName(n int8) bool {
	return it.n == n || (it.style == 1 && it.p == n)
}

func skeletonOK(items []item, langName bool) bool {
	// A global function named like something the language binds must be
	// defined before anything is evaluated: a reference that runs earlier would
	// reach the language's binding, i.e. resolve by execution order, not by scope.
	if langName {
		evaluated := false
		for _, it := range items {
			if it.k == itDefun && it.n == 0 && evaluated {
				return false
			}
			if it.k == itSet || it.k == itStmt {
				evaluated = true
			}
		}
	}
	// a package toggle directly followed by another toggle, a break or the
	// end is an empty section
	for i, it := range items {
		if it.k == itPkg {
			if i+1 < len(items) && (items[i+1].k == itPkg || items[i+1].k == itBreak) {
				return false
			}
		}
		if it.k == itBreak && i+1 < len(items) && items[i+1].k == itBreak {
			return false
		}
	}
	// export / use-package / in-package only make sense with a definition somewhere
	hasDef := false
	for _, it := range items {
		if it.k == itDefun || it.k == itSet || it.k == itDefmacro {
			hasDef = true
		}
	}
	for _, it := range items {
		if (it.k == itExport || it.k == itUse || it.k == itPkg || it.k == itBreak) && !hasDef {
			return false
		}
	}
	// a package never defines a name it also imports: with (use-package 'q) in
	// user, the names q exports are not defined in user (which binding a
	// reference reaches would depend on evaluation order, not on scope)
	for _, it := range items {
		if it.k != itUse {
			continue
		}
		for _, e := range items {
			if e.k != itExport || e.pkg != 1 {
				continue
			}
			for _, d := range items {
				if (d.k == itDefun || d.k == itSet) && d.pkg == 0 && e.exportsName(d.n) {
					return false
				}
			}
		}
	}
	// use-package 'q needs an export in q somewhere in the session
	for _, it := range items {
		if it.k != itUse {
			continue
		}
		ok := false
		for _, d := range items {
			if d.k == itExport && d.pkg == 1 {
				ok = true
			}
		}
		if !ok {
			return false
		}
	}
	// an export must name something that package defines somewhere in the session
	for _, it := range items {
		if it.k != itExport {
			continue
		}
		names := []int8{it.n}
		if it.style == 1 {
			names = append(names, it.p)
		}
		for _, n := range names {
			ok := false
			for _, d := range items {
				if (d.k == itDefun || d.k == itSet) && d.pkg == it.pkg && d.n == n {
					ok = true
				}
			}
			if !ok {
				return false
			}
		}
	}
	// a macro whose template mentions a free name needs that name defined globally
	for _, it := range items {
		if it.k == itDefmacro && it.free >= 0 {
			ok := false
			for _, d := range items {
				want := it.pkg
				if it.fpkg >= 0 {
					want = it.fpkg
				}
				if (d.k == itDefun || d.k == itSet) && d.n == it.free && d.pkg == want {
					ok = true
				}
			}
			if !ok {
				return false
			}
		}
	}
	return true
}

func contextOf(items []item) *gctx {
	c := &gctx{}
	seenQ := map[[2]int8]bool{}
	seenK := map[[2]int8]bool{}
	for _, it := range items {
		switch it.k {
		case itDefun, itSet:
			c.globals |= 1 << uint(it.n)
			if it.k == itSet {
				c.setNames[it.pkg] |= 1 << uint(it.n)
			}
			q := [2]int8{it.pkg, it.n}
			if !seenQ[q] {
				seenQ[q] = true
				c.qdefs = append(c.qdefs, q)
			}
			if it.k == itDefun {
				switch it.style {
				case 1:
					kf := [2]int8{it.n, it.p}
					if !seenK[kf] {
						seenK[kf] = true
						c.keyFns = append(c.keyFns, kf)
					}
				case 2, 3:
					c.zeroFns |= 1 << uint(it.n)
				}
			}
		case itDefmacro:
			c.macros = append(c.macros, macroDef{param: it.p, tmpl: it.tmpl, free: it.free, fpkg: it.fpkg})
		}
	}
	return c
}

// ---------------------------------------------------------------------------
// rendering

type renderer struct {
	names []string
	wrap  string
	lit   int
	b     strings.Builder
}

func (r *renderer) name(i int8) string { return r.names[i] }

// body renders a function body tagged with a fresh literal, so that WHICH
// function a call reached is observable in the value.
func (r *renderer) body(t *term) {
	r.lit++
	r.b.WriteString("(" + r.wrap + " " + strconv.Itoa(r.lit) + " ")
	r.term(t)
	r.b.WriteString(")")
}

func (r *renderer) term(t *term) {
	w := func(s string) { r.b.WriteString(s) }
	switch t.k {
	case kLit:
		r.lit++
		w(strconv.Itoa(r.lit))
	case kKw:
		w(":" + r.name(t.n))
	case kQSym:
		w("'" + r.name(t.n))
	case kQList:
		w("'(" + r.name(t.n) + " :" + r.name(t.n) + ")")
	case kQQ:
		w("(quasiquote ('" + r.name(t.n) + " (" + r.name(t.n) + " :" + r.name(t.n) + ") [" + r.name(t.n) + "]))")
	case kRef:
		w(r.name(t.n))
	case kQRef:
		w(pkgNames[t.p] + ":" + r.name(t.n))
	case kList:
		w("(list ")
		r.term(t.kids[0])
		w(" ")
		r.term(t.kids[1])
		w(")")
	case kCall:
		w("(" + r.name(t.n) + " ")
		r.term(t.kids[0])
		w(")")
	case kCall0:
		w("(" + r.name(t.n) + ")")
	case kCallKey:
		w("(" + r.name(t.n) + " :" + r.name(t.p) + " ")
		r.term(t.kids[0])
		w(")")
	case kQCall:
		w("(" + pkgNames[t.p] + ":" + r.name(t.n) + " ")
		r.term(t.kids[0])
		w(")")
	case kMCall:
		w("(m" + strconv.Itoa(int(t.n)) + " ")
		r.term(t.kids[0])
		w(")")
	case kLMCall:
		w("(lm ")
		r.term(t.kids[0])
		w(")")
	case kLet:
		w("(let ([" + r.name(t.n) + " ")
		r.term(t.kids[0])
		w("]) ")
		r.term(t.kids[1])
		w(")")
	case kLet2, kLetS2:
		if t.k == kLet2 {
			w("(let ([")
		} else {
			w("(let* ([")
		}
		w(r.name(t.n) + " ")
		r.term(t.kids[0])
		w("] [" + r.name(t.p) + " ")
		r.term(t.kids[1])
		w("]) ")
		r.term(t.kids[2])
		w(")")
	case kFlet, kLabels:
		if t.k == kFlet {
			w("(flet ([")
		} else {
			w("(labels ([")
		}
		w(r.name(t.n) + " (" + r.name(t.p) + ") ")
		r.body(t.kids[0])
		w("]) ")
		r.term(t.kids[1])
		w(")")
	case kLambda:
		w("(lambda (" + r.name(t.n) + ") ")
		r.body(t.kids[0])
		w(")")
	case kProgn:
		w("(progn ")
		r.term(t.kids[0])
		w(" ")
		r.term(t.kids[1])
		w(")")
	case kSetBang:
		w("(set! " + r.name(t.n) + " ")
		r.term(t.kids[0])
		w(")")
	case kDebug:
		w("(debug-print ")
		r.term(t.kids[0])
		w(")")
	case kGSet:
		w("(set '" + r.name(t.n) + " ")
		r.term(t.kids[0])
		w(")")
	case kDotimes:
		w("(dotimes (" + r.name(t.n) + " 2) ")
		r.term(t.kids[0])
		w(")")
	case kDotimesC:
		w("(dotimes (" + r.name(t.n) + " ")
		r.term(t.kids[0])
		next := 1
		if t.q&2 != 0 {
			w(" ")
			r.term(t.kids[next])
			next++
		}
		w(")")
		if t.q&1 != 0 {
			w(" ")
			r.term(t.kids[next])
		}
		w(")")
	case kMacrolet:
		free := ""
		if t.q >= 0 {
			free = r.name(t.q)
		}
		w("(macrolet ([lm (" + r.name(t.p) + ") " + macroBody(t.n, r.name(t.p), free) + "]) ")
		r.term(t.kids[0])
		w(")")
	case kFunArg:
		w("(funcall (function " + r.name(t.n) + ") ")
		r.term(t.kids[0])
		w(")")
	case kPrefix:
		w("(funcall #^(list % " + r.name(t.n) + ") ")
		r.term(t.kids[0])
		w(")")
	}
}

// program is one enumerated case.
type program struct {
	Files    []string
	HasKey   bool // a keyword argument is passed somewhere / a &key signature exists
	HasExp   bool
	Surface  []string // pkg:name of exported names and top-level set names (stable under default options)
	Defined  []string // pkg:name of every top-level defun / set
	NItems   int
	Features uint32
	Tags     string // comma-joined sorted feature tags (part of the violation class)
}

func termHasKey(t *term) bool {
	if t == nil {
		return false
	}
	if t.k == kCallKey {
		return true
	}
	for _, k := range t.kids {
		if termHasKey(k) {
			return true
		}
	}
	return false
}

var allTags = []string{"&key", "&optional", "&rest", "callkey", "defmacro", "defmacro-free", "defmacro-free-eq-param", "defmacro-name-as-data", "defmacro-qfree", "dotimes", "dotimes-count-shadow", "dotimes-ctl", "dotimes-result", "dotimes-result-ref", "export", "export-in-other-file", "export-list", "export-string",
	"files", "funarg", "gset", "let-dup", "let-value-closure", "macrolet", "macrolet-free", "nested-set", "pkg", "prefix", "qref", "qref-in-brackets", "quasiquote-data", "redefine", "use", "use-with-local-export"}

func termTags(t *term, tags map[string]bool, inBrackets bool) {
	if t == nil {
		return
	}
	switch t.k {
	case kCallKey:
		tags["callkey"] = true
	case kDotimes:
		tags["dotimes"] = true
	case kDotimesC:
		tags["dotimes-ctl"] = true
		if freeRefs(t.kids[0])&(1<<uint(t.n)) != 0 {
			// the count mentions the very name the loop binds: there it means the binding AROUND the loop
			tags["dotimes-count-shadow"] = true
		}
		if t.q&2 != 0 {
			if freeRefs(t.kids[1]) != 0 {
				tags["dotimes-result-ref"] = true // the result form refers to a name bound outside it (loop variable included)
			} else {
				tags["dotimes-result"] = true // a closed result form (literal, or only its own binders)
			}
		}
	case kFunArg:
		tags["funarg"] = true
	case kPrefix:
		tags["prefix"] = true
	case kGSet:
		tags["gset"] = true
	case kLet:
		if closureSees(t.kids[0], 1<<uint(t.n), false) {
			tags["let-value-closure"] = true
		}
	case kLet2, kLetS2:
		if t.n == t.p {
			tags["let-dup"] = true
		}
		both := uint8(1)<<uint(t.n) | uint8(1)<<uint(t.p)
		second := both
		if t.k == kLetS2 {
			second = 1 << uint(t.p) // the second let* value legitimately sees the first binding
		}
		if closureSees(t.kids[0], both, false) || closureSees(t.kids[1], second, false) {
			tags["let-value-closure"] = true
		}
	case kQQ:
		tags["quasiquote-data"] = true
	case kMacrolet:
		if t.q >= 0 {
			tags["macrolet-free"] = true
		} else {
			tags["macrolet"] = true
		}
	case kQRef, kQCall:
		if inBrackets {
			tags["qref-in-brackets"] = true
		} else {
			tags["qref"] = true
		}
	}
	for i, k := range t.kids {
		br := inBrackets
		switch t.k {
		case kLet, kFlet, kLabels:
			br = br || i == 0 // [n value] / [n (p) body] are bracketed
		case kLet2, kLetS2:
			br = br || i < 2
		}
		termTags(k, tags, br)
	}
}

// closureSees reports whether a closure created inside t (lambda, flet/labels
// function, #^ lambda) refers to one of the names in the mask without
// rebinding it first.  Used on let binding values: the evaluator evaluates
// them in the let's own environment, so such a closure sees the let's
// bindings, while the analyzer resolves it in the outer scope.
func closureSees(t *term, names uint8, inClosure bool) bool {
	if t == nil || names == 0 {
		return false
	}
	has := func(n int8) bool { return n >= 0 && names&(1<<uint(n)) != 0 }
	without := func(ns ...int8) uint8 {
		m := names
		for _, n := range ns {
			m &^= 1 << uint(n)
		}
		return m
	}
	switch t.k {
	case kRef:
		return inClosure && has(t.n)
	case kCall, kCallKey, kSetBang, kFunArg:
		if inClosure && has(t.n) {
			return true
		}
	case kPrefix:
		if has(t.n) {
			return true
		}
	case kLambda:
		return closureSees(t.kids[0], without(t.n), true)
	case kFlet:
		return closureSees(t.kids[0], without(t.p), true) || closureSees(t.kids[1], without(t.n), inClosure)
	case kLabels:
		return closureSees(t.kids[0], without(t.n, t.p), true) || closureSees(t.kids[1], without(t.n), inClosure)
	case kLet:
		return closureSees(t.kids[0], names, inClosure) || closureSees(t.kids[1], without(t.n), inClosure)
	case kLet2, kLetS2:
		return closureSees(t.kids[0], names, inClosure) || closureSees(t.kids[1], names, inClosure) ||
			closureSees(t.kids[2], without(t.n, t.p), inClosure)
	case kDotimes:
		return closureSees(t.kids[0], without(t.n), inClosure)
	case kDotimesC:
		if closureSees(t.kids[0], names, inClosure) {
			return true
		}
		for _, k := range t.kids[1:] {
			if closureSees(k, without(t.n), inClosure) {
				return true
			}
		}
		return false
	case kMacrolet:
		if inClosure && has(t.q) {
			return true
		}
	}
	for _, k := range t.kids {
		if closureSees(k, names, inClosure) {
			return true
		}
	}
	return false
}

// freeRefs is the set of pool names a term refers to (as variable, function, assignment target or free name of a
// macrolet template) without binding them itself.  Package-qualified references and data (keywords, quoted symbols
// and lists) are not bare references.
func freeRefs(t *term) uint8 {
	if t == nil {
		return 0
	}
	bit := func(n int8) uint8 {
		if n < 0 {
			return 0
		}
		return 1 << uint(n)
	}
	kid := func(i int) uint8 { return freeRefs(t.kids[i]) }
	switch t.k {
	case kRef, kCall0:
		return bit(t.n)
	case kCall, kCallKey, kSetBang, kFunArg, kPrefix, kGSet:
		return bit(t.n) | kid(0)
	case kLet:
		return kid(0) | kid(1)&^bit(t.n)
	case kLet2:
		return kid(0) | kid(1) | kid(2)&^(bit(t.n)|bit(t.p))
	case kLetS2:
		return kid(0) | kid(1)&^bit(t.n) | kid(2)&^(bit(t.n)|bit(t.p))
	case kFlet:
		return kid(0)&^bit(t.p) | kid(1)&^bit(t.n)
	case kLabels:
		return kid(0)&^(bit(t.n)|bit(t.p)) | kid(1)&^bit(t.n)
	case kLambda, kDotimes:
		return kid(0) &^ bit(t.n)
	case kDotimesC:
		m := kid(0)
		for i := 1; i < len(t.kids); i++ {
			m |= kid(i) &^ bit(t.n)
		}
		return m
	case kMacrolet:
		return bit(t.q) | kid(0)
	}
	var m uint8
	for i := range t.kids {
		m |= kid(i)
	}
	return m
}

func termFeatures(t *term, f *uint32) {
	if t == nil {
		return
	}
	*f |= 1 << uint(t.k)
	for _, k := range t.kids {
		termFeatures(k, f)
	}
}

// render builds the file texts of a filled skeleton.
func (g *gen) render(items []item) program {
	r := &renderer{names: g.cfg.Names, wrap: "list"}
	if g.cfg.Wrap != "" {
		r.wrap = g.cfg.Wrap
	}
	r.b.WriteString(g.cfg.Prelude)
	var p program
	var files []string
	pkg := int8(0)
	first := true
	nl := func() {
		if !first {
			r.b.WriteString("\n")
		}
		first = false
	}
	surf := map[string]bool{}
	exported := map[[2]int8]bool{}
	defined := map[[2]int8]bool{}
	setDefined := map[[2]int8]bool{}
	nestedSet := false
	for _, it := range items {
		switch it.k {
		case itBreak:
			if pkg != 0 {
				nl()
				r.b.WriteString("(in-package 'user)")
				pkg = 0
			}
			r.b.WriteString("\n")
			files = append(files, r.b.String())
			r.b.Reset()
			first = true
			continue
		}
		nl()
		switch it.k {
		case itDefun:
			r.b.WriteString("(defun " + r.name(it.n) + " (" + stylePrefix[it.style] + r.name(it.p) + ") ")
			r.body(it.fill)
			r.b.WriteString(")")
			defined[[2]int8{it.pkg, it.n}] = true
			if it.style == 1 {
				p.HasKey = true
			}
		case itDefmacro:
			free := ""
			if it.free >= 0 {
				free = r.name(it.free)
				if it.fpkg >= 0 {
					free = pkgNames[it.fpkg] + ":" + free
				}
			}
			r.b.WriteString("(defmacro m" + strconv.Itoa(int(it.n)) + " (" + r.name(it.p) + ") " + macroBody(it.tmpl, r.name(it.p), free) + ")")
		case itSet:
			v := r.name(int8(len(r.names) - 1)) // binder of the let / dotimes wrappers
			set := func(hole bool) {
				r.b.WriteString("(set '" + r.name(it.n) + " ")
				if hole {
					r.term(it.fill)
				} else {
					r.lit++
					r.b.WriteString(strconv.Itoa(r.lit))
				}
				r.b.WriteString(")")
			}
			switch it.style {
			case 0:
				set(true)
			case 1:
				r.b.WriteString("(if true ")
				set(true)
				r.b.WriteString(" ")
				set(false)
				r.b.WriteString(")")
			case 2:
				r.b.WriteString("(if false ")
				set(false)
				r.b.WriteString(" ")
				set(true)
				r.b.WriteString(")")
			case 3:
				r.b.WriteString("(if true ")
				set(true)
				r.b.WriteString(" ())")
			case 4:
				r.b.WriteString("(progn ")
				set(true)
				r.b.WriteString(")")
			case 5:
				r.lit++
				r.b.WriteString("(let ([" + v + " " + strconv.Itoa(r.lit) + "]) ")
				set(true)
				r.b.WriteString(")")
			case 6:
				r.b.WriteString("(cond (true ")
				set(true)
				r.b.WriteString("))")
			case 7:
				r.b.WriteString("(dotimes (" + v + " 1) ")
				set(true)
				r.b.WriteString(")")
			case 8:
				r.b.WriteString("(handler-bind ([condition (lambda (c &rest r) 0)]) ")
				set(true)
				r.b.WriteString(")")
			}
			if it.style > 0 {
				nestedSet = true
			}
			defined[[2]int8{it.pkg, it.n}] = true
			setDefined[[2]int8{it.pkg, it.n}] = true
		case itExport:
			switch it.style {
			case 1:
				r.b.WriteString("(export '(" + r.name(it.n) + " " + r.name(it.p) + "))")
				exported[[2]int8{it.pkg, it.p}] = true
			case 2:
				r.b.WriteString("(export \"" + r.name(it.n) + "\")")
			default:
				r.b.WriteString("(export '" + r.name(it.n) + ")")
			}
			exported[[2]int8{it.pkg, it.n}] = true
			p.HasExp = true
		case itPkg:
			r.b.WriteString("(in-package '" + pkgNames[it.n] + ")")
			pkg = it.n
		case itUse:
			r.b.WriteString("(use-package 'q)")
		case itStmt, itFinal:
			r.term(it.fill)
		}
		if it.fill != nil {
			if termHasKey(it.fill) {
				p.HasKey = true
			}
			termFeatures(it.fill, &p.Features)
		}
	}
	r.b.WriteString("\n")
	files = append(files, r.b.String())
	p.Files = files
	p.NItems = len(items)
	tags := map[string]bool{}
	if nestedSet {
		tags["nested-set"] = true
	}
	seenDef := map[[2]int8]bool{}
	for _, it := range items {
		switch it.k {
		case itDefun, itSet:
			k := [2]int8{it.pkg, it.n}
			if seenDef[k] {
				tags["redefine"] = true
			}
			seenDef[k] = true
			if it.k == itDefun && it.style > 0 {
				tags[strings.TrimSpace(stylePrefix[it.style])] = true
			}
			if it.pkg != 0 {
				tags["pkg"] = true
			}
		case itDefmacro:
			if it.free >= 0 && it.fpkg >= 0 {
				tags["defmacro-qfree"] = true
			} else if it.free >= 0 && it.free == it.p {
				tags["defmacro-free-eq-param"] = true
			} else if it.free >= 0 {
				tags["defmacro-free"] = true
			} else if it.tmpl >= 4 {
				tags["defmacro-name-as-data"] = true
			} else {
				tags["defmacro"] = true
			}
		case itExport:
			switch it.style {
			case 1:
				tags["export-list"] = true
			case 2:
				tags["export-string"] = true
			default:
				tags["export"] = true
			}
		case itPkg:
			tags["pkg"] = true
		case itUse:
			tags["use"] = true
		case itBreak:
			tags["files"] = true
		}
		if it.fill != nil {
			termTags(it.fill, tags, false)
		}
	}
	fileOf := make([]int, len(items))
	fno := 0
	for i, it := range items {
		if it.k == itBreak {
			fno++
		}
		fileOf[i] = fno
	}
	for i, it := range items {
		switch it.k {
		case itExport:
			same, other := false, false
			for j, d := range items {
				if (d.k == itDefun || d.k == itSet) && d.pkg == it.pkg && d.n == it.n {
					if fileOf[j] == fileOf[i] {
						same = true
					} else {
						other = true
					}
				}
			}
			if other && !same {
				tags["export-in-other-file"] = true
			}
		case itUse:
			for j, d := range items {
				if d.k == itExport && d.pkg == 1 && fileOf[j] == fileOf[i] {
					tags["use-with-local-export"] = true
				}
			}
		}
	}
	var tl []string
	for _, t := range allTags {
		if tags[t] {
			tl = append(tl, t)
		}
	}
	p.Tags = strings.Join(tl, ",")
	for pk := int8(0); pk < 2; pk++ {
		for n := int8(0); n < int8(len(g.cfg.Names)); n++ {
			if defined[[2]int8{pk, n}] {
				p.Defined = append(p.Defined, pkgNames[pk]+":"+r.name(n))
			}
		}
	}
	for pk := int8(0); pk < 2; pk++ {
		for n := int8(0); n < int8(len(g.cfg.Names)); n++ {
			k := [2]int8{pk, n}
			if (exported[k] && defined[k]) || setDefined[k] {
				surf[pkgNames[pk]+":"+r.name(n)] = true
			}
		}
	}
	for pk := 0; pk < 2; pk++ {
		for _, n := range g.cfg.Names {
			if surf[pkgNames[pk]+":"+n] {
				p.Surface = append(p.Surface, pkgNames[pk]+":"+n)
			}
		}
	}
	return p
}

// enumerate visits every program of the configured grammar.
func (g *gen) enumerate(visit func(p program)) (skeletons int64) {
	g.skeletons(func(items []item) {
		if !skeletonOK(items, g.cfg.LangName) {
			return
		}
		if g.cfg.ExportForms {
			// this family is about the list and string spellings: plain sessions are enumerated elsewhere
			styled := false
			for _, it := range items {
				if it.k == itExport && it.style > 0 {
					styled = true
				}
			}
			if !styled {
				return
			}
		}
		skeletons++
		ctx := g.ctxID(contextOf(items))
		its := make([]item, len(items))
		copy(its, items)
		var fill func(i int)
		fill = func(i int) {
			if i == len(its) {
				p := g.render(its)
				if g.cfg.NeedGSet && !strings.Contains(","+p.Tags+",", ",gset,") {
					return
				}
				if g.cfg.DotimesCtl && !strings.Contains(","+p.Tags+",", ",dotimes-ctl,") {
					return // sessions without such a loop are enumerated by the other families
				}
				visit(p)
				return
			}
			it := &its[i]
			var l []*term
			switch it.k {
			case itDefun:
				l = g.list(ctx, ntExpr, it.hole, scope{local: 1 << uint(it.p), pkg: it.pkg})
			case itSet:
				sc := scope{pkg: it.pkg}
				if it.style == 5 || it.style == 7 {
					sc = sc.bind(len(g.cfg.Names) - 1) // the value sees the wrapper's binder
				}
				l = g.list(ctx, ntArg, it.hole, sc)
			case itStmt:
				l = g.list(ctx, ntStmt, it.hole, scope{pkg: it.pkg})
			case itFinal:
				l = g.list(ctx, ntExpr, it.hole, scope{pkg: it.pkg})
			default:
				fill(i + 1)
				return
			}
			for _, t := range l {
				it.fill = t
				fill(i + 1)
			}
		}
		fill(0)
	})
	return skeletons
}
