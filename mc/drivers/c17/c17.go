// Package c17: minification preserves program meaning.
//
// Every program of a statically scoped grammar (grammar.go) up to a node-count
// bound is minified through the minifier package exactly as `elps minify`
// configures it, under each option of the statement's quantifier, and the
// original and minified sessions are evaluated in fresh runtimes and compared
// (check.go).  The oracle is differential: no expected value is written down.
package c17

import (
	"fmt"
	"hash/fnv"
	"os"
	"regexp"
	"runtime/debug"
	"runtime/pprof"
	"strings"
	"sync"
	"sync/atomic"

	"verif/mc/core"
)

func init() { core.Register(&core.Driver{Property: "C17", Run: run, Replay: replay}) }

type family struct {
	name string
	cfg  gcfg
	// generated-name family: names to neutralise for the collision triage
	altFrom, altTo []string
}

func families(thorough bool) []family {
	d := 0
	if thorough {
		d = 1
	}
	ab := []string{"a", "b"}
	fams := []family{
		// every local binding form, expressions only
		{name: "expr", cfg: gcfg{Names: ab, MaxW: 6 + d, MaxItems: 0, Let2: true, Dotimes: true, Macrolet: true, FunArg: true, Styles: 1}},
		// top-level defun / set / defmacro / statements around the core expression grammar
		{name: "top", cfg: gcfg{Names: ab, MaxW: 6 + d, MaxItems: 3, Styles: 1, GSet: true, Macros: true, QTemplates: true, Redefine: true, HoleMaxW: 3, FinalMaxW: 4}},
		// &key / &optional / &rest signatures and keyword calls
		{name: "key", cfg: gcfg{Names: ab, MaxW: 5 + d, MaxItems: 2, Styles: 4, FixParam: true}},
		// keywords, quoted symbols and quoted lists as data
		{name: "data", cfg: gcfg{Names: ab, MaxW: 5 + d, MaxItems: 2, Styles: 1, Data: true}},
		// packages, exports, use-package, qualified names, two files, macros; one global name
		{name: "pkg", cfg: gcfg{Names: ab, MaxW: 8 + d, MaxItems: 6, HoleMaxW: 1, FinalMaxW: 2, Styles: 1, Packages: true, Files: true, Macros: true, QTemplates: true, FixParam: true, DefNames: 1}},
		// the same with two global names
		{name: "pkg2", cfg: gcfg{Names: ab, MaxW: 7 + d, MaxItems: 6, HoleMaxW: 1, FinalMaxW: 2, Styles: 1, Packages: true, Files: true, FixParam: true}},
		// names of the minifier's own x<N> scheme in the source
		{name: "gen", cfg: gcfg{Names: []string{"a", "x1"}, MaxW: 5 + d, MaxItems: 2, Styles: 1, HoleMaxW: 2}, altFrom: []string{"x1"}, altTo: []string{"c"}},
	}
	// names the language itself binds as definable names: builtins, a special
	// operator, a stock macro (bodies are tagged lists, so the program's
	// function never behaves like the language's)
	type ln struct {
		name string
		w    int
	}
	lang := []ln{{"first", 5}, {"if", 5}, {"max", 4}, {"trace", 4}}
	if thorough {
		lang = append(lang, ln{"rest", 4}, ln{"length", 4})
	}
	for _, b := range lang {
		fams = append(fams, family{name: "lang-" + b.name, cfg: gcfg{Names: []string{b.name, "a"}, LangName: true, MaxW: b.w + d, MaxItems: 2, Styles: 1, HoleMaxW: 3}})
	}
	// top-level set forms nested in if / progn / let / cond / dotimes / handler-bind, with readers before and
	// after, in functions defined earlier and later, in another file and spelled user:name
	fams = append(fams, family{name: "nset", cfg: gcfg{Names: ab, NestedSet: true, DefNames: 1, MaxW: 7 + 2*d, MaxItems: 3, HoleMaxW: 1, FinalMaxW: 2, Styles: 1, Files: true, FixParam: true, Redefine: true}})
	// a local binding (let, let*, flet, labels, lambda / defun parameter, dotimes) with the name of a
	// global that a top-level set defines; inside it the global is assigned with (set 'g v), read, quoted;
	// the global is read again afterwards (in the session and by the host probe)
	fams = append(fams,
		family{name: "gshadow", cfg: gcfg{Names: ab, DefNames: 1, GSet: true, GSetExpr: true, NeedGSet: true, Dotimes: true, MaxW: 7 + d, MaxItems: 1, HoleMaxW: 1, Styles: 1, FixParam: true}},
		// the same with the global living in a named package, exported and imported
		family{name: "gshadow-pkg", cfg: gcfg{Names: ab, DefNames: 1, GSet: true, GSetExpr: true, NeedGSet: true, Packages: true, MaxW: 8 + d, MaxItems: 4, HoleMaxW: 1, FinalMaxW: 4, Styles: 1, FixParam: true}},
	)
	fams = append(fams,
		// the other spellings the export builtin accepts: (export '(n m)) and (export "n")
		family{name: "expform", cfg: gcfg{Names: ab, ExportForms: true, Packages: true, MaxW: 6 + d, MaxItems: 4, HoleMaxW: 1, FinalMaxW: 2, Styles: 1, FixParam: true}},
		// three-file sessions, the same global defined in more than one file
		family{name: "files3", cfg: gcfg{Names: ab, DefNames: 1, Files: true, MaxBreaks: 2, Redefine: true, MaxW: 8 + d, MaxItems: 5, HoleMaxW: 1, FinalMaxW: 2, Styles: 1, FixParam: true}},
	)
	fams = append(fams,
		// `list` itself redefined (bodies are tagged with vector instead)
		family{name: "lang-list", cfg: gcfg{Names: []string{"list", "a"}, LangName: true, Wrap: "vector", MaxW: 4 + d, MaxItems: 2, Styles: 1, HoleMaxW: 2}},
		// a builtin name defined in the user package and in a named package, referenced unqualified and qualified
		family{name: "lang-pkg", cfg: gcfg{Names: []string{"first", "b"}, LangName: true, MaxW: 7 + d, MaxItems: 5, HoleMaxW: 1, FinalMaxW: 2, Styles: 1, Packages: true, FixParam: true, DefNames: 1}},
		// a name exported by a stdlib package that the session imports with use-package
		family{name: "lang-std", cfg: gcfg{Names: []string{"join", "a"}, LangName: true, Stdlib: true, Prelude: "(use-package 'string)\n", MaxW: 4 + d, MaxItems: 2, Styles: 1, HoleMaxW: 2}},
	)
	// dotimes with its full control sequence (var COUNT [RESULT]): COUNT is any expression of the scope AROUND the
	// loop (the evaluator evaluates it before the loop variable exists), RESULT any expression of the loop's own
	// scope, the body empty or one statement; around it every binding form, a defun parameter or a global, with
	// the loop variable drawn from the same two names -- so the count reads, assigns or calls a binding that has the
	// loop variable's own name, the result reads the loop variable or what it shadows, loops nest in count, result
	// and body
	fams = append(fams,
		family{name: "dotctl", cfg: gcfg{Names: ab, DotimesCtl: true, MaxW: 6 + d, MaxItems: 1, Styles: 1}},
		// the same over a source name of the minifier's own x<N> scheme
		family{name: "dotctl-gen", cfg: gcfg{Names: []string{"a", "x1"}, DotimesCtl: true, MaxW: 5 + d, MaxItems: 1, Styles: 1}, altFrom: []string{"x1"}, altTo: []string{"c"}},
	)
	return fams
}

type job struct {
	fam  *family
	prog program
}

func optionsFor(p program, names []string, thorough bool) []optSpec {
	opts := []optSpec{optDefault}
	if p.HasExp {
		opts = append(opts, optRenExp)
	}
	if !p.HasKey {
		opts = append(opts, optNoParams)
	}
	if len(p.Defined) > 0 || thorough {
		// excluding a name matters for global definitions; pure expressions get it in the thorough tier
		opts = append(opts, optSpec{Name: "exclude=" + names[0], PreserveParams: true, Exclude: []string{names[0]}})
	}
	if thorough && p.HasExp && !p.HasKey {
		opts = append(opts, optBoth)
	}
	return opts
}

// probesFor lists the host-side references that must keep working under o:
// exported names and top-level set names (default naming options), and the
// global definitions of an excluded name.
func probesFor(p program, o optSpec) []string {
	if o.RenameExports {
		return nil
	}
	probes := append([]string(nil), p.Surface...)
	for _, ex := range o.Exclude {
		for _, d := range p.Defined {
			if strings.HasSuffix(d, ":"+ex) {
				dup := false
				for _, have := range probes {
					if have == d {
						dup = true
					}
				}
				if !dup {
					probes = append(probes, d)
				}
			}
		}
	}
	return probes
}

func unionProbes(p program, opts []optSpec) []string {
	var u []string
	seen := map[string]bool{}
	for _, o := range opts {
		for _, pr := range probesFor(p, o) {
			if !seen[pr] {
				seen[pr] = true
				u = append(u, pr)
			}
		}
	}
	return u
}

var countOnly = os.Getenv("C17_COUNT") != ""

var (
	preMu   sync.Mutex
	preSeen = map[string]int{}
)

type stats struct {
	distinct, dup, sessions, comparisons, skippedSame int64
}

func classOf(f finding, o optSpec, tags string) string {
	if tags == "" {
		tags = "plain"
	}
	return f.Check + ":" + o.Name + ":" + tags
}

var identRe = map[string]*regexp.Regexp{}
var identMu sync.Mutex

func renameIdent(src, from, to string) string {
	identMu.Lock()
	re := identRe[from]
	if re == nil {
		re = regexp.MustCompile(`(^|[\s()\[\]':])` + regexp.QuoteMeta(from) + `($|[\s()\[\]])`)
		identRe[from] = re
	}
	identMu.Unlock()
	for i := 0; i < 2; i++ { // adjacent occurrences share a delimiter
		src = re.ReplaceAllString(src, "${1}"+to+"${2}")
	}
	return src
}

func neutralised(k kase) kase {
	n := k
	n.Files = append([]string(nil), k.Files...)
	for i := range n.Files {
		n.Files[i] = renameIdent(n.Files[i], k.AltFrom, k.AltTo)
	}
	n.Probes = nil
	for _, p := range k.Probes {
		n.Probes = append(n.Probes, renameIdent(p, k.AltFrom, k.AltTo))
	}
	n.Opt.Exclude = nil
	for _, e := range k.Opt.Exclude {
		if e == k.AltFrom {
			e = k.AltTo
		}
		n.Opt.Exclude = append(n.Opt.Exclude, e)
	}
	n.AltFrom, n.AltTo = "", ""
	return n
}

func processProgram(r *core.Run, st *stats, j job) {
	p := j.prog
	if countOnly {
		return
	}
	opts := optionsFor(p, j.fam.cfg.Names, r.Thorough())
	orig := runSession(p.Files, unionProbes(p, opts), j.fam.cfg.Stdlib)
	atomic.AddInt64(&st.sessions, 1)
	cache := map[string]observation{}
	renamedAny := false
	seenOut := map[string]bool{}
	for _, o := range opts {
		probes := probesFor(p, o)
		before := len(cache)
		fs, m := checkOption(p.Files, o, probes, j.fam.cfg.Stdlib, &orig, cache)
		atomic.AddInt64(&st.comparisons, 1)
		if len(cache) > before {
			atomic.AddInt64(&st.sessions, 1)
		} else if m != nil {
			atomic.AddInt64(&st.skippedSame, 1)
		}
		if m != nil && len(m.smap.Entries) > 0 {
			renamedAny = true
		}
		oc := "value"
		if strings.HasPrefix(orig.Value, "ERR<") {
			oc = orig.Value
		}
		if orig.Stderr != "" {
			oc += "+stderr"
		}
		if m != nil {
			if len(m.smap.Entries) == 0 {
				oc += " nothing-renamed"
			}
			k := strings.Join(m.outs, "\x00")
			if seenOut[k] {
				oc += " same-text-as-earlier-option"
			}
			seenOut[k] = true
		}
		r.Outcome(j.fam.name + "/" + o.Name + ": " + oc)
		if len(fs) == 0 {
			continue
		}
		k := kase{Family: j.fam.name, Files: p.Files, Opt: o, Probes: probes, Sig: p.Tags, Stdlib: j.fam.cfg.Stdlib}
		if len(j.fam.altFrom) > 0 {
			k.AltFrom, k.AltTo = j.fam.altFrom[0], j.fam.altTo[0]
		}
		report(r, k, fs)
	}
	if renamedAny {
		r.Nontrivial(strings.Join(p.Files, "\x00"))
	}
}

// report re-confirms a disagreement 5x in fresh runtimes, triages the
// generated-name family and records the violation.
func report(r *core.Run, k kase, first []finding) {
	want := findingChecks(first)
	// a systematic failure is re-confirmed and recorded a few times per
	// preliminary class, then only counted
	pre := k.Family + "/" + want + ":" + k.Opt.Name + ":" + k.Sig
	preMu.Lock()
	preSeen[pre]++
	n := preSeen[pre]
	preMu.Unlock()
	if n > 4 {
		return
	}
	// A determinism finding is about two runs differing, so it cannot be
	// re-confirmed by demanding the same difference again: minify up to 40
	// more times and require a second distinct result.
	var det []finding
	var rest []finding
	for _, f := range first {
		if f.Check == "deterministic" {
			det = append(det, f)
		} else {
			rest = append(rest, f)
		}
	}
	if len(det) > 0 {
		if distinctResults(k, 40) > 1 {
			for _, f := range det {
				r.Violate("c17", classOf(f, k.Opt, k.Sig), k, f.Expected, f.Got, "")
			}
		} else {
			r.Flaky(map[string]any{"case": k, "first": "deterministic", "rerun": "40 further minifications were identical"})
		}
	}
	if len(rest) == 0 {
		return
	}
	first = rest
	want = findingChecks(first)
	for i := 0; i < 5; i++ {
		again := checkCase(k)
		var keep []finding
		for _, f := range again {
			if f.Check != "deterministic" {
				keep = append(keep, f)
			}
		}
		if findingChecks(keep) != want {
			r.Flaky(map[string]any{"case": k, "first": want, "rerun": findingChecks(keep)})
			return
		}
	}
	// generated-name family: a failed check that passes once the x<N> name of
	// the source is replaced by a neutral name is a collision with the
	// minifier's own naming scheme; anything else keeps its ordinary class
	altFails := map[string]bool{}
	if k.AltFrom != "" {
		for _, f := range checkCase(neutralised(k)) {
			altFails[f.Check] = true
		}
	}
	for _, f := range first {
		if f.Check == "harness" {
			r.Violate("c17", "harness-error", k, f.Expected, f.Got, "")
			continue
		}
		tags := k.Sig
		if k.AltFrom != "" && !altFails[f.Check] {
			tags = "generated-name-collision"
		}
		r.Violate("c17", classOf(f, k.Opt, tags), k, f.Expected, f.Got, "")
	}
}

// distinctResults minifies the case n times and counts distinct (output, map) results.
func distinctResults(k kase, n int) int {
	seen := map[string]bool{}
	for i := 0; i < n; i++ {
		m, err := minifyOnce(k.Files, k.Opt)
		if err != nil {
			seen["error: "+err.Error()] = true
			continue
		}
		seen[strings.Join(m.outs, "\x00")+"\x01"+m.mapTxt] = true
	}
	return len(seen)
}

func run(r *core.Run) {
	if pf := os.Getenv("C17_PROF"); pf != "" {
		f, _ := os.Create(pf)
		_ = pprof.StartCPUProfile(f)
		defer pprof.StopCPUProfile()
	}
	// the workload is millions of short-lived runtimes: trade memory for less collector work
	defer debug.SetGCPercent(debug.SetGCPercent(400))
	fams := families(r.Thorough())
	if only := os.Getenv("C17_FAMILY"); only != "" {
		var keep []family
		for _, f := range fams {
			if f.name == only {
				keep = append(keep, f)
			}
		}
		fams = keep
	}
	st := &stats{}
	jobs := make(chan []job, 64)
	var wg sync.WaitGroup
	for w := 0; w < r.Workers; w++ {
		wg.Add(1)
		go func() {
			defer wg.Done()
			for batch := range jobs {
				for _, j := range batch {
					processProgram(r, st, j)
				}
			}
		}()
	}
	seen := map[[2]uint64]struct{}{}
	capped := false
	for fi := range fams {
		fam := &fams[fi]
		g := newGen(fam.cfg)
		var batch []job
		var n, dup int64
		samples := 0
		skel := g.enumerate(func(p program) {
			if capped {
				return
			}
			h := fnv.New128a()
			for _, f := range p.Files {
				h.Write([]byte(f))
				h.Write([]byte{0})
			}
			var sum [16]byte
			h.Sum(sum[:0])
			key := [2]uint64{be64(sum[:8]), be64(sum[8:])}
			if _, ok := seen[key]; ok {
				dup++
				return
			}
			seen[key] = struct{}{}
			n++
			if samples < 3 && (n == 1 || n%50021 == 0) {
				samples++
				r.Sample(map[string]any{"family": fam.name, "files": p.Files, "tags": p.Tags})
			}
			batch = append(batch, job{fam, p})
			if len(batch) == 128 {
				if r.Expired() {
					capped = true
					r.Cap(fmt.Sprintf("soft deadline reached in family %s after %d programs", fam.name, n))
					batch = nil
					return
				}
				jobs <- batch
				batch = nil
			}
		})
		if len(batch) > 0 && !capped {
			jobs <- batch
		}
		st.distinct += n
		st.dup += dup
		r.Bound("family_"+fam.name, map[string]any{"names": fam.cfg.Names, "max_nodes": fam.cfg.MaxW, "max_items": fam.cfg.MaxItems,
			"hole_max_nodes": fam.cfg.HoleMaxW, "final_max_nodes": fam.cfg.FinalMaxW, "skeletons": skel, "distinct_programs": n, "duplicates_dropped": dup,
			"features": featureList(fam.cfg)})
	}
	close(jobs)
	wg.Wait()
	r.AddStates(st.distinct)
	r.AddEvals(atomic.LoadInt64(&st.sessions))
	r.AddTransitions(atomic.LoadInt64(&st.comparisons))
	r.Extra("sessions_reused_identical_text", atomic.LoadInt64(&st.skippedSame))
	r.Extra("duplicate_programs_dropped", st.dup)
	preMu.Lock()
	fc := map[string]int{}
	for k, v := range preSeen {
		fc[k] = v
	}
	preMu.Unlock()
	r.Extra("failing_cases_by_preliminary_class", fc)
	r.Bound("options", "default; --rename-exports (sessions with an export form); --preserve-params=false (sessions without &key / keyword arguments); --exclude <first pool name> (sessions with a top-level definition; thorough: all); thorough: both flags together")
	r.Bound("run_limits", "max-steps 3000, max-tail-iterations 100, physical stack 100 (same for original and minified)")
	r.Rule("every program of the grammar up to the node bound, per family, de-duplicated by text across families; " +
		"states = distinct programs, transitions = (program, option) checks, evaluations = session executions in fresh runtimes; " +
		"non-trivial = at least one option renamed at least one symbol (distinct by program text)")
	r.Rule("dotctl / dotctl-gen families: every session of the grammar that contains a dotimes with a full control sequence (var COUNT [RESULT]) [body]: " +
		"COUNT ranges over every argument term (literal, reference, call, let/flet/labels/lambda, nested loop) of the scope AROUND the loop, RESULT over every argument term and the body over nothing or every statement of the loop's scope, " +
		"var over the same name pool as every other binder (so COUNT may read, call or assign the binding that the loop variable shadows, RESULT the loop variable itself); oracle: the same differential comparison, " +
		"i.e. the analyzer must resolve COUNT where the evaluator evaluates it (before the loop environment exists) and RESULT in the loop's environment; class tags dotimes-count-shadow (COUNT mentions the loop variable's name), " +
		"dotimes-result (closed result form), dotimes-result-ref (result form refers to a name bound outside it)")
	r.Bound("dotimes_control_sequence", "shapes (v C), (v C) S, (v C R), (v C R) S; one node for the form plus the nodes of C, R, S; count literals are the session's auto-numbered integers (1..7 turns)")
	r.Assume("a dotimes count that does not evaluate to an integer (a call of a list-tagging function, a function value) is kept: original and minified must then fail with the same condition")
	r.Assume("value comparison renders function values as #<fun> and stderr lines that print a function as #<line-with-fun>: a printed function shows parameter and local names, which minification changes by design")
	r.Assume("errors are compared by condition name, never by message (messages quote symbol names)")
	r.Assume("symbol arguments of set/export/in-package/use-package use the ' shorthand; the long (quote x) spelling is outside the grammar (lang.md does not state the equivalence; the minifier's prescan does not recognise it)")
	r.Assume("macros are hygienic for the session: template binders use the reserved name t, a defmacro whose template mentions a global is not called where that name is locally bound, and templates never mention a use-site local as CODE (a template may mention the name of the macro parameter, or of a local of the macro body, as quoted DATA: symbol, list, bracket list: 'quoted data keep working') (macrolet templates may mention a local of the scope that ENCLOSES the macrolet)")
	r.Assume("a package never defines a name that it also imports with use-package (which binding a reference reaches would depend on evaluation order); a let binding value may only mention names of the enclosing scope, as lang.md specifies (the evaluator additionally lets a closure created there see the let's own bindings: class *let-value-closure*)")
	r.Assume("host probes: after the session, pkg:name of every exported+defined name and every top-level set name (default naming options) and of every global definition of an excluded name must evaluate as in the original; a difference there is classed surface:*")
	r.Assume("each file of a session starts in package user (the generator closes an open (in-package 'q) before a file break), matching the minifier's per-file assumption")
	r.Assume("the strict reader is rdparser.New over the string scanner (same lexer and parser as parser.NewReader without the 128 KiB buffer)")
}

func be64(b []byte) uint64 {
	var v uint64
	for _, x := range b {
		v = v<<8 | uint64(x)
	}
	return v
}

func featureList(c gcfg) []string {
	l := []string{"let", "flet", "labels", "lambda", "set!", "progn", "debug-print", "list", "call"}
	add := func(b bool, s string) {
		if b {
			l = append(l, s)
		}
	}
	add(c.Let2, "let/let* with two bindings (duplicates allowed)")
	add(c.Dotimes, "dotimes")
	add(c.DotimesCtl, "dotimes control sequence (var COUNT [RESULT]) with COUNT an expression of the enclosing scope and RESULT one of the loop's scope, body empty or one statement")
	add(c.Macrolet, "macrolet")
	add(c.FunArg, "(function n), #^ prefix lambda")
	add(c.Data, "keyword / quoted symbol / quoted list data")
	add(c.MaxItems > 0, "defun, top-level set, top-level statements")
	add(c.Styles > 1, "&key/&optional/&rest parameters and keyword calls")
	add(c.GSetExpr, "(set 'g v) in value position")
	add(c.GSet, "(set 'g v) assignment of top-level-set globals inside bodies")
	add(c.Macros, "defmacro with quasiquote templates")
	add(c.QTemplates, "templates that mention pkg:name (as variable and as function)")
	add(c.Redefine, "top-level redefinition")
	add(c.Packages, "in-package, export, use-package, pkg:name")
	add(c.Files, "two-file sessions")
	add(c.ExportForms, "export in list form and string form")
	add(c.MaxBreaks > 1, fmt.Sprintf("up to %d files per session", c.MaxBreaks+1))
	add(c.NestedSet, "top-level set nested in if (one / both branches), progn, let, cond, dotimes, handler-bind")
	add(c.LangName, "the first pool name is bound by the language (builtin / special operator / stock macro / stdlib export)")
	add(c.Stdlib, "runtime with the standard library; the session starts with "+strings.TrimSpace(c.Prelude))
	return l
}

func replay(v core.Violation) (bool, string) {
	k, err := core.CaseOf[kase](v)
	if err != nil {
		return false, err.Error()
	}
	fs := checkCase(k)
	var b strings.Builder
	fmt.Fprintf(&b, "option %s\nfiles %q\nprobes %v\n", k.Opt.Name, k.Files, k.Probes)
	if strings.HasPrefix(v.Class, "deterministic:") {
		n := distinctResults(k, 200)
		fmt.Fprintf(&b, "200 minifications gave %d distinct results\n", n)
		return n > 1, b.String()
	}
	for _, f := range fs {
		fmt.Fprintf(&b, "FAILED %s\n  expected %s\n  got      %s\n", f.Check, f.Expected, f.Got)
	}
	want := strings.SplitN(v.Class, ":", 2)[0]
	for _, f := range fs {
		if f.Check == want {
			return true, b.String()
		}
	}
	return false, b.String()
}
