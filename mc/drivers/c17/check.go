package c17

// The oracle of C17: original versus minified session in fresh runtimes, plus
// the reader, determinism and symbol-map checks.

import (
	"bytes"
	"encoding/json"
	"fmt"
	"sort"
	"strings"

	"github.com/luthersystems/elps/lisp"
	"github.com/luthersystems/elps/minifier"
	"github.com/luthersystems/elps/parser/rdparser"
	"github.com/luthersystems/elps/parser/token"

	"verif/mc/el"
)

// optSpec is one minifier configuration, spelled like the command's flags.
type optSpec struct {
	Name           string   `json:"name"`
	RenameExports  bool     `json:"rename_exports"`
	PreserveParams bool     `json:"preserve_params"`
	Exclude        []string `json:"exclude,omitempty"`
}

func (o optSpec) config() *minifier.Config {
	// exactly what cmd/minify.go buildMinifyConfig builds (no --workspace):
	// Formatter nil selects the same compact, comment-stripping formatter.
	ex := make(map[string]bool, len(o.Exclude))
	for _, n := range o.Exclude {
		ex[n] = true
	}
	return &minifier.Config{Exclusions: ex, RenameExports: o.RenameExports, PreserveParams: o.PreserveParams}
}

var (
	optDefault  = optSpec{Name: "default", PreserveParams: true}
	optRenExp   = optSpec{Name: "rename-exports", PreserveParams: true, RenameExports: true}
	optNoParams = optSpec{Name: "preserve-params=false"}
	optBoth     = optSpec{Name: "rename-exports+preserve-params=false", RenameExports: true}
)

// kase is the replayable unit: one session under one option.
type kase struct {
	Family  string   `json:"family"`
	Files   []string `json:"files"`
	Opt     optSpec  `json:"opt"`
	Probes  []string `json:"probes,omitempty"` // host-side references that must keep working
	Sig     string   `json:"sig"`
	Stdlib  bool     `json:"stdlib,omitempty"`   // the sessions run with the standard library loaded
	AltFrom string   `json:"alt_from,omitempty"` // generated-name family: name to neutralise for the triage re-run
	AltTo   string   `json:"alt_to,omitempty"`
}

// observation of one session run
type observation struct {
	Value  string   // normalised rendering of the last value, or ERR<cond>
	Stderr string   // normalised transcript
	Probes []string // rendering of each host probe
}

func (o observation) String() string {
	s := o.Value
	if o.Stderr != "" {
		s += fmt.Sprintf(" stderr=%q", o.Stderr)
	}
	if len(o.Probes) > 0 {
		s += " probes=" + strings.Join(o.Probes, ",")
	}
	return s
}

func (o observation) equal(p observation) bool {
	if o.Value != p.Value || o.Stderr != p.Stderr || len(o.Probes) != len(p.Probes) {
		return false
	}
	for i := range o.Probes {
		if o.Probes[i] != p.Probes[i] {
			return false
		}
	}
	return true
}

// restrict keeps the probes named in the list (orig is observed once with the
// union of every option's probes).
func (o observation) restrict(probes []string) observation {
	r := observation{Value: o.Value, Stderr: o.Stderr}
	for _, p := range probes {
		for _, have := range o.Probes {
			if strings.HasPrefix(have, p+"=") {
				r.Probes = append(r.Probes, have)
				break
			}
		}
	}
	return r
}

func containsFun(v *lisp.LVal) bool {
	if v == nil {
		return false
	}
	if v.Type == lisp.LFun {
		return true
	}
	for _, c := range v.Cells {
		if containsFun(c) {
			return true
		}
	}
	return false
}

// renderValue renders a value; function values print their parameter names and
// body, which minification legitimately changes, so they render as #<fun>.
func renderValue(v *lisp.LVal) string {
	if v == nil {
		return "<nil>"
	}
	if v.Type == lisp.LError {
		return "ERR<" + v.Str + ">"
	}
	if !containsFun(v) {
		return v.String()
	}
	return renderFun(v)
}

func renderFun(v *lisp.LVal) string {
	switch {
	case v.Type == lisp.LFun:
		return "#<fun>"
	case v.Type == lisp.LSExpr:
		var b strings.Builder
		if v.IsQuoted() {
			b.WriteString("'")
		}
		b.WriteString("(")
		for i, c := range v.Cells {
			if i > 0 {
				b.WriteString(" ")
			}
			b.WriteString(renderFun(c))
		}
		b.WriteString(")")
		return b.String()
	case containsFun(v):
		return "#<has-fun:" + v.Type.String() + ">"
	}
	return v.String()
}

func normaliseStderr(s string) string {
	if !strings.Contains(s, "(lambda") {
		return s
	}
	lines := strings.Split(s, "\n")
	for i, l := range lines {
		if strings.Contains(l, "(lambda") {
			lines[i] = "#<line-with-fun>"
		}
	}
	return strings.Join(lines, "\n")
}

var runConfigs = []lisp.Config{
	lisp.WithMaxSteps(3000),
	lisp.WithMaxTailIterations(100),
	lisp.WithMaximumPhysicalStackHeight(100),
}

func fileName(i int) string { return fmt.Sprintf("f%d.lisp", i) }

// runSession loads the files in order into one fresh runtime (as `elps run
// f0.lisp f1.lisp` does), then evaluates the host probes.
func runSession(files []string, probes []string, stdlib bool) observation {
	env := el.MustEnv(el.Opts{Configs: runConfigs, Stdlib: stdlib})
	var tr strings.Builder
	var last *lisp.LVal
	for i, f := range files {
		env.Err.Reset()
		last = env.LoadString(fileName(i), f)
		tr.WriteString(env.Err.String())
		if last != nil && last.Type == lisp.LError {
			break
		}
	}
	o := observation{Value: renderValue(last), Stderr: normaliseStderr(tr.String())}
	for _, p := range probes {
		env.Err.Reset()
		v := env.LoadString("probe", p)
		o.Probes = append(o.Probes, p+"="+renderValue(v))
	}
	return o
}

func strictRead(name, src string) ([]*lisp.LVal, error) {
	return rdparser.New(token.NewScannerString(name, src)).ParseProgram()
}

type minified struct {
	outs   []string
	smap   minifier.SymbolMap
	mapTxt string
}

func minifyOnce(files []string, o optSpec) (*minified, error) {
	in := make([]minifier.InputFile, len(files))
	for i, f := range files {
		in[i] = minifier.InputFile{Path: fileName(i), Source: []byte(f)}
	}
	res, err := minifier.Minify(in, o.config())
	if err != nil {
		return nil, err
	}
	m := &minified{smap: res.SymbolMap}
	if len(res.Files) != len(files) {
		return nil, fmt.Errorf("minify returned %d files for %d inputs", len(res.Files), len(files))
	}
	for _, f := range res.Files {
		m.outs = append(m.outs, string(f.Output))
	}
	b, err := res.SymbolMap.JSON()
	if err != nil {
		return nil, err
	}
	m.mapTxt = string(b)
	return m, nil
}

func splitQual(s string) (pkg, name string) {
	if s == "" || s[0] == ':' {
		return "", s
	}
	for i := 1; i < len(s)-1; i++ {
		if s[i] == ':' {
			return s[:i], s[i+1:]
		}
	}
	return "", s
}

type pair struct{ o, m *lisp.LVal }

// walkPair walks original and minified trees in parallel.  It returns a
// description of the first structural difference ("" when the trees differ in
// symbol spelling only) and reports every symbol pair.
func walkPair(o, m *lisp.LVal, sym func(o, m *lisp.LVal)) string {
	if o == nil || m == nil {
		if o != m {
			return "nil node"
		}
		return ""
	}
	if o.Type != m.Type {
		return fmt.Sprintf("node type %v became %v", o.Type, m.Type)
	}
	if o.IsQuoted() != m.IsQuoted() {
		return "quoting changed at " + o.String()
	}
	switch o.Type {
	case lisp.LSymbol:
		sym(o, m)
		return ""
	case lisp.LInt:
		if o.Int != m.Int {
			return fmt.Sprintf("integer %d became %d", o.Int, m.Int)
		}
		return ""
	case lisp.LString:
		if o.Str != m.Str {
			return fmt.Sprintf("string %q became %q", o.Str, m.Str)
		}
		return ""
	}
	if len(o.Cells) != len(m.Cells) {
		return fmt.Sprintf("list of %d became %d at %s", len(o.Cells), len(m.Cells), o.String())
	}
	for i := range o.Cells {
		if d := walkPair(o.Cells[i], m.Cells[i], sym); d != "" {
			return d
		}
	}
	return ""
}

// finding is one failed check of a case.
type finding struct {
	Check    string // read | shape | deterministic | map | meaning | surface | minify-error | excluded
	Expected string
	Got      string
}

// checkOption runs every check of one (session, option) and returns the
// findings (empty = all checks passed) and the minified texts.
func checkOption(files []string, o optSpec, probes []string, stdlib bool, orig *observation, cache map[string]observation) ([]finding, *minified) {
	var fs []finding
	m1, err := minifyOnce(files, o)
	if err != nil {
		return []finding{{"minify-error", "minification succeeds on a program the strict reader accepts", err.Error()}}, nil
	}
	m2, err := minifyOnce(files, o)
	if err != nil {
		return []finding{{"deterministic", "second minification succeeds", err.Error()}}, m1
	}
	for i := range m1.outs {
		if m1.outs[i] != m2.outs[i] {
			fs = append(fs, finding{"deterministic", "byte-identical output: " + m1.outs[i], m2.outs[i]})
			break
		}
	}
	if m1.mapTxt != m2.mapTxt {
		fs = append(fs, finding{"deterministic", "byte-identical symbol map: " + m1.mapTxt, m2.mapTxt})
	}
	// reader + shape + inversion
	inv := m1.smap.MinifiedToOriginal
	type locKey struct {
		file      string
		line, col int
	}
	byLoc := map[locKey]pair{}
	readOK := true
	for i := range files {
		ot, err := strictRead(fileName(i), files[i])
		if err != nil {
			return []finding{{"harness", "original is accepted by the strict reader", err.Error()}}, m1
		}
		mt, err := strictRead(fileName(i), m1.outs[i])
		if err != nil {
			fs = append(fs, finding{"read", "minified text is accepted by the strict reader", fmt.Sprintf("%v in %q", err, m1.outs[i])})
			readOK = false
			continue
		}
		if len(ot) != len(mt) {
			fs = append(fs, finding{"shape", fmt.Sprintf("%d top-level forms", len(ot)), fmt.Sprintf("%d in %q", len(mt), m1.outs[i])})
			continue
		}
		reported := false
		for j := range ot {
			d := walkPair(ot[j], mt[j], func(os, ms *lisp.LVal) {
				if loc, ok := os.Source(); ok {
					byLoc[locKey{loc.File, loc.Line, loc.Col}] = pair{os, ms}
				}
				op, on := splitQual(os.Str)
				mp, mn := splitQual(ms.Str)
				back := mn
				if v, ok := inv[mn]; ok {
					back = v
				}
				if (op != mp || back != on) && !reported {
					reported = true
					fs = append(fs, finding{"map", fmt.Sprintf("minified_to_original maps the output symbol back to %q", os.Str),
						fmt.Sprintf("output symbol %q maps back to %q (map %s)", ms.Str, joinQual(mp, back), compactJSON(inv))})
				}
			})
			if d != "" {
				fs = append(fs, finding{"shape", "same tree up to symbol spelling", d + " in " + fmt.Sprintf("%q", m1.outs[i])})
				break
			}
		}
	}
	if readOK {
		seenMin := map[string]bool{}
		for _, e := range m1.smap.Entries {
			if seenMin[e.Minified] {
				fs = append(fs, finding{"map", "every minified name is assigned once", "entry repeats " + e.Minified})
				break
			}
			seenMin[e.Minified] = true
			if inv[e.Minified] != e.Original {
				fs = append(fs, finding{"map", "minified_to_original agrees with entries", fmt.Sprintf("%s -> %q, entry says %q", e.Minified, inv[e.Minified], e.Original)})
				break
			}
			found := false
			for _, x := range m1.smap.OriginalToMinified[e.Original] {
				if x == e.Minified {
					found = true
				}
			}
			if !found {
				fs = append(fs, finding{"map", "original_to_minified lists the entry", fmt.Sprintf("%s missing under %q", e.Minified, e.Original)})
				break
			}
			pr, ok := byLoc[locKey{e.File, e.Line, e.Col}]
			if !ok {
				fs = append(fs, finding{"map", "entry location names a symbol of the source", fmt.Sprintf("%+v", e)})
				break
			}
			_, on := splitQual(pr.o.Str)
			_, mn := splitQual(pr.m.Str)
			if on != e.Original || mn != e.Minified {
				fs = append(fs, finding{"map", fmt.Sprintf("entry %s<-%s describes the symbol at %s:%d:%d", e.Minified, e.Original, e.File, e.Line, e.Col),
					fmt.Sprintf("source has %q, output has %q", pr.o.Str, pr.m.Str)})
				break
			}
		}
		if len(inv) != len(m1.smap.Entries) {
			fs = append(fs, finding{"map", fmt.Sprintf("%d entries", len(m1.smap.Entries)), fmt.Sprintf("%d minified_to_original keys", len(inv))})
		}
		// excluded names are never renamed
		for _, ex := range o.Exclude {
			for _, e := range m1.smap.Entries {
				if e.Original == ex {
					fs = append(fs, finding{"excluded", "excluded name " + ex + " is not renamed", fmt.Sprintf("entry %+v", e)})
					break
				}
			}
		}
	}
	// meaning
	if readOK {
		key := strings.Join(m1.outs, "\x00") + "\x01" + strings.Join(probes, "\x00")
		got, ok := cache[key]
		if !ok {
			got = runSession(m1.outs, probes, stdlib)
			cache[key] = got
		}
		want := orig.restrict(probes)
		if got.Value != want.Value || got.Stderr != want.Stderr {
			fs = append(fs, finding{"meaning", want.String(), got.String() + " from " + fmt.Sprintf("%q", m1.outs)})
		} else if !got.equal(want) {
			fs = append(fs, finding{"surface", want.String(), got.String() + " from " + fmt.Sprintf("%q", m1.outs)})
		}
	}
	return fs, m1
}

func joinQual(p, n string) string {
	if p == "" {
		return n
	}
	return p + ":" + n
}

func compactJSON(v any) string {
	b, _ := json.Marshal(v)
	var out bytes.Buffer
	_ = json.Compact(&out, b)
	return out.String()
}

// checkCase is the straight-line execution of one case (used by run and replay).
func checkCase(k kase) []finding {
	orig := runSession(k.Files, k.Probes, k.Stdlib)
	fs, _ := checkOption(k.Files, k.Opt, k.Probes, k.Stdlib, &orig, map[string]observation{})
	return fs
}

func findingChecks(fs []finding) string {
	var l []string
	for _, f := range fs {
		l = append(l, f.Check)
	}
	sort.Strings(l)
	return strings.Join(l, "+")
}
