package c12

import (
	"strings"
	"unicode"
	"unicode/utf8"
)

// The independent idea of "this spelling is a readable symbol".
//
// It is written from docs/lang.md ("Symbols (identifiers) may consist of
// utf-8 letters, numbers, and many symbols ...  Identifiers cannot start with
// a number", the pkg:name and :keyword paragraphs) and from the character
// classes of the unchanged lexer, and it never asks the reader under test.
// The reader is compared WITH it for every enumerated spelling (class
// symbol-spelling:reader-disagrees-with-model:<shape>), and every spelling the
// model calls readable goes through the value round trip whatever the reader
// thought of it.
//
//	word rune      letter | digit | one of ._+-*/=<>!&~%?$
//	start rune     letter | one of ._+-*/=<>!&~%?$
//	a token run    ends at the first rune that is neither a word rune nor ':'
//
//	name (no ':')  "-" | "--" | start-rune word-rune*, except that after a leading
//	               '-' the next rune may be neither a digit (a negative number)
//	               nor another '-' (the first dash is then a symbol of its own)
//	symbol         name | ":" word-rune+ (keyword, any word runes) | name ":" name
//	               (with a leading '-' only when the dash is followed by a start
//	               rune or ':', as for a name)
const modelMisc = "._+-*/=<>!&~%?$"

func mDigit(c rune) bool     { return '0' <= c && c <= '9' }
func mWordStart(c rune) bool { return unicode.IsLetter(c) || strings.ContainsRune(modelMisc, c) }
func mWord(c rune) bool      { return mWordStart(c) || mDigit(c) }

func modelReadable(s string) bool {
	if s == "" || !utf8.ValidString(s) {
		return false
	}
	rs := []rune(s)
	for _, c := range rs {
		if !mWord(c) && c != ':' {
			return false // the token would end here and something else would follow
		}
	}
	c0 := rs[0]
	switch {
	case c0 == '-':
		if len(rs) == 1 {
			return true
		}
		c1 := rs[1]
		switch {
		case c1 == '-':
			return len(rs) == 2 // "--" alone; "--x" is "-" followed by "-x"
		case mDigit(c1):
			return false // a negative number (or a malformed one)
		}
		return modelSymbolText(s) // the sign merges with the symbol or keyword that follows
	case mDigit(c0):
		return false
	case c0 == ':' || mWordStart(c0):
		return modelSymbolText(s)
	}
	return false
}

// modelSymbolText: the package-qualification rules of docs/lang.md.
func modelSymbolText(t string) bool {
	pieces := strings.Split(t, ":")
	switch len(pieces) {
	case 1:
		return true
	case 2:
		if pieces[1] == "" {
			return false
		}
		if pieces[0] == "" {
			return true // a keyword: its name need not be an identifier (":1")
		}
		return modelReadable(pieces[0]) && modelReadable(pieces[1])
	}
	return false
}

// readerSaysSymbol: the strict reader returns exactly the symbol named s.
func readerSaysSymbol(s string, st reading) bool {
	if !st.ok || len(st.exprs) != 1 {
		return false
	}
	ok, _ := symN(s, 0).same(st.exprs[0])
	return ok
}

// symAlphabetSign: the sign / colon interplay (dash runs before a colon,
// colon runs, leading and trailing colons, dashes and pluses around digits,
// qualified names with dashes on either side).
var symAlphabetSign = []string{"a", "1", "-", "+", ":"}

// symAlphabetEdges: letters at the edges of the UTF-8 widths next to runes
// that are NOT letters (the replacement character, the byte-order mark, a
// private-use rune), with the sign and the package separator.
var symAlphabetEdges = []string{"a", "-", ":", "\u00e9", "\u0800", "\U00010000", "\ufffd", "\ufeff", "\ue000"}

// rawAlphabet: what string and raw-string literals are filled with as raw
// bytes: every edge rune first (so that an index below len(edgeRunes) names
// one), then a letter, two more non-ASCII runes and the comment character.
var rawAlphabet = append(append([]rune{}, edgeRunes...), 'a', 0xE9, 0x1F600, ';')
