package c12

import (
	"fmt"
	"strings"
	"unicode"

	"verif/mc/core"
)

// ---------------------------------------------------------------------------
// token alphabet and separators

const (
	tOpen uint8 = iota
	tClose
	tPrefix
	tHash
	tAtom
)

type tok struct {
	text string
	kind uint8
}

// The C03 token alphabet minus the comment token (comments are separators
// here), with an escape inside the string token and the two all-dash symbols.
var tokAlphabet = []tok{
	{"(", tOpen}, {")", tClose}, {"[", tOpen}, {"]", tClose},
	{"'", tPrefix}, {"#'", tPrefix}, {"#^", tPrefix}, {"#!h\n", tHash},
	{"a", tAtom}, {":k", tAtom}, {"p:a", tAtom}, {"-1", tAtom}, {"1.5e3", tAtom},
	{`"s\n"`, tAtom}, {`"""r"""`, tAtom}, {"--", tAtom}, {"-", tAtom},
}

var seps = []string{"", " ", "\n", " ;c\n", "\n\n", ";c\n"}
var sepNames = []string{"empty", "sp", "nl", "cmt", "nlnl", "gluecmt"}

const refSep = 1 // a single space

// The language's whitespace class is whatever the scanner's AcceptSpace
// skips: unicode.IsSpace.  It is enumerated here from the Go unicode tables
// (never from the code under test), and every member becomes a separator of
// its own, next to CRLF, bare CR, tab runs, mixtures and comments wrapped in
// or ended by them.  On the unchanged tree a comment runs to LF, so a
// comment separator always ends in LF (";c\r a" would be ONE comment).
var (
	wsRunes     []rune // every rune with unicode.IsSpace
	wsAnyGap    []int  // indices into seps: usable in every layout gap
	wsAfterBrkt []int  // indices into seps: only right after a bracket (glued comment)
	wsAll       string // all of wsRunes in one run
)

const baseSeps = 6

func init() {
	add := func(name, sep string, afterBracketOnly bool) {
		seps = append(seps, sep)
		sepNames = append(sepNames, name)
		if afterBracketOnly {
			wsAfterBrkt = append(wsAfterBrkt, len(seps)-1)
		} else {
			wsAnyGap = append(wsAnyGap, len(seps)-1)
		}
	}
	for r := rune(0); r <= unicode.MaxRune; r++ {
		if unicode.IsSpace(r) {
			wsRunes = append(wsRunes, r)
		}
	}
	for _, r := range wsRunes {
		wsAll += string(r)
		if r == ' ' || r == '\n' {
			continue // already base separators
		}
		add(fmt.Sprintf("ws:U+%04X", r), string(r), false)
	}
	add("ws:crlf", "\r\n", false)
	add("ws:crlf-crlf", "\r\n\r\n", false)
	add("ws:tab-tab", "\t\t", false)
	add("ws:sp-tab-cr-lf", " \t\r\n", false)
	add("ws:every-space-rune", wsAll, false)
	for _, r := range wsRunes {
		add(fmt.Sprintf("ws:cmt-wrapped-in-U+%04X", r), string(r)+";c\n"+string(r), false)
	}
	// comments that carry the boundary runes of UTF-8 decoding as raw bytes
	for _, r := range edgeRunes {
		add(fmt.Sprintf("ws:cmt-with-U+%04X", r), " ;c"+string(r)+"\n", false)
		add(fmt.Sprintf("ws:cmt-of-U+%04X", r), " ;"+string(r)+string(r)+"\n", false)
	}
	add("ws:cmt-with-every-edge-rune", " ;"+string(edgeRunes)+"\n", false)
	add("ws:cmt-crlf", " ;c\r\n", false)
	add("ws:cmt-crlf-tab", "\t;c\r\n\t", false)
	add("ws:gluecmt-crlf", ";c\r\n", true)
}

var (
	optsPrefix  = []int{0, 1, 2, 3, 4}
	optsAfterBr = []int{0, 1, 2, 3, 4, 5}
	optsBeforeB = []int{0, 1, 2, 3, 4}
	optsAtoms   = []int{1, 2, 3, 4}
)

// gapOptions: which separators may stand between l and r, and whether the
// gap is layout (statement: "whitespace and comments that separate complete
// expressions and brackets") or the gap between a prefix and its operand,
// which the statement does not speak about and which is therefore part of
// the identity of the text, not of its layout.
func gapOptions(l, r tok) (opts []int, layout bool) {
	switch {
	case l.kind == tPrefix:
		return optsPrefix, false
	case l.kind == tOpen || l.kind == tClose || l.kind == tHash:
		return optsAfterBr, true
	case r.kind == tOpen || r.kind == tClose:
		return optsBeforeB, true
	case closedString(l) && !(strings.HasPrefix(r.text, `"`) && (l.text == `""` || strings.HasPrefix(l.text, `"""`))):
		// the closing quote completes a string literal: whatever follows it is the next expression, with or
		// without whitespace in between.  Not layout: a quote right after the EMPTY literal (`"""` opens a raw
		// string) or after a raw string (where its closing run of quotes ends is the lexer's own business).
		return optsAfterBr, true
	}
	return optsAtoms, true
}

func closedString(t tok) bool {
	return t.kind == tAtom && len(t.text) >= 2 && t.text[0] == '"' && t.text[len(t.text)-1] == '"'
}

func render(b []byte, toks []tok, gaps []int, lead, trail string) []byte {
	b = append(b[:0], lead...)
	for i, t := range toks {
		if i > 0 {
			b = append(b, seps[gaps[i-1]]...)
		}
		b = append(b, t.text...)
	}
	return append(b, trail...)
}

// ---------------------------------------------------------------------------
// per-worker tallies (flushed once; keeps the hot loop free of shared locks)

type tally struct {
	states, evals, trans, traces int64
	outcomes                     map[string]int64
	accepted, rejected           int64
	groups                       int64
	multiAttributed              int64
}

func newTally() *tally { return &tally{outcomes: map[string]int64{}} }

func (t *tally) flush(r *core.Run) {
	r.AddStates(t.states)
	r.AddEvals(t.evals)
	r.AddTransitions(t.trans)
	r.AddTraces(t.traces)
}

// ---------------------------------------------------------------------------
// one token sequence: every separator assignment

// exploration level of one sequence's layout space
const (
	lvUniform = iota // reference + uniform variants; a difference is localised to one gap
	lvSingles        // + every single-gap change
	lvProduct        // every separator assignment
)

type seqOpts struct {
	level   int
	frames  bool    // leading/trailing layout variants
	expect  []*node // model tree of the reference reading, when known by construction
	domain  string  // class prefix: "tokens" or "symctx:<ctx>"
	symbol  string  // symctx: coarse shape of the plugged spelling (class label of that token)
	symText string  // symctx: the plugged spelling itself
	nontriv bool    // register accepted reference texts as distinct non-trivial cases
	nvar    int     // number of uniform variants to try (0 = all four)
	ws      bool    // also every whitespace-class separator, one gap at a time, and whitespace frames
}

func (o *seqOpts) label(t tok) string {
	if o.symText != "" && t.text == o.symText {
		return o.symbol
	}
	return strings.ReplaceAll(t.text, "\n", "\\n")
}

type seqWorker struct {
	r     *core.Run
	t     *tally
	buf   []byte
	gaps  []int
	toks  []tok
	digit [8]int
}

func (w *seqWorker) readOne(text string, o *seqOpts) reading {
	s, mf := modesAgree(text)
	w.t.evals++
	w.t.trans += 3
	if s.ok {
		w.t.accepted++
	} else {
		w.t.rejected++
	}
	if mf != nil {
		cls := o.domain + ":modes:" + mf.sub
		report(w.r, cls, kase{Kind: "modes", Text: qtext(text)}, mf)
	}
	return s
}

var uniformNames = []string{"compact", "nl", "cmt", "gluecmt"}

// uniformOp: the separator variant v puts into a gap with the given options.
func uniformOp(v int, opts []int) int {
	switch v {
	case 0:
		if opts[0] == 0 {
			return 0
		}
		return refSep
	case 1:
		return 2
	case 2:
		return 3
	}
	if len(opts) == 6 {
		return 5
	}
	return 4
}

func (w *seqWorker) process(toks []tok, o *seqOpts) {
	n := len(toks)
	w.t.states++
	w.t.groups++
	if cap(w.gaps) < n+1 {
		w.gaps = make([]int, n+1)
	}
	gaps := w.gaps[:max(n-1, 0)]
	var prefixGaps, layoutGaps []int
	var optsOf [8][]int
	for g := 0; g < n-1; g++ {
		opts, layout := gapOptions(toks[g], toks[g+1])
		optsOf[g] = opts
		if layout {
			layoutGaps = append(layoutGaps, g)
		} else {
			prefixGaps = append(prefixGaps, g)
		}
	}
	// prefix-gap assignments are part of the identity of the text
	npa := 1
	if o.level == lvProduct {
		for range prefixGaps {
			npa *= len(optsPrefix)
		}
	}
	for pa := 0; pa < npa; pa++ {
		x := pa
		for _, g := range prefixGaps {
			gaps[g] = optsPrefix[x%len(optsPrefix)]
			x /= len(optsPrefix)
		}
		for _, g := range layoutGaps {
			gaps[g] = refSep
		}
		w.buf = render(w.buf, toks, gaps, "", "")
		refText := string(w.buf)
		ref := w.readOne(refText, o)
		cls := "reject"
		if ref.ok {
			cls = "accept"
			if o.nontriv {
				w.r.Nontrivial(refText)
			}
		}
		w.t.outcomes[o.domain+":"+cls]++
		if o.expect != nil && pa == 0 {
			w.t.traces++
			if !ref.ok {
				report(w.r, o.domain+":rejected:"+o.symbol, kase{Kind: "expect", Text: qtext(refText), Expect: toJs(o.expect)},
					&fail{"rejected", "accepted and read as " + describeAll(o.expect), ref.String()})
			} else if ok, why := sameProgram(o.expect, ref.exprs); !ok {
				report(w.r, o.domain+":tree-differs:"+o.symbol, kase{Kind: "expect", Text: qtext(refText), Expect: toJs(o.expect)},
					&fail{"tree-differs", "read as " + describeAll(o.expect), why + "  [tree " + ref.fp() + "]"})
			}
		}
		layoutFail := func(text string, s reading, class string) {
			report(w.r, class, kase{Kind: "layout", Ref: qtext(refText), Text: qtext(text)},
				&fail{"layout", "same result as " + qtext(refText) + ": " + short(ref.String()), short(s.String())})
		}
		// try renders the current gaps and compares with the reference reading
		try := func() (string, reading, bool) {
			w.buf = render(w.buf, toks, gaps, "", "")
			text := string(w.buf)
			s := w.readOne(text, o)
			w.t.trans++
			return text, s, !sameReading(s, ref)
		}
		gapClass := func(g, op int) string {
			return fmt.Sprintf("%s:layout:%s|%s|%s", o.domain, o.label(toks[g]), sepNames[op], o.label(toks[g+1]))
		}
		reset := func() {
			for _, g := range layoutGaps {
				gaps[g] = refSep
			}
		}
		singleFound := false
		if o.level >= lvSingles {
			for _, g := range layoutGaps {
				for _, op := range optsOf[g] {
					if op == refSep {
						continue
					}
					gaps[g] = op
					if text, s, bad := try(); bad {
						singleFound = true
						layoutFail(text, s, gapClass(g, op))
					}
				}
				gaps[g] = refSep
			}
		}
		if o.ws && pa == 0 {
			// every separator of the whitespace class, one gap at a time
			for _, g := range layoutGaps {
				try1 := func(op int) {
					gaps[g] = op
					if text, s, bad := try(); bad {
						layoutFail(text, s, o.family()+":layout:"+sepNames[op])
					}
				}
				for _, op := range wsAnyGap {
					try1(op)
				}
				if len(optsOf[g]) == len(optsAfterBr) {
					for _, op := range wsAfterBrkt {
						try1(op)
					}
				}
				gaps[g] = refSep
			}
		}
		if o.level == lvProduct && len(layoutGaps) >= 2 {
			// every assignment that changes two or more gaps
			idx := make([]int, len(layoutGaps))
			for {
				k := 0
				for k < len(idx) {
					idx[k]++
					if idx[k] < len(optsOf[layoutGaps[k]]) {
						break
					}
					idx[k] = 0
					k++
				}
				if k == len(idx) {
					break
				}
				changed := 0
				for j, g := range layoutGaps {
					gaps[g] = optsOf[g][idx[j]]
					if gaps[g] != refSep {
						changed++
					}
				}
				if changed < 2 {
					continue
				}
				if text, s, bad := try(); bad {
					if singleFound {
						w.t.multiAttributed++
					} else {
						layoutFail(text, s, o.domain+":layout:multi:"+o.labels(toks))
					}
				}
			}
			reset()
		}
		if o.level < lvProduct && len(layoutGaps) > 0 {
			nvar := o.nvar
			if nvar == 0 {
				nvar = 4
			}
			for _, variant := range []int{0, 2, 1, 3}[:nvar] {
				changed := 0
				for _, g := range layoutGaps {
					gaps[g] = uniformOp(variant, optsOf[g])
					if gaps[g] != refSep {
						changed++
					}
				}
				if changed == 0 || (changed == 1 && o.level >= lvSingles) {
					continue
				}
				text, s, bad := try()
				if !bad {
					continue
				}
				if singleFound {
					w.t.multiAttributed++
					continue
				}
				// localise: does one of the changed gaps reproduce it alone?
				located := false
				if o.level < lvSingles {
					reset()
					for _, g := range layoutGaps {
						op := uniformOp(variant, optsOf[g])
						if op == refSep {
							continue
						}
						gaps[g] = op
						if t1, s1, bad1 := try(); bad1 {
							located = true
							layoutFail(t1, s1, gapClass(g, op))
						}
						gaps[g] = refSep
					}
				}
				if !located {
					layoutFail(text, s, fmt.Sprintf("%s:layout:uniform-%s:%s", o.domain, uniformNames[variant], o.labels(toks)))
				}
			}
			reset()
		}
		if o.frames && pa == 0 && n > 0 && toks[0].kind != tHash {
			frames := [][2]string{{"\n", "\n"}, {" ;c\n", " ;c"}, {"", "\n\n;c\n"}}
			if o.ws {
				frames = append(frames, [2]string{wsAll, wsAll}, [2]string{"\t;c\r\n", "\r\n;c\r"}, [2]string{"\r", "\r"},
					[2]string{";\ufeff bom\n", " ;" + string(edgeRunes)}, [2]string{";\ufffd\n", " ;\ufffd"})
			}
			for fi, fr := range frames {
				w.buf = render(w.buf, toks, gaps, fr[0], fr[1])
				text := string(w.buf)
				s := w.readOne(text, o)
				w.t.trans++
				if !sameReading(s, ref) {
					if fi >= 3 {
						// whitespace-class frames: the separator is the identity of the class
						layoutFail(text, s, fmt.Sprintf("%s:layout:ws:frame%d", o.family(), fi))
						continue
					}
					layoutFail(text, s, fmt.Sprintf("%s:layout:frame%d:first=%s,last=%s", o.domain, fi, o.label(toks[0]), o.label(toks[n-1])))
				}
			}
		}
	}
}

// family is the domain without its context id: "symctx:paren" -> "symctx".
func (o *seqOpts) family() string {
	if i := strings.IndexByte(o.domain, ':'); i >= 0 {
		return o.domain[:i]
	}
	return o.domain
}

func (o *seqOpts) labels(toks []tok) string {
	p := make([]string, len(toks))
	for i, t := range toks {
		p[i] = o.label(t)
	}
	return strings.Join(p, " ")
}

func describeAll(ns []*node) string {
	p := make([]string, len(ns))
	for i, n := range ns {
		p[i] = n.describe()
	}
	return "[" + strings.Join(p, ", ") + "]"
}

func toJs(ns []*node) []jval {
	out := make([]jval, len(ns))
	for i, n := range ns {
		out[i] = n.toJ()
	}
	return out
}

// tokAlphabetExt adds the radix macros, a bare integer and four malformed
// items (a string cut by its line end, lone '#', an invalid UTF-8 byte, a
// truncated float), a bare byte-order mark and a bare U+FFFD to the token alphabet; it is explored for short sequences only.
var tokAlphabetExt = append(append([]tok{}, tokAlphabet...),
	tok{"#xF", tAtom}, tok{"#o7", tAtom}, tok{"1", tAtom}, tok{"\"u\n", tAtom}, tok{"#", tAtom}, tok{"\x80", tAtom}, tok{"1.", tAtom}, tok{"\ufeff", tAtom}, tok{"\ufffd", tAtom},
	// a non-empty string literal without any escape, and the empty one (the base alphabet's string carries an escape)
	tok{`"t"`, tAtom}, tok{`""`, tAtom})

// seqTokens decodes the idx-th sequence of exactly n tokens of tokAlphabet.
func (w *seqWorker) seqTokens(n int, idx int64) []tok { return w.seqTokensOver(tokAlphabet, n, idx) }

func (w *seqWorker) seqTokensOver(alpha []tok, n int, idx int64) []tok {
	tokAlphabet := alpha
	T := int64(len(tokAlphabet))
	w.toks = w.toks[:0]
	for i := 0; i < n; i++ {
		w.digit[n-1-i] = int(idx % T)
		idx /= T
	}
	for i := 0; i < n; i++ {
		w.toks = append(w.toks, tokAlphabet[w.digit[i]])
	}
	return w.toks
}

func pow(b, n int) int64 {
	p := int64(1)
	for i := 0; i < n; i++ {
		p *= int64(b)
	}
	return p
}

// ---------------------------------------------------------------------------
// symbol spellings in context

type symCtx struct {
	id     string
	toks   func(s string) []tok
	expect func(s string) []*node
}

func symN(s string, q uint8) *node { return &node{k: kSym, s: s, q: q} }
func listN(q uint8, kids ...*node) *node {
	return &node{k: kList, q: q, kids: kids}
}

var (
	tLP = tok{"(", tOpen}
	tRP = tok{")", tClose}
	tLB = tok{"[", tOpen}
	tRB = tok{"]", tClose}
	tQ  = tok{"'", tPrefix}
)

func at(s string) tok { return tok{s, tAtom} }

var symContexts = []symCtx{
	{"bare", func(s string) []tok { return []tok{at(s)} }, func(s string) []*node { return []*node{symN(s, 0)} }},
	{"paren", func(s string) []tok { return []tok{tLP, at(s), tRP} }, func(s string) []*node { return []*node{listN(0, symN(s, 0))} }},
	{"bracket", func(s string) []tok { return []tok{tLB, at(s), tRB} }, func(s string) []*node { return []*node{listN(1, symN(s, 0))} }},
	{"pair", func(s string) []tok { return []tok{tLP, at(s), at(s), tRP} }, func(s string) []*node { return []*node{listN(0, symN(s, 0), symN(s, 0))} }},
	{"quoted", func(s string) []tok { return []tok{tQ, at(s)} }, func(s string) []*node { return []*node{symN(s, 1)} }},
	{"quoted2-in-list", func(s string) []tok { return []tok{tLP, tQ, tQ, at(s), tRP} }, func(s string) []*node { return []*node{listN(0, symN(s, 2))} }},
	{"before-open", func(s string) []tok { return []tok{at(s), tLP, tRP} }, func(s string) []*node { return []*node{symN(s, 0), listN(0)} }},
	{"after-close", func(s string) []tok { return []tok{tLP, tRP, at(s)} }, func(s string) []*node { return []*node{listN(0), symN(s, 0)} }},
	{"before-bracket", func(s string) []tok { return []tok{at(s), tLB, at(s), tRB} }, func(s string) []*node { return []*node{symN(s, 0), listN(1, symN(s, 0))} }},
	{"nested-last", func(s string) []tok { return []tok{tLP, tLP, at(s), tRP, at(s), tRP} }, func(s string) []*node {
		return []*node{listN(0, listN(0, symN(s, 0)), symN(s, 0))}
	}},
}
