package c12

import (
	"fmt"
	"math"
	"strconv"
	"strings"

	"github.com/luthersystems/elps/lisp"
	"github.com/luthersystems/elps/parser"
	"github.com/luthersystems/elps/parser/rdparser"
	"github.com/luthersystems/elps/parser/token"
)

// ---------------------------------------------------------------------------
// The value model: a boring typed tree with an explicit quote depth.

const (
	kInt uint8 = iota
	kFloat
	kStr
	kSym
	kList
)

var kindNames = []string{"int", "float", "str", "sym", "list"}

type node struct {
	k    uint8
	q    uint8 // quote levels applied to this node
	i    int64
	f    float64
	s    string
	kids []*node
}

// jval is the JSON form of a node (strings Go-quoted so that invalid UTF-8
// survives, floats as IEEE bits).
type jval struct {
	K string `json:"k"`
	Q int    `json:"q,omitempty"`
	I int64  `json:"i,omitempty"`
	F string `json:"f,omitempty"`
	S string `json:"s,omitempty"`
	C []jval `json:"c,omitempty"`
}

func (n *node) toJ() jval {
	j := jval{K: kindNames[n.k], Q: int(n.q)}
	switch n.k {
	case kInt:
		j.I = n.i
	case kFloat:
		j.F = strconv.FormatUint(math.Float64bits(n.f), 16)
	case kStr, kSym:
		j.S = strconv.Quote(n.s)
	case kList:
		for _, c := range n.kids {
			j.C = append(j.C, c.toJ())
		}
	}
	return j
}

func fromJ(j jval) (*node, error) {
	n := &node{q: uint8(j.Q)}
	switch j.K {
	case "int":
		n.k, n.i = kInt, j.I
	case "float":
		b, err := strconv.ParseUint(j.F, 16, 64)
		if err != nil {
			return nil, err
		}
		n.k, n.f = kFloat, math.Float64frombits(b)
	case "str", "sym":
		s, err := strconv.Unquote(j.S)
		if err != nil {
			return nil, err
		}
		n.s = s
		n.k = kStr
		if j.K == "sym" {
			n.k = kSym
		}
	case "list":
		n.k = kList
		for _, c := range j.C {
			cn, err := fromJ(c)
			if err != nil {
				return nil, err
			}
			n.kids = append(n.kids, cn)
		}
	default:
		return nil, fmt.Errorf("bad kind %q", j.K)
	}
	return n, nil
}

// describe renders a model value for reports (never used by an oracle).
func (n *node) describe() string {
	var b strings.Builder
	n.desc(&b)
	return b.String()
}

func (n *node) desc(b *strings.Builder) {
	if n.q > 0 {
		fmt.Fprintf(b, "q%d:", n.q)
	}
	switch n.k {
	case kInt:
		fmt.Fprintf(b, "int(%d)", n.i)
	case kFloat:
		fmt.Fprintf(b, "float(%s/0x%x)", strconv.FormatFloat(n.f, 'g', -1, 64), math.Float64bits(n.f))
	case kStr:
		fmt.Fprintf(b, "str(%q)", n.s)
	case kSym:
		fmt.Fprintf(b, "sym(%q)", n.s)
	case kList:
		b.WriteString("list[")
		for i, c := range n.kids {
			if i > 0 {
				b.WriteByte(' ')
			}
			c.desc(b)
		}
		b.WriteString("]")
	}
}

func (n *node) hasNegZero() bool {
	if n.k == kFloat && n.f == 0 && math.Signbit(n.f) {
		return true
	}
	for _, c := range n.kids {
		if c.hasNegZero() {
			return true
		}
	}
	return false
}

func (n *node) maxQ() int {
	m := int(n.q)
	for _, c := range n.kids {
		if x := c.maxQ(); x > m {
			m = x
		}
	}
	return m
}

// build constructs the lisp value through the public constructors only.
func (n *node) build() *lisp.LVal {
	var v *lisp.LVal
	q := int(n.q)
	switch n.k {
	case kInt:
		v = lisp.Int(int(n.i))
	case kFloat:
		v = lisp.Float(n.f)
	case kStr:
		v = lisp.String(n.s)
	case kSym:
		switch n.s {
		case lisp.TrueSymbol:
			v = lisp.Bool(true)
		case lisp.FalseSymbol:
			v = lisp.Bool(false)
		default:
			v = lisp.Symbol(n.s)
		}
	case kList:
		var cells []*lisp.LVal
		if len(n.kids) > 0 {
			cells = make([]*lisp.LVal, len(n.kids))
			for i, c := range n.kids {
				cells[i] = c.build()
			}
		}
		switch {
		case q == 0 && len(cells) == 0:
			v = lisp.Nil()
		case q == 0:
			v = lisp.SExpr(cells)
		default:
			v = lisp.QExpr(cells)
			q--
		}
	}
	for ; q > 0; q-- {
		v = lisp.Quote(v)
	}
	return v
}

// quoteDepth is the observable quote depth of a value: one per LQuote
// wrapper plus one for the quote flag of the innermost value (an LQuote's
// own flag is the wrapper's invariant, not a level).
func quoteDepth(v *lisp.LVal) (core *lisp.LVal, depth int, ok bool) {
	for v.Type == lisp.LQuote {
		if len(v.Cells) != 1 || v.Cells[0] == nil {
			return v, depth, false
		}
		depth++
		v = v.Cells[0]
	}
	if v.IsQuoted() {
		depth++
	}
	return v, depth, true
}

// expectDepth: a number or a string carrying exactly one quote level is the
// same value as the unquoted one (docs/lang.md "Quoted numbers and strings
// are equivalent to their unquoted counterparts"); the printer does not show
// that level.  Every other depth is compared exactly.
func (n *node) expectDepth() int {
	if n.q == 1 && (n.k == kInt || n.k == kFloat || n.k == kStr) {
		return 0
	}
	return int(n.q)
}

// same compares a value read back with the model: same structure, names,
// string bytes, quote depth; numbers numerically.
func (n *node) same(v *lisp.LVal) (bool, string) {
	if v == nil {
		return false, "nil value"
	}
	c, d, ok := quoteDepth(v)
	if !ok {
		return false, "malformed quote wrapper"
	}
	if d != n.expectDepth() {
		return false, fmt.Sprintf("quote depth %d, want %d at %s", d, n.expectDepth(), n.describe())
	}
	switch n.k {
	case kInt:
		if c.Type != lisp.LInt || int64(c.Int) != n.i {
			return false, fmt.Sprintf("%s, want int %d", leaf(c), n.i)
		}
	case kFloat:
		switch c.Type {
		case lisp.LFloat:
			if c.Float != n.f {
				return false, fmt.Sprintf("float %s (0x%x), want %s (0x%x)", strconv.FormatFloat(c.Float, 'g', -1, 64),
					math.Float64bits(c.Float), strconv.FormatFloat(n.f, 'g', -1, 64), math.Float64bits(n.f))
			}
		case lisp.LInt:
			// numbers are compared numerically: an integral float may come back as an int
			if n.f != math.Trunc(n.f) || math.Abs(n.f) >= 9.2e18 || int64(n.f) != int64(c.Int) || float64(c.Int) != n.f {
				return false, fmt.Sprintf("int %d, want float %s", c.Int, strconv.FormatFloat(n.f, 'g', -1, 64))
			}
		default:
			return false, fmt.Sprintf("%s, want float %s", leaf(c), strconv.FormatFloat(n.f, 'g', -1, 64))
		}
	case kStr:
		if c.Type != lisp.LString || c.Str != n.s {
			return false, fmt.Sprintf("%s, want string %q", leaf(c), n.s)
		}
	case kSym:
		if c.Type != lisp.LSymbol || c.Str != n.s {
			return false, fmt.Sprintf("%s, want symbol %q", leaf(c), n.s)
		}
	case kList:
		if c.Type != lisp.LSExpr {
			return false, fmt.Sprintf("%s, want a list of %d", leaf(c), len(n.kids))
		}
		if len(c.Cells) != len(n.kids) {
			return false, fmt.Sprintf("list of %d, want %d", len(c.Cells), len(n.kids))
		}
		for i, k := range n.kids {
			if ok, why := k.same(c.Cells[i]); !ok {
				return false, why
			}
		}
	}
	return true, ""
}

func leaf(v *lisp.LVal) string {
	switch v.Type {
	case lisp.LInt:
		return fmt.Sprintf("int %d", v.Int)
	case lisp.LFloat:
		return "float " + strconv.FormatFloat(v.Float, 'g', -1, 64)
	case lisp.LString:
		return fmt.Sprintf("string %q", v.Str)
	case lisp.LSymbol:
		return fmt.Sprintf("symbol %q", v.Str)
	case lisp.LSExpr:
		return fmt.Sprintf("list of %d", len(v.Cells))
	}
	return "value of type " + v.Type.String()
}

// sameProgram compares a whole program with a list of model values.
func sameProgram(want []*node, got []*lisp.LVal) (bool, string) {
	if len(got) != len(want) {
		return false, fmt.Sprintf("%d expressions, want %d", len(got), len(want))
	}
	for i, w := range want {
		if ok, why := w.same(got[i]); !ok {
			return false, fmt.Sprintf("expression %d: %s", i, why)
		}
	}
	return true, ""
}

// ---------------------------------------------------------------------------
// Structural fingerprint of a tree the readers returned: types, payloads,
// quote flags, children; never positions or formatting metadata.

func fpVal(b []byte, v *lisp.LVal) []byte {
	if v == nil {
		return append(b, 'N')
	}
	if v.IsQuoted() {
		b = append(b, 'q')
	}
	switch v.Type {
	case lisp.LInt:
		b = append(b, 'i')
		b = strconv.AppendInt(b, int64(v.Int), 10)
	case lisp.LFloat:
		b = append(b, 'f')
		b = strconv.AppendUint(b, math.Float64bits(v.Float), 16)
	case lisp.LString:
		b = append(b, 's')
		b = strconv.AppendInt(b, int64(len(v.Str)), 10)
		b = append(b, ':')
		b = append(b, v.Str...)
	case lisp.LSymbol:
		b = append(b, 'y')
		b = strconv.AppendInt(b, int64(len(v.Str)), 10)
		b = append(b, ':')
		b = append(b, v.Str...)
	case lisp.LSExpr:
		b = append(b, '(')
		for _, c := range v.Cells {
			b = fpVal(b, c)
			b = append(b, ' ')
		}
		b = append(b, ')')
	case lisp.LQuote:
		b = append(b, 'Q', '<')
		for _, c := range v.Cells {
			b = fpVal(b, c)
		}
		b = append(b, '>')
	default:
		b = append(b, 'T')
		b = strconv.AppendInt(b, int64(v.Type), 10)
	}
	return b
}

func fpProgram(b []byte, exprs []*lisp.LVal) []byte {
	b = strconv.AppendInt(b, int64(len(exprs)), 10)
	b = append(b, '|')
	for _, e := range exprs {
		b = fpVal(b, e)
		b = append(b, ';')
	}
	return b
}

// ---------------------------------------------------------------------------
// The readers under test.

// reading is what one reader made of one text.
type reading struct {
	ok    bool // accepted: no error
	exprs []*lisp.LVal
	err   error // first error otherwise (reports only)
	panic string
}

func (r reading) fp() string {
	if !r.ok {
		return ""
	}
	return string(fpProgram(nil, r.exprs))
}

func (r reading) String() string {
	switch {
	case r.panic != "":
		return "PANIC " + r.panic
	case r.ok:
		return "accept " + r.fp()
	case r.err != nil:
		return "reject <" + r.err.Error() + ">"
	}
	return "reject"
}

// sameReading: both reject, or both accept structurally identical trees.
func sameReading(a, b reading) bool {
	if a.panic != "" || b.panic != "" || a.ok != b.ok {
		return false
	}
	return !a.ok || sameTrees(a.exprs, b.exprs)
}

func sameTrees(a, b []*lisp.LVal) bool {
	if len(a) != len(b) {
		return false
	}
	for i := range a {
		if !sameTree(a[i], b[i]) {
			return false
		}
	}
	return true
}

// sameTree is the structural comparison the fingerprint spells out.
func sameTree(a, b *lisp.LVal) bool {
	if a == nil || b == nil {
		return a == b
	}
	if a.Type != b.Type || a.IsQuoted() != b.IsQuoted() {
		return false
	}
	switch a.Type {
	case lisp.LInt:
		return a.Int == b.Int
	case lisp.LFloat:
		return math.Float64bits(a.Float) == math.Float64bits(b.Float)
	case lisp.LString, lisp.LSymbol:
		return a.Str == b.Str
	case lisp.LSExpr, lisp.LQuote:
		return sameTrees(a.Cells, b.Cells)
	}
	return true // other types: the fingerprint records the type only
}

func guard(r *reading) {
	if p := recover(); p != nil {
		*r = reading{panic: fmt.Sprint(p)}
	}
}

func finish(exprs []*lisp.LVal, err error) reading {
	if err != nil {
		return reading{err: err}
	}
	return reading{ok: true, exprs: exprs}
}

// readStrict: rdparser.New(...).ParseProgram over the string scanner.
func readStrict(text string) (r reading) {
	defer guard(&r)
	return finish(rdparser.New(token.NewScannerString("t", text)).ParseProgram())
}

// readFT: ParseProgramFaultTolerant; accepted iff it collected no error.
func readFT(text string) (r reading) {
	defer guard(&r)
	res := rdparser.New(token.NewScannerString("t", text)).ParseProgramFaultTolerant()
	if len(res.Errors) > 0 {
		return reading{err: res.Errors[0]}
	}
	return finish(res.Exprs, nil)
}

// readFmt: rdparser.NewFormatting(...).ParseProgram.
func readFmt(text string) (r reading) {
	defer guard(&r)
	return finish(rdparser.NewFormatting(token.NewScannerString("t", text)).ParseProgram())
}

// production readers: token.NewScanner's 128 KiB sliding window.
func readProdStrict(text string) (r reading) {
	defer guard(&r)
	return finish(parser.NewReader().Read("t", strings.NewReader(text)))
}

func readProdFmt(text string) (r reading) {
	defer guard(&r)
	return finish(parser.NewReader(parser.WithFormatPreserving()).Read("t", strings.NewReader(text)))
}

func readProdFT(text string) (r reading) {
	defer guard(&r)
	res := rdparser.New(token.NewScanner("t", strings.NewReader(text))).ParseProgramFaultTolerant()
	if len(res.Errors) > 0 {
		return reading{err: res.Errors[0]}
	}
	return finish(res.Exprs, nil)
}

// fail is one disagreement found by a check.
type fail struct {
	sub      string // short stable sub-class
	expected string
	got      string
}

// modesAgree: all three readers reject, or all accept with identical trees.
func modesAgree(text string) (strict reading, f *fail) {
	s, t, m := readStrict(text), readFT(text), readFmt(text)
	return s, agree3(s, t, m, "strict", "fault-tolerant", "format-preserving")
}

func agree3(s, t, m reading, ns, nt, nm string) *fail {
	if s.panic != "" || t.panic != "" || m.panic != "" {
		return &fail{"panic", "no reader panics", fmt.Sprintf("%s: %s | %s: %s | %s: %s", ns, s, nt, t, nm, m)}
	}
	if s.ok != t.ok || s.ok != m.ok {
		return &fail{fmt.Sprintf("accept:s%d-f%d-m%d", b2i(s.ok), b2i(t.ok), b2i(m.ok)),
			"all three readers accept or all reject",
			fmt.Sprintf("%s: %s | %s: %s | %s: %s", ns, short(s.String()), nt, short(t.String()), nm, short(m.String()))}
	}
	if s.ok {
		et, em := sameTrees(s.exprs, t.exprs), sameTrees(s.exprs, m.exprs)
		if !et || !em {
			return &fail{fmt.Sprintf("tree:f%d-m%d", b2i(et), b2i(em)),
				"structurally identical trees from all three readers",
				fmt.Sprintf("%s: %s | %s: %s | %s: %s", ns, short(s.fp()), nt, short(t.fp()), nm, short(m.fp()))}
		}
	}
	return nil
}

func b2i(b bool) int {
	if b {
		return 1
	}
	return 0
}

func qtext(s string) string { return strconv.Quote(s) }
func unq(s string) string {
	u, err := strconv.Unquote(s)
	if err != nil {
		return s
	}
	return u
}
