package c12

import (
	"fmt"
	"math"
	"sort"
	"strconv"
	"strings"
	"unicode/utf8"

	"github.com/luthersystems/elps/lisp"
)

// checkValue: print, read back with all three readers, compare with the
// model, print again.  domain only names the class of a failure.
func checkValue(n *node, modes bool) (text string, f *fail) {
	return checkBuilt(n, n.build, modes)
}

// checkBuilt is checkValue for a value the caller constructs (so that the
// value may share sub-values, which node.build never does).
func checkBuilt(n *node, build func() *lisp.LVal, modes bool) (text string, f *fail) {
	var v *lisp.LVal
	func() {
		defer func() {
			if p := recover(); p != nil {
				f = &fail{"panic", "building and printing do not panic", fmt.Sprint(p)}
			}
		}()
		v = build()
		text = v.String()
	}()
	if f != nil {
		return text, f
	}
	var s reading
	var mf *fail
	if modes {
		s, mf = modesAgree(text)
	} else {
		s = readStrict(text)
	}
	if s.panic != "" {
		return text, &fail{"panic", "the reader does not panic on printed text " + qtext(text), s.panic}
	}
	if !s.ok {
		return text, &fail{"rejected", "the reader accepts the printed text " + qtext(text), s.String()}
	}
	if len(s.exprs) != 1 {
		return text, &fail{"count", "printed text " + qtext(text) + " reads back as one expression", s.fp()}
	}
	if ok, why := n.same(s.exprs[0]); !ok {
		return text, &fail{"value-differs", "printed text " + qtext(text) + " reads back to " + n.describe(), why + "  [tree " + s.fp() + "]"}
	}
	if mf != nil {
		return text, &fail{"modes:" + mf.sub, mf.expected + " on printed text " + qtext(text), mf.got}
	}
	var text2 string
	func() {
		defer func() {
			if p := recover(); p != nil {
				f = &fail{"panic", "printing the value read back does not panic", fmt.Sprint(p)}
			}
		}()
		text2 = s.exprs[0].String()
	}()
	if f != nil {
		return text, f
	}
	if text2 != text && !n.hasNegZero() {
		return text, &fail{"reprint-differs", "printing the value read back reproduces " + qtext(text), qtext(text2)}
	}
	if n.maxQ() <= 1 {
		// LVal.Equal has no structural equality for two-or-more quote levels; below that it must hold.
		if eq := v.Equal(s.exprs[0]); !lisp.True(eq) {
			return text, &fail{"equal-false", "LVal.Equal(original, read back) is true for " + qtext(text), eq.String()}
		}
	}
	return text, nil
}

// ---------------------------------------------------------------------------
// ints

func intAlphabet() []int64 {
	seen := map[int64]bool{}
	var out []int64
	add := func(x int64) {
		if !seen[x] {
			seen[x] = true
			out = append(out, x)
		}
	}
	addAround := func(x int64) {
		// x-1, x, x+1 and negations, guarding overflow
		add(x)
		add(-x) // -MinInt64 wraps to MinInt64: still a legal int64
		if x > math.MinInt64 {
			add(x - 1)
			add(-(x - 1))
		}
		if x < math.MaxInt64 {
			add(x + 1)
			add(-(x + 1))
		}
	}
	add(0)
	add(math.MaxInt64)
	add(math.MinInt64)
	add(math.MaxInt64 - 1)
	add(math.MinInt64 + 1)
	for k := 0; k <= 62; k++ {
		addAround(int64(1) << uint(k))
	}
	p := int64(1)
	for k := 0; k <= 18; k++ {
		addAround(p)
		if k < 18 {
			p *= 10
		}
	}
	sort.Slice(out, func(i, j int) bool { return out[i] < out[j] })
	return out
}

// ---------------------------------------------------------------------------
// floats: d·10^e for every d in [1,dmax] not divisible by 10 and e in
// [emin,emax], both signs, each with its two nextafter neighbours.

type floatGrid struct {
	dmax       int
	emin, emax int
	ds         []int
}

func newGrid(dmax, emin, emax int) *floatGrid {
	g := &floatGrid{dmax: dmax, emin: emin, emax: emax}
	for d := 1; d <= dmax; d++ {
		if d%10 != 0 {
			g.ds = append(g.ds, d)
		}
	}
	return g
}

func (g *floatGrid) size() int64 {
	return int64(len(g.ds)) * int64(g.emax-g.emin+1) * 2 * 3
}

// at returns the idx-th float; ok is false when the decimal is out of range
// (overflows to infinity) or a neighbour is not finite.
func (g *floatGrid) at(idx int64) (f float64, ok bool) {
	nb := idx % 3
	idx /= 3
	neg := idx%2 == 1
	idx /= 2
	ne := int64(g.emax - g.emin + 1)
	e := g.emin + int(idx%ne)
	d := g.ds[idx/ne]
	x, err := strconv.ParseFloat(strconv.Itoa(d)+"e"+strconv.Itoa(e), 64)
	if err != nil || math.IsInf(x, 0) {
		return 0, false
	}
	switch nb {
	case 1:
		x = math.Nextafter(x, math.Inf(1))
	case 2:
		x = math.Nextafter(x, math.Inf(-1))
	}
	if neg {
		x = -x
	}
	if math.IsInf(x, 0) || math.IsNaN(x) {
		return 0, false
	}
	return x, true
}

func specialFloats() []float64 {
	base := []float64{
		0, math.SmallestNonzeroFloat64, math.MaxFloat64, 2.2250738585072014e-308, 2.225073858507201e-308,
		1e20, 1e21, 1e22, 1e23, 999999, 1e6, 1000001, 123456, 1234567, 99999.5, 999999.5, 1e5, 1e-4, 1e-5, 9.999e-5, 0.00001234,
		9007199254740991, 9007199254740992, 9007199254740993, 9007199254740994, 4503599627370496, 4503599627370495.5,
		9223372036854775807, 9223372036854775808, 9223372036854774784, 18446744073709551616, 4294967296, 2147483648,
		123456789012345680000, 12345678901234567890, 0.1, 0.2, 0.30000000000000004, 1.0 / 3, math.Pi, math.E, 5e-324, 1e-323,
		8.41e21, 2.5, 0.5, 1.5, 100, 1e15, 1e16, 1e17, 123456.7, 1.7976931348623157e308, 4.9406564584124654e-324,
		2.2250738585072011e-308, 1e-310, 6.02214076e23, 1.602176634e-19,
	}
	var out []float64
	seen := map[uint64]bool{}
	add := func(x float64) {
		if math.IsInf(x, 0) || math.IsNaN(x) {
			return
		}
		if b := math.Float64bits(x); !seen[b] {
			seen[b] = true
			out = append(out, x)
		}
	}
	for _, x := range base {
		for _, y := range []float64{x, math.Nextafter(x, math.Inf(1)), math.Nextafter(x, math.Inf(-1))} {
			add(y)
			add(-y)
		}
	}
	// every power of two
	for k := -1074; k <= 1023; k++ {
		add(math.Ldexp(1, k))
		add(-math.Ldexp(1, k))
	}
	return out
}

func floatForm(text string) string {
	switch {
	case strings.ContainsAny(text, "eE"):
		return "exp"
	case strings.Contains(text, "."):
		return "frac"
	}
	return "integral"
}

// ---------------------------------------------------------------------------
// strings over the 14-symbol escape-class alphabet

var strAlphabet = []string{"a", "\"", "\\", "\n", "\t", "\r", "\x00", "\x7f", "\u00e9", "\u2028", "\U0001F600", "\x80", "\xc3", ";",
	// the boundary runes of UTF-8 decoding, each as its valid encoding
	"\ufffd", "\ufffe", "\uffff", "\u0080", "\u07ff", "\u0800", "\ud7ff", "\ue000", "\U00010000", "\U0010ffff", "\ufeff"}

// edgeRunes: the boundary runes of UTF-8 decoding (first/last code point of
// each encoded width, the surrogate gap's neighbours, the replacement
// character itself -- whose VALID 3-byte encoding decodes to the same rune
// value an undecodable byte does -- the noncharacters and the byte-order mark).
var edgeRunes = []rune{0xFFFD, 0xFFFE, 0xFFFF, 0x80, 0x7FF, 0x800, 0xD7FF, 0xE000, 0x10000, 0x10FFFF, 0xFEFF}

// seqCount is the number of sequences of length <= maxLen over base symbols.
func seqCount(base, maxLen int) int64 {
	var n, p int64 = 0, 1
	for l := 0; l <= maxLen; l++ {
		n += p
		p *= int64(base)
	}
	return n
}

// seqAt decodes idx into (length, digits): shorter sequences first.
func seqAt(base int, idx int64, digits []int) []int {
	l := 0
	p := int64(1)
	for idx >= p {
		idx -= p
		p *= int64(base)
		l++
	}
	digits = digits[:0]
	for i := 0; i < l; i++ {
		digits = append(digits, int(idx%int64(base)))
		idx /= int64(base)
	}
	// most significant first keeps a simplest-first lexicographic order
	for i, j := 0, len(digits)-1; i < j; i, j = i+1, j-1 {
		digits[i], digits[j] = digits[j], digits[i]
	}
	return digits
}

func stringAt(idx int64) string {
	var d [8]int
	ds := seqAt(len(strAlphabet), idx, d[:0])
	var b strings.Builder
	for _, x := range ds {
		b.WriteString(strAlphabet[x])
	}
	return b.String()
}

func stringCat(s string) string {
	cat := "ascii"
	if !utf8.ValidString(s) {
		return "invalid-utf8"
	}
	if strings.ContainsRune(s, utf8.RuneError) {
		return "real-U+FFFD" // a validly encoded replacement character
	}
	for _, r := range s {
		switch {
		case r == '"' || r == '\\':
			if cat == "ascii" {
				cat = "quote-backslash"
			}
		case r < 0x20 || r == 0x7f:
			cat = "control"
		case r == 0x2028:
			if cat != "control" {
				cat = "unprintable-unicode"
			}
		case r >= 0x80:
			if cat == "ascii" || cat == "quote-backslash" {
				cat = "unicode"
			}
		}
	}
	return cat
}

// ---------------------------------------------------------------------------
// symbol spellings over the small character alphabet

var symAlphabet = []string{"a", "1", "-", "+", ".", ":", "e", "%"}

// symAlphabetWide: every miscWordSymbols rune, a letter, a digit, two
// non-ASCII letters and the package separator (short spellings only).
var symAlphabetWide = []string{"a", "1", "\u00e9", "\u65e5", ".", "_", "+", "-", "*", "/", "=", "<", ">", "!", "&", "~", "%", "?", "$", ":"}

func spellingOver(alpha []string, idx int64) string {
	var d [8]int
	ds := seqAt(len(alpha), idx+1, d[:0]) // +1: skip the empty spelling
	var b strings.Builder
	for _, x := range ds {
		b.WriteString(alpha[x])
	}
	return b.String()
}

func spellingAt(idx int64) string { return spellingOver(symAlphabet, idx) }

func spellingCountOver(alpha []string, maxLen int) int64 { return seqCount(len(alpha), maxLen) - 1 }

func spellingCount(maxLen int) int64 { return spellingCountOver(symAlphabet, maxLen) }

// shape keeps classes coarse: short spellings verbatim, longer ones by their ends.
func shape(s string) string {
	rs := []rune(s)
	if len(rs) <= 2 {
		return s
	}
	return string(rs[:1]) + "~" + string(rs[len(rs)-1:])
}

// ---------------------------------------------------------------------------
// trees: all trees of depth <= D, width <= 2, 0-3 quote levels at every node.

type treeSpace struct {
	atoms []*node  // unquoted leaves
	n     [5]int64 // n[d] = number of trees of depth <= d
	q     int64    // quote levels 0..q-1
}

func newTreeSpace(atoms []*node, depth int) *treeSpace {
	t := &treeSpace{atoms: atoms, q: 4}
	a := int64(len(atoms))
	for d := 1; d <= depth; d++ {
		p := t.n[d-1]
		t.n[d] = t.q * (a + 1 + p + p*p)
	}
	return t
}

func (t *treeSpace) at(d int, idx int64) *node {
	q := uint8(idx % t.q)
	r := idx / t.q
	a := int64(len(t.atoms))
	if r < a {
		c := *t.atoms[r]
		c.q = q
		return &c
	}
	r -= a
	if r == 0 {
		return &node{k: kList, q: q}
	}
	r--
	p := t.n[d-1]
	if r < p {
		return &node{k: kList, q: q, kids: []*node{t.at(d-1, r)}}
	}
	r -= p
	return &node{k: kList, q: q, kids: []*node{t.at(d-1, r/p), t.at(d-1, r%p)}}
}
