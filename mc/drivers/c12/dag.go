package c12

import (
	"fmt"
	"strings"

	"github.com/luthersystems/elps/lisp"

	"verif/mc/el"
)

// DAG-shaped values: one sub-value object occurring two or three times in a
// container that sits under d wrapping lists, for every d.  The value is
// acyclic and made of ints, strings, symbols and lists only, so it is in the
// statement's value set at "any nesting depth"; only a value BUILT through the
// API or by lisp code can share a node (the reader never does), and after
// reading back sharing is not observable, so the comparison is structural.

type dagCase struct {
	Via   string `json:"via"`   // go | lisp
	X     string `json:"x"`     // kind of the shared sub-value
	Shape string `json:"shape"` // container shape
	D     int    `json:"d"`     // wrapping lists around the container
}

var dagXs = []string{"list", "nil", "string", "quoted-list", "twice-quoted-list", "nested-list"}
var dagShapes = []string{"x-x", "x-a-x", "x-x-x", "x-(x)"}

// dagGo builds the value through the Go constructors, sharing ONE *LVal, and
// the model tree next to it.
func dagGo(c dagCase) (build func() *lisp.LVal, model *node, ok bool) {
	var mx *node
	var bx func() *lisp.LVal
	switch c.X {
	case "list":
		mx = listN(0, &node{k: kInt, i: 7}, &node{k: kStr, s: "s"})
		bx = func() *lisp.LVal { return lisp.SExpr([]*lisp.LVal{lisp.Int(7), lisp.String("s")}) }
	case "nil":
		mx = listN(0)
		bx = lisp.Nil
	case "string":
		mx = &node{k: kStr, s: "s\n"}
		bx = func() *lisp.LVal { return lisp.String("s\n") }
	case "quoted-list":
		mx = listN(1, symN("a", 0))
		bx = func() *lisp.LVal { return lisp.QExpr([]*lisp.LVal{lisp.Symbol("a")}) }
	case "twice-quoted-list":
		mx = listN(2, symN("a", 0))
		bx = func() *lisp.LVal { return lisp.Quote(lisp.QExpr([]*lisp.LVal{lisp.Symbol("a")})) }
	case "nested-list":
		mx = listN(0, listN(0, &node{k: kInt, i: 7}), listN(1))
		bx = func() *lisp.LVal {
			return lisp.SExpr([]*lisp.LVal{lisp.SExpr([]*lisp.LVal{lisp.Int(7)}), lisp.QExpr(nil)})
		}
	default:
		return nil, nil, false
	}
	a := symN("a", 0)
	switch c.Shape {
	case "x-x":
		model = listN(0, mx, mx)
	case "x-a-x":
		model = listN(0, mx, a, mx)
	case "x-x-x":
		model = listN(0, mx, mx, mx)
	case "x-(x)":
		model = listN(0, mx, listN(0, mx))
	default:
		return nil, nil, false
	}
	for i := 0; i < c.D; i++ {
		model = listN(0, model)
	}
	build = func() *lisp.LVal {
		x := bx() // ONE object, used at every occurrence
		var v *lisp.LVal
		switch c.Shape {
		case "x-x":
			v = lisp.SExpr([]*lisp.LVal{x, x})
		case "x-a-x":
			v = lisp.SExpr([]*lisp.LVal{x, lisp.Symbol("a"), x})
		case "x-x-x":
			v = lisp.SExpr([]*lisp.LVal{x, x, x})
		case "x-(x)":
			v = lisp.SExpr([]*lisp.LVal{x, lisp.SExpr([]*lisp.LVal{x})})
		}
		for i := 0; i < c.D; i++ {
			v = lisp.SExpr([]*lisp.LVal{v})
		}
		return v
	}
	return build, model, true
}

// dagLispSource is the lisp program that constructs the same family.
func dagLispSource(c dagCase) (string, bool) {
	var x, body string
	switch c.X {
	case "list":
		x = `(list 7 "s")`
	case "nil":
		x = `()`
	case "string":
		x = `"s\n"`
	case "quoted-list":
		x = `'(a)`
	case "twice-quoted-list":
		x = `''(a)`
	case "nested-list":
		x = `(list (list 7) ())`
	default:
		return "", false
	}
	switch c.Shape {
	case "x-x":
		body = `(list x x)`
	case "x-a-x":
		body = `(list x 'a x)`
	case "x-x-x":
		body = `(list x x x)`
	case "x-(x)":
		body = `(list x (list x))`
	default:
		return "", false
	}
	return fmt.Sprintf("(let* ([x %s] [v %s]) (dotimes (i %d) (set! v (list v))) v)", x, body, c.D), true
}

// snapshot turns a built value into a model tree by walking its public
// structure (Type, Cells, IsQuoted, payload fields) -- never its printed form.
func snapshot(v *lisp.LVal, depth int) (*node, error) {
	if v == nil {
		return nil, fmt.Errorf("nil value")
	}
	if depth > 1000 {
		return nil, fmt.Errorf("value nests deeper than 1000 (cyclic?)")
	}
	c, q, ok := quoteDepth(v)
	if !ok {
		return nil, fmt.Errorf("malformed quote wrapper")
	}
	n := &node{q: uint8(q)}
	switch c.Type {
	case lisp.LInt:
		n.k, n.i = kInt, int64(c.Int)
	case lisp.LFloat:
		n.k, n.f = kFloat, c.Float
	case lisp.LString:
		n.k, n.s = kStr, c.Str
	case lisp.LSymbol:
		n.k, n.s = kSym, c.Str
	case lisp.LSExpr:
		n.k = kList
		for _, ch := range c.Cells {
			cn, err := snapshot(ch, depth+1)
			if err != nil {
				return nil, err
			}
			n.kids = append(n.kids, cn)
		}
	default:
		return nil, fmt.Errorf("value of type %s is outside the statement's value set", c.Type)
	}
	return n, nil
}

// sharesNode reports whether some list object occurs more than once in v (a
// vacuity indicator for the lisp-built family).
func sharesNode(v *lisp.LVal) bool {
	seen := map[*lisp.LVal]bool{}
	var walk func(*lisp.LVal) bool
	walk = func(x *lisp.LVal) bool {
		if x == nil || (x.Type != lisp.LSExpr && x.Type != lisp.LQuote) {
			return false
		}
		if seen[x] {
			return true
		}
		seen[x] = true
		for _, c := range x.Cells {
			if walk(c) {
				return true
			}
		}
		return false
	}
	return walk(v)
}

// checkDAG decides one case.  shared reports whether the built value really
// contains one object twice.
func checkDAG(c dagCase) (text string, shared bool, f *fail) {
	switch c.Via {
	case "go":
		build, model, ok := dagGo(c)
		if !ok {
			return "", false, &fail{"harness", "a well formed case", fmt.Sprintf("%+v", c)}
		}
		var built *lisp.LVal
		text, f = checkBuilt(model, func() *lisp.LVal { built = build(); return built }, true)
		return text, built != nil && (sharesNode(built) || c.X == "string"), f
	case "lisp":
		src, ok := dagLispSource(c)
		if !ok {
			return "", false, &fail{"harness", "a well formed case", fmt.Sprintf("%+v", c)}
		}
		env, err := el.NewEnv(el.Opts{})
		if err != nil {
			return "", false, &fail{"harness", "a runtime", err.Error()}
		}
		v := env.LoadString("dag.lisp", src)
		if v == nil || v.Type == lisp.LError {
			return "", false, &fail{"harness", "the construction program evaluates: " + src, el.Observe(v, "").Full()}
		}
		model, err := snapshot(v, 0)
		if err != nil {
			return "", false, &fail{"harness", "a value of ints, strings, symbols and lists from " + src, err.Error()}
		}
		text, f = checkBuilt(model, func() *lisp.LVal { return v }, true)
		return text, sharesNode(v), f
	}
	return "", false, &fail{"harness", "via go|lisp", c.Via}
}

func (c dagCase) String() string {
	return strings.Join([]string{c.Via, c.X, c.Shape, fmt.Sprint(c.D)}, "/")
}
