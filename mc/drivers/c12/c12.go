// Package c12: reader and printer are mutually inverse on data, and the
// strict, fault-tolerant and format-preserving readers agree.
//
// Bounded-exhaustive spaces (DESIGN §C12):
//
//	V-int     boundary ints: ±2^k, ±(2^k±1), ±10^k, ±(10^k±1), 0, Min/Max
//	V-float   every d·10^e (d <= 3 or 4 digits, e in [-25,27]) with both nextafter neighbours,
//	          wide-exponent grid, every power of two, format switch points
//	V-string  ALL strings of length <= n over the 14-symbol escape-class alphabet
//	V-symbol  ALL spellings of length <= n over {a 1 - + . : e %}: classified readable / not,
//	          readers must agree; every readable one in 10 bracket/quote contexts under every layout
//	V-tree    ALL trees of depth <= 3, width <= 2, 0-3 quote levels at every node
//	T-tokens  ALL token sequences of length <= L over 17 tokens x every separator assignment
//	T-bound   128 KiB window: every item kind at every start offset around the boundary; over-long items
//	T-prod    production readers (128 KiB window) against the string-scanner readers
//
// Oracles: a typed value model with explicit quote depth (read(print v) == v,
// print(read(print v)) == print v); agreement of the three readers;
// invariance of the tree under the separator assignment.
package c12

import (
	"fmt"
	"math"
	"os"
	"sort"
	"strconv"
	"strings"
	"sync"
	"syscall"
	"time"
	"unicode"
	"unicode/utf8"

	"verif/mc/core"
)

func init() {
	core.Register(&core.Driver{Property: "C12", Run: run, Replay: replay})
}

// kase is the replayable form of every kind of case.
type kase struct {
	Kind   string   `json:"kind"`                  // value | modes | layout | expect | boundary | prod
	Strict bool     `json:"strict_only,omitempty"` // value: only the strict reader was consulted
	Value  *jval    `json:"value,omitempty"`
	Text   string   `json:"text,omitempty"` // Go-quoted source text
	Ref    string   `json:"ref,omitempty"`  // layout: Go-quoted reference text
	Expect []jval   `json:"expect,omitempty"`
	B      *bcase   `json:"boundary,omitempty"`
	DAG    *dagCase `json:"dag,omitempty"`
}

// execute re-runs one case straight-line.
func execute(k kase) (*fail, string) {
	switch k.Kind {
	case "value":
		if k.Value == nil {
			return nil, "no value"
		}
		n, err := fromJ(*k.Value)
		if err != nil {
			return nil, "bad value: " + err.Error()
		}
		text, f := checkValue(n, !k.Strict)
		return f, "value " + n.describe() + " prints " + qtext(text)
	case "modes":
		text := unq(k.Text)
		s, t, m := readStrict(text), readFT(text), readFmt(text)
		return agree3(s, t, m, "strict", "fault-tolerant", "format-preserving"),
			fmt.Sprintf("text %s\n strict: %s\n fault-tolerant: %s\n format-preserving: %s", k.Text, s, t, m)
	case "layout":
		a, b := readStrict(unq(k.Ref)), readStrict(unq(k.Text))
		rep := fmt.Sprintf("reference %s -> %s\nvariant   %s -> %s", k.Ref, a, k.Text, b)
		if !sameReading(a, b) {
			return &fail{"layout", "same result as the reference layout: " + a.String(), b.String()}, rep
		}
		return nil, rep
	case "expect":
		var want []*node
		for _, j := range k.Expect {
			n, err := fromJ(j)
			if err != nil {
				return nil, "bad expectation: " + err.Error()
			}
			want = append(want, n)
		}
		s := readStrict(unq(k.Text))
		rep := fmt.Sprintf("text %s -> %s ; want %s", k.Text, s, describeAll(want))
		if !s.ok {
			return &fail{"rejected", "accepted", s.String()}, rep
		}
		if ok, why := sameProgram(want, s.exprs); !ok {
			return &fail{"tree-differs", describeAll(want), why}, rep
		}
		return nil, rep
	case "dag":
		if k.DAG == nil {
			return nil, "no dag case"
		}
		text, shared, f := checkDAG(*k.DAG)
		return f, fmt.Sprintf("dag %s (one object occurs more than once: %v) prints %s", *k.DAG, shared, short(qtext(text)))
	case "symmodel":
		sp := unq(k.Text)
		st := readStrict(sp)
		want, got := modelReadable(sp), readerSaysSymbol(sp, st)
		rep := fmt.Sprintf("spelling %s: model says readable-as-one-symbol=%v, strict reader: %s", k.Text, want, short(st.String()))
		if want != got {
			return &fail{"symmodel", fmt.Sprintf("readable as one symbol = %v", want), short(st.String())}, rep
		}
		return nil, rep
	case "boundary":
		if k.B == nil {
			return nil, "no boundary case"
		}
		out, f := checkBoundary(*k.B)
		return f, fmt.Sprintf("boundary %+v -> %s", *k.B, out)
	case "prod":
		f := checkProd(unq(k.Text))
		return f, "production readers on " + short(k.Text)
	}
	return nil, "unknown case kind " + k.Kind
}

// report re-confirms a disagreement five times before recording it.
func report(r *core.Run, class string, k kase, f *fail) {
	class = safe(class)
	if r.Seen(class) >= 3 {
		// the class is established (three confirmed cases are on record): count, do not re-confirm
		r.CountOnly(class)
		return
	}
	n := 0
	for i := 0; i < 5; i++ {
		if g, _ := execute(k); g != nil {
			n++
		}
	}
	if n != 5 {
		r.Flaky(map[string]any{"class": class, "case": k, "reproduced": n, "of": 5, "expected": f.expected, "got": f.got})
		return
	}
	r.Violate("c12", safe(class), k, safe(f.expected), safe(f.got), "")
}

// safe keeps everything the harness prints valid UTF-8 (a mutated printer
// can put raw bytes into a text).
func safe(s string) string {
	if utf8.ValidString(s) {
		return s
	}
	q := strconv.QuoteToASCII(s)
	return "(bytes) " + q
}

func replay(v core.Violation) (bool, string) {
	k, err := core.CaseOf[kase](v)
	if err != nil {
		return false, err.Error()
	}
	f, rep := execute(k)
	if f != nil {
		return true, safe(rep + "\nexpected: " + f.expected + "\ngot: " + f.got)
	}
	return false, safe(rep)
}

// checkProd: the production readers (128 KiB window) agree with the
// string-scanner strict reader.
func checkProd(text string) *fail {
	ss := readStrict(text)
	ps, pm := readProdStrict(text), readProdFmt(text)
	for _, x := range []struct {
		name string
		r    reading
	}{{"parser.NewReader()", ps}, {"parser.NewReader(WithFormatPreserving())", pm}} {
		if x.r.panic != "" {
			return &fail{"panic", "no panic", x.name + ": " + x.r.panic}
		}
		if x.r.ok != ss.ok {
			return &fail{"accept", "same acceptance as the strict reader over the string scanner: " + short(ss.String()), x.name + ": " + short(x.r.String())}
		}
		if ss.ok && !sameTrees(x.r.exprs, ss.exprs) {
			return &fail{"tree", "same tree as the strict reader over the string scanner: " + short(ss.fp()), x.name + ": " + short(x.r.fp())}
		}
	}
	return nil
}

// ---------------------------------------------------------------------------

type pool struct {
	mu sync.Mutex
	ts []*tally
}

func (p *pool) get() *tally {
	t := newTally()
	p.mu.Lock()
	p.ts = append(p.ts, t)
	p.mu.Unlock()
	return t
}

func (p *pool) merge(r *core.Run) *tally {
	sum := newTally()
	for _, t := range p.ts {
		t.flush(r)
		sum.states += t.states
		sum.evals += t.evals
		sum.trans += t.trans
		sum.traces += t.traces
		sum.accepted += t.accepted
		sum.rejected += t.rejected
		sum.groups += t.groups
		sum.multiAttributed += t.multiAttributed
		for k, v := range t.outcomes {
			sum.outcomes[k] += v
		}
	}
	return sum
}

type valWorker struct {
	t *tally
}

// valueCase runs one value and files the result under domain.
func valueCase(r *core.Run, t *tally, n *node, domain string, keyed, modes bool) {
	text, f := checkValue(n, modes)
	t.states++
	t.evals++
	t.trans += 3 // one reading, model comparison, reprint comparison
	if modes {
		t.trans += 2
	}
	t.traces++
	if keyed {
		r.Nontrivial(domain + "\x00" + text)
	}
	if f != nil {
		t.outcomes[domain+":"+f.sub]++
		j := n.toJ()
		report(r, "value:"+domain+":"+f.sub, kase{Kind: "value", Value: &j, Strict: !modes}, f)
		return
	}
	t.outcomes[domain+":ok"]++
}

func run(r *core.Run) {
	thorough := r.Thorough()
	p := &pool{}
	// development aid: VERIF_C12_ONLY=V-symbol,T-tokens-ext runs a subset (reported as capped)
	only := os.Getenv("VERIF_C12_ONLY")
	if only != "" {
		r.Cap("development subset VERIF_C12_ONLY=" + only)
	}
	lim := func(name string, n int64) int64 {
		if only != "" && !strings.Contains(","+only+",", ","+name+",") {
			return 0
		}
		return n
	}
	t0 := time.Now()
	phase := func(name string) {
		if os.Getenv("VERIF_C12_TRACE") != "" {
			var ru syscall.Rusage
			_ = syscall.Getrusage(syscall.RUSAGE_SELF, &ru)
			fmt.Fprintf(os.Stderr, "c12: %-10s done at %6.1fs wall, cpu user %.1fs sys %.1fs\n", name, time.Since(t0).Seconds(),
				float64(ru.Utime.Sec)+float64(ru.Utime.Usec)/1e6, float64(ru.Stime.Sec)+float64(ru.Stime.Usec)/1e6)
		}
	}
	extra := map[string]any{}

	r.Rule("values: every enumerated value is a distinct case (printed, read by the three readers, compared with the typed model, printed again); " +
		"texts: a token sequence is non-trivial when at least one reader accepts its reference rendering (distinct by text). " +
		"distinct_nontrivial counts the keyed sub-spaces only (ints, floats of the 3-digit grid and specials, strings, spellings, trees of depth <= 2, token sequences of length <= 4, boundary cases); " +
		"the large sub-spaces report their accepted/rejected totals under coverage.c12_totals")
	r.Assume("a number or string carrying exactly one quote level is the same value as the unquoted one (docs/lang.md: 'Quoted numbers and strings are equivalent to their unquoted counterparts'); the printer does not show that level and the comparison normalises it; two or more levels are compared exactly")
	r.Assume("an integral float may read back as an int ('numbers compared numerically'); negative zero is exempt from the reprint comparison only, it must still read back numerically equal")
	r.Assume("a reader 'accepts' a text iff it returns no error (fault-tolerant: an empty Errors list); trees are compared by type, payload, quote flag and children, never by position or formatting metadata")
	r.Assume("layout = the separators between complete expressions and brackets; the gap between a prefix (' #' #^) and its operand is part of the text's identity, not layout; the empty separator is layout only next to a bracket and right after the closing quote of a string literal (which completes the literal; excepted: a quote right after the empty literal or after a raw string); a glued comment only in those places")
	r.Assume("whitespace = unicode.IsSpace, the class the unchanged scanner's AcceptSpace skips (enumerated from the Go unicode tables, not from the code under test); a comment runs to LF, so every comment separator ends in LF and a bare CR never ends a comment")
	r.Assume("UNSPECIFIED: whether a hash-bang line is honoured after leading comments (ParseProgram documents 'potentially preceded by a hash-bang'): leading layout is not varied for sequences that start with #!")
	r.Assume("'readable symbol spelling' is decided by an independent predicate written from docs/lang.md and the unchanged lexer's character classes (drivers/c12/symmodel.go), never by the reader under test; the reader is compared with it on every enumerated spelling")
	r.Assume("UNSPECIFIED: non-finite floats, bytes, maps, vectors, functions (outside the statement's value set); unreadable symbol spellings (only reader agreement is checked)")
	r.Assume("DOCUMENTED LIMIT: token.DefaultBufSize — one lexical item (token, comment, whitespace run) of 128 KiB or more may be rejected by the production reader; it may not be accepted with a different tree")

	// ---------------------------------------------------------------- V-int
	ints := intAlphabet()
	r.Bound("V-int.values", len(ints))
	core.ParallelRange(r, lim("V-int", int64(len(ints))), func(int) *valWorker { return &valWorker{p.get()} }, func(w *valWorker, i int64) {
		for q := uint8(0); q <= 2; q += 2 {
			valueCase(r, w.t, &node{k: kInt, i: ints[i], q: q}, "int", true, true)
		}
	})

	phase("V-int")
	// -------------------------------------------------------------- V-float
	dmax, wideD := 999, 9
	if thorough {
		dmax, wideD = 9999, 99
	}
	grid := newGrid(dmax, -25, 27)
	wide := newGrid(wideD, -330, 308)
	r.Bound("V-float.grid", fmt.Sprintf("d in [1,%d] not divisible by 10, e in [-25,27], both signs, value and both nextafter neighbours: %d", dmax, grid.size()))
	r.Bound("V-float.wide", fmt.Sprintf("d in [1,%d], e in [-330,308] (out-of-range decimals skipped): %d", wideD, wide.size()))
	var floatSkipped int64
	var skMu sync.Mutex
	floatRun := func(g *floatGrid, keyed bool) {
		core.ParallelRange(r, lim("V-float", g.size()), func(int) *valWorker { return &valWorker{p.get()} }, func(w *valWorker, i int64) {
			f, ok := g.at(i)
			if !ok {
				skMu.Lock()
				floatSkipped++
				skMu.Unlock()
				return
			}
			n := &node{k: kFloat, f: f}
			valueCase(r, w.t, n, "float-"+floatForm(fmtFloat(f)), keyed, true)
		})
	}
	floatRun(grid, !thorough)
	floatRun(wide, false)
	sp := specialFloats()
	r.Bound("V-float.special", len(sp))
	core.ParallelRange(r, lim("V-float", int64(len(sp))), func(int) *valWorker { return &valWorker{p.get()} }, func(w *valWorker, i int64) {
		for q := uint8(0); q <= 2; q += 2 {
			valueCase(r, w.t, &node{k: kFloat, f: sp[i], q: q}, "float-"+floatForm(fmtFloat(sp[i])), true, true)
		}
	})
	extra["float_grid_points_out_of_range"] = floatSkipped

	phase("V-float")
	// ------------------------------------------------------------- V-string
	strLen := 3
	if thorough {
		strLen = 4
	}
	nstr := seqCount(len(strAlphabet), strLen)
	r.Bound("V-string.max_len", strLen)
	r.Bound("V-string.values", nstr)
	core.ParallelRange(r, lim("V-string", nstr), func(int) *valWorker { return &valWorker{p.get()} }, func(w *valWorker, i int64) {
		s := stringAt(i)
		valueCase(r, w.t, &node{k: kStr, s: s}, "string-"+stringCat(s), true, true)
		if i < seqCount(len(strAlphabet), 2) {
			// in context: inside a quoted list next to a symbol, and twice quoted
			valueCase(r, w.t, listN(1, &node{k: kStr, s: s}, symN("a", 0), &node{k: kStr, s: s, q: 2}), "string-in-list-"+stringCat(s), true, true)
		}
	})

	// runs: a run of N backslashes (0..70, across any fixed look-back window) before a quote, before a letter, and at the
	// end of the string; and runs of quotes: the printer doubles every backslash, the reader must count the parity right
	runN := int64(71)
	r.Bound("V-string.backslash_run_lengths", runN)
	core.ParallelRange(r, lim("V-string", runN*4), func(int) *valWorker { return &valWorker{p.get()} }, func(w *valWorker, i int64) {
		n := int(i / 4)
		var s string
		switch i % 4 {
		case 0:
			s = strings.Repeat("\\", n) + "\""
		case 1:
			s = strings.Repeat("\\", n) + "a\"b"
		case 2:
			s = "a" + strings.Repeat("\\", n)
		default:
			s = strings.Repeat("\"", n) + "\\"
		}
		valueCase(r, w.t, &node{k: kStr, s: s}, "string-run-"+[]string{"backslashes-quote", "backslashes-letter-quote", "trailing-backslashes", "quotes-backslash"}[i%4], true, true)
	})

	phase("V-string")
	// ------------------------------------------------------------- V-symbol
	symLen, wideLen, signLen, edgeSymLen := 4, 2, 5, 3
	if thorough {
		symLen, wideLen, signLen, edgeSymLen = 5, 3, 7, 4
	}
	r.Bound("V-symbol.contexts", len(symContexts))
	var readable, unreadable int64
	symbolRun := func(name string, alpha []string, maxLen int, contexts map[string]bool) {
		nsym := spellingCountOver(alpha, maxLen)
		r.Bound("V-symbol."+name+".alphabet", strings.Join(alpha, " "))
		r.Bound("V-symbol."+name+".max_len", maxLen)
		r.Bound("V-symbol."+name+".spellings", nsym)
		core.ParallelRange(r, lim("V-symbol", nsym), func(int) *seqWorker { return &seqWorker{r: r, t: p.get()} }, func(w *seqWorker, i int64) {
			s := spellingOver(alpha, i)
			w.t.states++
			st := w.readOne(s, &seqOpts{domain: "symbol-spelling"})
			r.Nontrivial("spelling\x00" + s)
			// the independent model decides what is a symbol; the reader is compared with it
			isSym := modelReadable(s)
			w.t.traces++
			if got := readerSaysSymbol(s, st); got != isSym {
				report(r, "symbol-spelling:reader-disagrees-with-model:"+shape(s), kase{Kind: "symmodel", Text: qtext(s)},
					&fail{"symmodel", fmt.Sprintf("model: %q readable as one symbol = %v", s, isSym), short(st.String())})
			}
			if !isSym {
				switch {
				case !st.ok:
					w.t.outcomes["symbol-spelling:unreadable-rejected"]++
				default:
					w.t.outcomes["symbol-spelling:unreadable-reads-as-something-else"]++
				}
				skMu.Lock()
				unreadable++
				skMu.Unlock()
				return
			}
			skMu.Lock()
			readable++
			skMu.Unlock()
			w.t.outcomes["symbol-spelling:readable"]++
			// a readable symbol is a value: full value round trip through all three readers, bare, in lists, quoted
			valueCase(r, w.t, symN(s, 0), "symbol", false, true)
			valueCase(r, w.t, listN(1, &node{k: kInt, i: 1}, symN(s, 0), &node{k: kStr, s: "s"}), "symbol-in-list", false, true)
			valueCase(r, w.t, listN(2, symN(s, 3), listN(0, symN(s, 1))), "symbol-nested", false, true)
			for ci := range symContexts {
				c := &symContexts[ci]
				if contexts != nil && !contexts[c.id] {
					continue
				}
				toks := c.toks(s)
				lv := lvSingles
				if len(toks) <= 3 && contexts == nil {
					lv = lvProduct
				}
				w.process(toks, &seqOpts{level: lv, frames: true, expect: c.expect(s), domain: "symctx:" + c.id, symbol: shape(s), symText: s,
					ws: contexts == nil && len(toks) <= 3 && (thorough || len(s) <= 2)})
			}
		})
	}
	symbolRun("small", symAlphabet, symLen, nil)
	symbolRun("wide", symAlphabetWide, wideLen, nil)
	symbolRun("sign-colon", symAlphabetSign, signLen, map[string]bool{"paren": true, "pair": true, "before-open": true, "quoted": true})
	symbolRun("utf8-edges", symAlphabetEdges, edgeSymLen, map[string]bool{"paren": true, "pair": true, "before-open": true, "quoted": true})
	// letter sweep: EVERY rune the Go unicode tables call a letter (the class docs/lang.md names: "utf-8 letters"), as a
	// whole symbol, after a letter, before a letter and inside a keyword: one symbol each time, for the three readers
	var letters []rune
	for c := rune(0x80); c <= unicode.MaxRune; c++ {
		if unicode.IsLetter(c) {
			letters = append(letters, c)
		}
	}
	letterShapes := []func(string) string{
		func(l string) string { return l },
		func(l string) string { return "a" + l },
		func(l string) string { return l + "a" },
		func(l string) string { return ":k" + l },
		func(l string) string { return "p:" + l + "-x" },
	}
	if !thorough {
		letterShapes = letterShapes[:3]
	}
	nlet := int64(len(letters) * len(letterShapes))
	r.Bound("V-symbol.letter-sweep.letters", len(letters))
	r.Bound("V-symbol.letter-sweep.spellings", nlet)
	core.ParallelRange(r, lim("V-symbol", nlet), func(int) *seqWorker { return &seqWorker{r: r, t: p.get()} }, func(w *seqWorker, i int64) {
		l := string(letters[int(i)/len(letterShapes)])
		s := letterShapes[int(i)%len(letterShapes)](l)
		w.t.states++
		st := w.readOne(s, &seqOpts{domain: "symbol-spelling"})
		w.t.traces++
		if i%97 == 0 {
			r.Nontrivial("spelling\x00" + s)
		}
		if !readerSaysSymbol(s, st) {
			report(r, "symbol-spelling:reader-disagrees-with-model:letter-sweep:"+[]string{"alone", "after-letter", "before-letter", "in-keyword", "in-qualified-name"}[int(i)%len(letterShapes)], kase{Kind: "symmodel", Text: qtext(s)},
				&fail{"symmodel", fmt.Sprintf("model: %q readable as one symbol = true (every rune is a letter or a word symbol)", s), short(st.String())})
			return
		}
		w.t.outcomes["symbol-spelling:readable"]++
		valueCase(r, w.t, symN(s, 0), "symbol", false, true)
	})
	extra["symbol_spellings_readable"] = readable
	extra["symbol_spellings_unreadable"] = unreadable

	// keywords, booleans and () as values: every quote level, alone and inside lists
	atomTable := []*node{symN("true", 0), symN("false", 0), symN(":k", 0), symN(":1", 0), symN(":true", 0), symN("nil", 0), listN(0)}
	r.Bound("V-atoms", describeAll(atomTable))
	for _, a := range atomTable {
		for q := uint8(0); q <= 3; q++ {
			w := &valWorker{p.get()}
			c := *a
			c.q = q
			valueCase(r, w.t, &c, "atom", true, true)
			for lq := uint8(0); lq <= 2; lq++ {
				c1, c2 := c, c
				valueCase(r, w.t, listN(lq, &c1, listN(1, &c2)), "atom-in-list", true, true)
			}
		}
	}

	phase("V-symbol")
	// ---------------------------------------------------------------- V-dag
	const dagMaxD = 140
	var dcs []dagCase
	for _, via := range []string{"go", "lisp"} {
		for _, x := range dagXs {
			for _, sh := range dagShapes {
				for d := 0; d <= dagMaxD; d++ {
					dcs = append(dcs, dagCase{Via: via, X: x, Shape: sh, D: d})
				}
			}
		}
	}
	r.Bound("V-dag.shared_sub_values", dagXs)
	r.Bound("V-dag.container_shapes", dagShapes)
	r.Bound("V-dag.wrapping_depths", fmt.Sprintf("every d in 0..%d", dagMaxD))
	r.Bound("V-dag.built_via", "Go constructors sharing one *LVal; lisp program (let* ([x X] [v C]) (dotimes (i d) (set! v (list v))) v)")
	r.Bound("V-dag.cases", len(dcs))
	var dagShared int64
	core.ParallelRange(r, lim("V-dag", int64(len(dcs))), func(int) *valWorker { return &valWorker{p.get()} }, func(w *valWorker, i int64) {
		c := dcs[i]
		text, shared, f := checkDAG(c)
		w.t.states++
		w.t.evals++
		w.t.trans += 5
		w.t.traces++
		r.Nontrivial("dag\x00" + c.String())
		if shared {
			skMu.Lock()
			dagShared++
			skMu.Unlock()
		}
		_ = text
		dom := "dag-" + c.Via + ":" + c.X
		if f != nil {
			w.t.outcomes[dom+":"+f.sub]++
			cc := c
			report(r, "value:"+dom+":"+f.sub, kase{Kind: "dag", DAG: &cc}, f)
			return
		}
		w.t.outcomes[dom+":ok"]++
	})
	extra["dag_cases_where_one_object_occurs_more_than_once"] = dagShared

	phase("V-dag")
	// --------------------------------------------------------------- V-tree
	atoms := []*node{symN("a", 0), {k: kInt, i: -1}}
	if thorough {
		atoms = []*node{symN("a", 0), {k: kInt, i: -1}, {k: kFloat, f: 2.5}, {k: kStr, s: "s\n"}}
	}
	ts := newTreeSpace(atoms, 3)
	r.Bound("V-tree.depth", 3)
	r.Bound("V-tree.width", 2)
	r.Bound("V-tree.quote_levels", "0..3 at every node")
	r.Bound("V-tree.leaf_atoms", describeAll(atoms))
	r.Bound("V-tree.trees", ts.n[3])
	r.Bound("V-tree.three_readers_up_to_depth", 2)
	core.ParallelRange(r, lim("V-tree", ts.n[3]), func(int) *valWorker { return &valWorker{p.get()} }, func(w *valWorker, i int64) {
		n := ts.at(3, i)
		// the trees of depth <= 2 are exactly those whose list children are leaves; key them only
		shallow := depthOf(n) <= 2
		valueCase(r, w.t, n, fmt.Sprintf("tree-q%d", n.maxQ()), shallow, shallow)
	})

	phase("V-tree")
	// ------------------------------------------------------------- T-tokens
	T := len(tokAlphabet)
	maxLen, fullLen, singlesLen := 4, 3, 4
	if thorough {
		maxLen, fullLen, singlesLen = 6, 4, 5
	}
	wsLen := 3
	if thorough {
		wsLen = 4
	}
	r.Bound("T-tokens.whitespace_class", wsClass())
	r.Bound("T-tokens.whitespace_separators_one_gap_at_a_time_up_to_len", wsLen)
	r.Bound("T-tokens.whitespace_separators", sepNames[baseSeps:])
	r.Bound("T-tokens.alphabet", tokTexts())
	r.Bound("T-tokens.max_len", maxLen)
	r.Bound("T-tokens.all_separator_assignments_up_to_len", fullLen)
	r.Bound("T-tokens.separators", sepNames[:baseSeps])
	r.Bound("T-tokens.every_single_gap_change_up_to_len", singlesLen)
	r.Bound("T-tokens.uniform_variants_beyond", "reference + compact + comment + newline + glued-comment/blank-line (length 6: reference + compact + comment)")
	for _, z := range []string{"", " ", "\n", ";c", ";c\n", " ;c\n\n", "\n\n"} {
		w := &seqWorker{r: r, t: p.get()}
		s := w.readOne(z, &seqOpts{domain: "tokens"})
		w.t.states++
		if !s.ok || len(s.exprs) != 0 {
			report(r, "tokens:empty-program", kase{Kind: "expect", Text: qtext(z), Expect: []jval{}},
				&fail{"empty", "accepted as the empty program", s.String()})
		}
	}
	tokenLen := func(n int) {
		if r.Expired() {
			r.Cap(fmt.Sprintf("token sequences of length %d not started", n))
			return
		}
		core.ParallelRange(r, lim("T-tokens", pow(T, n)), func(int) *seqWorker { return &seqWorker{r: r, t: p.get()} }, func(w *seqWorker, i int64) {
			lv := lvUniform
			switch {
			case n <= fullLen:
				lv = lvProduct
			case n <= singlesLen:
				lv = lvSingles
			}
			nvar := 4
			if n >= 6 {
				nvar = 2 // compact and comment
			}
			w.process(w.seqTokens(n, i), &seqOpts{level: lv, frames: n <= singlesLen, domain: "tokens", nontriv: n <= 4, nvar: nvar, ws: n <= wsLen})
		})
	}
	for n := 1; n <= maxLen && n <= 4; n++ {
		tokenLen(n)
	}
	extLen := 2
	if thorough {
		extLen = 3
	}
	r.Bound("T-tokens-ext.alphabet_size", len(tokAlphabetExt))
	r.Bound("T-tokens-ext.extra_tokens", []string{"#xF", "#o7", "1", "\"u\\n", "#", "\\x80", "1.", "U+FEFF", "U+FFFD", "\"t\"", "\"\""})
	r.Bound("T-tokens-ext.max_len", extLen)
	for n := 1; n <= extLen; n++ {
		n := n
		core.ParallelRange(r, lim("T-tokens-ext", pow(len(tokAlphabetExt), n)), func(int) *seqWorker { return &seqWorker{r: r, t: p.get()} }, func(w *seqWorker, i int64) {
			toks := w.seqTokensOver(tokAlphabetExt, n, i)
			ext := false
			for _, d := range w.digit[:n] {
				if d >= len(tokAlphabet) {
					ext = true
				}
			}
			if !ext {
				return // already explored over the base alphabet
			}
			w.process(toks, &seqOpts{level: lvProduct, frames: true, domain: "tokens-ext", nontriv: true, ws: n <= 2})
		})
	}

	// string and raw-string literals that carry the boundary runes of UTF-8 decoding as RAW bytes
	// (the printer escapes most of them, so only source text can put them there)
	rawLen := 2
	if thorough {
		rawLen = 3
	}
	nraw := seqCount(len(rawAlphabet), rawLen) - 1
	r.Bound("T-rawtext.alphabet", runeNames(rawAlphabet))
	r.Bound("T-rawtext.max_len", rawLen)
	r.Bound("T-rawtext.literals", 2*nraw)
	core.ParallelRange(r, lim("T-rawtext", nraw), func(int) *seqWorker { return &seqWorker{r: r, t: p.get()} }, func(w *seqWorker, i int64) {
		var d [8]int
		ds := seqAt(len(rawAlphabet), i+1, d[:0])
		var b strings.Builder
		label := "plain"
		for _, x := range ds {
			b.WriteRune(rawAlphabet[x])
			if label == "plain" && x < len(edgeRunes) {
				label = fmt.Sprintf("U+%04X", rawAlphabet[x])
			}
		}
		content := b.String()
		if strings.ContainsRune(content, utf8.RuneError) {
			label = "U+FFFD" // the one rune whose valid encoding decodes to the error value
		}
		want := &node{k: kStr, s: content}
		for _, lit := range []struct{ kind, text string }{{"string", `"` + content + `"`}, {"raw-string", `"""` + content + `"""`}} {
			t := at(lit.text)
			w.process([]tok{t}, &seqOpts{level: lvProduct, frames: true, ws: true, expect: []*node{want},
				domain: "rawtext:" + lit.kind + "-bare", symbol: label, symText: lit.text, nontriv: true})
			w.process([]tok{tLP, t, at("a"), tRP}, &seqOpts{level: lvSingles, frames: true, ws: len(ds) == 1,
				expect: []*node{listN(0, want, symN("a", 0))}, domain: "rawtext:" + lit.kind + "-in-list", symbol: label, symText: lit.text})
		}
	})

	phase("T-tokens")
	// -------------------------------------------------------------- T-bound
	var bcs []bcase
	lo2, hi2 := 0, -1
	if thorough {
		lo2, hi2 = 2*bufSize-28, 2*bufSize+3
	}
	for _, it := range placeItems {
		for s := bufSize - len(it.text) - 3; s <= bufSize+3; s++ {
			bcs = append(bcs, bcase{Mode: "place", Kind: it.kind, Start: s})
		}
		for s := lo2; s <= hi2; s++ {
			bcs = append(bcs, bcase{Mode: "place", Kind: it.kind, Start: s})
		}
	}
	lens := []int{bufSize - 3, bufSize - 2, bufSize - 1, bufSize, bufSize + 1, bufSize + 2, bufSize + 3, 140000}
	if thorough {
		lens = append(lens, 2*bufSize-1, 2*bufSize, 2*bufSize+1, 300000)
	}
	for _, k := range overlongKinds {
		for _, l := range lens {
			for _, pre := range []bool{false, true} {
				bcs = append(bcs, bcase{Mode: "overlong", Kind: k, Len: l, Prefix: pre})
			}
		}
	}
	// long documents: N units for N around every power of ten and of two a per-document counter might be bounded by
	longNs := []int{1000, 4095, 4096, 4097, 9999, 10000, 10001, 20001, 65535, 65536, 65537}
	if thorough {
		longNs = append(longNs, 3333, 3334, 5000, 5001, 32767, 32768, 99999, 100001, 131073, 300001)
	}
	for _, u := range longUnits {
		for _, n := range longNs {
			bcs = append(bcs, bcase{Mode: "long", Kind: u.kind, Len: n})
		}
	}
	r.Bound("T-bound.long_document_units", longNs)
	r.Bound("T-bound.long_document_unit_kinds", len(longUnits))
	r.Bound("T-bound.window", bufSize)
	r.Bound("T-bound.cases", len(bcs))
	r.Bound("T-bound.item_kinds", len(placeItems))
	r.Bound("T-bound.overlong_lengths", lens)
	core.ParallelRange(r, lim("T-bound", int64(len(bcs))), func(int) *valWorker { return &valWorker{p.get()} }, func(w *valWorker, i int64) {
		c := bcs[i]
		out, f := checkBoundary(c)
		w.t.states++
		w.t.evals++
		w.t.trans += 4
		if c.Mode == "place" {
			w.t.traces++
		}
		r.Nontrivial(fmt.Sprintf("boundary %+v", c))
		w.t.outcomes["boundary:"+c.Mode+":"+out]++
		if f != nil {
			cc := c
			report(r, "boundary:"+c.Mode+":"+c.Kind+":"+f.sub, kase{Kind: "boundary", B: &cc}, f)
		}
	})

	phase("T-bound")
	// --------------------------------------------------------------- T-prod
	prodTok, prodStr := 3, 2
	if thorough {
		prodTok, prodStr = 4, 3
	}
	var prodTexts int64
	prodOne := func(t *tally, text string) {
		t.evals++
		t.trans += 2
		if f := checkProd(text); f != nil {
			t.outcomes["prod:"+f.sub]++
			report(r, "prod:"+f.sub, kase{Kind: "prod", Text: qtext(text)}, f)
			return
		}
		t.outcomes["prod:agree"]++
	}
	r.Bound("T-prod.token_sequences_up_to_len", prodTok)
	r.Bound("T-prod.printed_strings_up_to_len", prodStr)
	for n := 1; n <= prodTok; n++ {
		n := n
		prodTexts += pow(T, n)
		core.ParallelRange(r, lim("T-prod", pow(T, n)), func(int) *seqWorker { return &seqWorker{r: r, t: p.get()} }, func(w *seqWorker, i int64) {
			toks := w.seqTokens(n, i)
			gaps := make([]int, n)
			for g := 0; g < n-1; g++ {
				gaps[g] = refSep
				if toks[g].kind == tPrefix {
					gaps[g] = 0
				}
			}
			w.buf = render(w.buf, toks, gaps, "", "")
			prodOne(w.t, string(w.buf))
		})
	}
	np := seqCount(len(strAlphabet), prodStr)
	prodTexts += np
	core.ParallelRange(r, lim("T-prod", np), func(int) *valWorker { return &valWorker{p.get()} }, func(w *valWorker, i int64) {
		n := &node{k: kStr, s: stringAt(i)}
		prodOne(w.t, n.build().String())
	})
	if thorough {
		nps := spellingCount(4)
		prodTexts += nps
		core.ParallelRange(r, lim("T-prod", nps), func(int) *valWorker { return &valWorker{p.get()} }, func(w *valWorker, i int64) {
			prodOne(w.t, "("+spellingAt(i)+")")
		})
		g3 := newGrid(999, -25, 27)
		prodTexts += g3.size() / 3
		core.ParallelRange(r, lim("T-prod", g3.size()/3), func(int) *valWorker { return &valWorker{p.get()} }, func(w *valWorker, i int64) {
			if f, ok := g3.at(i * 3); ok {
				prodOne(w.t, fmtFloat(f))
			}
		})
	}
	r.Bound("T-prod.texts", prodTexts)

	phase("T-prod")
	// the two big token spaces last, so that a soft deadline cannot starve the cheap phases
	for n := 5; n <= maxLen; n++ {
		tokenLen(n)
	}
	phase("T-tokens56")
	// ---------------------------------------------------------------- wrap up
	sum := p.merge(r)
	keys := make([]string, 0, len(sum.outcomes))
	for k := range sum.outcomes {
		keys = append(keys, k)
	}
	sort.Strings(keys)
	for _, k := range keys {
		for i := int64(0); i < sum.outcomes[k]; i++ {
			r.Outcome(k)
		}
	}
	extra["texts_accepted_by_strict_reader"] = sum.accepted
	extra["texts_rejected_by_strict_reader"] = sum.rejected
	extra["token_and_context_groups"] = sum.groups
	extra["multi_gap_differences_attributed_to_a_reported_single_gap"] = sum.multiAttributed
	extra["outcome_counts"] = sum.outcomes
	r.Extra("c12_totals", extra)

	// a few real cases
	for _, n := range []*node{{k: kFloat, f: math.Nextafter(1e23, 0)}, {k: kStr, s: "\"\\\n\x80 "}, ts.at(3, ts.n[3]-7), symN("-.e", 2)} {
		text, f := checkValue(n, true)
		r.Sample(map[string]any{"value": n.describe(), "printed": text, "ok": f == nil})
	}
	for _, text := range []string{"( 'a -1 )", "[--(\"s\\n\" ;c\n)]", "#!h\n#^[a]"} {
		s, mf := modesAgree(text)
		r.Sample(map[string]any{"token_text": text, "strict": short(s.String()), "readers_agree": mf == nil})
	}
}

func depthOf(n *node) int {
	d := 0
	for _, c := range n.kids {
		if x := depthOf(c); x > d {
			d = x
		}
	}
	return d + 1
}

func wsClass() []string {
	out := make([]string, len(wsRunes))
	for i, r := range wsRunes {
		out[i] = fmt.Sprintf("U+%04X", r)
	}
	return out
}

func runeNames(rs []rune) []string {
	out := make([]string, len(rs))
	for i, r := range rs {
		out[i] = fmt.Sprintf("U+%04X", r)
	}
	return out
}

func tokTexts() []string {
	out := make([]string, len(tokAlphabet))
	for i, t := range tokAlphabet {
		out[i] = strings.ReplaceAll(t.text, "\n", "\\n")
	}
	return out
}

func fmtFloat(f float64) string { return (&node{k: kFloat, f: f}).build().String() }
