package c12

import (
	"fmt"
	"strings"

	"github.com/luthersystems/elps/parser/token"
)

// Buffer-boundary texts through the production readers: token.NewScanner
// reads through a sliding window of token.DefaultBufSize bytes.

const bufSize = token.DefaultBufSize

type bcase struct {
	Mode   string `json:"mode"` // place | overlong
	Kind   string `json:"kind"`
	Start  int    `json:"start,omitempty"`  // place: byte offset of the item's first byte
	Len    int    `json:"len,omitempty"`    // overlong: byte length of the item
	Prefix bool   `json:"prefix,omitempty"` // overlong: a short expression precedes the item
}

type bitem struct {
	kind   string
	text   string
	expect []*node
}

var fillerUnit = "(f 1)\n"
var fillerLine = ";" + strings.Repeat("-", 62) + "\n" // 64 bytes of comment
var fillerNode = listN(0, symN("f", 0), &node{k: kInt, i: 1})
var tailText = "\n(z)\n"
var tailNode = listN(0, symN("z", 0))

var placeItems = []bitem{
	{"symbol", "sym-bol", []*node{symN("sym-bol", 0)}},
	{"neg-symbol", "-sym", []*node{symN("-sym", 0)}},
	{"qualified", "pk:nm", []*node{symN("pk:nm", 0)}},
	{"string", `"st\tr\\"`, []*node{{k: kStr, s: "st\tr\\"}}},
	{"raw-string", `"""r a"w"""`, []*node{{k: kStr, s: `r a"w`}}},
	{"comment", ";comment\n", nil},
	{"float", "-12.5e3", []*node{{k: kFloat, f: -12500}}},
	{"int", "-1234567", []*node{{k: kInt, i: -1234567}}},
	{"multibyte-symbol", "日本語é", []*node{symN("日本語é", 0)}},
	{"multibyte-string", "\"\U0001F600é\U0001F600\"", []*node{{k: kStr, s: "\U0001F600é\U0001F600"}}},
	{"quoted-list", "'(q [r])", []*node{listN(1, symN("q", 0), listN(1, symN("r", 0)))}},
	{"funref", "#'fn", []*node{listN(0, symN("lisp:function", 0), symN("fn", 0))}},
	{"whitespace", " \t\n \n", nil},
}

func placeItem(kind string) *bitem {
	for i := range placeItems {
		if placeItems[i].kind == kind {
			return &placeItems[i]
		}
	}
	return nil
}

// longUnits: the unit a long document repeats (wrap: the units are the elements of ONE list).
type lunit struct {
	kind   string
	text   string
	wrap   bool
	expect []*node
}

var longUnits = []lunit{
	{"atom", "a\n", false, []*node{symN("a", 0)}},
	{"int", "1 ", false, []*node{{k: kInt, i: 1}}},
	{"negative-int", "-5 ", false, []*node{{k: kInt, i: -5}}},
	{"string", "\"s\" ", false, []*node{{k: kStr, s: "s"}}},
	{"call", "(f 1)\n", false, []*node{fillerNode}},
	{"empty-list", "()\n", false, []*node{listN(0)}},
	{"quoted-symbol", "'q\n", false, []*node{symN("q", 1)}},
	{"funref", "#'fn\n", false, []*node{listN(0, symN("lisp:function", 0), symN("fn", 0))}},
	{"comment-then-atom", ";c\na\n", false, []*node{symN("a", 0)}},
	{"elements-of-one-list", "a ", true, []*node{symN("a", 0)}},
	{"calls-in-one-list", "(f 1) ", true, []*node{fillerNode}},
}

func longUnit(kind string) *lunit {
	for i := range longUnits {
		if longUnits[i].kind == kind {
			return &longUnits[i]
		}
	}
	return nil
}

var overlongKinds = []string{"symbol", "comment", "whitespace", "string", "raw-string", "digits"}

func overlongItem(kind string, n int) string {
	switch kind {
	case "symbol":
		return strings.Repeat("a", n)
	case "comment":
		return ";" + strings.Repeat("c", n-1)
	case "whitespace":
		return strings.Repeat(" ", n)
	case "string":
		return `"` + strings.Repeat("s", n-2) + `"`
	case "raw-string":
		return `"""` + strings.Repeat("r", n-6) + `"""`
	case "digits":
		return strings.Repeat("1", n)
	}
	return ""
}

func (c bcase) text() (text string, expect []*node, known bool) {
	switch c.Mode {
	case "place":
		it := placeItem(c.Kind)
		if it == nil || c.Start < 0 {
			return "", nil, false
		}
		if c.Start < 2*len(fillerUnit) {
			return "", nil, false
		}
		// filler: one expression, 64-byte comment lines, one expression, then spaces up to Start
		var b strings.Builder
		b.Grow(c.Start + len(it.text) + 8)
		b.WriteString(fillerUnit)
		expect = append(expect, fillerNode)
		for b.Len()+len(fillerLine)+len(fillerUnit) <= c.Start {
			b.WriteString(fillerLine)
		}
		b.WriteString(fillerUnit)
		expect = append(expect, fillerNode)
		b.WriteString(strings.Repeat(" ", c.Start-b.Len()))
		b.WriteString(it.text)
		b.WriteString(tailText)
		expect = append(expect, it.expect...)
		expect = append(expect, tailNode)
		return b.String(), expect, true
	case "long":
		// a document of Len units: no lexical item is long and nothing nests deeper than 2, only the NUMBER of
		// expressions grows (counters that are kept per document and never given back)
		u := longUnit(c.Kind)
		if u == nil || c.Len < 1 {
			return "", nil, false
		}
		var b strings.Builder
		b.Grow(c.Len*len(u.text) + 16)
		if u.wrap {
			b.WriteString("(")
		}
		for i := 0; i < c.Len; i++ {
			b.WriteString(u.text)
		}
		if u.wrap {
			b.WriteString(")\n")
			kids := make([]*node, 0, c.Len*len(u.expect))
			for i := 0; i < c.Len; i++ {
				kids = append(kids, u.expect...)
			}
			return b.String(), []*node{listN(0, kids...)}, true
		}
		expect = make([]*node, 0, c.Len*len(u.expect))
		for i := 0; i < c.Len; i++ {
			expect = append(expect, u.expect...)
		}
		return b.String(), expect, true
	case "overlong":
		if c.Len < 8 {
			return "", nil, false
		}
		p, tail := "", tailText
		if c.Prefix {
			p = fillerUnit
		}
		if c.Kind == "whitespace" {
			// the run must be exactly Len bytes: no whitespace next to it
			p, tail = strings.TrimSpace(p), strings.TrimLeft(tailText, "\n")
		}
		return p + overlongItem(c.Kind, c.Len) + tail, nil, true
	}
	return "", nil, false
}

// checkBoundary decides one boundary case.  outcome is a coarse label for
// the evidence file.
func checkBoundary(c bcase) (outcome string, f *fail) {
	text, expect, ok := c.text()
	if !ok {
		return "bad-case", &fail{"harness", "a well formed boundary case", fmt.Sprintf("%+v", c)}
	}
	ps, pt, pm := readProdStrict(text), readProdFT(text), readProdFmt(text)
	ss := readStrict(text)
	if mf := agree3(ps, pt, pm, "production strict", "production fault-tolerant", "production format-preserving"); mf != nil {
		return "modes", &fail{"modes:" + mf.sub, mf.expected, short(mf.got)}
	}
	switch c.Mode {
	case "place":
		if !ps.ok {
			return "reject", &fail{"rejected", "accepted: no lexical item is longer than 16 bytes", short(ps.String())}
		}
		if ok, why := sameProgram(expect, ps.exprs); !ok {
			return "tree-differs", &fail{"tree-differs", "two filler lists, the item, (z)", why}
		}
		if !sameReading(ss, ps) {
			return "differs-from-string-scanner", &fail{"differs-from-string-scanner", "same tree as over token.NewScannerString", short(ss.String())}
		}
		return "accept", nil
	case "long":
		if !ps.ok {
			return "reject", &fail{"rejected", "accepted: every item is a few bytes long and nothing nests deeper than two levels; only the number of expressions is large", short(ps.String())}
		}
		if ok, why := sameProgram(expect, ps.exprs); !ok {
			return "tree-differs", &fail{"tree-differs", fmt.Sprintf("%d units", c.Len), short(why)}
		}
		if !sameReading(ss, ps) {
			return "differs-from-string-scanner", &fail{"differs-from-string-scanner", "same tree as over token.NewScannerString", short(ss.String())}
		}
		return "accept", nil
	case "overlong":
		// Documented limit (token.DefaultBufSize): "a token that fills it fails".  So an item of
		// bufSize bytes or more may be rejected; it may never be accepted with a different tree.
		if ps.ok {
			if !ss.ok {
				return "accept-where-string-scanner-rejects", &fail{"accept-where-string-scanner-rejects", "rejected, as over token.NewScannerString: " + short(ss.String()), short(ps.String())}
			}
			if !sameTrees(ss.exprs, ps.exprs) {
				return "tree-differs", &fail{"tree-differs", "rejected, or the tree read over token.NewScannerString: " + short(ss.fp()), short(ps.fp())}
			}
			return "accept", nil
		}
		if ss.ok && c.Len < bufSize {
			return "reject-below-limit", &fail{"rejected-below-limit", "accepted: the item is shorter than the window", short(ps.String())}
		}
		if ss.ok {
			return "reject-at-documented-limit", nil
		}
		return "reject-both", nil
	}
	return "bad-case", nil
}

// short abbreviates long runs of one repeated byte (reports only).
func short(s string) string {
	var b strings.Builder
	for i := 0; i < len(s); {
		j := i
		for j < len(s) && s[j] == s[i] {
			j++
		}
		if j-i > 24 {
			fmt.Fprintf(&b, "%c{x%d}", s[i], j-i)
		} else {
			b.WriteString(s[i:j])
		}
		i = j
	}
	out := b.String()
	if len(out) > 600 {
		out = out[:600] + "…"
	}
	return out
}
