// Package el wraps the public API of luthersystems/elps for the drivers:
// environment construction, fast string readers, result rendering and the
// per-step monitoring context.
package el

import (
	"bytes"
	"context"
	"fmt"
	"io"
	"strings"
	"time"

	"github.com/luthersystems/elps/lisp"
	"github.com/luthersystems/elps/lisp/lisplib"
	"github.com/luthersystems/elps/parser"
	"github.com/luthersystems/elps/parser/rdparser"
	"github.com/luthersystems/elps/parser/token"
)

// strReader is a lisp.Reader over token.NewScannerString: the same lexer,
// parser and sealing as parser.NewReader() without the 128 KiB read buffer.
type strReader struct{}

func (strReader) Read(name string, r io.Reader) ([]*lisp.LVal, error) {
	b, err := io.ReadAll(r)
	if err != nil {
		return nil, err
	}
	return rdparser.New(token.NewScannerString(name, string(b))).ParseProgram()
}

func (strReader) ReadLocation(name, loc string, r io.Reader) ([]*lisp.LVal, error) {
	b, err := io.ReadAll(r)
	if err != nil {
		return nil, err
	}
	s := token.NewScannerString(name, string(b))
	s.SetPath(loc)
	return rdparser.New(s).ParseProgram()
}

// FastReader returns the string-scanner reader.
func FastReader() lisp.Reader { return strReader{} }

// Opts configure NewEnv.
type Opts struct {
	Stdlib     bool // load lisplib
	ProdReader bool // use parser.NewReader() (128 KiB buffer) instead of the fast reader
	Configs    []lisp.Config
	Builtins   []lisp.LBuiltinDef // host builtins added to the user package
}

// Env is one runtime with a captured stderr.
type Env struct {
	*lisp.LEnv
	Err *bytes.Buffer
}

// NewEnv builds a fresh runtime in package "user".
func NewEnv(o Opts) (*Env, error) {
	buf := &bytes.Buffer{}
	var rd lisp.Reader = strReader{}
	if o.ProdReader {
		rd = parser.NewReader()
	}
	rt := &lisp.Runtime{Registry: lisp.NewRegistry(), Stack: &lisp.CallStack{}, Reader: rd, Stderr: buf}
	// Match StandardRuntime's stack defaults.
	std := lisp.StandardRuntime()
	rt.Stack.MaxHeightLogical = std.Stack.MaxHeightLogical
	rt.Stack.MaxHeightPhysical = std.Stack.MaxHeightPhysical
	rt.Stack.MaxTailIterations = std.Stack.MaxTailIterations
	env := lisp.NewEnvRuntime(rt)
	if v := lisp.InitializeUserEnv(env, o.Configs...); v.Type == lisp.LError {
		return nil, fmt.Errorf("init: %v", v)
	}
	if o.Stdlib {
		if v := lisplib.LoadLibrary(env); v.Type == lisp.LError {
			return nil, fmt.Errorf("stdlib: %v", v)
		}
	}
	if v := env.InPackage(lisp.String(lisp.DefaultUserPackage)); v.Type == lisp.LError {
		return nil, fmt.Errorf("in-package: %v", v)
	}
	if len(o.Builtins) > 0 {
		env.AddBuiltins(true, o.Builtins...)
	}
	return &Env{LEnv: env, Err: buf}, nil
}

// MustEnv is NewEnv that panics (a harness error, never a violation).
func MustEnv(o Opts) *Env {
	e, err := NewEnv(o)
	if err != nil {
		panic("harness: " + err.Error())
	}
	return e
}

// Outcome is the observable result of one top-level evaluation.
type Outcome struct {
	IsErr bool
	Cond  string // condition name when IsErr
	Text  string // rendering of the value, or the error message
	Out   string // stderr transcript
}

func (o Outcome) String() string {
	if o.IsErr {
		return "ERR<" + o.Cond + ">" + ifs(o.Out != "", " out="+fmt.Sprintf("%q", o.Out), "")
	}
	return "VAL<" + o.Text + ">" + ifs(o.Out != "", " out="+fmt.Sprintf("%q", o.Out), "")
}

// Full includes the error message text.
func (o Outcome) Full() string {
	if o.IsErr {
		return "ERR<" + o.Cond + ": " + o.Text + "> out=" + fmt.Sprintf("%q", o.Out)
	}
	return o.String()
}

func ifs(c bool, a, b string) string {
	if c {
		return a
	}
	return b
}

// Observe renders a result value.
func Observe(v *lisp.LVal, stderr string) Outcome {
	if v == nil {
		return Outcome{IsErr: true, Cond: "<nil-result>", Out: stderr}
	}
	if v.Type == lisp.LError {
		return Outcome{IsErr: true, Cond: v.Str, Text: ErrText(v), Out: stderr}
	}
	return Outcome{Text: v.String(), Out: stderr}
}

// ErrText renders the error's message without location.
func ErrText(v *lisp.LVal) string {
	if v == nil || v.Type != lisp.LError {
		return ""
	}
	e := (*lisp.ErrorVal)(v)
	return e.ErrorMessage()
}

// Load evaluates src and observes the outcome (stderr is reset first).
func (e *Env) Load(src string) Outcome {
	e.Err.Reset()
	v := e.LoadString("test", src)
	return Observe(v, e.Err.String())
}

// LoadCtx is Load under a context.
func (e *Env) LoadCtx(ctx context.Context, src string) Outcome {
	e.Err.Reset()
	v := e.LoadStringContext(ctx, "test", src)
	return Observe(v, e.Err.String())
}

// Parse reads src into a sealed Program with the fast reader.
func Parse(name, src string) (lisp.Program, error) {
	return lisp.ReadProgram(strReader{}, name, strings.NewReader(src))
}

// ---------------------------------------------------------------------------
// StepCtx: a context whose Err() is the per-step hook.

// StepCtx implements context.Context.  The evaluator calls Err() exactly once
// per evaluation step; OnStep (if set) observes every step, and the context
// answers Canceled from its CancelAt-th call on (0 = never).
type StepCtx struct {
	N        int64 // number of Err() calls so far
	CancelAt int64
	CancelAs error
	OnStep   func(n int64)
	done     chan struct{}
	closed   bool
	DoneHook func() // called when Done() is requested (e.g. by time:sleep)
}

func NewStepCtx() *StepCtx { return &StepCtx{done: make(chan struct{})} }

func (c *StepCtx) Deadline() (time.Time, bool) { return time.Time{}, false }
func (c *StepCtx) Done() <-chan struct{} {
	if c.DoneHook != nil {
		c.DoneHook()
	}
	return c.done
}
func (c *StepCtx) Value(any) any { return nil }
func (c *StepCtx) Err() error {
	c.N++
	if c.OnStep != nil {
		c.OnStep(c.N)
	}
	if c.CancelAt > 0 && c.N >= c.CancelAt {
		c.Cancel()
		if c.CancelAs != nil {
			return c.CancelAs
		}
		return context.Canceled
	}
	if c.closed {
		if c.CancelAs != nil {
			return c.CancelAs
		}
		return context.Canceled
	}
	return nil
}

// Cancel closes Done().
func (c *StepCtx) Cancel() {
	if !c.closed {
		c.closed = true
		close(c.done)
	}
}

// Dormant is a Debugger that is attached but not enabled: it switches
// tail-call elimination off and does nothing else.
type Dormant struct{}

func (Dormant) IsEnabled() bool                                  { return false }
func (Dormant) OnEval(*lisp.LEnv, *lisp.LVal) bool               { return false }
func (Dormant) WaitIfPaused(*lisp.LEnv, *lisp.LVal) lisp.DebugAction { return 0 }
func (Dormant) OnFunEntry(*lisp.LEnv, *lisp.LVal, *lisp.LEnv)     {}
func (Dormant) OnFunReturn(*lisp.LEnv, *lisp.LVal, *lisp.LVal)    {}
func (Dormant) OnError(*lisp.LEnv, *lisp.LVal) bool              { return false }
func (Dormant) AfterFunCall(*lisp.LEnv) bool                     { return false }

// HostFn is a host builtin definition (lisp.LBuiltinDef).
type HostFn struct {
	N  string
	F  *lisp.LVal
	Fn func(env *lisp.LEnv, args *lisp.LVal) *lisp.LVal
}

func (h HostFn) Name() string                              { return h.N }
func (h HostFn) Formals() *lisp.LVal                       { return h.F }
func (h HostFn) Eval(env *lisp.LEnv, a *lisp.LVal) *lisp.LVal { return h.Fn(env, a) }

// Fn builds a host builtin.
func Fn(name string, formals []string, fn func(env *lisp.LEnv, args *lisp.LVal) *lisp.LVal) lisp.LBuiltinDef {
	return HostFn{N: name, F: lisp.Formals(formals...), Fn: fn}
}

// NormFuns rewrites every printed function value in s -- "(lambda ...)" with
// balanced parentheses, or "#<builtin>" -- to "#<fun>".  Printing a closure
// enumerates captured bindings, which is another property's subject.
func NormFuns(s string) string {
	var sb strings.Builder
	i := 0
	for i < len(s) {
		switch {
		case s[i] == '"':
			j := i + 1
			for j < len(s) && s[j] != '"' {
				if s[j] == '\\' {
					j++
				}
				j++
			}
			if j >= len(s) {
				j = len(s) - 1
			}
			sb.WriteString(s[i : j+1])
			i = j + 1
		case strings.HasPrefix(s[i:], "(lambda "):
			depth, j := 0, i
			for j < len(s) {
				if s[j] == '"' {
					j++
					for j < len(s) && s[j] != '"' {
						if s[j] == '\\' {
							j++
						}
						j++
					}
				} else if s[j] == '(' {
					depth++
				} else if s[j] == ')' {
					depth--
					if depth == 0 {
						break
					}
				}
				j++
			}
			sb.WriteString("#<fun>")
			i = j + 1
		case strings.HasPrefix(s[i:], "#<builtin>"):
			sb.WriteString("#<fun>")
			i += len("#<builtin>")
		default:
			sb.WriteByte(s[i])
			i++
		}
	}
	return sb.String()
}
