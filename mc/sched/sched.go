// Package sched is the controlled scheduler (E-SCHED): K independent runtimes
// run on K goroutines, but only the goroutine holding the scheduler's token
// executes; the hand-off point is the evaluator's per-step context check
// (ctx.Err() is called exactly once per evaluation step).  Explore enumerates
// every schedule with at most `bound` preemptions (iterative context
// bounding, CHESS style), depth first, replaying a recorded prefix and then
// always continuing the running thread.
package sched

import (
	"context"
	"fmt"
	"time"
)

// Body is the work of one thread; it must pass ctx to every evaluation.
type Body func(ctx context.Context)

// event from a thread to the scheduler.
type event struct {
	thread int
	done   bool
}

type threadCtx struct {
	id     int
	ex     *execution
	parked bool
}

func (c *threadCtx) Deadline() (time.Time, bool) { return time.Time{}, false }
func (c *threadCtx) Done() <-chan struct{}       { return nil }
func (c *threadCtx) Value(any) any               { return nil }

// Err is the scheduling point: report "at a point", wait to be granted.
func (c *threadCtx) Err() error {
	c.ex.events <- event{thread: c.id}
	<-c.ex.grant[c.id]
	return nil
}

type execution struct {
	events chan event
	grant  []chan struct{}
}

// Point is one scheduling decision of an execution.
type Point struct {
	Enabled []int // canonical order: the running thread first if still enabled, then ascending ids
	Chosen  int   // index into Enabled
	Running int   // thread that ran last (-1 at the start)
	RunOK   bool  // the running thread is still enabled (switching away is a preemption)
}

// Trace is one complete execution.
type Trace struct {
	Points  []Point
	Choices []int
}

// Preemptions counts the preemptions of the first n decisions.
func (t *Trace) preemptionsBefore(n int) int {
	c := 0
	for i := 0; i < n; i++ {
		p := t.Points[i]
		if p.RunOK && p.Chosen != 0 {
			c++
		}
	}
	return c
}

// Schedule renders the thread ids in the order they were granted.
func (t *Trace) Schedule() []int {
	out := make([]int, len(t.Points))
	for i, p := range t.Points {
		out[i] = p.Enabled[p.Chosen]
	}
	return out
}

// Run executes the bodies under one schedule: prefix gives the choice at the
// first len(prefix) decisions (an out-of-range choice is a hard error: the
// execution diverged from the recorded one), afterwards choice 0.  between is
// called by the scheduler between grants, i.e. in every reachable global
// state (all threads parked); it may be nil.
func Run(mk func() []Body, prefix []int, between func(step int) error) (*Trace, error) {
	bodies := mk()
	n := len(bodies)
	ex := &execution{events: make(chan event), grant: make([]chan struct{}, n)}
	finished := make([]bool, n)
	for i := range bodies {
		ex.grant[i] = make(chan struct{})
		ctx := &threadCtx{id: i, ex: ex}
		b := bodies[i]
		go func(id int) {
			<-ex.grant[id] // wait for the first grant before doing anything
			b(ctx)
			ex.events <- event{thread: id, done: true}
		}(i)
	}
	tr := &Trace{}
	running := -1
	left := n
	for step := 0; left > 0; step++ {
		var enabled []int
		runOK := running >= 0 && !finished[running]
		if runOK {
			enabled = append(enabled, running)
		}
		for i := 0; i < n; i++ {
			if !finished[i] && i != running {
				enabled = append(enabled, i)
			}
		}
		if len(enabled) == 0 {
			return tr, fmt.Errorf("harness deadlock: no enabled thread, %d unfinished", left)
		}
		choice := 0
		if step < len(prefix) {
			choice = prefix[step]
			if choice < 0 || choice >= len(enabled) {
				return tr, fmt.Errorf("replay divergence at decision %d: choice %d of %d enabled", step, choice, len(enabled))
			}
		}
		if between != nil {
			if err := between(step); err != nil {
				return tr, err
			}
		}
		tr.Points = append(tr.Points, Point{Enabled: enabled, Chosen: choice, Running: running, RunOK: runOK})
		tr.Choices = append(tr.Choices, choice)
		t := enabled[choice]
		ex.grant[t] <- struct{}{}
		ev := <-ex.events
		if ev.thread != t {
			return tr, fmt.Errorf("harness error: thread %d moved while thread %d held the token", ev.thread, t)
		}
		running = t
		if ev.done {
			finished[t] = true
			left--
		}
	}
	if between != nil {
		if err := between(len(tr.Points)); err != nil {
			return tr, err
		}
	}
	return tr, nil
}

// Explorer enumerates schedules.
type Explorer struct {
	Mk      func() []Body
	Bound   int                               // preemption bound
	Between func(step int) error              // global-state invariant
	Check   func(tr *Trace) error             // per-execution oracle (after all threads finished)
	OnExec  func(tr *Trace)                   // counting hook
	Stop    func() bool                       // soft deadline
	Fail    func(tr *Trace, prefix []int, err error) // violation sink
	Execs   int64
	Capped  bool
}

// Explore runs the DFS from the empty prefix.
func (e *Explorer) Explore() {
	e.explore(nil)
}

func (e *Explorer) explore(prefix []int) {
	if e.Stop != nil && e.Stop() {
		e.Capped = true
		return
	}
	tr, err := Run(e.Mk, prefix, e.Between)
	e.Execs++
	if e.OnExec != nil {
		e.OnExec(tr)
	}
	if err == nil && e.Check != nil {
		err = e.Check(tr)
	}
	if err != nil {
		if e.Fail != nil {
			e.Fail(tr, prefix, err)
		}
		return
	}
	for i := len(prefix); i < len(tr.Points); i++ {
		p := tr.Points[i]
		cost := tr.preemptionsBefore(i)
		if p.RunOK {
			cost++ // switching away from a runnable thread is a preemption
		}
		if cost > e.Bound {
			continue
		}
		for alt := 1; alt < len(p.Enabled); alt++ {
			np := append(append([]int{}, tr.Choices[:i]...), alt)
			e.explore(np)
			if e.Stop != nil && e.Stop() {
				e.Capped = true
				return
			}
		}
	}
}
