// Package gen holds the bounded-exhaustive enumerators (E-ENUM): term trees
// over a constructor signature addressed by (size, index), mixed-radix tuples
// and sequences.  Orders are canonical (simplest first) and involve no Go map
// iteration, so (size,index) is a stable address for replay.
package gen

// Con is a constructor: a name and an arity.
type Con struct {
	Name  string
	Arity int
}

// Tree is a term.
type Tree struct {
	Con  *Con
	Kids []*Tree
}

// Size is the number of nodes.
func (t *Tree) Size() int {
	n := 1
	for _, k := range t.Kids {
		n += k.Size()
	}
	return n
}

// Grammar enumerates all trees over cons.
type Grammar struct {
	Cons  []Con
	count map[int]int64    // size -> number of trees of exactly that size
	fcnt  map[[2]int]int64 // (arity, size) -> number of forests of that many trees with total size
}

func NewGrammar(cons []Con) *Grammar {
	return &Grammar{Cons: cons, count: map[int]int64{}, fcnt: map[[2]int]int64{}}
}

// Count returns the number of trees with exactly size nodes.
func (g *Grammar) Count(size int) int64 {
	if size <= 0 {
		return 0
	}
	if v, ok := g.count[size]; ok {
		return v
	}
	var n int64
	for i := range g.Cons {
		n += g.forests(g.Cons[i].Arity, size-1)
	}
	g.count[size] = n
	return n
}

// forests counts ordered sequences of k trees with total size s.
func (g *Grammar) forests(k, s int) int64 {
	if k == 0 {
		if s == 0 {
			return 1
		}
		return 0
	}
	if s < k {
		return 0
	}
	key := [2]int{k, s}
	if v, ok := g.fcnt[key]; ok {
		return v
	}
	var n int64
	for first := 1; first <= s-(k-1); first++ {
		n += g.Count(first) * g.forests(k-1, s-first)
	}
	g.fcnt[key] = n
	return n
}

// Unrank returns the idx-th tree of exactly size nodes (0 <= idx < Count(size)).
func (g *Grammar) Unrank(size int, idx int64) *Tree {
	for i := range g.Cons {
		c := &g.Cons[i]
		n := g.forests(c.Arity, size-1)
		if idx < n {
			return &Tree{Con: c, Kids: g.unrankForest(c.Arity, size-1, idx)}
		}
		idx -= n
	}
	panic("gen: index out of range")
}

func (g *Grammar) unrankForest(k, s int, idx int64) []*Tree {
	if k == 0 {
		return nil
	}
	for first := 1; first <= s-(k-1); first++ {
		rest := g.forests(k-1, s-first)
		n := g.Count(first) * rest
		if idx < n {
			t := g.Unrank(first, idx/rest)
			return append([]*Tree{t}, g.unrankForest(k-1, s-first, idx%rest)...)
		}
		idx -= n
	}
	panic("gen: forest index out of range")
}

// Total is the number of trees with size <= max.
func (g *Grammar) Total(max int) int64 {
	var n int64
	for s := 1; s <= max; s++ {
		n += g.Count(s)
	}
	return n
}

// At addresses the trees of size <= max by one index, smallest first.
func (g *Grammar) At(max int, idx int64) *Tree {
	for s := 1; s <= max; s++ {
		c := g.Count(s)
		if idx < c {
			return g.Unrank(s, idx)
		}
		idx -= c
	}
	panic("gen: At index out of range")
}

// Radix decodes idx as a mixed-radix number with the given bases (least
// significant first) into digits.
func Radix(idx int64, bases []int, digits []int) {
	for i, b := range bases {
		digits[i] = int(idx % int64(b))
		idx /= int64(b)
	}
}

// Pow returns b^n.
func Pow(b, n int) int64 {
	r := int64(1)
	for i := 0; i < n; i++ {
		r *= int64(b)
	}
	return r
}

// SeqCount is the number of sequences of length <= maxLen over an alphabet of
// size k.
func SeqCount(k, maxLen int) int64 {
	var n int64
	for l := 0; l <= maxLen; l++ {
		n += Pow(k, l)
	}
	return n
}

// SeqAt returns the idx-th sequence (shortest first) as digit indices.
func SeqAt(k, maxLen int, idx int64) []int {
	for l := 0; l <= maxLen; l++ {
		c := Pow(k, l)
		if idx < c {
			out := make([]int, l)
			for i := l - 1; i >= 0; i-- {
				out[i] = int(idx % int64(k))
				idx /= int64(k)
			}
			return out
		}
		idx -= c
	}
	panic("gen: SeqAt out of range")
}
