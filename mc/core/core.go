// Package core is the shared harness of the model-checking drivers: run
// context, counters, violation/replay/known-finding handling and the evidence
// writer.  A driver explores a bounded space exhaustively and reports what it
// covered through a *Run.
package core

import (
	"crypto/sha256"
	"encoding/hex"
	"encoding/json"
	"fmt"
	"os"
	"path/filepath"
	"runtime"
	"sort"
	"strings"
	"sync"
	"sync/atomic"
	"time"
)

// VerifDir is where evidence, replay artefacts and known findings live.
var VerifDir = func() string {
	if d := os.Getenv("VERIF_DIR"); d != "" {
		return d
	}
	return "/verif"
}()

// Violation is one counter-example.
type Violation struct {
	Property string `json:"property"`
	Driver   string `json:"driver"`
	// Class is the stable identity used to match known findings: it names the
	// specific input / call site / history class that fails, never the whole
	// property.
	Class    string          `json:"class"`
	Case     json.RawMessage `json:"case"`
	Expected string          `json:"expected"`
	Got      string          `json:"got"`
	Note     string          `json:"note,omitempty"`
}

// Run carries the counters of one check run.  All methods are safe for
// concurrent use by the worker goroutines of a driver.
type Run struct {
	Property string
	Tier     string // quick | thorough
	Seed     int64
	Workers  int
	Start    time.Time
	Deadline time.Time // soft: drivers stop enumerating and report exhaustive=false

	mu sync.Mutex

	States      int64
	Transitions int64
	Traces      int64
	Evaluations int64
	Schedules   int64

	nontrivial map[[16]byte]struct{}
	outcomes   map[string]int64
	samples    []any
	sampleCap  int
	rules      []string
	bounds     map[string]any
	caps       []string
	assumes    []string
	extra      map[string]any
	violations []Violation
	vioSeen    map[string]int
	notExh     bool
	flaky      []any
	known      []knownFinding
	unknownVio int
}

func NewRun(prop, tier string) *Run {
	seed := int64(0)
	if s := os.Getenv("VERIF_SEED"); s != "" {
		_, _ = fmt.Sscan(s, &seed)
	}
	w := runtime.NumCPU()
	if s := os.Getenv("VERIF_WORKERS"); s != "" {
		_, _ = fmt.Sscan(s, &w)
	}
	if w < 1 {
		w = 1
	}
	r := &Run{Property: prop, Tier: tier, Seed: seed, Workers: w, Start: time.Now(),
		nontrivial: map[[16]byte]struct{}{}, outcomes: map[string]int64{}, sampleCap: 12,
		bounds: map[string]any{}, extra: map[string]any{}, vioSeen: map[string]int{}}
	r.known = loadKnown()
	budget := 10 * time.Minute
	if tier == "thorough" {
		budget = 45 * time.Minute
	}
	if s := os.Getenv("VERIF_BUDGET_S"); s != "" {
		var n int
		if _, err := fmt.Sscan(s, &n); err == nil && n > 0 {
			budget = time.Duration(n) * time.Second
		}
	}
	r.Deadline = r.Start.Add(budget)
	return r
}

func (r *Run) Thorough() bool { return r.Tier == "thorough" }

// Expired reports whether the soft deadline has passed; the driver must then
// stop, call Cap(...) and return: a deadline is never an oracle.
func (r *Run) Expired() bool { return time.Now().After(r.Deadline) }

func (r *Run) AddStates(n int64)      { atomic.AddInt64(&r.States, n) }
func (r *Run) AddTransitions(n int64) { atomic.AddInt64(&r.Transitions, n) }
func (r *Run) AddTraces(n int64)      { atomic.AddInt64(&r.Traces, n) }
func (r *Run) AddEvals(n int64)       { atomic.AddInt64(&r.Evaluations, n) }
func (r *Run) AddSchedules(n int64)   { atomic.AddInt64(&r.Schedules, n) }

// Nontrivial records one distinct non-trivial case (by key).
func (r *Run) Nontrivial(key string) {
	h := sha256.Sum256([]byte(key))
	var k [16]byte
	copy(k[:], h[:16])
	r.mu.Lock()
	r.nontrivial[k] = struct{}{}
	r.mu.Unlock()
}

// Outcome counts a class of observed outcome (vacuity indicator).
func (r *Run) Outcome(class string) {
	r.mu.Lock()
	r.outcomes[class]++
	r.mu.Unlock()
}

// Sample keeps up to sampleCap actual cases for the evidence file.
func (r *Run) Sample(v any) {
	r.mu.Lock()
	if len(r.samples) < r.sampleCap {
		r.samples = append(r.samples, v)
	}
	r.mu.Unlock()
}

func (r *Run) Rule(s string)   { r.mu.Lock(); r.rules = append(r.rules, s); r.mu.Unlock() }
func (r *Run) Assume(s string) { r.mu.Lock(); r.assumes = append(r.assumes, s); r.mu.Unlock() }
func (r *Run) Bound(k string, v any) {
	r.mu.Lock()
	r.bounds[k] = v
	r.mu.Unlock()
}
func (r *Run) Extra(k string, v any) { r.mu.Lock(); r.extra[k] = v; r.mu.Unlock() }

// Cap records that an enumeration was cut short; the run is then not exhaustive.
func (r *Run) Cap(s string) {
	r.mu.Lock()
	r.caps = append(r.caps, s)
	r.notExh = true
	r.mu.Unlock()
}

func (r *Run) Flaky(v any) { r.mu.Lock(); r.flaky = append(r.flaky, v); r.mu.Unlock() }

// Violate records a violation.  At most 3 cases are kept per class so that a
// systematic failure does not flood the output; the per-class count is kept.
func (r *Run) Violate(driver, class string, c any, expected, got, note string) {
	raw, err := json.Marshal(c)
	if err != nil {
		raw, _ = json.Marshal(fmt.Sprint(c))
	}
	r.mu.Lock()
	defer r.mu.Unlock()
	r.vioSeen[class]++
	if r.vioSeen[class] > 3 {
		return
	}
	v := Violation{Property: r.Property, Driver: driver, Class: class,
		Case: raw, Expected: expected, Got: got, Note: note}
	r.violations = append(r.violations, v)
	isKnown := false
	for _, k := range r.known {
		if k.matches(v) {
			isKnown = true
			break
		}
	}
	if !isKnown {
		r.unknownVio++
	}
}

// Seen reports how many violations of class were reported so far (recorded
// or not).  Drivers use it to skip expensive re-confirmation once a class is
// established.
func (r *Run) Seen(class string) int {
	r.mu.Lock()
	defer r.mu.Unlock()
	return r.vioSeen[class]
}

// CountOnly bumps a class's violation counter without recording a case.
func (r *Run) CountOnly(class string) {
	r.mu.Lock()
	r.vioSeen[class]++
	r.mu.Unlock()
}

// Saturated reports that enough violations were recorded that exploring
// further adds nothing: the run is going to exit 1 anyway.
func (r *Run) Saturated() bool {
	if os.Getenv("VERIF_NO_SATURATE") != "" {
		return false
	}
	r.mu.Lock()
	defer r.mu.Unlock()
	return r.unknownVio >= 40 // known findings never saturate a run
}

func (r *Run) ViolationCount() int {
	r.mu.Lock()
	defer r.mu.Unlock()
	return len(r.violations)
}

// ---------------------------------------------------------------------------
// known findings

type knownFinding struct {
	Status   string `json:"status"` // "known" | "fixed"
	Property string `json:"property"`
	Class    string `json:"class"` // exact class string, or prefix ending in '*'
	What     string `json:"what"`
	Commit   string `json:"commit,omitempty"`
}

func loadKnown() []knownFinding {
	b, err := os.ReadFile(filepath.Join(VerifDir, "known_findings.jsonl"))
	if err != nil {
		return nil
	}
	var out []knownFinding
	for _, ln := range strings.Split(string(b), "\n") {
		ln = strings.TrimSpace(ln)
		if ln == "" || strings.HasPrefix(ln, "#") {
			continue
		}
		var k knownFinding
		if json.Unmarshal([]byte(ln), &k) == nil {
			out = append(out, k)
		}
	}
	return out
}

func (k knownFinding) matches(v Violation) bool {
	if k.Status != "known" || k.Property != v.Property {
		return false
	}
	return Glob(k.Class, v.Class)
}

// Glob matches s against pattern p where '*' matches any (possibly empty)
// run of characters; everything else is literal.
func Glob(p, s string) bool {
	parts := strings.Split(p, "*")
	if len(parts) == 1 {
		return p == s
	}
	if !strings.HasPrefix(s, parts[0]) {
		return false
	}
	s = s[len(parts[0]):]
	for i := 1; i < len(parts)-1; i++ {
		j := strings.Index(s, parts[i])
		if j < 0 {
			return false
		}
		s = s[j+len(parts[i]):]
	}
	return strings.HasSuffix(s, parts[len(parts)-1])
}

// ---------------------------------------------------------------------------
// finish: print verdict lines, write replay artefacts and the evidence file

// Finish writes evidence and returns the process exit code.
func (r *Run) Finish() int {
	r.mu.Lock()
	defer r.mu.Unlock()
	known := r.known

	var unknown []Violation
	knownHit := map[string]int{}
	knownWhat := map[string]string{}
	for _, v := range r.violations {
		matched := false
		for _, k := range known {
			if k.matches(v) {
				knownHit[k.Class] += 1
				knownWhat[k.Class] = k.What
				matched = true
				break
			}
		}
		if !matched {
			unknown = append(unknown, v)
		}
	}
	kc := make([]string, 0, len(knownHit))
	for c := range knownHit {
		kc = append(kc, c)
	}
	sort.Strings(kc)
	for _, c := range kc {
		fmt.Printf("KNOWN-FINDING: property=%s %s [%s]\n", r.Property, knownWhat[c], c)
	}
	for _, v := range unknown {
		path := r.writeReplay(v)
		fmt.Printf("VIOLATION property=%s replay=%s\n", r.Property, path)
		fmt.Printf("  class=%s\n  case=%s\n  expected=%s\n  got=%s\n", v.Class, trunc(string(v.Case), 600), trunc(v.Expected, 400), trunc(v.Got, 400))
		if v.Note != "" {
			fmt.Printf("  note=%s\n", v.Note)
		}
	}
	r.writeEvidence(len(unknown), kc)
	fmt.Printf("SUMMARY property=%s tier=%s states=%d transitions=%d evaluations=%d schedules=%d distinct_nontrivial=%d outcomes=%d exhaustive=%v violations=%d known=%d wall=%.1fs\n",
		r.Property, r.Tier, r.States, r.Transitions, r.Evaluations, r.Schedules, len(r.nontrivial), len(r.outcomes), !r.notExh, len(unknown), len(kc), time.Since(r.Start).Seconds())
	if len(unknown) > 0 {
		return 1
	}
	return 0
}

func trunc(s string, n int) string {
	if len(s) > n {
		return s[:n] + "…"
	}
	return s
}

func (r *Run) writeReplay(v Violation) string {
	b, _ := json.MarshalIndent(v, "", " ")
	h := sha256.Sum256(b)
	dir := filepath.Join(VerifDir, "replay", r.Property)
	_ = os.MkdirAll(dir, 0o755)
	p := filepath.Join(dir, hex.EncodeToString(h[:6])+".json")
	_ = os.WriteFile(p, b, 0o644)
	return p
}

func (r *Run) writeEvidence(nvio int, knownClasses []string) {
	if os.Getenv("VERIF_NO_EVIDENCE") != "" {
		return
	}
	states, trans := r.States, r.Transitions
	cov := map[string]any{
		"states":                        states,
		"transitions":                   trans,
		"traces_validated_against_impl": r.Traces,
		"evaluations":                   r.Evaluations,
		"distinct_nontrivial":           len(r.nontrivial),
		"rule":                          strings.Join(r.rules, " || "),
		"samples":                       r.samples,
		"exhaustive":                    !r.notExh,
		"bounds":                        r.bounds,
		"caps_hit":                      r.caps,
		"distinct_outcomes":             len(r.outcomes),
		"outcome_classes":               topOutcomes(r.outcomes, 40),
	}
	if r.Schedules > 0 {
		cov["schedules"] = r.Schedules
	}
	if len(r.flaky) > 0 {
		cov["flaky_cases"] = r.flaky
	}
	if len(knownClasses) > 0 {
		cov["known_findings_reproduced"] = knownClasses
	}
	for k, v := range r.extra {
		cov[k] = v
	}
	if r.samples == nil {
		cov["samples"] = []any{}
	}
	ev := map[string]any{
		"property_id": r.Property,
		"tier":        r.Tier,
		"seed":        r.Seed,
		"level":       "model_checking",
		"coverage":    cov,
		"assumptions": r.assumes,
		"wall_s":      time.Since(r.Start).Seconds(),
		"violations":  nvio,
	}
	if r.assumes == nil {
		ev["assumptions"] = []string{}
	}
	b, _ := json.MarshalIndent(ev, "", " ")
	dir := filepath.Join(VerifDir, "evidence")
	_ = os.MkdirAll(dir, 0o755)
	tmp := filepath.Join(dir, "."+r.Property+".json.tmp")
	_ = os.WriteFile(tmp, b, 0o644)
	_ = os.Rename(tmp, filepath.Join(dir, r.Property+".json"))
}

func topOutcomes(m map[string]int64, n int) map[string]int64 {
	type kv struct {
		k string
		v int64
	}
	var l []kv
	for k, v := range m {
		l = append(l, kv{k, v})
	}
	sort.Slice(l, func(i, j int) bool {
		if l[i].v != l[j].v {
			return l[i].v > l[j].v
		}
		return l[i].k < l[j].k
	})
	out := map[string]int64{}
	for i, e := range l {
		if i >= n {
			break
		}
		out[e.k] = e.v
	}
	return out
}

// ---------------------------------------------------------------------------
// parallel enumeration helper

// ParallelRange calls fn(worker, i) for every i in [0,n), on r.Workers
// goroutines, in index-striped chunks.  Every index is visited exactly once;
// if the soft deadline passes the remaining indices are skipped and the run
// is marked capped.  newWorker (may be nil) builds per-worker state.
func ParallelRange[W any](r *Run, n int64, newWorker func(id int) W, fn func(w W, i int64)) {
	const chunk = 64
	var next int64
	var wg sync.WaitGroup
	var capped int32
	for id := 0; id < r.Workers; id++ {
		wg.Add(1)
		go func(id int) {
			defer wg.Done()
			var w W
			if newWorker != nil {
				w = newWorker(id)
			}
			for {
				lo := atomic.AddInt64(&next, chunk) - chunk
				if lo >= n {
					return
				}
				if r.Expired() || r.Saturated() {
					atomic.StoreInt32(&capped, 1)
					return
				}
				hi := lo + chunk
				if hi > n {
					hi = n
				}
				for i := lo; i < hi; i++ {
					fn(w, i)
				}
			}
		}(id)
	}
	wg.Wait()
	if capped != 0 {
		why := "soft deadline reached"
		if r.Saturated() {
			why = "stopped early after 40 recorded violations"
		}
		r.Cap(fmt.Sprintf("%s in a range of %d (next unvisited index ≈ %d)", why, n, atomic.LoadInt64(&next)))
	}
}
