package core

import (
	"encoding/json"
	"flag"
	"fmt"
	"os"
)

// Main is the command-line entry shared by cmd/mc and the per-driver
// development mains.
func Main() {
	prop := flag.String("prop", "", "property id")
	tier := flag.String("tier", "quick", "quick|thorough")
	replay := flag.String("replay", "", "replay artefact")
	list := flag.Bool("list", false, "list properties")
	flag.Parse()
	if *list {
		for _, p := range Properties() {
			fmt.Println(p)
		}
		return
	}
	if *replay != "" {
		b, err := os.ReadFile(*replay)
		if err != nil {
			fmt.Fprintln(os.Stderr, err)
			os.Exit(2)
		}
		var v Violation
		if err := json.Unmarshal(b, &v); err != nil {
			fmt.Fprintln(os.Stderr, err)
			os.Exit(2)
		}
		d := Lookup(v.Property)
		if d == nil || d.Replay == nil {
			fmt.Fprintln(os.Stderr, "no replay for", v.Property)
			os.Exit(2)
		}
		ok, rep := d.Replay(v)
		fmt.Println(rep)
		if ok {
			fmt.Printf("VIOLATION property=%s replay=%s\n", v.Property, *replay)
			os.Exit(1)
		}
		fmt.Println("not reproduced")
		return
	}
	d := Lookup(*prop)
	if d == nil {
		fmt.Fprintln(os.Stderr, "unknown property", *prop)
		os.Exit(2)
	}
	if *tier != "quick" && *tier != "thorough" {
		fmt.Fprintln(os.Stderr, "bad tier")
		os.Exit(2)
	}
	r := NewRun(*prop, *tier)
	d.Run(r)
	os.Exit(r.Finish())
}
