package core

import (
	"encoding/json"
	"sort"
)

// Driver is one property's explorer.
type Driver struct {
	Property string
	// Run explores the bounded space for the tier in r and records coverage
	// and violations in r.
	Run func(r *Run)
	// Replay re-executes one recorded case straight-line (no explorer) and
	// returns a human-readable report and whether the violation reproduces.
	Replay func(v Violation) (reproduced bool, report string)
}

var drivers = map[string]*Driver{}

func Register(d *Driver) { drivers[d.Property] = d }

func Lookup(p string) *Driver { return drivers[p] }

func Properties() []string {
	var l []string
	for k := range drivers {
		l = append(l, k)
	}
	sort.Strings(l)
	return l
}

// CaseOf decodes a violation's case.
func CaseOf[T any](v Violation) (T, error) {
	var t T
	err := json.Unmarshal(v.Case, &t)
	return t, err
}
