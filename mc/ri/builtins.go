package ri

import (
	"math/big"
	"math"
	"strings"
)

type bFn = func(in *Interp, a []*Val, at *Val) (*Val, *Err)

func installBuiltins(in *Interp, p *Pkg) {
	def := func(name string, params []string, fn bFn) {
		p.Binds[name] = &Val{K: KFun, Fun: &Fun{Kind: FBuiltin, Name: name, Params: psyms(params...), Builtin: fn, Pkg: langPkg}}
		p.Exports = append(p.Exports, name)
	}
	num := func(in *Interp, v *Val, at *Val) *Err {
		if v.K != KInt && v.K != KFloat {
			return in.errf(at, "error", "argument is not a number: %v", v)
		}
		return nil
	}
	allInts := func(a []*Val) bool {
		for _, x := range a {
			if x.K != KInt {
				return false
			}
		}
		return true
	}
	fl := func(v *Val) float64 {
		if v.K == KInt {
			return float64(v.I)
		}
		return v.F
	}
	arith := func(name string, unit int64, fi func(a, b int64) int64, ff func(a, b float64) float64) {
		def(name, []string{"&rest", "x"}, func(in *Interp, a []*Val, at *Val) (*Val, *Err) {
			for _, x := range a {
				if e := num(in, x, at); e != nil {
					return nil, e
				}
			}
			if len(a) == 0 {
				return Int(unit), nil
			}
			if name == "-" && len(a) == 1 {
				if a[0].K == KInt {
					return Int(-a[0].I), nil
				}
				return Float(-a[0].F), nil
			}
			if allInts(a) {
				acc := a[0].I
				for _, x := range a[1:] {
					acc = fi(acc, x.I)
				}
				return Int(acc), nil
			}
			acc := fl(a[0])
			for _, x := range a[1:] {
				acc = ff(acc, fl(x))
			}
			// "Returns the sum of all arguments ... int if all args are ints; otherwise float" does not say WHEN
			// the ints of a mixed call become floats.  Two readings: every argument is promoted first (acc), or
			// a leading run of ints is combined EXACTLY and promoted when the first float arrives.  Where they
			// agree the result is specified -- in particular int wraparound has no place in a call that contains
			// a float; where they differ (rounding order only) the result is unspecified.
			exact := new(big.Int).SetInt64(a[0].I)
			var curF float64
			inInts := a[0].K == KInt
			if !inInts {
				curF = a[0].F
			}
			for _, x := range a[1:] {
				if inInts && x.K == KInt {
					y := new(big.Int).SetInt64(x.I)
					switch name {
					case "+":
						exact.Add(exact, y)
					case "-":
						exact.Sub(exact, y)
					default:
						exact.Mul(exact, y)
					}
					continue
				}
				if inInts {
					curF, _ = new(big.Float).SetInt(exact).Float64()
					inInts = false
				}
				curF = ff(curF, fl(x))
			}
			if Float(curF).String() != Float(acc).String() {
				return nil, &Err{Cond: "<unspecified>"}
			}
			return Float(acc), nil
		})
	}
	arith("+", 0, func(a, b int64) int64 { return a + b }, func(a, b float64) float64 { return a + b })
	arith("-", 0, func(a, b int64) int64 { return a - b }, func(a, b float64) float64 { return a - b })
	arith("*", 1, func(a, b int64) int64 { return a * b }, func(a, b float64) float64 { return a * b })
	cmp := func(name string, fi func(a, b int64) bool, ff func(a, b float64) bool) {
		def(name, []string{"a", "b"}, func(in *Interp, a []*Val, at *Val) (*Val, *Err) {
			for _, x := range a {
				if e := num(in, x, at); e != nil {
					return nil, e
				}
			}
			if allInts(a) {
				return Bool(fi(a[0].I, a[1].I)), nil
			}
			return Bool(ff(fl(a[0]), fl(a[1]))), nil
		})
	}
	cmp("<", func(a, b int64) bool { return a < b }, func(a, b float64) bool { return a < b })
	cmp("<=", func(a, b int64) bool { return a <= b }, func(a, b float64) bool { return a <= b })
	cmp(">", func(a, b int64) bool { return a > b }, func(a, b float64) bool { return a > b })
	cmp(">=", func(a, b int64) bool { return a >= b }, func(a, b float64) bool { return a >= b })
	cmp("=", func(a, b int64) bool { return a == b }, func(a, b float64) bool { return a == b })
	def("mod", []string{"a", "b"}, func(in *Interp, a []*Val, at *Val) (*Val, *Err) {
		if a[0].K != KInt || a[1].K != KInt {
			return nil, in.errf(at, "error", "arguments must be ints")
		}
		if a[1].I == 0 {
			return nil, in.errf(at, "error", "b must be non-zero")
		}
		if a[1].I == -1 {
			return Int(0), nil
		}
		return Int(a[0].I % a[1].I), nil
	})
	def("not", []string{"expr"}, func(in *Interp, a []*Val, at *Val) (*Val, *Err) { return Bool(!a[0].Truthy()), nil })
	def("nil?", []string{"expr"}, func(in *Interp, a []*Val, at *Val) (*Val, *Err) { return Bool(a[0].IsNil()), nil })
	def("identity", []string{"value"}, func(in *Interp, a []*Val, at *Val) (*Val, *Err) { return a[0], nil })
	def("list", []string{"&rest", "args"}, func(in *Interp, a []*Val, at *Val) (*Val, *Err) {
		return QList(append([]*Val(nil), a...)...), nil
	})
	def("vector", []string{"&rest", "args"}, func(in *Interp, a []*Val, at *Val) (*Val, *Err) {
		return &Val{K: KVec, Cells: append([]*Val(nil), a...)}, nil
	})
	lst := func(in *Interp, v *Val, at *Val) *Err {
		if v.K != KList {
			return in.errf(at, "error", "argument is not a list")
		}
		return nil
	}
	seq := func(in *Interp, v *Val, at *Val) *Err {
		if v.K != KList && v.K != KVec {
			return in.errf(at, "error", "argument is not a list or vector")
		}
		return nil
	}
	def("cons", []string{"head", "tail"}, func(in *Interp, a []*Val, at *Val) (*Val, *Err) {
		if e := lst(in, a[1], at); e != nil {
			return nil, e
		}
		return QList(append([]*Val{a[0]}, a[1].Cells...)...), nil
	})
	def("car", []string{"lis"}, func(in *Interp, a []*Val, at *Val) (*Val, *Err) {
		if e := lst(in, a[0], at); e != nil {
			return nil, e
		}
		if len(a[0].Cells) == 0 {
			return Nil(), nil
		}
		return a[0].Cells[0], nil
	})
	def("cdr", []string{"lis"}, func(in *Interp, a []*Val, at *Val) (*Val, *Err) {
		if e := lst(in, a[0], at); e != nil {
			return nil, e
		}
		if len(a[0].Cells) < 2 {
			return Nil(), nil
		}
		return QList(a[0].Cells[1:]...), nil
	})
	def("first", []string{"seq"}, func(in *Interp, a []*Val, at *Val) (*Val, *Err) {
		if e := seq(in, a[0], at); e != nil {
			return nil, e
		}
		if len(a[0].Cells) == 0 {
			return Nil(), nil
		}
		return a[0].Cells[0], nil
	})
	def("second", []string{"seq"}, func(in *Interp, a []*Val, at *Val) (*Val, *Err) {
		if e := seq(in, a[0], at); e != nil {
			return nil, e
		}
		if len(a[0].Cells) < 2 {
			return Nil(), nil
		}
		return a[0].Cells[1], nil
	})
	def("nth", []string{"seq", "n"}, func(in *Interp, a []*Val, at *Val) (*Val, *Err) {
		if e := seq(in, a[0], at); e != nil {
			return nil, e
		}
		if a[1].K != KInt {
			return nil, in.errf(at, "error", "index is not an int")
		}
		if a[1].I < 0 {
			return nil, in.errf(at, "error", "index is negative") // unspecified by the doc: see Unspec
		}
		if a[1].I >= int64(len(a[0].Cells)) {
			return Nil(), nil
		}
		return a[0].Cells[a[1].I], nil
	})
	def("length", []string{"seq"}, func(in *Interp, a []*Val, at *Val) (*Val, *Err) {
		switch a[0].K {
		case KList, KVec:
			return Int(int64(len(a[0].Cells))), nil
		case KStr:
			return Int(int64(len([]rune(a[0].S)))), nil
		case KMap:
			return Int(int64(len(a[0].Map.Keys))), nil
		}
		return nil, in.errf(at, "error", "argument has no length")
	})
	def("funcall", []string{"fun", "&rest", "args"}, func(in *Interp, a []*Val, at *Val) (*Val, *Err) {
		f, e := in.designator(a[0], at)
		if e != nil {
			return nil, e
		}
		return in.Apply(f, a[1:], at)
	})
	def("apply", []string{"fun", "&rest", "args"}, func(in *Interp, a []*Val, at *Val) (*Val, *Err) {
		f, e := in.designator(a[0], at)
		if e != nil {
			return nil, e
		}
		if len(a) < 2 {
			return nil, in.errf(at, "error", "apply needs a final list argument")
		}
		last := a[len(a)-1]
		if last.K != KList {
			return nil, in.errf(at, "error", "last argument is not a list")
		}
		args := append(append([]*Val{}, a[1:len(a)-1]...), last.Cells...)
		return in.Apply(f, args, at)
	})
	def("map", []string{"type-specifier", "fn", "seq"}, func(in *Interp, a []*Val, at *Val) (*Val, *Err) {
		f, e := in.designator(a[1], at)
		if e != nil {
			return nil, e
		}
		if e := seq(in, a[2], at); e != nil {
			return nil, e
		}
		var out []*Val
		for _, x := range a[2].Cells {
			r, err := in.Apply(f, []*Val{x}, at)
			if err != nil {
				return nil, err
			}
			out = append(out, r)
		}
		return in.typed(a[0], out, at)
	})
	def("foldl", []string{"fn", "z", "seq"}, func(in *Interp, a []*Val, at *Val) (*Val, *Err) {
		f, e := in.designator(a[0], at)
		if e != nil {
			return nil, e
		}
		if e := seq(in, a[2], at); e != nil {
			return nil, e
		}
		acc := a[1]
		for _, x := range a[2].Cells {
			r, err := in.Apply(f, []*Val{acc, x}, at)
			if err != nil {
				return nil, err
			}
			acc = r
		}
		return acc, nil
	})
	def("foldr", []string{"fn", "z", "seq"}, func(in *Interp, a []*Val, at *Val) (*Val, *Err) {
		f, e := in.designator(a[0], at)
		if e != nil {
			return nil, e
		}
		if e := seq(in, a[2], at); e != nil {
			return nil, e
		}
		acc := a[1]
		for i := len(a[2].Cells) - 1; i >= 0; i-- {
			r, err := in.Apply(f, []*Val{a[2].Cells[i], acc}, at)
			if err != nil {
				return nil, err
			}
			acc = r
		}
		return acc, nil
	})
	filter := func(name string, keep bool) {
		def(name, []string{"type-specifier", "predicate", "seq"}, func(in *Interp, a []*Val, at *Val) (*Val, *Err) {
			f, e := in.designator(a[1], at)
			if e != nil {
				return nil, e
			}
			if e := seq(in, a[2], at); e != nil {
				return nil, e
			}
			var out []*Val
			for _, x := range a[2].Cells {
				r, err := in.Apply(f, []*Val{x}, at)
				if err != nil {
					return nil, err
				}
				if r.Truthy() == keep {
					out = append(out, x)
				}
			}
			return in.typed(a[0], out, at)
		})
	}
	filter("select", true)
	filter("reject", false)
	def("all?", []string{"predicate", "seq"}, func(in *Interp, a []*Val, at *Val) (*Val, *Err) {
		f, e := in.designator(a[0], at)
		if e != nil {
			return nil, e
		}
		if e := seq(in, a[1], at); e != nil {
			return nil, e
		}
		for _, x := range a[1].Cells {
			r, err := in.Apply(f, []*Val{x}, at)
			if err != nil {
				return nil, err
			}
			if !r.Truthy() {
				return Bool(false), nil
			}
		}
		return Bool(true), nil
	})
	def("any?", []string{"predicate", "seq"}, func(in *Interp, a []*Val, at *Val) (*Val, *Err) {
		f, e := in.designator(a[0], at)
		if e != nil {
			return nil, e
		}
		if e := seq(in, a[1], at); e != nil {
			return nil, e
		}
		for _, x := range a[1].Cells {
			r, err := in.Apply(f, []*Val{x}, at)
			if err != nil {
				return nil, err
			}
			if r.Truthy() {
				return r, nil
			}
		}
		return Bool(false), nil
	})
	def("reverse", []string{"type-specifier", "seq"}, func(in *Interp, a []*Val, at *Val) (*Val, *Err) {
		if e := seq(in, a[1], at); e != nil {
			return nil, e
		}
		out := make([]*Val, len(a[1].Cells))
		for i, x := range a[1].Cells {
			out[len(out)-1-i] = x
		}
		return in.typed(a[0], out, at)
	})
	def("equal?", []string{"a", "b"}, func(in *Interp, a []*Val, at *Val) (*Val, *Err) {
		if hasFun(a[0]) || hasFun(a[1]) {
			return nil, &Err{Cond: "<unspecified>"} // equality of function values is not documented
		}
		return Bool(Equal(a[0], a[1])), nil
	})
	def("set", []string{"sym", "val", "&rest", "docstring"}, func(in *Interp, a []*Val, at *Val) (*Val, *Err) {
		if a[0].K != KSym {
			return nil, in.errf(at, "error", "first argument is not a symbol")
		}
		name := a[0].S
		if strings.HasPrefix(name, ":") {
			return nil, in.errf(at, "error", "value cannot be assigned to a keyword")
		}
		if isConst(name) {
			return nil, in.errf(at, "error", "cannot rebind constant: %s", name)
		}
		for _, d := range a[2:] {
			if d.K != KStr {
				return nil, in.errf(at, "error", "docstring argument is not a string")
			}
		}
		if i := strings.IndexByte(name, ':'); i > 0 {
			return nil, &Err{Cond: "<unspecified>"}
		}
		in.Cur.Binds[name] = a[1]
		return a[1], nil
	})
	def("error", []string{"condition", "&rest", "args"}, func(in *Interp, a []*Val, at *Val) (*Val, *Err) {
		if a[0].K != KSym {
			return nil, in.errf(at, "error", "condition type is not a symbol")
		}
		e := in.errf(at, a[0].S, "")
		e.Data = append([]*Val(nil), a[1:]...)
		return nil, e
	})
	def("rethrow", nil, func(in *Interp, a []*Val, at *Val) (*Val, *Err) {
		if len(in.Handling) == 0 {
			return nil, in.errf(at, "error", "rethrow called outside of a handler")
		}
		return nil, in.Handling[len(in.Handling)-1]
	})
	def("debug-print", []string{"&rest", "args"}, func(in *Interp, a []*Val, at *Val) (*Val, *Err) {
		// fmt.Fprintln semantics: operands separated by spaces, newline at the end
		for i, x := range a {
			if i > 0 {
				in.Out.WriteByte(' ')
			}
			in.Out.WriteString(x.String())
		}
		in.Out.WriteByte('\n')
		return Nil(), nil
	})
	pred := func(name string, f func(v *Val) bool) {
		def(name, []string{"expr"}, func(in *Interp, a []*Val, at *Val) (*Val, *Err) { return Bool(f(a[0])), nil })
	}
	pred("int?", func(v *Val) bool { return v.K == KInt })
	pred("float?", func(v *Val) bool { return v.K == KFloat })
	pred("number?", func(v *Val) bool { return v.K == KInt || v.K == KFloat })
	pred("string?", func(v *Val) bool { return v.K == KStr })
	pred("symbol?", func(v *Val) bool { return v.K == KSym })
	pred("list?", func(v *Val) bool { return v.K == KList })
	pred("vector?", func(v *Val) bool { return v.K == KVec })
	pred("sorted-map?", func(v *Val) bool { return v.K == KMap })
	pred("true?", func(v *Val) bool { return v.Truthy() })
	def("max", []string{"real", "&rest", "rest"}, minmax(num, allInts, fl, true))
	def("min", []string{"real", "&rest", "rest"}, minmax(num, allInts, fl, false))
}

func minmax(num func(*Interp, *Val, *Val) *Err, allInts func([]*Val) bool, fl func(*Val) float64, max bool) bFn {
	return func(in *Interp, a []*Val, at *Val) (*Val, *Err) {
		for _, x := range a {
			if e := num(in, x, at); e != nil {
				return nil, e
			}
		}
		if allInts(a) {
			best := a[0].I
			for _, x := range a[1:] {
				if (max && x.I > best) || (!max && x.I < best) {
					best = x.I
				}
			}
			return Int(best), nil
		}
		best := fl(a[0])
		arg := a[0]
		for _, x := range a[1:] {
			if (max && fl(x) > fl(arg)) || (!max && fl(x) < fl(arg)) {
				arg = x
			}
			if max {
				best = math.Max(best, fl(x))
			} else {
				best = math.Min(best, fl(x))
			}
		}
		if !math.IsNaN(best) {
			// "the largest of the given numeric arguments": the argument itself, an int stays an int
			// (visible only for ints a float cannot hold exactly)
			return arg, nil
		}
		// a not-a-number among the arguments: no argument is "the largest", the documentation does not say
		return nil, &Err{Cond: "<unspecified>"}
	}
}

// designator: a function value; a (quoted) symbol names a function of the
// current package (lexical bindings are not consulted for designators).
func (in *Interp) designator(v *Val, at *Val) (*Val, *Err) {
	if v.K == KFun {
		return v, nil
	}
	if v.K == KSym {
		if f, ok := in.Cur.Binds[v.S]; ok && f.K == KFun {
			return f, nil
		}
		if _, ok := in.Cur.Binds[v.S]; !ok && !strings.Contains(v.S, ":") {
			// a name bound nowhere: the ordinary unbound-symbol error, raised by the builtin that was handed the
			// designator (its frame is active) and located at the designator datum
			return nil, in.errf(v, "error", "unbound symbol: %v", v.S)
		}
		return nil, &Err{Cond: "<unspecified>"}
	}
	return nil, in.errf(at, "error", "argument is not a function: %v", v)
}

func (in *Interp) typed(spec *Val, cells []*Val, at *Val) (*Val, *Err) {
	if spec.K != KSym {
		return nil, &Err{Cond: "<unspecified>"} // the docs define the specifier only for 'list and 'vector
	}
	switch spec.S {
	case "list":
		return QList(cells...), nil
	case "vector":
		return &Val{K: KVec, Cells: cells}, nil
	}
	return nil, &Err{Cond: "<unspecified>"}
}

// Equal is structural equality; ints and floats compare numerically, a
// quoted and an unquoted datum with the same content are equal.
func Equal(a, b *Val) bool {
	if (a.K == KInt || a.K == KFloat) && (b.K == KInt || b.K == KFloat) {
		if a.K == KInt && b.K == KInt {
			return a.I == b.I
		}
		fa, fb := a.F, b.F
		if a.K == KInt {
			fa = float64(a.I)
		}
		if b.K == KInt {
			fb = float64(b.I)
		}
		return fa == fb
	}
	if a.K != b.K {
		return false
	}
	switch a.K {
	case KStr, KSym:
		return a.S == b.S
	case KList, KVec:
		if len(a.Cells) != len(b.Cells) {
			return false
		}
		for i := range a.Cells {
			if !Equal(a.Cells[i], b.Cells[i]) {
				return false
			}
		}
		return true
	case KMap:
		if len(a.Map.Keys) != len(b.Map.Keys) {
			return false
		}
		for k, v := range a.Map.Vals {
			w, ok := b.Map.Vals[k]
			if !ok || !Equal(v, w) {
				return false
			}
		}
		return true
	case KFun:
		return a.Fun == b.Fun
	}
	return false
}

func hasFun(v *Val) bool {
	if v.K == KFun {
		return true
	}
	for _, c := range v.Cells {
		if hasFun(c) {
			return true
		}
	}
	return false
}
