package ri

import (
	"fmt"
	"strings"
)

// Env is a lexical frame.
type Env struct {
	vars   map[string]*Val
	parent *Env
}

func NewEnv(parent *Env) *Env { return &Env{vars: map[string]*Val{}, parent: parent} }

// Pkg is a package.
type Pkg struct {
	Name    string
	Binds   map[string]*Val
	Exports []string
}

// Interp is one reference runtime.
type Interp struct {
	Pkgs   map[string]*Pkg
	Cur    *Pkg
	Out    strings.Builder
	Frames []Frame
	Fuel   int // evaluation steps left; running out is a harness error, not a language event
	// Handling is the stack of errors currently being handled (for rethrow).
	Handling []*Err
	// HostPanic, if set, is called by the (host-panic) builtin.
	OutOfFuel bool
}

const langPkg = "lisp"

// New builds an interpreter with the core language and a user package.
func New() *Interp {
	in := &Interp{Pkgs: map[string]*Pkg{}, Fuel: 200000}
	lp := &Pkg{Name: langPkg, Binds: map[string]*Val{}}
	in.Pkgs[langPkg] = lp
	in.Cur = lp
	installOps(in, lp)
	installBuiltins(in, lp)
	installBuiltinsExt(in, lp) // builtins_ext.go
	lp.Binds["true"] = Sym("true")
	lp.Binds["false"] = Sym("false")
	lp.Exports = append(lp.Exports, "true", "false")
	in.InPackage("user")
	return in
}

// InPackage switches to (creating if needed) a package; a new package starts
// with the language package's exports.
func (in *Interp) InPackage(name string) {
	p := in.Pkgs[name]
	if p == nil {
		p = &Pkg{Name: name, Binds: map[string]*Val{}}
		in.Pkgs[name] = p
		in.Cur = p
		in.UsePackage(langPkg)
	}
	in.Cur = p
}

// UsePackage copies the exported bindings of the named package, as they are
// now, into the current package.
func (in *Interp) UsePackage(name string) *Err {
	src := in.Pkgs[name]
	if src == nil {
		return in.errf(nil, "error", "unknown package: %v", name)
	}
	for _, s := range src.Exports {
		if v, ok := src.Binds[s]; ok {
			in.Cur.Binds[s] = v
		}
	}
	return nil
}

func (in *Interp) errf(at *Val, cond, format string, a ...any) *Err {
	e := &Err{Cond: cond, Msg: fmt.Sprintf(format, a...)}
	e.Data = []*Val{Str(e.Msg)} // errors raised by the system carry their message as data (text unspecified)
	if at != nil {
		e.Pos = at.Pos
	}
	e.Frames = append([]Frame(nil), in.Frames...)
	return e
}

func isConst(name string) bool { return name == "true" || name == "false" }

// lookup resolves a symbol: lexical scope, then the current package.
func (in *Interp) lookup(env *Env, s *Val) (*Val, *Err) {
	name := s.S
	if i := strings.IndexByte(name, ':'); i > 0 {
		pkg, nm := name[:i], name[i+1:]
		if strings.Contains(nm, ":") {
			return nil, in.errf(s, "error", "illegal symbol: %q", name)
		}
		p := in.Pkgs[pkg]
		if p == nil {
			return nil, in.errf(s, "error", "unknown package: %q", pkg)
		}
		if v, ok := p.Binds[nm]; ok {
			return v, nil
		}
		return nil, in.errf(s, "error", "unbound symbol: %v", name)
	}
	for e := env; e != nil; e = e.parent {
		if v, ok := e.vars[name]; ok {
			return v, nil
		}
	}
	if v, ok := in.Cur.Binds[name]; ok {
		return v, nil
	}
	return nil, in.errf(s, "error", "unbound symbol: %v", name)
}

// Eval evaluates one expression.
func (in *Interp) Eval(env *Env, v *Val) (*Val, *Err) {
	in.Fuel--
	if in.Fuel < 0 {
		in.OutOfFuel = true
		return nil, &Err{Cond: "<out-of-fuel>"}
	}
	if v.Quoted {
		return v, nil
	}
	switch v.K {
	case KLit:
		return v.Lit, nil
	case KSym:
		if v.IsKeyword() {
			return v, nil
		}
		return in.lookup(env, v)
	case KList:
		if len(v.Cells) == 0 {
			return v, nil
		}
		return in.evalCall(env, v)
	default:
		return v, nil
	}
}

func (in *Interp) evalCall(env *Env, form *Val) (*Val, *Err) {
	// the head is evaluated first and must be a function
	head, err := in.Eval(env, form.Cells[0])
	if err != nil {
		return nil, err
	}
	if head.K != KFun {
		return nil, in.errf(form, "error", "first element of expression is not a function: %v", head)
	}
	f := head.Fun
	name := f.Name
	if form.Cells[0].K == KSym && f.Kind != FBuiltin && f.Kind != FOp {
		name = form.Cells[0].S
		if i := strings.IndexByte(name, ':'); i > 0 {
			name = name[i+1:]
		}
	}
	switch f.Kind {
	case FOp:
		in.push(name, form)
		defer in.pop()
		if e := in.checkArity(f, len(form.Cells)-1, form); e != nil {
			return nil, e
		}
		return f.Op(in, env, form.Cells[1:], form)
	case FMacro:
		in.push(name, form)
		exp, err := in.apply(f, form.Cells[1:], form)
		in.pop()
		if err != nil {
			return nil, err
		}
		// the expansion is evaluated in the scope of the original call; a form
		// built without a position takes the call site's
		stampPos(exp, form.Pos)
		return in.Eval(env, unquoteTop(exp))
	}
	// ordinary function: arguments left to right
	args := make([]*Val, 0, len(form.Cells)-1)
	for _, a := range form.Cells[1:] {
		x, err := in.Eval(env, a)
		if err != nil {
			return nil, err
		}
		args = append(args, x)
	}
	in.push(name, form)
	defer in.pop()
	return in.apply(f, args, form)
}

// unquoteTop: a macro returns a quoted expression which is then evaluated.
func unquoteTop(v *Val) *Val {
	if v.Quoted {
		c := *v
		c.Quoted = false
		return &c
	}
	return v
}

func stampPos(v *Val, p *Pos) {
	if v == nil || v.Pos != nil {
		return
	}
	if v.K == KList || v.K == KSym {
		v.Pos = p
	}
	if v.K == KList {
		for _, c := range v.Cells {
			stampPos(c, p)
		}
	}
}

func (in *Interp) push(name string, form *Val) {
	in.Frames = append(in.Frames, Frame{Name: name, Pos: form.Pos})
}
func (in *Interp) pop() { in.Frames = in.Frames[:len(in.Frames)-1] }

// Apply calls a function value with already-evaluated arguments (funcall,
// apply, map callbacks, handlers).  Values are never evaluated again.
func (in *Interp) Apply(fv *Val, args []*Val, at *Val) (*Val, *Err) {
	if fv.K != KFun {
		return nil, in.errf(at, "error", "not a function: %v", fv)
	}
	if fv.Fun.Kind == FOp || fv.Fun.Kind == FMacro {
		return nil, in.errf(at, "error", "not a regular function")
	}
	in.push(fv.Fun.Name, at)
	defer in.pop()
	return in.apply(fv.Fun, args, at)
}

func (in *Interp) apply(f *Fun, args []*Val, at *Val) (*Val, *Err) {
	switch f.Kind {
	case FBuiltin:
		if e := in.checkArity(f, len(args), at); e != nil {
			return nil, e
		}
		return f.Builtin(in, args, at)
	case FClosure, FMacro:
		fenv := NewEnv(f.Env)
		if e := in.bind(f, fenv, args, at); e != nil {
			return nil, e
		}
		// a function body always runs with its defining package current
		outer := in.Cur
		if p := in.Pkgs[f.Pkg]; p != nil {
			in.Cur = p
		}
		defer func() { in.Cur = outer }()
		var res *Val = Nil()
		for _, b := range f.Body {
			var err *Err
			res, err = in.Eval(fenv, b)
			if err != nil {
				return nil, err
			}
		}
		return res, nil
	}
	return nil, in.errf(at, "error", "cannot apply")
}

type sig struct {
	req, opt, key []string
	rest          string
	bad           string
}

func parseParams(ps []*Val) sig {
	var s sig
	mode := 0
	for i, p := range ps {
		if p.K != KSym {
			s.bad = "formal is not a symbol"
			return s
		}
		switch p.S {
		case "&optional":
			if mode >= 1 || i == len(ps)-1 {
				s.bad = "control symbol at invalid location"
			}
			mode = 1
		case "&rest":
			if mode >= 2 || i != len(ps)-2 {
				s.bad = "control symbol at invalid location"
			}
			mode = 2
		case "&key":
			if mode >= 2 || i == len(ps)-1 {
				s.bad = "control symbol at invalid location"
			}
			mode = 3
		default:
			if strings.HasPrefix(p.S, "&") {
				s.bad = "invalid control symbol"
				return s
			}
			switch mode {
			case 0:
				s.req = append(s.req, p.S)
			case 1:
				s.opt = append(s.opt, p.S)
			case 2:
				s.rest = p.S
			case 3:
				s.key = append(s.key, p.S)
			}
		}
	}
	return s
}

func (in *Interp) checkArity(f *Fun, n int, at *Val) *Err {
	s := parseParams(f.Params)
	if n < len(s.req) {
		return in.errf(at, "error", "invalid number of arguments: %d", n)
	}
	if s.rest == "" && len(s.key) == 0 && n > len(s.req)+len(s.opt) {
		return in.errf(at, "error", "invalid number of arguments: %d", n)
	}
	return nil
}

// bind implements lang.md's parameter grammar.
func (in *Interp) bind(f *Fun, env *Env, args []*Val, at *Val) *Err {
	s := parseParams(f.Params)
	if s.bad != "" {
		// lang.md defines only well-formed formals lists (required, then
		// &optional names, then either &rest name or &key names)
		return &Err{Cond: "<unspecified>"}
	}
	i := 0
	for _, r := range s.req {
		if i >= len(args) {
			return in.errf(at, "error", "invalid number of arguments: %d", len(args))
		}
		if e := in.bindVar(env, r, args[i], at); e != nil {
			return e
		}
		i++
	}
	for _, o := range s.opt {
		if i < len(args) {
			if e := in.bindVar(env, o, args[i], at); e != nil {
				return e
			}
			i++
		} else if e := in.bindVar(env, o, Nil(), at); e != nil {
			return e
		}
	}
	switch {
	case s.rest != "":
		if e := in.bindVar(env, s.rest, QList(args[i:]...), at); e != nil {
			return e
		}
	case len(s.key) > 0:
		rem := args[i:]
		if len(rem)%2 != 0 {
			return in.errf(at, "error", "function called with an odd number of keyword arguments")
		}
		given := map[string]*Val{}
		for j := 0; j < len(rem); j += 2 {
			k := rem[j]
			if !k.IsKeyword() {
				return in.errf(at, "error", "argument is not a keyword: %v", k)
			}
			given[k.S[1:]] = rem[j+1] // a repeated keyword: the last one wins
		}
		for _, k := range s.key {
			v, ok := given[k]
			if !ok {
				v = Nil()
			}
			delete(given, k)
			if e := in.bindVar(env, k, v, at); e != nil {
				return e
			}
		}
		if len(given) > 0 {
			return in.errf(at, "error", "unrecognized keyword argument")
		}
	default:
		if i < len(args) {
			return in.errf(at, "error", "invalid number of arguments: %d", len(args))
		}
	}
	return nil
}

func (in *Interp) bindVar(env *Env, name string, v *Val, at *Val) *Err {
	if isConst(name) {
		return in.errf(at, "error", "cannot rebind constant: %s", name)
	}
	env.vars[name] = v
	return nil
}

// Load evaluates every form of src in the current package; the current
// package is restored afterwards.
func (in *Interp) Load(src string) (*Val, *Err, error) {
	forms, err := Read(src)
	if err != nil {
		return nil, nil, err
	}
	outer := in.Cur
	defer func() { in.Cur = outer }()
	res := Nil()
	root := NewEnv(nil)
	for _, f := range forms {
		var e *Err
		res, e = in.Eval(root, f)
		if e != nil {
			return nil, e, nil
		}
	}
	return res, nil, nil
}

// DefBuiltin registers a host builtin in the current package.
func (in *Interp) DefBuiltin(name string, params []string, fn func(in *Interp, args []*Val, at *Val) (*Val, *Err)) {
	in.Cur.Binds[name] = &Val{K: KFun, Fun: &Fun{Kind: FBuiltin, Name: name, Params: psyms(params...), Builtin: fn, Pkg: in.Cur.Name}}
}

// HostPanicErr is the error a recovered host panic turns into.
func (in *Interp) HostPanicErr(at *Val) *Err {
	e := in.errf(at, "internal-panic", "recovered panic")
	e.HostPanic = true
	return e
}

// Errf builds an error raised by host code at form `at`.
func (in *Interp) Errf(at *Val, cond, format string, a ...any) *Err { return in.errf(at, cond, format, a...) }
