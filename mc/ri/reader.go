package ri

import (
	"fmt"
	"strconv"
	"strings"
	"unicode/utf8"
)

// Read parses the subset of the surface syntax the drivers generate: lists in
// ( ) and quoted lists in [ ], the ' prefix, integers, floats, "strings" with
// the common escapes, symbols/keywords, and ; comments.  Every node carries
// the 1-based line:column of its first character (the quote mark for a
// quoted node, as the real reader does).
func Read(src string) ([]*Val, error) {
	p := &rd{s: src, line: 1, col: 1}
	var out []*Val
	for {
		p.skip()
		if p.i >= len(p.s) {
			return out, nil
		}
		v, err := p.expr()
		if err != nil {
			return nil, err
		}
		out = append(out, v)
	}
}

type rd struct {
	s         string
	i         int
	line, col int
}

func (p *rd) adv() byte {
	c := p.s[p.i]
	p.i++
	if c == '\n' {
		p.line++
		p.col = 1
	} else if c < 0x80 || c >= 0xC0 { // count code points, not continuation bytes
		p.col++
	}
	return c
}

func (p *rd) skip() {
	for p.i < len(p.s) {
		c := p.s[p.i]
		switch {
		case c == ' ' || c == '\t' || c == '\n' || c == '\r':
			p.adv()
		case c == ';':
			for p.i < len(p.s) && p.s[p.i] != '\n' {
				p.adv()
			}
		default:
			return
		}
	}
}

func isDelim(c byte) bool {
	return c == ' ' || c == '\t' || c == '\n' || c == '\r' || c == '(' || c == ')' || c == '[' || c == ']' || c == ';' || c == '"' || c == '\''
}

func (p *rd) expr() (*Val, error) {
	p.skip()
	if p.i >= len(p.s) {
		return nil, fmt.Errorf("unexpected EOF")
	}
	pos := &Pos{Line: p.line, Col: p.col}
	c := p.s[p.i]
	switch {
	case c == '\'':
		p.adv()
		v, err := p.expr()
		if err != nil {
			return nil, err
		}
		if v.Quoted || v.K == KInt || v.K == KFloat || v.K == KStr {
			if v.K == KInt || v.K == KFloat || v.K == KStr {
				// quoted numbers and strings are equivalent to their unquoted counterparts
				v.Pos = pos
				return v, nil
			}
			return nil, fmt.Errorf("nested quotes are outside the reference grammar")
		}
		v.Quoted = true
		v.Pos = pos
		return v, nil
	case c == '#' && p.i+1 < len(p.s) && (p.s[p.i+1] == '\'' || p.s[p.i+1] == '^'):
		// #'name is (function name), #^form is (expr form)  (lang.md "Unbound expressions", docstring of function)
		p.adv()
		head := "lisp:function"
		if p.adv() == '^' {
			head = "lisp:expr"
		}
		v, err := p.expr()
		if err != nil {
			return nil, err
		}
		if head == "lisp:expr" && v.K == KList && !v.Quoted {
			for _, c := range v.Cells {
				if c.K == KList && !c.Quoted && len(c.Cells) > 0 {
					// lang.md introduces #^ only for flat templates; the real reader refuses nested ones
					return nil, fmt.Errorf("#^ with a nested expression is outside the reference grammar")
				}
			}
		}
		if head == "lisp:function" && v.K != KSym {
			return nil, fmt.Errorf("#' before a non-symbol is outside the reference grammar")
		}
		return &Val{K: KList, Pos: pos, Cells: []*Val{{K: KSym, S: head, Pos: pos}, v}}, nil
	case c == '(' || c == '[':
		p.adv()
		closer := byte(')')
		if c == '[' {
			closer = ']'
		}
		v := &Val{K: KList, Pos: pos, Quoted: c == '[', Bracket: c == '['}
		for {
			p.skip()
			if p.i >= len(p.s) {
				return nil, fmt.Errorf("unclosed list")
			}
			if p.s[p.i] == closer {
				p.adv()
				return v, nil
			}
			if p.s[p.i] == ')' || p.s[p.i] == ']' {
				return nil, fmt.Errorf("mismatched bracket")
			}
			k, err := p.expr()
			if err != nil {
				return nil, err
			}
			v.Cells = append(v.Cells, k)
		}
	case c == ')' || c == ']':
		return nil, fmt.Errorf("unexpected close")
	case c == '"':
		p.adv()
		var sb strings.Builder
		for {
			if p.i >= len(p.s) {
				return nil, fmt.Errorf("unclosed string")
			}
			ch := p.adv()
			if ch == '"' {
				break
			}
			if ch == '\\' {
				if p.i >= len(p.s) {
					return nil, fmt.Errorf("bad escape")
				}
				e := p.adv()
				switch e {
				case 'n':
					sb.WriteByte('\n')
				case 't':
					sb.WriteByte('\t')
				case 'r':
					sb.WriteByte('\r')
				case '\\', '"':
					sb.WriteByte(e)
				default:
					return nil, fmt.Errorf("escape \\%c outside the reference grammar", e)
				}
				continue
			}
			sb.WriteByte(ch)
		}
		if !utf8.ValidString(sb.String()) {
			return nil, fmt.Errorf("invalid utf-8")
		}
		return &Val{K: KStr, S: sb.String(), Pos: pos}, nil
	default:
		st := p.i
		for p.i < len(p.s) && !isDelim(p.s[p.i]) {
			p.adv()
		}
		tok := p.s[st:p.i]
		if n, err := strconv.ParseInt(tok, 10, 64); err == nil && isIntTok(tok) {
			return &Val{K: KInt, I: n, Pos: pos}, nil
		}
		if isFloatTok(tok) {
			f, err := strconv.ParseFloat(tok, 64)
			if err == nil {
				return &Val{K: KFloat, F: f, Pos: pos}, nil
			}
		}
		if tok == "" {
			return nil, fmt.Errorf("empty token")
		}
		return &Val{K: KSym, S: tok, Pos: pos}, nil
	}
}

func isIntTok(t string) bool {
	if strings.HasPrefix(t, "-") {
		t = t[1:]
	}
	if t == "" {
		return false
	}
	for _, c := range t {
		if c < '0' || c > '9' {
			return false
		}
	}
	return true
}

func isFloatTok(t string) bool {
	if strings.HasPrefix(t, "-") {
		t = t[1:]
	}
	if t == "" || t[0] < '0' || t[0] > '9' {
		return false
	}
	seenDot, seenE := false, false
	for i := 0; i < len(t); i++ {
		c := t[i]
		switch {
		case c >= '0' && c <= '9':
		case c == '.' && !seenDot && !seenE:
			seenDot = true
		case (c == 'e' || c == 'E') && !seenE && i+1 < len(t):
			seenE = true
			if t[i+1] == '+' || t[i+1] == '-' {
				i++
			}
		default:
			return false
		}
	}
	return seenDot || seenE
}
