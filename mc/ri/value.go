// Package ri is the definitional ("reference") interpreter of the ELPS core
// language, written from docs/lang.md and the builtin docstrings.  It is
// deliberately boring: big-step, explicit left-to-right evaluation, an effect
// transcript and an active-call chain.  It shares no code with /repo.
package ri

import (
	"fmt"
	"math"
	"sort"
	"strconv"
	"strings"
)

type Kind int

const (
	KInt Kind = iota
	KFloat
	KStr
	KSym
	KList // s-expression / list; nil is the empty unquoted list
	KVec
	KMap
	KFun
	KLit // a node whose evaluation yields Lit unchanged (an already-computed value placed into a form)
)

// Pos is a source position (1-based line and column), nil for values built at run time.
type Pos struct {
	Line, Col int
}

func (p *Pos) String() string {
	if p == nil {
		return "<none>"
	}
	return fmt.Sprintf("%d:%d", p.Line, p.Col)
}

// Val is a value; code and data share the domain.
type Val struct {
	K      Kind
	I      int64
	F      float64
	S      string // string content / symbol name
	Quoted bool   // symbols and lists carry a quote bit
	Cells  []*Val // list or vector cells
	Map    *SMap
	Fun    *Fun
	Lit    *Val
	Bracket bool // written with [ ] in the source
	Pos    *Pos
}

// SMap is a name-keyed map remembering each key's spelling.
type SMap struct {
	Keys map[string]*Val // name -> key value as spelled
	Vals map[string]*Val
}

type FunKind int

const (
	FClosure FunKind = iota
	FBuiltin
	FOp
	FMacro // user macro (closure evaluated at expansion time)
)

type Fun struct {
	Kind    FunKind
	Name    string
	Params  []*Val
	Body    []*Val
	Env     *Env
	Pkg     string
	Builtin func(in *Interp, args []*Val, at *Val) (*Val, *Err)
	Op      func(in *Interp, env *Env, args []*Val, at *Val) (*Val, *Err)
}

func Int(i int64) *Val     { return &Val{K: KInt, I: i} }
func Float(f float64) *Val { return &Val{K: KFloat, F: f} }
func Str(s string) *Val    { return &Val{K: KStr, S: s} }
func Sym(s string) *Val    { return &Val{K: KSym, S: s} }
func QSym(s string) *Val   { return &Val{K: KSym, S: s, Quoted: true} }
func Nil() *Val            { return &Val{K: KList} }
func QList(cells ...*Val) *Val {
	return &Val{K: KList, Quoted: true, Cells: cells}
}
func Bool(b bool) *Val {
	if b {
		return Sym("true")
	}
	return Sym("false")
}

func (v *Val) IsNil() bool { return v.K == KList && len(v.Cells) == 0 }

// Truthy: everything except nil (the empty list, quoted or not) and false.
func (v *Val) Truthy() bool {
	if v.IsNil() {
		return false
	}
	if v.K == KSym && v.S == "false" {
		return false
	}
	return true
}

func (v *Val) IsKeyword() bool { return v.K == KSym && strings.HasPrefix(v.S, ":") }

// String renders a value the way the language prints it.
func (v *Val) String() string {
	var sb strings.Builder
	v.write(&sb)
	return sb.String()
}

func fmtFloat(f float64) string {
	if math.IsInf(f, 1) {
		return "+Inf"
	}
	if math.IsInf(f, -1) {
		return "-Inf"
	}
	if math.IsNaN(f) {
		return "NaN"
	}
	if f == 0 {
		return "0" // the sign of a float zero is not specified by the docs
	}
	return strconv.FormatFloat(f, 'g', -1, 64)
}

func (v *Val) write(sb *strings.Builder) {
	switch v.K {
	case KInt:
		sb.WriteString(strconv.FormatInt(v.I, 10))
	case KFloat:
		sb.WriteString(fmtFloat(v.F))
	case KStr:
		sb.WriteString(strconv.Quote(v.S))
	case KSym:
		if v.Quoted {
			sb.WriteByte('\'')
		}
		sb.WriteString(v.S)
	case KList:
		if v.Quoted {
			sb.WriteByte('\'')
		}
		sb.WriteByte('(')
		for i, c := range v.Cells {
			if i > 0 {
				sb.WriteByte(' ')
			}
			c.write(sb)
		}
		sb.WriteByte(')')
	case KVec:
		sb.WriteString("(vector")
		for _, c := range v.Cells {
			sb.WriteByte(' ')
			c.write(sb)
		}
		sb.WriteByte(')')
	case KMap:
		sb.WriteString("(sorted-map")
		for _, k := range v.Map.SortedNames() {
			sb.WriteByte(' ')
			v.Map.Keys[k].write(sb)
			sb.WriteByte(' ')
			v.Map.Vals[k].write(sb)
		}
		sb.WriteByte(')')
	case KFun:
		sb.WriteString("#<fun>")
	}
}

func (m *SMap) SortedNames() []string {
	ns := make([]string, 0, len(m.Keys))
	for k := range m.Keys {
		ns = append(ns, k)
	}
	sort.Strings(ns)
	return ns
}

// Err is an error in flight.
type Err struct {
	Cond      string
	Msg       string
	Data      []*Val
	HostPanic bool
	Pos       *Pos    // position of the form whose evaluation raised it
	Frames    []Frame // active calls, outermost first
}

// Frame is one active call.
type Frame struct {
	Name string
	Pos  *Pos // call-site position
	Tail bool // the call was made in tail position of the enclosing function body
}

func (e *Err) String() string { return "ERR<" + e.Cond + ">" }
