package ri

import (
	"fmt"
	"strings"
)

func psyms(names ...string) []*Val {
	out := make([]*Val, len(names))
	for i, n := range names {
		out[i] = Sym(n)
	}
	return out
}

type opFn = func(in *Interp, env *Env, args []*Val, at *Val) (*Val, *Err)

func installOps(in *Interp, p *Pkg) {
	def := func(name string, params []string, fn opFn) {
		p.Binds[name] = &Val{K: KFun, Fun: &Fun{Kind: FOp, Name: name, Params: psyms(params...), Op: fn, Pkg: langPkg}}
		p.Exports = append(p.Exports, name)
	}
	def("quote", []string{"expr"}, func(in *Interp, env *Env, a []*Val, at *Val) (*Val, *Err) {
		v := a[0]
		if v.K == KSym || v.K == KList {
			c := *v
			c.Quoted = true
			return &c, nil
		}
		return v, nil
	})
	def("if", []string{"condition", "then", "else"}, func(in *Interp, env *Env, a []*Val, at *Val) (*Val, *Err) {
		c, err := in.Eval(env, a[0])
		if err != nil {
			return nil, err
		}
		if c.Truthy() {
			return in.Eval(env, a[1])
		}
		return in.Eval(env, a[2])
	})
	def("progn", []string{"&rest", "expr"}, func(in *Interp, env *Env, a []*Val, at *Val) (*Val, *Err) {
		return in.evalBody(env, a)
	})
	def("cond", []string{"&rest", "branch"}, func(in *Interp, env *Env, a []*Val, at *Val) (*Val, *Err) {
		for i, cl := range a {
			if cl.K != KList || len(cl.Cells) == 0 {
				return nil, in.errf(at, "error", "cond clause is not a list")
			}
			test := cl.Cells[0]
			hit := false
			// `:else` is an ordinary keyword -- a true test wherever it stands; only the bare symbol is the else marker
			if test.K == KSym && !test.Quoted && test.S == "else" {
				if i != len(a)-1 {
					return nil, in.errf(at, "error", "else must be the last clause")
				}
				hit = true
			} else {
				t, err := in.Eval(env, test)
				if err != nil {
					return nil, err
				}
				hit = t.Truthy()
			}
			if hit {
				return in.evalBody(env, cl.Cells[1:])
			}
		}
		return Nil(), nil
	})
	def("and", []string{"&rest", "expr"}, func(in *Interp, env *Env, a []*Val, at *Val) (*Val, *Err) {
		var last *Val = Bool(true)
		for _, x := range a {
			v, err := in.Eval(env, x)
			if err != nil {
				return nil, err
			}
			if !v.Truthy() {
				return v, nil
			}
			last = v
		}
		return last, nil
	})
	def("or", []string{"&rest", "expr"}, func(in *Interp, env *Env, a []*Val, at *Val) (*Val, *Err) {
		var last *Val = Bool(false)
		for _, x := range a {
			v, err := in.Eval(env, x)
			if err != nil {
				return nil, err
			}
			if v.Truthy() {
				return v, nil
			}
			last = v
		}
		return last, nil
	})
	letOp := func(seq bool) opFn {
		return func(in *Interp, env *Env, a []*Val, at *Val) (*Val, *Err) {
			bs := a[0]
			if bs.K != KList {
				return nil, in.errf(at, "error", "first argument is not a list")
			}
			nenv := NewEnv(env)
			for _, b := range bs.Cells {
				if b.K != KList || len(b.Cells) != 2 || b.Cells[0].K != KSym {
					return nil, in.errf(at, "error", "first argument is not a list of pairs")
				}
			}
			type pair struct {
				n string
				v *Val
			}
			var ps []pair
			for _, b := range bs.Cells {
				scope := env
				if seq {
					scope = nenv
				}
				v, err := in.Eval(scope, b.Cells[1])
				if err != nil {
					return nil, err
				}
				if seq {
					if e := in.bindVar(nenv, b.Cells[0].S, v, at); e != nil {
						return nil, e
					}
				} else {
					ps = append(ps, pair{b.Cells[0].S, v})
				}
			}
			for _, p := range ps {
				if e := in.bindVar(nenv, p.n, p.v, at); e != nil {
					return nil, e
				}
			}
			return in.evalBody(nenv, a[1:])
		}
	}
	def("let", []string{"bindings", "&rest", "expr"}, letOp(false))
	def("let*", []string{"bindings", "&rest", "expr"}, letOp(true))
	def("lambda", []string{"formals", "&rest", "expr"}, func(in *Interp, env *Env, a []*Val, at *Val) (*Val, *Err) {
		if a[0].K != KList {
			return nil, in.errf(at, "error", "formals is not a list")
		}
		for _, p := range a[0].Cells {
			if p.K != KSym {
				return nil, in.errf(at, "error", "formal is not a symbol")
			}
		}
		return &Val{K: KFun, Fun: &Fun{Kind: FClosure, Name: "", Params: a[0].Cells, Body: a[1:], Env: env, Pkg: in.Cur.Name}}, nil
	})
	funBinds := func(kind string) opFn {
		return func(in *Interp, env *Env, a []*Val, at *Val) (*Val, *Err) {
			bs := a[0]
			if bs.K != KList {
				return nil, in.errf(at, "error", "first argument is not a list")
			}
			nenv := NewEnv(env)
			for _, b := range bs.Cells {
				if b.K != KList || len(b.Cells) < 2 || b.Cells[0].K != KSym || b.Cells[1].K != KList {
					return nil, in.errf(at, "error", "malformed function binding")
				}
				fenv := env // flet / macrolet: the functions do not see each other
				if kind == "labels" {
					fenv = nenv
				}
				fk := FClosure
				if kind == "macrolet" {
					fk = FMacro
				}
				f := &Val{K: KFun, Fun: &Fun{Kind: fk, Name: b.Cells[0].S, Params: b.Cells[1].Cells, Body: b.Cells[2:], Env: fenv, Pkg: in.Cur.Name}}
				if e := in.bindVar(nenv, b.Cells[0].S, f, at); e != nil {
					return nil, e
				}
			}
			return in.evalBody(nenv, a[1:])
		}
	}
	def("flet", []string{"bindings", "&rest", "expr"}, funBinds("flet"))
	def("labels", []string{"bindings", "&rest", "expr"}, funBinds("labels"))
	def("macrolet", []string{"bindings", "&rest", "expr"}, funBinds("macrolet"))
	def("set!", []string{"name", "expr"}, func(in *Interp, env *Env, a []*Val, at *Val) (*Val, *Err) {
		if a[0].K != KSym {
			return nil, in.errf(at, "error", "first argument is not a symbol")
		}
		name := a[0].S
		if isConst(name) {
			return nil, in.errf(at, "error", "cannot rebind constant: %s", name)
		}
		v, err := in.Eval(env, a[1])
		if err != nil {
			return nil, err
		}
		for e := env; e != nil; e = e.parent {
			if _, ok := e.vars[name]; ok {
				e.vars[name] = v
				return Nil(), nil // the docs do not give set! a value; the implementation answers ()
			}
		}
		if _, ok := in.Cur.Binds[name]; ok {
			in.Cur.Binds[name] = v
			return Nil(), nil
		}
		er := in.errf(a[0], "error", "symbol not bound: %s", name)
		er.Msg += " [set!]"
		return nil, er
	})
	def("dotimes", []string{"control-sequence", "&rest", "exprs"}, func(in *Interp, env *Env, a []*Val, at *Val) (*Val, *Err) {
		cs := a[0]
		if cs.K != KList || len(cs.Cells) < 2 || len(cs.Cells) > 3 || cs.Cells[0].K != KSym {
			return nil, in.errf(at, "error", "malformed control sequence")
		}
		n, err := in.Eval(env, cs.Cells[1])
		if err != nil {
			return nil, err
		}
		if n.K != KInt {
			return nil, in.errf(at, "error", "count is not an integer")
		}
		nenv := NewEnv(env)
		if e := in.bindVar(nenv, cs.Cells[0].S, Int(0), at); e != nil {
			return nil, e
		}
		for i := int64(0); i < n.I; i++ {
			nenv.vars[cs.Cells[0].S] = Int(i)
			if _, err := in.evalBody(nenv, a[1:]); err != nil {
				return nil, err
			}
		}
		// "Returns the result expression (or () if omitted)": an omitted result is the result (), so the loop leaves
		// the same environment behind either way -- the symbol holds the number of turns taken when the result
		// expression is evaluated, and a closure created in the body reads that afterwards.
		nenv.vars[cs.Cells[0].S] = Int(maxI(n.I, 0))
		if len(cs.Cells) == 3 {
			return in.Eval(nenv, cs.Cells[2])
		}
		return Nil(), nil
	})
	thread := func(first bool) opFn {
		return func(in *Interp, env *Env, a []*Val, at *Val) (*Val, *Err) {
			v, err := in.Eval(env, a[0])
			if err != nil {
				return nil, err
			}
			for _, f := range a[1:] {
				if f.K != KList || len(f.Cells) == 0 || f.Quoted {
					return nil, in.errf(at, "error", "threaded form is not a call")
				}
				// the threaded VALUE is inserted as an argument; it is not evaluated again
				hold := &Val{K: KList, Pos: f.Pos}
				var cells []*Val
				if first {
					cells = append([]*Val{f.Cells[0], valueNode(v)}, f.Cells[1:]...)
				} else {
					cells = append(append([]*Val{}, f.Cells...), valueNode(v))
				}
				hold.Cells = cells
				v, err = in.Eval(env, hold)
				if err != nil {
					return nil, err
				}
			}
			return v, nil
		}
	}
	def("thread-first", []string{"value", "&rest", "exprs"}, thread(true))
	def("thread-last", []string{"value", "&rest", "exprs"}, thread(false))
	def("assert", []string{"expr", "&rest", "message-format-args"}, func(in *Interp, env *Env, a []*Val, at *Val) (*Val, *Err) {
		v, err := in.Eval(env, a[0])
		if err != nil {
			return nil, err
		}
		if v.Truthy() {
			return Nil(), nil
		}
		return nil, in.errf(at, "error", "assertion failure")
	})
	def("ignore-errors", []string{"&rest", "exprs"}, func(in *Interp, env *Env, a []*Val, at *Val) (*Val, *Err) {
		v, err := in.evalBody(env, a)
		if err != nil {
			if err.HostPanic || err.Cond == "<out-of-fuel>" {
				return nil, err
			}
			return Nil(), nil
		}
		return v, nil
	})
	def("handler-bind", []string{"bindings", "&rest", "forms"}, opHandlerBind)
	def("quasiquote", []string{"expr"}, func(in *Interp, env *Env, a []*Val, at *Val) (*Val, *Err) {
		v, err := in.quasi(env, a[0], at)
		if err != nil {
			return nil, err
		}
		if v.K == KSym || v.K == KList {
			c := *v
			c.Quoted = true
			return &c, nil
		}
		return v, nil
	})
	// definitions
	def("defun", []string{"name", "formals", "&rest", "expr"}, func(in *Interp, env *Env, a []*Val, at *Val) (*Val, *Err) {
		return in.define(env, a, at, FClosure)
	})
	def("defmacro", []string{"name", "formals", "&rest", "expr"}, func(in *Interp, env *Env, a []*Val, at *Val) (*Val, *Err) {
		return in.define(env, a, at, FMacro)
	})
}

func maxI(a, b int64) int64 {
	if a > b {
		return a
	}
	return b
}

// valueNode wraps an already-computed value so that evaluating the node
// yields exactly that value (no second evaluation).
func valueNode(v *Val) *Val { return &Val{K: KLit, Lit: v} }

func (in *Interp) evalBody(env *Env, body []*Val) (*Val, *Err) {
	var res *Val = Nil()
	for _, b := range body {
		var err *Err
		res, err = in.Eval(env, b)
		if err != nil {
			return nil, err
		}
	}
	return res, nil
}

func (in *Interp) define(env *Env, a []*Val, at *Val, kind FunKind) (*Val, *Err) {
	if a[0].K != KSym || a[1].K != KList {
		return nil, in.errf(at, "error", "malformed definition")
	}
	name := a[0].S
	if isConst(name) {
		return nil, in.errf(at, "error", "cannot rebind constant: %s", name)
	}
	if strings.HasPrefix(name, ":") {
		return nil, in.errf(at, "error", "value cannot be assigned to a keyword")
	}
	for _, p := range a[1].Cells {
		if p.K != KSym {
			return nil, in.errf(at, "error", "formal is not a symbol")
		}
	}
	if kind == FMacro {
		if _, ok := in.Cur.Binds[name]; ok {
			// defmacro refuses to redefine an existing symbol
			return nil, in.errf(at, "error", "symbol already defined: %s", name)
		}
	}
	f := &Val{K: KFun, Fun: &Fun{Kind: kind, Name: name, Params: a[1].Cells, Body: a[2:], Env: env, Pkg: in.Cur.Name}}
	in.Cur.Binds[name] = f
	return Nil(), nil
}

// opHandlerBind: the first binding of the innermost enclosing handler-bind
// whose specifier equals the condition name, or is `condition`, is called
// with the condition name and the error's data; its value becomes the value
// of the handler-bind.
func opHandlerBind(in *Interp, env *Env, a []*Val, at *Val) (*Val, *Err) {
	bs := a[0]
	if bs.K != KList {
		return nil, in.errf(at, "error", "first argument is not a list")
	}
	for _, b := range bs.Cells {
		if b.K != KList || len(b.Cells) != 2 || b.Cells[0].K != KSym {
			return nil, in.errf(at, "error", "malformed handler binding")
		}
	}
	v, err := in.evalBody(env, a[1:])
	if err == nil {
		return v, nil
	}
	if err.Cond == "<out-of-fuel>" || strings.HasPrefix(err.Cond, "<") {
		return nil, err
	}
	for _, b := range bs.Cells {
		spec := b.Cells[0].S
		match := spec == err.Cond || (spec == "condition" && !err.HostPanic)
		if !match {
			continue
		}
		// ASSUMPTION (the docs do not say when handler expressions are
		// evaluated): the handler expression of the matching binding is
		// evaluated when the error arrives, and an error it raises replaces
		// the one being handled.
		fn, e2 := in.Eval(env, b.Cells[1])
		if e2 != nil {
			return nil, e2
		}
		if fn.K != KFun {
			return nil, in.errf(at, "error", "handler is not a function")
		}
		args := append([]*Val{QSym(err.Cond)}, err.Data...)
		in.Handling = append(in.Handling, err)
		r, e3 := in.Apply(fn, args, &Val{K: KList}) // no call expression: the handler frame has no call-site position
		in.Handling = in.Handling[:len(in.Handling)-1]
		return r, e3
	}
	return nil, err
}

var _ = fmt.Sprint

// quasi copies a template literally (positions kept) except that
// (unquote e) inserts the value of e and (unquote-splicing e) splices the
// elements of a list.
func (in *Interp) quasi(env *Env, t *Val, at *Val) (*Val, *Err) {
	if t.K != KList || len(t.Cells) == 0 || t.Quoted {
		return t, nil
	}
	if h := t.Cells[0]; h.K == KSym && !h.Quoted && h.S == "unquote" {
		if len(t.Cells) != 2 {
			return nil, in.errf(at, "error", "unquote takes one argument")
		}
		return in.Eval(env, t.Cells[1])
	}
	if h := t.Cells[0]; h.K == KSym && !h.Quoted && h.S == "unquote-splicing" {
		return nil, in.errf(at, "error", "unquote-splicing outside a list")
	}
	out := &Val{K: KList, Pos: t.Pos}
	for _, c := range t.Cells {
		if c.K == KList && !c.Quoted && len(c.Cells) == 2 && c.Cells[0].K == KSym && c.Cells[0].S == "unquote-splicing" {
			v, err := in.Eval(env, c.Cells[1])
			if err != nil {
				return nil, err
			}
			if v.K != KList {
				return nil, in.errf(at, "error", "unquote-splicing of a non-list")
			}
			out.Cells = append(out.Cells, v.Cells...)
			continue
		}
		x, err := in.quasi(env, c, at)
		if err != nil {
			return nil, err
		}
		out.Cells = append(out.Cells, x)
	}
	return out, nil
}
