package ri

// Extension of the reference builtin table (property C01): the remaining
// builtins, special operators and macros of the core language package whose
// meaning docs/lang.md, docs/func.md and the docstrings of the builtin tables
// define well enough to write down.  Everything here is written from that
// text, not from the implementation.  Wherever the text is silent, or two
// documented readings disagree, the zone is *unspecified*: the builtin
// answers &Err{Cond: "<unspecified>"} and the drivers compare nothing there.
//
// Conventions used below
//   * "Accepts X, Y" in a docstring is read as: X and Y have the documented
//     result; a value that is no sequence / number / map under ANY reading is
//     an error; a value another sentence of the documentation might admit is
//     unspecified.
//   * Where the result depends on WHICH comparisons an algorithm makes
//     (sorting, sorted insertion, binary search) the reference defines the
//     result only when every admissible algorithm must produce it.

import (
	"math"
	"strconv"
	"strings"
)

func unspec() *Err { return &Err{Cond: "<unspecified>"} }

// internalErr: conditions that are not language events (unspecified zone met
// in a callback, fuel exhausted) and must be passed through untouched.
func internalErr(e *Err) bool { return e != nil && strings.HasPrefix(e.Cond, "<") }

func isNum(v *Val) bool { return v.K == KInt || v.K == KFloat }

func flt(v *Val) float64 {
	if v.K == KInt {
		return float64(v.I)
	}
	return v.F
}

func isSeq(v *Val) bool { return v.K == KList || v.K == KVec }

func isASCII(s string) bool {
	for i := 0; i < len(s); i++ {
		if s[i] >= 0x80 {
			return false
		}
	}
	return true
}

// specKind reads a type specifier: "list", "vector", "string" or "" when the
// documentation gives the specifier no meaning for the values the reference has.
func specKind(spec *Val) string {
	if spec.K != KSym {
		return ""
	}
	switch spec.S {
	case "list", "vector", "string":
		return spec.S
	}
	return ""
}

func mkSeq(kind string, cells []*Val) *Val {
	if kind == "vector" {
		return &Val{K: KVec, Cells: cells}
	}
	return QList(cells...)
}

// ---------------------------------------------------------------------------
// sorted maps ("keys that are either symbols or strings"; a key's identity is
// its name, its spelling is presentation only)

func newSMap() *SMap { return &SMap{Keys: map[string]*Val{}, Vals: map[string]*Val{}} }

func copySMap(m *SMap) *SMap {
	c := newSMap()
	for k, v := range m.Keys {
		c.Keys[k] = v
	}
	for k, v := range m.Vals {
		c.Vals[k] = v
	}
	return c
}

func isMapKey(v *Val) bool { return v.K == KStr || v.K == KSym }

// mapPut sets a key.  Which spelling a map shows after the same key has been
// written with two different spellings is not documented.
func mapPut(m *SMap, k, v *Val) *Err {
	if k.K == KSym && !k.Quoted && !k.IsKeyword() {
		// lang.md shows quoted symbols ('alice) and keywords (:height) as keys; how a
		// key given as an unquoted symbol value (true, (car '(a))) is spelled is not documented
		return unspec()
	}
	if old, ok := m.Keys[k.S]; ok {
		if old.String() != k.String() {
			return unspec()
		}
	}
	m.Keys[k.S] = k
	m.Vals[k.S] = v
	return nil
}

// keywordClash: the documentation does not say whether the keyword :a and the
// symbol/string a name the same key.
func keywordClash(m *SMap, k *Val) bool {
	name := k.S
	alt := ":" + name
	if strings.HasPrefix(name, ":") {
		alt = name[1:]
	}
	_, ok := m.Keys[alt]
	return ok
}

// ---------------------------------------------------------------------------
// strict weak orders: the outcome of sorting / sorted insertion is determined
// by the documentation only when the predicate orders the keys consistently.

type ltTable struct {
	lt   [][]bool
	errs [][]bool
	any  bool // some comparison raised an error
}

func (in *Interp) ltMatrix(pred *Val, keys []*Val, at *Val) (*ltTable, *Err) {
	n := len(keys)
	t := &ltTable{lt: make([][]bool, n), errs: make([][]bool, n)}
	for a := 0; a < n; a++ {
		t.lt[a] = make([]bool, n)
		t.errs[a] = make([]bool, n)
		for b := 0; b < n; b++ {
			r, e := in.Apply(pred, []*Val{keys[a], keys[b]}, at)
			if e != nil {
				if internalErr(e) {
					return nil, e
				}
				t.errs[a][b] = true
				t.any = true
				continue
			}
			t.lt[a][b] = r.Truthy()
		}
	}
	return t, nil
}

// allErr: every comparison that involves element x and another element fails.
func (t *ltTable) allErr(x int) bool {
	n := len(t.lt)
	if n < 2 {
		return false
	}
	for y := 0; y < n; y++ {
		if y == x {
			continue
		}
		if !t.errs[x][y] || !t.errs[y][x] {
			return false
		}
	}
	return true
}

func (t *ltTable) strictWeak() bool {
	n := len(t.lt)
	inc := func(a, b int) bool { return !t.lt[a][b] && !t.lt[b][a] }
	for a := 0; a < n; a++ {
		if t.lt[a][a] {
			return false
		}
		for b := 0; b < n; b++ {
			if t.lt[a][b] && t.lt[b][a] {
				return false
			}
			for c := 0; c < n; c++ {
				if t.lt[a][b] && t.lt[b][c] && !t.lt[a][c] {
					return false
				}
				if inc(a, b) && inc(b, c) && !inc(a, c) {
					return false
				}
			}
		}
	}
	return true
}

// fnOrNil resolves a function argument; a symbol designator follows the rule
// of the base table (package binding, unspecified otherwise).
func (in *Interp) fnArg(v *Val, at *Val) (*Val, *Err) { return in.designator(v, at) }

// ---------------------------------------------------------------------------
// format-string

type fmtPart struct {
	lit string
	idx int // -1 literal, -2 sequential, >=0 positional
}

// parseFormat splits a format string; ok=false when the text contains a brace
// the documentation gives no meaning ("{x}", a lone "{" or "}").
func parseFormat(s string) (parts []fmtPart, ok bool) {
	var lit strings.Builder
	flush := func() {
		if lit.Len() > 0 {
			parts = append(parts, fmtPart{lit: lit.String(), idx: -1})
			lit.Reset()
		}
	}
	for i := 0; i < len(s); {
		switch {
		case strings.HasPrefix(s[i:], "{{"):
			lit.WriteByte('{')
			i += 2
		case strings.HasPrefix(s[i:], "}}"):
			lit.WriteByte('}')
			i += 2
		case s[i] == '{':
			j := strings.IndexByte(s[i:], '}')
			if j < 0 {
				return nil, false
			}
			body := s[i+1 : i+j]
			flush()
			if body == "" {
				parts = append(parts, fmtPart{idx: -2})
			} else {
				if len(body) > 6 {
					return nil, false
				}
				for _, c := range body {
					if c < '0' || c > '9' {
						return nil, false
					}
				}
				if len(body) > 1 && body[0] == '0' {
					return nil, false // "{01}": not documented
				}
				n, _ := strconv.Atoi(body)
				parts = append(parts, fmtPart{idx: n})
			}
			i += j + 1
		case s[i] == '}':
			return nil, false
		default:
			lit.WriteByte(s[i])
			i++
		}
	}
	flush()
	return parts, true
}

// ---------------------------------------------------------------------------

func installBuiltinsExt(in *Interp, p *Pkg) {
	def := func(name string, params []string, fn bFn) {
		p.Binds[name] = &Val{K: KFun, Fun: &Fun{Kind: FBuiltin, Name: name, Params: psyms(params...), Builtin: fn, Pkg: langPkg}}
		p.Exports = append(p.Exports, name)
	}
	defOp := func(name string, params []string, fn opFn) {
		p.Binds[name] = &Val{K: KFun, Fun: &Fun{Kind: FOp, Name: name, Params: psyms(params...), Op: fn, Pkg: langPkg}}
		p.Exports = append(p.Exports, name)
	}
	mkFun := func(name string, params []string, fn bFn) *Val {
		return &Val{K: KFun, Fun: &Fun{Kind: FBuiltin, Name: name, Params: psyms(params...), Builtin: fn, Pkg: langPkg}}
	}

	// ---- numbers --------------------------------------------------------

	// "/": With one argument, returns 1/x. With two or more, divides the first
	// by all subsequent. Returns int when all divisions are exact; otherwise float.
	def("/", []string{"&rest", "x"}, func(in *Interp, a []*Val, at *Val) (*Val, *Err) {
		for _, x := range a {
			if !isNum(x) {
				return nil, in.errf(at, "error", "argument is not a number: %v", x)
			}
		}
		if len(a) == 0 {
			return nil, unspec() // unlike + - *, the docstring names no value for zero arguments
		}
		if len(a) == 1 {
			a = []*Val{Int(1), a[0]}
		}
		acc := a[0]
		for _, d := range a[1:] {
			if acc.K == KInt && d.K == KInt {
				if d.I == 0 {
					// not an exact division, "otherwise float": the IEEE quotient
					acc = Float(float64(acc.I) / float64(0))
					continue
				}
				if acc.I == math.MinInt64 && d.I == -1 {
					return nil, unspec() // exact, but the quotient is no int64: not documented
				}
				if acc.I%d.I == 0 {
					acc = Int(acc.I / d.I)
				} else {
					acc = Float(float64(acc.I) / float64(d.I))
				}
				continue
			}
			acc = Float(flt(acc) / flt(d))
		}
		return acc, nil
	})
	// pow: Returns a raised to the power b. Returns int when both args are
	// ints and b >= 0; otherwise returns float.
	def("pow", []string{"a", "b"}, func(in *Interp, a []*Val, at *Val) (*Val, *Err) {
		if !isNum(a[0]) || !isNum(a[1]) {
			return nil, in.errf(at, "error", "argument is not a number")
		}
		if a[0].K == KInt && a[1].K == KInt && a[1].I >= 0 {
			// the product of b copies of a, in the wrapping int arithmetic of *
			base, e := uint64(a[0].I), uint64(a[1].I)
			res := uint64(1)
			for e > 0 {
				if e&1 == 1 {
					res *= base
				}
				base *= base
				e >>= 1
			}
			r := int64(res)
			// an overflowing power is not documented (wrap? float?): only the
			// representable results are defined
			if f := math.Pow(float64(a[0].I), float64(a[1].I)); math.Abs(f) >= 9.2e18 {
				return nil, unspec()
			}
			return Int(r), nil
		}
		return Float(math.Pow(flt(a[0]), flt(a[1]))), nil
	})

	// ---- conversions ------------------------------------------------------

	// to-string: Accepts strings, symbols, bytes, integers, and floats;
	// func.md: (to-string 1.0) => "1", (to-string 1.01) => "1.01", (to-string true) => "true"
	def("to-string", []string{"value"}, func(in *Interp, a []*Val, at *Val) (*Val, *Err) {
		switch v := a[0]; v.K {
		case KStr:
			return Str(v.S), nil
		case KSym:
			return Str(v.S), nil
		case KInt:
			return Str(strconv.FormatInt(v.I, 10)), nil
		case KFloat:
			if v.F == 0 && math.Signbit(v.F) {
				return nil, unspec() // sign of a float zero
			}
			return Str(fmtFloat(v.F)), nil
		}
		return nil, in.errf(at, "error", "cannot convert to string")
	})
	// to-int: strings (parsed as decimal, [0-9]+), integers (returned as-is),
	// floats (truncated); (to-int "4.2") is an error.
	def("to-int", []string{"value"}, func(in *Interp, a []*Val, at *Val) (*Val, *Err) {
		switch v := a[0]; v.K {
		case KInt:
			return v, nil
		case KFloat:
			if math.IsNaN(v.F) || math.IsInf(v.F, 0) || math.Abs(v.F) >= 9.2e18 {
				return nil, unspec() // no integer to truncate to
			}
			return Int(int64(math.Trunc(v.F))), nil
		case KStr:
			s := v.S
			digits := strings.TrimPrefix(s, "-")
			if digits != "" && strings.Trim(digits, "0123456789") == "" {
				n, err := strconv.ParseInt(s, 10, 64)
				if err != nil {
					return nil, unspec() // a decimal numeral outside the int range
				}
				if strings.HasPrefix(s, "-") {
					// func.md says [0-9]+, the docstring "parsed as decimal": a sign is not clearly covered
					return nil, unspec()
				}
				return Int(n), nil
			}
			if strings.HasPrefix(s, "+") || strings.TrimSpace(s) != s || strings.Contains(s, "_") || strings.HasPrefix(s, "0x") {
				return nil, unspec()
			}
			return nil, in.errf(at, "error", "not a decimal integer")
		}
		return nil, in.errf(at, "error", "cannot convert to int")
	})
	// to-float: strings (parsed), floats (as-is), integers (widened).
	def("to-float", []string{"value"}, func(in *Interp, a []*Val, at *Val) (*Val, *Err) {
		switch v := a[0]; v.K {
		case KFloat:
			return v, nil
		case KInt:
			return Float(float64(v.I)), nil
		case KStr:
			s := v.S
			if isFloatTok(s) || isIntTok(s) {
				f, err := strconv.ParseFloat(s, 64)
				if err != nil {
					return nil, unspec() // out of range
				}
				return Float(f), nil
			}
			// spellings a float parser may or may not admit: not documented
			low := strings.ToLower(strings.TrimLeft(s, "+-"))
			if low == "inf" || low == "infinity" || low == "nan" || strings.HasPrefix(low, "0x") || strings.Contains(s, "_") ||
				strings.HasPrefix(s, "+") || strings.HasPrefix(low, ".") || strings.HasSuffix(low, ".") || strings.TrimSpace(s) != s {
				return nil, unspec()
			}
			if low != "" && strings.Trim(low, "0123456789.eEpP+-") == "" {
				return nil, unspec() // digits in an arrangement the reference grammar does not cover
			}
			return nil, in.errf(at, "error", "not a number")
		}
		return nil, in.errf(at, "error", "cannot convert to float")
	})

	// ---- types ------------------------------------------------------------

	// type: Returns a symbol naming the type of value (e.g. 'int, 'float,
	// 'string, 'list, 'sorted-map, 'array, 'bytes, 'fun).  The name for a
	// symbol value is not in the documentation.
	typeName := func(v *Val) string {
		switch v.K {
		case KInt:
			return "int"
		case KFloat:
			return "float"
		case KStr:
			return "string"
		case KList:
			return "list"
		case KVec:
			return "array"
		case KMap:
			return "sorted-map"
		case KFun:
			if v.Fun.Kind == FClosure || v.Fun.Kind == FBuiltin {
				return "function"
			}
		}
		return ""
	}
	documentedTypes := map[string]bool{"int": true, "float": true, "string": true, "list": true, "sorted-map": true, "array": true, "bytes": true, "function": true}
	def("type", []string{"value"}, func(in *Interp, a []*Val, at *Val) (*Val, *Err) {
		n := typeName(a[0])
		if n == "" {
			return nil, unspec()
		}
		return QSym(n), nil
	})
	// type?: Returns true if value matches the type-specifier symbol; a type
	// specifier must either be a symbol or a typedef.
	def("type?", []string{"type-specifier", "value"}, func(in *Interp, a []*Val, at *Val) (*Val, *Err) {
		if a[0].K != KSym {
			return nil, in.errf(at, "error", "type specifier is not a symbol or typedef")
		}
		n := typeName(a[1])
		if n == "" {
			if documentedTypes[a[0].S] {
				return Bool(false), nil // whatever a symbol's type is called, it is none of these
			}
			return nil, unspec()
		}
		return Bool(a[0].S == n), nil
	})
	pred := func(name string, f func(v *Val) bool) {
		def(name, []string{"expr"}, func(in *Interp, a []*Val, at *Val) (*Val, *Err) { return Bool(f(a[0])), nil })
	}
	pred("array?", func(v *Val) bool { return v.K == KVec })
	pred("bytes?", func(v *Val) bool { return false }) // the reference has no bytes values
	def("tagged-value?", []string{"value"}, func(in *Interp, a []*Val, at *Val) (*Val, *Err) { return Bool(false), nil })
	// bool?: true for the booleans true and false.
	def("bool?", []string{"expr"}, func(in *Interp, a []*Val, at *Val) (*Val, *Err) {
		v := a[0]
		if v.K == KSym && (v.S == "true" || v.S == "false") {
			if v.Quoted {
				return nil, unspec() // is the quoted symbol 'true the boolean? not documented
			}
			return Bool(true), nil
		}
		return Bool(false), nil
	})

	// ---- sequences ----------------------------------------------------------

	// empty?: true if the sequence has zero elements (func.md: a sequence or string).
	def("empty?", []string{"seq"}, func(in *Interp, a []*Val, at *Val) (*Val, *Err) {
		switch v := a[0]; v.K {
		case KList, KVec:
			return Bool(len(v.Cells) == 0), nil
		case KStr:
			return Bool(v.S == ""), nil
		case KMap:
			return nil, unspec() // length counts a map as a sequence, empty? does not say
		}
		return nil, in.errf(at, "error", "argument is not a sequence")
	})
	// rest: all elements except the first, as a list; lists and vectors; nil if fewer than two.
	def("rest", []string{"lis"}, func(in *Interp, a []*Val, at *Val) (*Val, *Err) {
		if !isSeq(a[0]) {
			return nil, in.errf(at, "error", "argument is not a list or vector")
		}
		if len(a[0].Cells) < 2 {
			return Nil(), nil
		}
		return QList(a[0].Cells[1:]...), nil
	})
	// append: a new sequence with values appended to vec; 'list, 'vector (or 'bytes).
	def("append", []string{"type-specifier", "vec", "&rest", "values"}, func(in *Interp, a []*Val, at *Val) (*Val, *Err) {
		kind := specKind(a[0])
		if kind == "" || kind == "string" {
			return nil, unspec()
		}
		if !isSeq(a[1]) {
			return nil, in.errf(at, "error", "argument is not a list or vector")
		}
		cells := append(append([]*Val{}, a[1].Cells...), a[2:]...)
		return mkSeq(kind, cells), nil
	})
	// append!: appends values to vec, mutating it in place; returns the modified vector.
	def("append!", []string{"vec", "&rest", "values"}, func(in *Interp, a []*Val, at *Val) (*Val, *Err) {
		switch a[0].K {
		case KVec:
			a[0].Cells = append(a[0].Cells[:len(a[0].Cells):len(a[0].Cells)], a[1:]...)
			return a[0], nil
		case KList:
			return nil, unspec() // the documentation speaks of vectors only
		}
		return nil, in.errf(at, "error", "argument is not a vector")
	})
	// concat: concatenates sequences into one of the specified type ('list, 'vector, 'string, 'bytes).
	def("concat", []string{"type-specifier", "&rest", "args"}, func(in *Interp, a []*Val, at *Val) (*Val, *Err) {
		kind := specKind(a[0])
		if kind == "" {
			return nil, unspec()
		}
		var bad *Err
		var cells []*Val
		var sb strings.Builder
		for _, x := range a[1:] {
			switch {
			case kind != "string" && isSeq(x):
				cells = append(cells, x.Cells...)
			case kind == "string" && x.K == KStr:
				sb.WriteString(x.S)
			case isSeq(x) || x.K == KStr || x.K == KMap:
				// a sequence of another family (string into a list, list into a string, a map):
				// whether and how it converts is not documented
				return nil, unspec()
			default:
				bad = in.errf(at, "error", "argument is not a sequence: %v", x)
			}
		}
		if bad != nil {
			return nil, bad
		}
		if kind == "string" {
			return Str(sb.String()), nil
		}
		return mkSeq(kind, cells), nil
	})
	// slice: the subsequence from index start (inclusive) to end (exclusive) of a
	// list, vector, string (or bytes), converted to the type specifier.
	def("slice", []string{"type-specifier", "seq", "start", "end"}, func(in *Interp, a []*Val, at *Val) (*Val, *Err) {
		kind := specKind(a[0])
		if kind == "" {
			return nil, unspec()
		}
		seq := a[1]
		var n int
		switch {
		case isSeq(seq):
			n = len(seq.Cells)
		case seq.K == KStr:
			if !isASCII(seq.S) {
				return nil, unspec() // the unit of a string index (byte or code point) is only shown for ASCII
			}
			n = len(seq.S)
		default:
			return nil, in.errf(at, "error", "argument is not a sequence")
		}
		if a[2].K != KInt || a[3].K != KInt {
			return nil, in.errf(at, "error", "index is not an int")
		}
		s, e := a[2].I, a[3].I
		if s < 0 || e < s || e > int64(n) {
			return nil, in.errf(at, "error", "index out of bounds")
		}
		if seq.K == KStr {
			if kind == "string" {
				return Str(seq.S[s:e]), nil
			}
			// func.md: (slice 'vector "hello" 1 4) => (vector 101 108 108)
			var cells []*Val
			for i := s; i < e; i++ {
				cells = append(cells, Int(int64(seq.S[i])))
			}
			return mkSeq(kind, cells), nil
		}
		if kind == "string" {
			return nil, unspec() // a list or vector as a string: not documented
		}
		return mkSeq(kind, seq.Cells[s:e:e]), nil
	})
	// zip: a sequence of sequences, the i-th holding the i-th element of each
	// input list, truncated to the shortest input.  Only 'list is shown.
	def("zip", []string{"type-specifier", "list", "&rest", "lists"}, func(in *Interp, a []*Val, at *Val) (*Val, *Err) {
		if specKind(a[0]) != "list" {
			return nil, unspec() // for 'vector the type of the inner sequences is not documented
		}
		var bad *Err
		min := -1
		for _, l := range a[1:] {
			switch l.K {
			case KList:
				if min < 0 || len(l.Cells) < min {
					min = len(l.Cells)
				}
			case KVec:
				return nil, unspec() // "input list": vectors are not mentioned
			default:
				bad = in.errf(at, "error", "argument is not a list")
			}
		}
		if bad != nil {
			return nil, bad
		}
		out := make([]*Val, min)
		for i := range out {
			row := make([]*Val, 0, len(a)-1)
			for _, l := range a[1:] {
				row = append(row, l.Cells[i])
			}
			out[i] = QList(row...)
		}
		return QList(out...), nil
	})
	// insert-index: a new sequence with item inserted at the given index;
	// an index beyond the end is "index out of bounds".
	def("insert-index", []string{"type-specifier", "seq", "index", "item"}, func(in *Interp, a []*Val, at *Val) (*Val, *Err) {
		kind := specKind(a[0])
		if kind == "" || kind == "string" {
			return nil, unspec()
		}
		if !isSeq(a[1]) {
			return nil, in.errf(at, "error", "argument is not a list or vector")
		}
		if a[2].K != KInt {
			return nil, in.errf(at, "error", "index is not an int")
		}
		i, n := a[2].I, int64(len(a[1].Cells))
		if i < 0 || i > n {
			return nil, in.errf(at, "error", "index out of bounds")
		}
		cells := make([]*Val, 0, n+1)
		cells = append(cells, a[1].Cells[:i]...)
		cells = append(cells, a[3])
		cells = append(cells, a[1].Cells[i:]...)
		return mkSeq(kind, cells), nil
	})
	// make-sequence: the numbers from start (inclusive) to stop (exclusive), incrementing by step (default 1).
	def("make-sequence", []string{"start", "stop", "&rest", "step"}, func(in *Interp, a []*Val, at *Val) (*Val, *Err) {
		for _, x := range a {
			if !isNum(x) {
				return nil, in.errf(at, "error", "argument is not a number")
			}
		}
		if len(a) > 3 {
			return nil, unspec() // more than one step
		}
		step := Int(1)
		if len(a) == 3 {
			step = a[2]
		}
		for _, x := range []*Val{a[0], a[1], step} {
			if x.K == KFloat && (math.IsNaN(x.F) || math.IsInf(x.F, 0)) {
				return nil, unspec()
			}
		}
		if flt(step) <= 0 {
			return nil, unspec() // a step that never reaches stop: error? descending? not documented
		}
		if (flt(a[1])-flt(a[0]))/flt(step) > 4096 {
			return nil, unspec() // harness bound, not a language event
		}
		var out []*Val
		if a[0].K == KInt && a[1].K == KInt && step.K == KInt {
			for x := a[0].I; x < a[1].I; x += step.I {
				out = append(out, Int(x))
			}
			return QList(out...), nil
		}
		// mixed int/float arguments: whether the elements are ints or floats is not
		// documented; both print alike when every element is exactly representable
		exact := func(f float64) bool { return f == math.Trunc(f*4)/4 && math.Abs(f) < 1e9 }
		if !exact(flt(a[0])) || !exact(flt(step)) {
			return nil, unspec()
		}
		for x := flt(a[0]); x < flt(a[1]); x += flt(step) {
			if x == math.Trunc(x) {
				out = append(out, Int(int64(x)))
			} else {
				out = append(out, Float(x))
			}
		}
		return QList(out...), nil
	})
	// aref: the element at the given indices in an array (index counted from
	// zero, out of bounds is an error); a vector has one dimension.
	def("aref", []string{"a", "&rest", "indices"}, func(in *Interp, a []*Val, at *Val) (*Val, *Err) {
		if a[0].K != KVec {
			return nil, in.errf(at, "error", "argument is not an array")
		}
		for _, i := range a[1:] {
			if i.K != KInt {
				return nil, in.errf(at, "error", "index is not an int")
			}
		}
		if len(a) != 2 {
			return nil, in.errf(at, "error", "wrong number of indices for a one-dimensional array")
		}
		i := a[1].I
		if i < 0 || i >= int64(len(a[0].Cells)) {
			return nil, in.errf(at, "error", "index out of bounds")
		}
		return a[0].Cells[i], nil
	})

	// ---- sorting ------------------------------------------------------------

	// keysOf applies the optional key function to every element.
	keysOf := func(in *Interp, key *Val, elems []*Val, at *Val) (keys []*Val, failed []bool, fatal *Err) {
		keys = make([]*Val, len(elems))
		failed = make([]bool, len(elems))
		for i, e := range elems {
			if key == nil {
				keys[i] = e
				continue
			}
			k, err := in.Apply(key, []*Val{e}, at)
			if err != nil {
				if internalErr(err) {
					return nil, nil, err
				}
				failed[i] = true
				continue
			}
			keys[i] = k
		}
		return
	}
	// stable-sort: sorts list using the binary less-predicate and returns the
	// sorted list; stable; optional key-fun; sorted in place (lang.md sorts vectors too).
	def("stable-sort", []string{"less-predicate", "list", "&rest", "key-fun"}, func(in *Interp, a []*Val, at *Val) (*Val, *Err) {
		seq := a[1]
		if !isSeq(seq) {
			return nil, in.errf(at, "error", "argument is not a list or vector")
		}
		if len(a) > 3 {
			return nil, unspec() // more than one key function
		}
		n := len(seq.Cells)
		fnOK := func(v *Val) bool { return v.K == KFun && v.Fun.Kind != FOp && v.Fun.Kind != FMacro }
		if n < 2 {
			// nothing needs comparing: whether a predicate / key function that is
			// no function is still rejected is not documented
			if !fnOK(a[0]) || (len(a) == 3 && !fnOK(a[2])) {
				return nil, unspec()
			}
			return seq, nil
		}
		less, e := in.fnArg(a[0], at)
		if e != nil {
			return nil, e
		}
		var key *Val
		if len(a) == 3 {
			if key, e = in.fnArg(a[2], at); e != nil {
				return nil, e
			}
		}
		keys, failed, fatal := keysOf(in, key, seq.Cells, at)
		if fatal != nil {
			return nil, fatal
		}
		for _, f := range failed {
			if f {
				// every element of a sequence of two or more must be compared, hence keyed
				return nil, in.errf(at, "error", "key function failed")
			}
		}
		t, fatal := in.ltMatrix(less, keys, at)
		if fatal != nil {
			return nil, fatal
		}
		if t.any {
			for x := 0; x < n; x++ {
				if t.allErr(x) {
					return nil, in.errf(at, "error", "predicate failed") // x cannot be placed without a failing comparison
				}
			}
			return nil, unspec() // which comparisons are made depends on the algorithm
		}
		if !t.strictWeak() {
			return nil, unspec() // an inconsistent predicate has no "sorted" result
		}
		// stable insertion sort on indices
		idx := make([]int, n)
		for i := range idx {
			idx[i] = i
		}
		for i := 1; i < n; i++ {
			for j := i; j > 0 && t.lt[idx[j]][idx[j-1]]; j-- {
				idx[j], idx[j-1] = idx[j-1], idx[j]
			}
		}
		sorted := make([]*Val, n)
		for i, x := range idx {
			sorted[i] = seq.Cells[x]
		}
		// "sorted in place": the sequence itself now holds the sorted order.  (For
		// a quoted program literal the docstring and lang.md disagree about this;
		// only the returned value is meaningful there.)
		copy(seq.Cells, sorted)
		return seq, nil
	})
	// insert-sorted: a new sequence with item inserted at its sorted position
	// according to predicate; optional key-fun.  The position among elements
	// that are equivalent to item is not documented.
	def("insert-sorted", []string{"type-specifier", "list", "predicate", "item", "&rest", "key-fun"}, func(in *Interp, a []*Val, at *Val) (*Val, *Err) {
		kind := specKind(a[0])
		if kind == "" || kind == "string" {
			return nil, unspec()
		}
		switch a[1].K {
		case KList:
		case KVec:
			return nil, unspec() // the parameter is documented as a list
		default:
			return nil, in.errf(at, "error", "argument is not a list")
		}
		if len(a) > 5 {
			return nil, unspec()
		}
		elems := a[1].Cells
		n := len(elems)
		fnOK := func(v *Val) bool { return v.K == KFun && v.Fun.Kind != FOp && v.Fun.Kind != FMacro }
		if n == 0 && (!fnOK(a[2]) || (len(a) == 5 && !fnOK(a[4]))) {
			return nil, unspec() // nothing to compare with: is the non-function still rejected?
		}
		less, e := in.fnArg(a[2], at)
		if e != nil {
			return nil, e
		}
		var key *Val
		if len(a) == 5 {
			if key, e = in.fnArg(a[4], at); e != nil {
				return nil, e
			}
		}
		if n == 0 {
			if key != nil {
				// is the key of item computed when there is nothing to compare it with?
				if _, err := in.Apply(key, []*Val{a[3]}, at); err != nil {
					return nil, unspec()
				}
			}
			return mkSeq(kind, []*Val{a[3]}), nil
		}
		all := append(append([]*Val{}, elems...), a[3]) // item is index n
		keys, failed, fatal := keysOf(in, key, all, at)
		if fatal != nil {
			return nil, fatal
		}
		if failed[n] {
			return nil, in.errf(at, "error", "key function failed on item")
		}
		for i := 0; i < n; i++ {
			if failed[i] {
				if n == 1 {
					return nil, in.errf(at, "error", "key function failed") // the only element must be compared
				}
				return nil, unspec() // which elements are probed depends on the search
			}
		}
		t, fatal := in.ltMatrix(less, keys, at)
		if fatal != nil {
			return nil, fatal
		}
		if t.any {
			itemAll := true
			for j := 0; j < n; j++ {
				if !t.errs[n][j] || !t.errs[j][n] {
					itemAll = false
				}
			}
			if itemAll {
				return nil, in.errf(at, "error", "predicate failed")
			}
			return nil, unspec()
		}
		if !t.strictWeak() {
			return nil, unspec()
		}
		for i := 0; i+1 < n; i++ {
			for j := i + 1; j < n; j++ {
				if t.lt[j][i] {
					return nil, unspec() // the list is not sorted by the predicate: no sorted position exists
				}
			}
		}
		var result *Val
		for pos := 0; pos <= n; pos++ {
			ok := true
			for j := 0; j < pos; j++ {
				if t.lt[n][j] {
					ok = false
				}
			}
			for j := pos; j < n; j++ {
				if t.lt[j][n] {
					ok = false
				}
			}
			if !ok {
				continue
			}
			cells := make([]*Val, 0, n+1)
			cells = append(cells, elems[:pos]...)
			cells = append(cells, a[3])
			cells = append(cells, elems[pos:]...)
			r := mkSeq(kind, cells)
			if result != nil && result.String() != r.String() {
				return nil, unspec() // several sorted positions (equivalent elements) that differ observably
			}
			if result == nil {
				result = r
			}
		}
		if result == nil {
			return nil, unspec()
		}
		return result, nil
	})
	// search-sorted: the smallest index i in [0, n) for which predicate returns
	// true, using binary search; equivalent to Go's sort.Search (n when there is
	// none); func.md: assuming f(i) implies f(i+1).
	def("search-sorted", []string{"n", "predicate"}, func(in *Interp, a []*Val, at *Val) (*Val, *Err) {
		if a[0].K != KInt {
			return nil, in.errf(at, "error", "n is not an int")
		}
		n := a[0].I
		if n < 0 {
			return nil, unspec() // an empty range written with a negative bound
		}
		if n > 64 {
			return nil, unspec() // harness bound
		}
		if n == 0 {
			if a[1].K != KFun {
				return nil, unspec() // never called: is it still rejected?
			}
			return Int(0), nil
		}
		f, e := in.fnArg(a[1], at)
		if e != nil {
			return nil, e
		}
		first, nerr := int64(-1), int64(0)
		mono := true
		for i := int64(0); i < n; i++ {
			r, err := in.Apply(f, []*Val{Int(i)}, at)
			if err != nil {
				if internalErr(err) {
					return nil, err
				}
				nerr++
				continue
			}
			if r.Truthy() {
				if first < 0 {
					first = i
				}
			} else if first >= 0 {
				mono = false
			}
		}
		if nerr == n {
			return nil, in.errf(at, "error", "predicate failed") // at least one index is probed
		}
		if nerr > 0 || !mono {
			return nil, unspec() // which indices are probed depends on the search
		}
		if first < 0 {
			return Int(n), nil
		}
		return Int(first), nil
	})

	// ---- sorted maps ----------------------------------------------------------

	// sorted-map: a new sorted-map from alternating key-value pairs.
	def("sorted-map", []string{"&rest", "args"}, func(in *Interp, a []*Val, at *Val) (*Val, *Err) {
		if len(a)%2 != 0 {
			return nil, in.errf(at, "error", "uneven number of arguments")
		}
		m := newSMap()
		for i := 0; i < len(a); i += 2 {
			if !isMapKey(a[i]) {
				return nil, in.errf(at, "error", "key is not a symbol or string")
			}
		}
		for i := 0; i < len(a); i += 2 {
			if keywordClash(m, a[i]) {
				return nil, unspec()
			}
			if e := mapPut(m, a[i], a[i+1]); e != nil {
				return nil, e
			}
		}
		return &Val{K: KMap, Map: m}, nil
	})
	// mapArg: 0 = a map, 1 = nil, error otherwise
	mapArg := func(in *Interp, v *Val, at *Val) (int, *Err) {
		if v.K == KMap {
			return 0, nil
		}
		if v.IsNil() {
			return 1, nil
		}
		return 0, in.errf(at, "error", "argument is not a sorted-map")
	}
	// assoc: a new sorted-map with key set to value, the original unmodified; if map is nil, a new map.
	def("assoc", []string{"map", "key", "value"}, func(in *Interp, a []*Val, at *Val) (*Val, *Err) {
		w, e := mapArg(in, a[0], at)
		if e != nil {
			return nil, e
		}
		if !isMapKey(a[1]) {
			return nil, in.errf(at, "error", "key is not a symbol or string")
		}
		m := newSMap()
		if w == 0 {
			m = copySMap(a[0].Map)
		}
		if keywordClash(m, a[1]) {
			return nil, unspec()
		}
		if e := mapPut(m, a[1], a[2]); e != nil {
			return nil, e
		}
		return &Val{K: KMap, Map: m}, nil
	})
	// assoc!: sets key to value in map, mutating it in place, and returns the modified map.
	def("assoc!", []string{"map", "key", "value"}, func(in *Interp, a []*Val, at *Val) (*Val, *Err) {
		w, e := mapArg(in, a[0], at)
		if e != nil {
			return nil, e
		}
		if w == 1 {
			return nil, unspec() // lang.md describes assoc on (), not assoc!
		}
		if !isMapKey(a[1]) {
			return nil, in.errf(at, "error", "key is not a symbol or string")
		}
		if keywordClash(a[0].Map, a[1]) {
			return nil, unspec()
		}
		if e := mapPut(a[0].Map, a[1], a[2]); e != nil {
			return nil, e
		}
		return a[0], nil
	})
	dissoc := func(mutate bool) bFn {
		return func(in *Interp, a []*Val, at *Val) (*Val, *Err) {
			w, e := mapArg(in, a[0], at)
			if e != nil {
				return nil, e
			}
			if w == 1 {
				return nil, unspec() // dissoc on () is not described
			}
			if !isMapKey(a[1]) {
				return nil, unspec() // a key no map can contain: no-op or error? not documented
			}
			if keywordClash(a[0].Map, a[1]) {
				return nil, unspec()
			}
			res := a[0]
			if !mutate {
				res = &Val{K: KMap, Map: copySMap(a[0].Map)}
			}
			delete(res.Map.Keys, a[1].S)
			delete(res.Map.Vals, a[1].S)
			return res, nil
		}
	}
	// dissoc / dissoc!: the map without key (a missing key is a no-op).
	def("dissoc", []string{"map", "key"}, dissoc(false))
	def("dissoc!", []string{"map", "key"}, dissoc(true))
	// get: the value associated with key, or nil if the key is not present or map is nil.
	def("get", []string{"map", "key"}, func(in *Interp, a []*Val, at *Val) (*Val, *Err) {
		w, e := mapArg(in, a[0], at)
		if e != nil {
			if isSeq(a[0]) {
				return nil, unspec() // get on a non-empty list or an array: the docs speak of maps and () only
			}
			return nil, e
		}
		if !isMapKey(a[1]) {
			return nil, unspec() // "nil if the key is not present" vs. a key no map can contain
		}
		if w == 1 {
			return Nil(), nil
		}
		if keywordClash(a[0].Map, a[1]) {
			return nil, unspec()
		}
		if v, ok := a[0].Map.Vals[a[1].S]; ok {
			return v, nil
		}
		return Nil(), nil
	})
	// keys: a list of all keys in sorted order, spelled as they were written.
	def("keys", []string{"map"}, func(in *Interp, a []*Val, at *Val) (*Val, *Err) {
		w, e := mapArg(in, a[0], at)
		if e != nil {
			return nil, e
		}
		if w == 1 {
			return nil, unspec()
		}
		var out []*Val
		for _, k := range a[0].Map.SortedNames() {
			out = append(out, a[0].Map.Keys[k])
		}
		return QList(out...), nil
	})
	// key?: true if key exists in the sorted-map, false otherwise.
	def("key?", []string{"map", "key"}, func(in *Interp, a []*Val, at *Val) (*Val, *Err) {
		w, e := mapArg(in, a[0], at)
		if e != nil {
			return nil, e
		}
		if w == 1 || !isMapKey(a[1]) {
			return nil, unspec()
		}
		if keywordClash(a[0].Map, a[1]) {
			return nil, unspec()
		}
		_, ok := a[0].Map.Vals[a[1].S]
		return Bool(ok), nil
	})
	// get-default (macro): looks up key in a sorted-map; the default expression
	// is evaluated only when the key is missing.
	defOp("get-default", []string{"map", "key", "default"}, func(in *Interp, env *Env, a []*Val, at *Val) (*Val, *Err) {
		m, err := in.Eval(env, a[0])
		if err != nil {
			return nil, err
		}
		k, err := in.Eval(env, a[1])
		if err != nil {
			return nil, err
		}
		if m.K != KMap {
			if m.IsNil() || isSeq(m) {
				return nil, unspec() // get-default on () / a sequence is not described
			}
			return nil, in.errf(at, "error", "argument is not a sorted-map")
		}
		if !isMapKey(k) || keywordClash(m.Map, k) {
			return nil, unspec()
		}
		if v, ok := m.Map.Vals[k.S]; ok {
			return v, nil
		}
		return in.Eval(env, a[2])
	})

	// ---- higher-order -----------------------------------------------------------

	isFn := func(v *Val) bool { return v.K == KFun && v.Fun.Kind != FOp && v.Fun.Kind != FMacro }
	// compose: a new function that applies g to its arguments, then applies f to the result.
	def("compose", []string{"f", "g"}, func(in *Interp, a []*Val, at *Val) (*Val, *Err) {
		f, g := a[0], a[1]
		if !isFn(f) || !isFn(g) {
			return nil, unspec() // when a non-function is rejected (now or at the call) is not documented
		}
		return mkFun("", []string{"&rest", "args"}, func(in *Interp, args []*Val, at *Val) (*Val, *Err) {
			r, e := in.Apply(g, args, at)
			if e != nil {
				return nil, e
			}
			return in.Apply(f, []*Val{r}, at)
		}), nil
	})
	// flip: a new function that calls binary-function with its two arguments swapped.
	def("flip", []string{"binary-function"}, func(in *Interp, a []*Val, at *Val) (*Val, *Err) {
		f := a[0]
		if !isFn(f) {
			return nil, unspec()
		}
		// func.md: "the input function must have two parameters"; what happens to a
		// function with another parameter list (error now? at the call?) is not documented
		if sg := parseParams(f.Fun.Params); sg.bad != "" || len(sg.req) != 2 || len(sg.opt) > 0 || len(sg.key) > 0 || sg.rest != "" {
			return nil, unspec()
		}
		return mkFun("", []string{"a", "b"}, func(in *Interp, args []*Val, at *Val) (*Val, *Err) {
			return in.Apply(f, []*Val{args[1], args[0]}, at)
		}), nil
	})
	// unpack: calls f with the elements of lis as individual arguments; (apply f lis).
	def("unpack", []string{"f", "lis"}, func(in *Interp, a []*Val, at *Val) (*Val, *Err) {
		f, e := in.fnArg(a[0], at)
		if e != nil {
			return nil, e
		}
		if a[1].K != KList {
			return nil, in.errf(at, "error", "argument is not a list")
		}
		return in.Apply(f, a[1].Cells, at)
	})
	// curry-function (macro): equivalent to (lambda (&rest rest) (apply fun arg1 arg2 ... rest)).
	applyFn := p.Binds["apply"]
	defOp("curry-function", []string{"fun", "&rest", "args"}, func(in *Interp, env *Env, a []*Val, at *Val) (*Val, *Err) {
		var mentionsRest func(v *Val) bool
		mentionsRest = func(v *Val) bool {
			if v.K == KSym && v.S == "rest" {
				return true
			}
			if v.K == KList {
				for _, c := range v.Cells {
					if mentionsRest(c) {
						return true
					}
				}
			}
			return false
		}
		for _, x := range a {
			if mentionsRest(x) {
				return nil, unspec() // the documented expansion would capture the name rest
			}
		}
		restName := "rest"
		call := &Val{K: KList, Pos: at.Pos, Cells: append(append([]*Val{valueNode(applyFn)}, a...), Sym(restName))}
		return &Val{K: KFun, Fun: &Fun{Kind: FClosure, Name: "", Params: psyms("&rest", restName), Body: []*Val{call}, Env: env, Pkg: in.Cur.Name}}, nil
	})

	// ---- strings and symbols ---------------------------------------------------------

	strCmp := func(name string, f func(a, b string) bool) {
		def(name, []string{"a", "b"}, func(in *Interp, a []*Val, at *Val) (*Val, *Err) {
			if a[0].K != KStr || a[1].K != KStr {
				return nil, in.errf(at, "error", "argument is not a string")
			}
			return Bool(f(a[0].S, a[1].S)), nil
		})
	}
	strCmp("string=", func(a, b string) bool { return a == b })
	strCmp("string<", func(a, b string) bool { return a < b })
	strCmp("string<=", func(a, b string) bool { return a <= b })
	strCmp("string>", func(a, b string) bool { return a > b })
	strCmp("string>=", func(a, b string) bool { return a >= b })
	def("symbol=", []string{"a", "b"}, func(in *Interp, a []*Val, at *Val) (*Val, *Err) {
		if a[0].K != KSym || a[1].K != KSym {
			return nil, in.errf(at, "error", "argument is not a symbol")
		}
		return Bool(a[0].S == a[1].S), nil
	})
	// format-string: {} sequential, {0} {1} positional, {{ }} literal braces,
	// the two styles cannot be mixed; strings are interpolated without quotes.
	def("format-string", []string{"format", "&rest", "values"}, func(in *Interp, a []*Val, at *Val) (*Val, *Err) {
		if a[0].K != KStr {
			return nil, in.errf(at, "error", "format is not a string")
		}
		parts, ok := parseFormat(a[0].S)
		if !ok {
			return nil, unspec()
		}
		vals := a[1:]
		nseq, npos, maxIdx := 0, 0, -1
		used := map[int]bool{}
		for _, pt := range parts {
			switch {
			case pt.idx == -2:
				nseq++
			case pt.idx >= 0:
				npos++
				used[pt.idx] = true
				if pt.idx > maxIdx {
					maxIdx = pt.idx
				}
			}
		}
		if nseq > 0 && npos > 0 {
			return nil, in.errf(at, "error", "cannot mix sequential and positional placeholders")
		}
		if nseq > len(vals) || maxIdx >= len(vals) {
			return nil, in.errf(at, "error", "not enough values for the placeholders")
		}
		if nseq > 0 && nseq < len(vals) {
			return nil, unspec() // surplus values: ignored or an error? not documented
		}
		if nseq == 0 && len(used) < len(vals) {
			return nil, unspec() // values no placeholder refers to
		}
		var sb strings.Builder
		seq := 0
		for _, pt := range parts {
			var v *Val
			switch {
			case pt.idx == -1:
				sb.WriteString(pt.lit)
				continue
			case pt.idx == -2:
				v = vals[seq]
				seq++
			default:
				v = vals[pt.idx]
			}
			if v.K == KStr {
				sb.WriteString(v.S)
				continue
			}
			if hasFun(v) || (v.K == KMap && mapHasFun(v)) {
				return nil, unspec() // the printed form of a function is another property's subject
			}
			if strings.Contains(v.String(), "0") && hasNegZero(v) {
				return nil, unspec()
			}
			sb.WriteString(v.String())
		}
		return Str(sb.String()), nil
	})

	// ---- evaluation -------------------------------------------------------------------

	// eval: evaluates expr in the current environment; quoted values are
	// unquoted one level before evaluation.  The reference evaluates in the
	// package scope: whether "current environment" includes the caller's lexical
	// bindings is not documented, and a builtin does not see them here.
	def("eval", []string{"expr"}, func(in *Interp, a []*Val, at *Val) (*Val, *Err) {
		return in.Eval(NewEnv(nil), unquoteTop(a[0]))
	})
	// function / #': the function bound to the given symbol, without calling it;
	// an error if the symbol is not bound to a function.
	defOp("function", []string{"name"}, func(in *Interp, env *Env, a []*Val, at *Val) (*Val, *Err) {
		if a[0].K != KSym || a[0].IsKeyword() {
			return nil, in.errf(at, "error", "argument is not a symbol")
		}
		if a[0].Quoted {
			return nil, unspec() // (function 'name): the operator takes the bare symbol
		}
		v, e := in.lookup(env, a[0])
		if e != nil {
			return nil, e
		}
		if v.K != KFun {
			return nil, in.errf(at, "error", "symbol is not bound to a function")
		}
		if v.Fun.Kind == FOp || v.Fun.Kind == FMacro {
			return nil, unspec() // special operators and macros: "function" is not defined for them
		}
		return v, nil
	})
	// expr / #^: an anonymous function from a template: % for a single
	// argument, %1 %2 ... for numbered arguments, %&rest for variadic arguments.
	defOp("expr", []string{"pattern"}, func(in *Interp, env *Env, a []*Val, at *Val) (*Val, *Err) {
		single, rest, odd := false, false, false
		nums := map[int]bool{}
		max := 0
		var walk func(v *Val)
		walk = func(v *Val) {
			switch v.K {
			case KSym:
				if !strings.HasPrefix(v.S, "%") {
					return
				}
				switch {
				case v.S == "%":
					single = true
				case v.S == "%&rest":
					rest = true
				default:
					n, err := strconv.Atoi(v.S[1:])
					if err != nil || n < 1 || n > 16 || v.S[1] == '0' || v.S[1] == '+' {
						odd = true
						return
					}
					nums[n] = true
					if n > max {
						max = n
					}
				}
				if v.Quoted {
					odd = true // a quoted placeholder: data or argument? not documented
				}
			case KList:
				if len(v.Cells) > 0 && v.Cells[0].K == KSym && (v.Cells[0].S == "expr" || v.Cells[0].S == "lisp:expr") {
					odd = true // nested templates
				}
				if len(v.Cells) > 0 && v.Cells[0].K == KSym && (v.Cells[0].S == "quote" || v.Cells[0].S == "quasiquote") {
					// a placeholder inside (quote ...): data or argument? not documented
					var q func(x *Val)
					q = func(x *Val) {
						if x.K == KSym && strings.HasPrefix(x.S, "%") {
							odd = true
						}
						for _, c := range x.Cells {
							q(c)
						}
					}
					q(v)
					return
				}
				if v.Quoted && len(v.Cells) > 0 {
					var q func(x *Val)
					q = func(x *Val) {
						if x.K == KSym && strings.HasPrefix(x.S, "%") {
							odd = true
						}
						for _, c := range x.Cells {
							q(c)
						}
					}
					q(v)
					return
				}
				for _, c := range v.Cells {
					walk(c)
				}
			}
		}
		walk(a[0])
		if odd || (single && len(nums) > 0) || len(nums) != max {
			return nil, unspec() // mixed styles, gaps in the numbering, other %-names
		}
		var params []string
		if single {
			params = append(params, "%")
		}
		for i := 1; i <= max; i++ {
			params = append(params, "%"+strconv.Itoa(i))
		}
		if rest {
			params = append(params, "&rest", "%&rest")
		}
		return &Val{K: KFun, Fun: &Fun{Kind: FClosure, Name: "", Params: psyms(params...), Body: []*Val{a[0]}, Env: env, Pkg: in.Cur.Name}}, nil
	})
	// qualified-symbol: a quoted package-qualified symbol; an already qualified
	// symbol is returned as-is, otherwise the current package name is prepended.
	defOp("qualified-symbol", []string{"symbol"}, func(in *Interp, env *Env, a []*Val, at *Val) (*Val, *Err) {
		if a[0].K != KSym {
			return nil, in.errf(at, "error", "argument is not a symbol")
		}
		if a[0].IsKeyword() || a[0].Quoted {
			return nil, unspec()
		}
		if strings.Contains(a[0].S, ":") {
			return QSym(a[0].S), nil
		}
		return QSym(in.Cur.Name + ":" + a[0].S), nil
	})
	// trace (macro): evaluates expr, prints the result to stderr prefixed by
	// message (default "TRACE") using debug-print, then returns the result.
	defOp("trace", []string{"expr", "&optional", "message"}, func(in *Interp, env *Env, a []*Val, at *Val) (*Val, *Err) {
		var msg *Val = Str("TRACE")
		if len(a) == 2 {
			if a[1].K != KStr {
				return nil, unspec() // a computed message: evaluated before or after expr? not documented
			}
			msg = a[1]
		}
		v, err := in.Eval(env, a[0])
		if err != nil {
			return nil, err
		}
		in.Out.WriteString(msg.String())
		in.Out.WriteByte(' ')
		in.Out.WriteString(v.String())
		in.Out.WriteByte('\n')
		return v, nil
	})
}

func mapHasFun(v *Val) bool {
	if v.K == KFun {
		return true
	}
	if v.K == KMap {
		for _, x := range v.Map.Vals {
			if mapHasFun(x) {
				return true
			}
		}
	}
	for _, c := range v.Cells {
		if mapHasFun(c) {
			return true
		}
	}
	return false
}

func hasNegZero(v *Val) bool {
	if v.K == KFloat && v.F == 0 && math.Signbit(v.F) {
		return true
	}
	for _, c := range v.Cells {
		if hasNegZero(c) {
			return true
		}
	}
	if v.K == KMap {
		for _, x := range v.Map.Vals {
			if hasNegZero(x) {
				return true
			}
		}
	}
	return false
}
