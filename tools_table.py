#!/usr/bin/env python3
"""Print a markdown table of what the committed evidence files report (for DESIGN.md §10)."""
import json, glob
print("| property | tier | states | transitions | evaluations | schedules | distinct non-trivial | outcome classes | exhaustive | known findings reproduced | wall s |")
print("|---|---|---|---|---|---|---|---|---|---|---|")
for p in sorted(glob.glob('/verif/evidence/C*.json')):
    e = json.load(open(p)); c = e['coverage']
    print("| %s | %s | %s | %s | %s | %s | %s | %s | %s | %s | %.0f |" % (e['property_id'], e['tier'], c.get('states'), c.get('transitions'), c.get('evaluations'), c.get('schedules', ''), c.get('distinct_nontrivial'), c.get('distinct_outcomes', ''), c.get('exhaustive'), len(c.get('known_findings_reproduced', [])), e['wall_s']))
