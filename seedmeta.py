#!/usr/bin/env python3
"""seedmeta.py <id> <key> <value> : record in seeded/<id>/meta.json which check detects (or misses) the change."""
import json, sys
id, key, val = sys.argv[1:4]
p = f"/verif/seeded/{id}/meta.json"
m = json.load(open(p))
m.setdefault("detected_by", {})[key] = val
json.dump(m, open(p, "w"), indent=1)
