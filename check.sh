#!/bin/bash
# check.sh <Cxx> <quick|thorough> : rebuild mc from /repo's current working tree, run one property's driver.
# Env: VERIF_OVERLAY=<overlay.json> builds against an overlay (mutants / seeded changes) into a private binary.
set -u
here=$(cd "$(dirname "$0")" && pwd)
. "$here/env.sh"
prop=${1:?property}; tier=${2:-quick}
mkdir -p "$here/bin" "$here/evidence"
bin="$here/bin/mc"
[ -n "${VERIF_MAIN:-}" ] && bin="$here/bin/$(basename "$VERIF_MAIN")"
args=()
if [ -n "${VERIF_OVERLAY:-}" ]; then
  bin=$(mktemp "${TMPDIR:-/tmp}/mc.XXXXXX")
  args=(-overlay "$VERIF_OVERLAY")
  trap 'rm -f "$bin"' EXIT
fi
tmpbin="$bin.$$"
if ! (cd "$here/mc" && cp -f /repo/go.sum go.sum 2>/dev/null; $GO build "${args[@]}" -o "$tmpbin" "${VERIF_MAIN:-./cmd/mc}") ; then
  echo "BUILD-FAILED property=$prop" >&2
  rm -f "$tmpbin"
  exit 2
fi
mv -f "$tmpbin" "$bin"
"$bin" -prop "$prop" -tier "$tier"
