#!/bin/bash
# check.sh <Cxx> <quick|thorough> : rebuild mc from /repo's current working tree, run one property's driver.
# Env: VERIF_OVERLAY=<overlay.json> builds against an overlay (mutants / seeded changes) into a private binary.
set -u
here=$(cd "$(dirname "$0")" && pwd)
. "$here/env.sh"
prop=${1:?property}; tier=${2:-quick}
export VERIF_DIR=${VERIF_DIR:-$here}   # evidence, replay artefacts and known findings live next to this script
mkdir -p "$here/bin" "$here/evidence"
# Each property has its own main (cmd/mc-cNN, one driver linked in), so a driver that does not build cannot take the
# other nineteen checks down with it; cmd/mc links all of them (mc -list).
lc=$(echo "$prop" | tr 'A-Z' 'a-z')
if [ -z "${VERIF_MAIN:-}" ] && [ -d "$here/mc/cmd/mc-$lc" ]; then VERIF_MAIN="./cmd/mc-$lc"; fi
bin="$here/bin/mc"
[ -n "${VERIF_MAIN:-}" ] && bin="$here/bin/$(basename "$VERIF_MAIN")"
args=()
if [ -n "${VERIF_OVERLAY:-}" ]; then
  bin=$(mktemp "${TMPDIR:-/tmp}/mc.XXXXXX")
  args=(-overlay "$VERIF_OVERLAY")
  trap 'rm -f "$bin"' EXIT
fi
tmpbin="$bin.$$"
if ! (cd "$here/mc" && cp -f /repo/go.sum go.sum 2>/dev/null; $GO build "${args[@]}" -o "$tmpbin" "${VERIF_MAIN:-./cmd/mc}") ; then
  echo "BUILD-FAILED property=$prop" >&2
  rm -f "$tmpbin"
  exit 2
fi
mv -f "$tmpbin" "$bin"
rc_race=0
# free-running parts that are ALSO run under Go's race detector: C09 part D (runtimes sharing a Program) and C07's
# concurrent gensym part (several goroutines on one Runtime).  RACE_SWITCH selects that part of the driver.
RACE_SWITCH=""
case "$prop" in
  C09) RACE_SWITCH="C09_ONLY=D"; RACE_CLASS="D-free-running:data-race" ;;
  C07) RACE_SWITCH="C07_ONLY=race"; RACE_CLASS="gensym:concurrent:data-race" ;;
esac
if [ -n "$RACE_SWITCH" ] && [ -z "${VERIF_SKIP_RACE:-}" ]; then
  # the literal "free of data races" clause: the same harness bodies, free-running, under Go's race detector
  # (the cooperative scheduler's hand-offs are happens-before edges, so -race sees nothing under it).
  racebin="$bin-race"
  if (cd "$here/mc" && $GO build -race "${args[@]}" -o "$racebin.$$" "${VERIF_MAIN:-./cmd/mc}") ; then
    mv -f "$racebin.$$" "$racebin"
    racelog=$(mktemp "${TMPDIR:-/tmp}/race.XXXXXX")
    env "$RACE_SWITCH" VERIF_NO_EVIDENCE=1 GORACE="halt_on_error=0 exitcode=66" "$racebin" -prop "$prop" -tier "$tier" >"$racelog" 2>&1
    rr=$?
    if grep -q "WARNING: DATA RACE" "$racelog" || [ $rr -eq 66 ]; then
      mkdir -p "${VERIF_DIR:-$here}/replay/$prop"
      rp="${VERIF_DIR:-$here}/replay/$prop/race-$(date +%s).log"
      cp "$racelog" "$rp"
      echo "VIOLATION property=$prop replay=$rp"
      echo "  class=$RACE_CLASS"
      grep -m1 -A12 "WARNING: DATA RACE" "$racelog" | sed 's/^/  /'
      rc_race=1
      export RACE_RESULT="data race reported by the race detector"
      export C09_SKIP_D=1   # the free-running part has made its finding; unsynchronised map access can end a non-race process with a fatal error
    elif [ $rr -ne 0 ]; then
      echo "race pass exited $rr" >&2; tail -5 "$racelog" >&2
      export RACE_RESULT="race pass did not complete (exit $rr)"
    else
      export RACE_RESULT="clean: $(grep -o 'evaluations=[0-9]*' "$racelog" | tail -1) free-running loads under -race, no report"
    fi
    rm -f "$racelog"
    [ -n "${VERIF_OVERLAY:-}" ] && rm -f "$racebin"
  else
    echo "race build failed" >&2
    export RACE_RESULT="race build failed"
  fi
fi
errlog=$(mktemp "${TMPDIR:-/tmp}/mcerr.XXXXXX")
"$bin" -prop "$prop" -tier "$tier" 2> >(tee "$errlog" >&2)
rc=$?
sleep 0.2   # let tee drain
if [ $rc -ne 0 ] && [ $rc -ne 1 ] && grep -q '^fatal error:\|^panic:\|^SIG[A-Z]*:\|^unexpected fault' "$errlog"; then
  # The checking process itself was killed while it evaluated the property's program family (a Go fatal error such as
  # "stack overflow" or "concurrent map writes" cannot be recovered in-process).  On the unchanged tree this never
  # happens; when it does, evaluating some program of the family took the whole process -- and every other runtime
  # in it -- down.  The trace (which names the function of the code under test it died in) is the artefact.
  mkdir -p "${VERIF_DIR:-$here}/replay/$prop"
  rp="${VERIF_DIR:-$here}/replay/$prop/died-$(date +%s).log"
  cp "$errlog" "$rp"
  first=$(grep -m1 '^fatal error:\|^panic:\|^SIG[A-Z]*:\|^unexpected fault' "$errlog" | tr -s ' ' | tr ' ' '-' | cut -c1-60)
  where=$(grep -m1 -o 'github.com/luthersystems/elps/[^ ]*' "$errlog" | sed -e 's|github.com/luthersystems/elps/||' -e 's/([0-9a-fx,?{}. ]*)$//')
  echo "VIOLATION property=$prop replay=$rp"
  echo "  class=checking-process-killed:$first:in:${where:-unknown}"
  rc=1
fi
rm -f "$errlog"
[ $rc -eq 0 ] && rc=$rc_race
exit $rc
