#!/usr/bin/env python3
"""Generate /verif/MANIFEST.json from the per-property table below (kept in one place so the manifest is always valid)."""
import json, os

VERIF = os.path.dirname(os.path.abspath(__file__))
props = [json.loads(l) for l in open(os.path.join(VERIF, "properties.jsonl"))]

# property -> (technique, level text, level note)
CHECKS = {
 "C01": ("bounded-exhaustive enumeration of programs (scope grammar, parameter-binding tables, builtin application tables) against a definitional reference interpreter",
         "every term of the scope/closure/assignment grammar up to a node bound in 3 contexts, every formals list x argument list x call style, and every covered builtin x argument tuple over the value alphabet, is rendered to source text and evaluated by both the independent definitional interpreter (verif/mc/ri, written from docs/lang.md and the builtin docstrings) and the real interpreter; value, error condition and stderr transcript must agree",
         "the reference interpreter is the trusted base; builtins it does not define are outside the claim (covered names are listed in the evidence); zones the documentation leaves open are marked unspecified and not compared; size-bounded"),
 "C02": ("bounded-exhaustive enumeration of terminal-position nestings x recursion topology x argument style x iteration counts; three differential relations between configurations of the real interpreter",
         "every sequence of up to 2 (quick) / 3 (thorough) of the 15 terminal positions x {self, 2-cycle, 3-cycle} x {accumulator, &rest, &key} x {defun, labels} x error modes, every blocking boundary (running macro body, handler-bind, ignore-errors, nested load) and non-tail position inserted at every level, for iteration counts up to 1000; checked: transparency (value, output, condition identical with elimination on, off via a dormant debugger, and with a profiler), constant stack (maximal stack height over every evaluation step EQUAL for N=10,100,1000), never collapsed (exactly N blocker frames at the base case, innermost handler catches)",
         "no expected values: relations between runs of the real interpreter; stack height is sampled at every evaluation step through the per-step context; depth-3 shapes run N=1000 in fewer configurations (recorded in bounds)"),
 "C03": ("bounded-exhaustive enumeration of byte strings, token sequences and registry-driven application tables (two-level value closure, cyclic and deep values into every callable x position), executed in isolated worker subprocesses",
         "every byte string of length <=2 loaded under limits and read by four readers, every 3-byte string (thorough) / every 3-byte string over lexer-class representatives (quick) read with no limits, every token sequence up to the length bound read and loaded, 44 depth-generator programs x depths, every registered callable (247: functions, operators, macros of 12 packages) x arities 0..max+1 x argument tuples over a 71-value level-0 alphabet, a level-1/level-2 alphabet of one representative per (producing callable, result kind) placed in every position of every callable, 10 cyclic-container constructions and 9 deep-value generators fed to every callable x position; oracle per execution: it returns, the result is not an internal panic, the worker process survives, under a CPU-time watchdog",
         "all execution happens in worker subprocesses (4 GiB address-space limit, 60 s CPU watchdog per batch, progress file for attribution, 5x re-confirmation in fresh workers); which ordinary error or value a call answers is unspecified"),
 "C04": ("exhaustive fault-space sweep (every step budget, every cancellation index, every height/nesting/tail/macro limit) over a bounded program grammar, with per-step invariants",
         "for every program of the limit grammar up to a node bound the complete fault space is enumerated: budget n for every n in 1..N+1, cancellation at every step, every physical-height and nesting limit up to the observed maximum+2, tail-iteration and macro-expansion limits; checked: exact-prefix rule on the probe trace, identical outcome when the budget suffices, bound never exceeded at any step, ordinary error, refill across all 12 entry points, runtime usable afterwards",
         "steps are observed through Runtime.Steps(); the per-step monitor is a custom context.Context whose Err() the evaluator calls once per step; sleep cancellation uses a 30 s watchdog on a 30 min sleep"),
 "C05": ("explicit-state BFS over histories of top-level operations with the complete fault space of each operation; canonical state = cleanly completed effects",
         "histories of top-level operations (entry point x 12 program templates x effect sequences over 7 effect kinds) with the complete fault space at depth 1 (ordinary host error and host panic at every host-call index, step budget at every n, cancellation at every k, height limit at every h) and boundary faults under 4 entry points at depth 2; after every operation: the five cleanliness invariants, and equivalence (package table + transcript and step count of a fixed probe program) with a fresh runtime that cleanly completed exactly the confirmed effects",
         "equivalence is observational through the package table read by the Go API and a fixed probe program; the canonical-state merge assumes runtimes proven equivalent have the same futures"),
 "C06": ("bounded-exhaustive enumeration of the condition-handling grammar against the definitional reference interpreter",
         "every term of the handler-bind / ignore-errors / rethrow / error / host-panic grammar up to a node bound (errors and host panics at every position of bodies, handler expressions and handlers; every specifier kind and binding order) is evaluated by the reference (which implements the statement literally) and by the real interpreter; value, condition and transcript must agree",
         "handler expressions are assumed to be evaluated when the error arrives (documentation silent); system errors carry an opaque message string as data"),
 "C07": ("bounded-exhaustive enumeration of macro definitions x call sites x argument tuples (metamorphic: call vs eval of macroexpand, vs an expansion model), complete quasiquote template grammars against a reference expander, BFS over gensym histories",
         "(A) macro definitions over 7 formals shapes x 9 body families, defined by defmacro and macrolet, x argument tuples x call-site contexts: (m args) must equal (eval (macroexpand '(m args))) in the same lexical context and the context with a Go-predicted expansion inlined; macroexpand-1 equals the model expansion; macroexpand equals macroexpand-1 iterated; argument forms run exactly as often as the expansion mentions them; (B) every quasiquote template of four complete grammars (depth <=3, width <=3, quote levels 0..2, unquote / unquote-splicing at every position) compared as typed trees with a 40-line reference expander; (C) BFS over histories of <=6 gensym / defmacro / read operations: all gensyms pairwise distinct and distinct from every symbol the lexer produces from the program text",
         "the expansion model and the reference template expander are the trusted base; a quoted or top-level splice and a splice of a non-list are unspecified"),
 "C08": ("explicit-state BFS over package-operation histories against a package-table reference model",
         "breadth-first search over histories of package operations (in-package, export, use-package, set, set!, defun, defmacro, qualified/unqualified/keyword references, lexical shadowing, nested and failing load-string, attempts to bind true/false/keywords in every scope kind); every successor is replayed on a fresh real runtime; after every operation the value class, current package and the FULL package table read back through the registry API are compared with a Go model of the statement; states de-duplicated by the canonical model table",
         "the reference model is the trusted base; values of set!/defun/defmacro are compared by class only"),
 "C09": ("bounded-exhaustive routing table + BFS over load histories + preemption-bounded exploration of all interleavings of runtimes sharing one Program under a controlled scheduler",
         "(A) every registered callable x argument position x filler tuple x routing of a program literal x follow-up mutator: the shared parse is loaded twice in one runtime and once in another and must equal a fresh parse, with the sealed-tree fingerprint, an independent structural dump and the singleton snapshot unchanged; (B) all load histories up to a depth; (C) K=2 and K=3 runtimes sharing one Program under a hand-written cooperative scheduler whose scheduling point is every evaluation step: every schedule up to the preemption bound, invariants evaluated in every global state, every runtime equal to its solo run; (D) the same bodies free-running (race-detector target)",
         "memory-model effects below evaluation-step granularity are not modelled; the race-detector pass is dynamic detection, not enumeration"),
 "C10": ("exhaustive history sweep (every sequence of <=2 prior activities) + fresh-process comparison + preemption-bounded schedule exploration; map-iteration order is sampled (stated)",
         "for every target program (printing/enumerating/comparing maps, closures, errors with traces, gensym, packages, help, schema, JSON, and the error-message table of every exported callable): transcript after every sequence of <=2 activities run in other runtimes of the same process equals the transcript of a fresh process; two fresh processes with different heap layouts agree; no pointer-shaped token; under every schedule up to the preemption bound the transcript equals the solo one; R repeated runs agree",
         "map-iteration order cannot be owned without patching the Go runtime: that sub-oracle is statistical and labelled so, with a measured control"),
 "C11": ("explicit-state BFS over container-operation histories against a three-valued slice-heap / finite-map reference model",
         "breadth-first search over histories of container operations (constructors, literals, views, every non-mutating and mutating operation the statement names, containers in containers, both key spellings); every successor replays the history on a fresh runtime; after every operation the printed form of every live value is compared with a possible-worlds heap model; states de-duplicated by canonical heap + observed layout",
         "the heap model is the trusted base; growth-dependent aliasing after append! is an explicit unspecified zone"),
 "C12": ("bounded-exhaustive enumeration of data values (print/read/print) and of token sequences x separator assignments across the three reader modes, plus scanner-window boundary placements",
         "values: boundary ints, every float d*10^e with d<=999 (quick) / <=9999 and neighbours, all strings of <=3/<=4 symbols over a 14-symbol escape-class alphabet incl. invalid UTF-8, all symbol spellings of <=4/<=5 characters, all trees of depth<=3 width<=2 with 0-3 quote levels at every node: printed, read back by the strict reader, compared as typed trees with explicit quote depth, reprinted; texts: every token sequence up to the length bound over a 17-token alphabet under the full separator product (<=3 quick / <=4 thorough) and single-gap variants beyond, read by the strict, fault-tolerant and format-preserving readers (all reject or all accept with identical trees; tree invariant under layout); every lexical item kind placed at every offset around the 128 KiB scanner window through the production reader",
         "a number or string at exactly one quote level equals the unquoted value; the gap between a prefix and its operand is part of the text; items of >= 128 KiB may be rejected but not accepted with a different tree"),
 "C13": ("bounded-exhaustive enumeration of JSON values and of token-sequence documents against an independent RFC 8259 recogniser/decoder with big-number semantics",
         "values: boundary ints, every float with <=3 (quick) / <=4 significant digits x 10^[-28,25] with neighbours, all strings of <=3/<=4 symbols over a 33-symbol escape-class alphabet, all trees of depth<=3 width<=2 with every key insertion order, deep and wide shapes -- dumped through every dump entry point, checked valid / sorted / deterministic / decoding to the same data, and loaded back under every mode; documents: every token sequence of <=4 (quick) / <=5 tokens over a 31-token alphabet and every byte string of <=2 bytes, through load-string / load-bytes / load-message under all four (:string-numbers, :exact-integers) combinations, acceptance and decoded structure compared with the reference",
         "the reference recogniser (no encoding/json) is the trusted base and has its own unit tests; lists read back as arrays; ill-formed UTF-8 compares as U+FFFD; numbers beyond float64 are unspecified outside :string-numbers"),
 "C14": ("bounded-exhaustive enumeration of schemas x inputs against a reference evaluator of the documented meaning",
         "all validators over 10 type names with constraint sequences to nesting depth 2 (plus every malformed schema in every embedding context) x an 86-value input alphabet including JSON-decoded and symbol-keyed twins, against a three-valued reference evaluator written from the docstrings; disagreements localised to the smallest disagreeing sub-term",
         "the reference evaluator is the trusted base; documented-silent zones are unspecified (only 'no panic, one of the three outcomes')"),
 "C15": ("bounded-exhaustive enumeration of timestamp field products, instant pairs/triples, duration strings and sleep configurations against an integer civil-date model",
         "full product of RFC 3339 field alphabets plus one-dimensional sweeps (every offset, every leap day, every month x day), all pairs and triples of an instant subset, all duration strings of <=2 components, every (duration, :max, ceiling, context) sleep combination; expected values from an independent recogniser and days-from-civil integer arithmetic",
         "no expected value comes from Go's time package; refusals are recognised with a 2 s watchdog on >= 59 min sleeps (1700x margin)"),
 "C16": ("bounded-exhaustive enumeration of token sequences x trivia assignments x formatter configurations; typed-tree, literal-spelling, comment-anchor and idempotence oracles",
         "every token sequence up to the length bound over a 16-token alphabet with every (or every <=2-heavy-slot) assignment of whitespace / blank lines / comments between tokens and at both ends, optional hash-bang and missing final newline, under 9 formatter configurations (default, compact, compact+strip, indent 4, MaxBlankLines 0/2, custom rule tables): rejected input must be rejected with no output; accepted input must format to text whose strict parse is the same typed tree (LVal equality AND an independent walker over a re-lex that keeps literal spellings, quoting and bracket kinds), with the identical ordered comment list anchored before the same expressions, and Format(Format(x)) == Format(x) byte for byte",
         "most of the space goes through FormatProgram on a string scanner; sub-spaces through the real formatter.Format entry point must agree byte for byte; blank-line placement and indentation are free"),
 "C17": ("bounded-exhaustive enumeration of statically scoped programs (7 grammar families, multi-file sessions) x minifier options; differential evaluation original vs minified plus symbol-map inversion",
         "every program of seven grammar families (local binding forms, top-level definitions and redefinition, parameter styles and keyword calls, keyword/quoted data, packages / export / use-package / qualified names / two-file sessions / macros with quasiquote templates, names in the minifier's own x<N> scheme) up to a per-family node bound, under default options, --rename-exports, --preserve-params=false (sessions without keyword arguments) and exclusions: Minify twice must be byte-identical (output and symbol map), the output must be accepted by the strict reader, a parallel walk of original and minified trees must show the same shape with the map inverting every rename, original and minified must evaluate to the same value / output / condition in fresh runtimes, and exported / top-level-set / excluded names must evaluate the same afterwards",
         "the statement's preconditions (no computed symbols, no function designators as quoted data, no global definitions inside function bodies) are enforced by construction of the grammar; function values are normalised"),
 "C18": ("bounded-exhaustive enumeration of failing programs (error kind x context nesting x layout) against a reference interpreter that carries source positions and the active-call chain",
         "every error kind (unbound symbol, error, type error, arity, error inside a called function, failing macro-template form, failing macro-built form, set! of an unbound name, tail and non-tail recursion ending in an error) at every position of every nesting up to the depth bound over 25 contexts, in 3 source layouts; the real error's location must be the position of the form the reference blames and lie in the source; the stack trace with elimination off must equal the reference's active-call chain (names and call-site positions), with elimination on it must be equal unless a function is re-entered, in which case an order-preserving subsequence keeping the outermost frame and all non-tail frames; also through rethrow",
         "call-site positions of handler invocations are unspecified (no call expression); anonymous functions are compared by position only"),
 "C19": ("bounded-exhaustive enumeration of call tables against the real evaluator's binder",
         "complete tables: core-registry name x argument count, user signature shape x argument list (defun and defmacro), shadowing template x call placement x name; each linted the way `elps lint --workspace` does and evaluated by the real interpreter",
         "a run-time failure is classified as 'argument binding failed at that call' by error-text prefix plus innermost frame; <=2 required/optional/key parameters, argument lists <=6"),
 "C20": ("bounded-exhaustive enumeration of location strings x contexts x entry points x root spellings over a known symlinked layout against a pure path model",
         "every location string up to a component bound over a 20-component alphabet x 5 spelling forms x 7 loading-file contexts x 4 entry points x 8 root spellings (and the fs.FS-backed library over MapFS and os.DirFS behind a recording fs.FS), judged by an independent symlink-resolving path walker over the layout table",
         "the path model is validated on every case against an unconfined read; refusing an inside file is not a violation (the statement is an only-if)"),
}

PENDING = {
}

def main():
    claimed = sorted(CHECKS)
    m = {
        "version": 1,
        "setup_cmd": "cd /verif && ./setup.sh",
        "hooks": {
            "guard": "verif",
            "enable": "no source hooks are needed: every observation and control point is reached through exported API (a custom context.Context is the per-step hook and the scheduling point, a dormant Debugger switches TRO off, host builtins probe state); the guard name is reserved and no file in /repo carries it",
            "baseline_off_cmd": "cd /repo && GOFLAGS=-mod=mod go test -vet=off -count=1 -timeout 25m ./... && cd /repo/tree-sitter-elps && GOFLAGS=-mod=mod go test -vet=off -count=1 -timeout 25m ./...",
            "source_commits": [],
            "add_only": True,
        },
        "engines": [{
            "name": "mc", "path": "/verif/mc", "serves_properties": claimed,
            "kind_free_text": "hand-written Go explorer driving the real interpreter: bounded-exhaustive enumerators (gen), explicit-state BFS over histories, complete fault-position sweeps through a per-step context, a cooperative scheduler with preemption-bounded DFS over schedules (sched), a definitional reference interpreter (ri) and per-property reference models",
        }],
        "checks": [],
        "not_applicable": [],
        "notes": "Approach, bounds, oracles, findings and detection evidence: DESIGN.md. Known findings: known_findings.jsonl. Mutant detection demo: selftest.py.",
    }
    for p in props:
        pid = p["id"]
        if pid in CHECKS:
            tech, text, note = CHECKS[pid]
            m["checks"].append({
                "property_id": pid,
                "quick_cmd": f"./check.sh {pid} quick",
                "thorough_cmd": f"./check.sh {pid} thorough",
                "evidence_file": f"/verif/evidence/{pid}.json",
                "replay_cmd_template": "./bin/mc -replay {path}",
                "engine": "mc",
                "level_claimed": {"category": "model_checking", "text": text, "design_ref": f"DESIGN.md §{pid}"},
                "level_note": note,
                "technique": tech,
            })
        else:
            m["not_applicable"].append({"property_id": pid, "reason": PENDING.get(pid, "driver still being built in this session (designed in DESIGN.md); not claimed until its check runs clean and detects its mutants")})
    json.dump(m, open(os.path.join(VERIF, "MANIFEST.json"), "w"), indent=1)
    print("claimed:", claimed)

main()
