#!/usr/bin/env python3
"""Detection demo: build each mutant of /repo with `go build -overlay` (never touching /repo), run the
property's check against it and demand a VIOLATION line.

  selftest.py [Cxx ...] [--tier quick] [--jobs N] [--only name]

A mutant is mutants/<Cxx>/<name>.mut, a text file of one or more edits:
  # note: free text
  file: lisp/env.go
  <<<<<<<
  exact text to find (must occur exactly once)
  =======
  replacement text
  >>>>>>>
"""
import json, os, sys, subprocess, tempfile, shutil, glob, concurrent.futures, time

VERIF = os.path.dirname(os.path.abspath(__file__))

def parse_mut(path):
    mut = {"edits": [], "note": ""}
    lines = open(path).read().split("\n")
    i, cur = 0, None
    while i < len(lines):
        l = lines[i]
        if l.startswith("# note:"): mut["note"] += l[7:].strip() + " "
        elif l.startswith("property:"): mut["property"] = l.split(":",1)[1].strip()
        elif l.startswith("tier:"): mut["tier"] = l.split(":",1)[1].strip()
        elif l.startswith("file:"): cur = l.split(":",1)[1].strip()
        elif l.startswith("<<<<<<<"):
            j = i + 1; find = []
            while not lines[j].startswith("======="): find.append(lines[j]); j += 1
            k = j + 1; rep = []
            while not lines[k].startswith(">>>>>>>"): rep.append(lines[k]); k += 1
            mut["edits"].append({"file": cur, "find": "\n".join(find), "replace": "\n".join(rep)})
            i = k
        i += 1
    return mut

def build_overlay(mut, tmp):
    edits = mut.get("edits") or [{"file": mut["file"], "find": mut["find"], "replace": mut["replace"]}]
    replace = {}
    for i, e in enumerate(edits):
        src = os.path.join("/repo", e["file"])
        cur = replace.get(src)
        text = open(cur or src).read()
        n = text.count(e["find"])
        if n != e.get("count", 1):
            raise SystemExit(f"mutant edit {e['file']}: find text occurs {n} times, expected {e.get('count',1)}")
        text = text.replace(e["find"], e["replace"])
        out = os.path.join(tmp, f"m{i}.go.txt")
        open(out, "w").write(text)
        replace[src] = out
    ov = os.path.join(tmp, "overlay.json")
    json.dump({"Replace": replace}, open(ov, "w"))
    return ov

def run_one(path, tier):
    prop = os.path.basename(os.path.dirname(path))
    mut = parse_mut(path)
    prop = mut.get("property", prop)
    tmp = tempfile.mkdtemp(prefix="mut")
    t0 = time.time()
    try:
        ov = build_overlay(mut, tmp)
        env = dict(os.environ, VERIF_OVERLAY=ov, VERIF_NO_EVIDENCE="1", VERIF_DIR=tmp)
        # known findings still apply to the mutant run
        shutil.copy(os.path.join(VERIF, "known_findings.jsonl"), tmp)
        p = subprocess.run([os.path.join(VERIF, "check.sh"), prop, mut.get("tier", tier)], env=env,
                           capture_output=True, text=True, timeout=3600)
        out = p.stdout
        vio = [l for l in out.splitlines() if l.startswith("VIOLATION")]
        cls = [l.strip() for l in out.splitlines() if l.strip().startswith("class=")]
        ok = p.returncode == 1 and len(vio) > 0
        status = "DETECTED" if ok else ("BUILD-FAILED" if p.returncode == 2 else "MISSED")
        return (path, status, len(vio), cls[:3], time.time() - t0, p.stderr[-400:] if not ok else "")
    finally:
        shutil.rmtree(tmp, ignore_errors=True)

def main():
    args = sys.argv[1:]
    tier, jobs, only, props = "quick", 4, None, []
    i = 0
    while i < len(args):
        if args[i] == "--tier": tier = args[i+1]; i += 2
        elif args[i] == "--jobs": jobs = int(args[i+1]); i += 2
        elif args[i] == "--only": only = args[i+1]; i += 2
        else: props.append(args[i]); i += 1
    paths = sorted(glob.glob(os.path.join(VERIF, "mutants", "C*", "*.mut")))
    if props: paths = [p for p in paths if os.path.basename(os.path.dirname(p)) in props]
    if only: paths = [p for p in paths if only in os.path.basename(p)]
    bad = 0
    with concurrent.futures.ThreadPoolExecutor(jobs) as ex:
        for path, status, n, cls, dt, err in ex.map(lambda p: run_one(p, tier), paths):
            rel = os.path.relpath(path, VERIF)
            print(f"{status:12s} {rel:55s} violations={n} {dt:5.1f}s {cls[:2]}")
            if status != "DETECTED":
                bad += 1
                if err: print("   stderr:", err.replace("\n", "\n   "))
    print(f"mutants={len(paths)} undetected={bad}")
    sys.exit(1 if bad else 0)

if __name__ == "__main__":
    main()
