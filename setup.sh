#!/bin/bash
# Offline setup: pre-build the checker so each check's own rebuild is incremental.
set -eu
here=$(cd "$(dirname "$0")" && pwd)
. "$here/env.sh"
mkdir -p "$here/bin" "$here/evidence" "$here/replay"
cd "$here/mc"
cp -f /repo/go.sum go.sum
$GO build -o "$here/bin/mc" ./cmd/mc
for d in ./cmd/mc-c*; do $GO build -o "$here/bin/$(basename "$d")" "$d"; done
$GO build -race -o "$here/bin/mc-c09-race" ./cmd/mc-c09   # warms the race-instrumented build cache for the race passes (C09, C07)
$GO build -race -o "$here/bin/mc-c07-race" ./cmd/mc-c07
"$here/bin/mc" -list
