#!/bin/bash
# confirm_seed.sh <Cxx> : independently confirm a seeded change produced in the scratch worktree /tmp/seed-<Cxx>:
#   1. the source change alone builds, and the repository's own test suite passes with it (demo set aside)
#   2. the demonstration FAILS with the change and PASSES without it
# and copy patch.diff, the demonstration and a meta.json into /verif/seeded/<Cxx>/.
set -u
id=${1:?id}
wt=/tmp/${SEEDPFX:-seed}-$id
out=/verif/seeded/$id${SEEDSFX:-}
log=$(mktemp /tmp/confirm-$id.XXXXXX)
goenv() { env -u GOSUMDB -u GOPROXY -u GOTOOLCHAIN GOFLAGS=-mod=mod "$@"; }
cd "$wt" || exit 2
demo=$(git status --porcelain | awk '/^\?\? .*seed_demo_test\.go$/ {print $2}' | head -1)
[ -z "$demo" ] && { echo "no demo test found in $wt"; exit 2; }
demodir=$(dirname "$demo")
git diff -- . ':!*seed_demo_test.go' > /tmp/confirm-$id.diff
[ -s /tmp/confirm-$id.diff ] || { echo "no source change in $wt"; exit 2; }
echo "== build" | tee -a "$log"
goenv go build ./... >>"$log" 2>&1 || { echo "BUILD FAILS"; exit 1; }
echo "== existing tests with the change (demo set aside)" | tee -a "$log"
mv "$demo" /tmp/confirm-$id-demo.go
[ -d SEED ] && mv SEED .SEED   # its copy of the demo would otherwise be compiled as a package of its own
goenv go test -vet=off -count=1 -timeout 25m ./... >/tmp/confirm-$id-suite.log 2>&1
suite_rc=$?
# the repository's own internal/fuzzwatch tests measure scheduler stalls and fail on a loaded machine: when they are the
# ONLY failure, repeat that package alone (up to 3 times) before believing it
if [ $suite_rc -ne 0 ] && ! grep "^FAIL\|^--- FAIL" /tmp/confirm-$id-suite.log | grep -v "fuzzwatch\|^FAIL$\|TestBudgetExpires\|TestReportAtTheInstant" | grep -q .; then
  for try in 1 2 3; do
    if goenv go test -vet=off -count=1 ./internal/fuzzwatch/ >/tmp/confirm-$id-fuzzwatch.log 2>&1; then suite_rc=0; echo "(fuzzwatch passed on its own, try $try)" >> /tmp/confirm-$id-suite.log; break; fi
  done
fi
grep -v "^ok\|no test files" /tmp/confirm-$id-suite.log | head -20 | tee -a "$log"
mv /tmp/confirm-$id-demo.go "$demo"
[ -d .SEED ] && mv .SEED SEED
echo "== demo WITH the change (must fail)" | tee -a "$log"
[ -d SEED ] && mv SEED .SEED
goenv go test -vet=off -count=1 -run 'TestSeed' ./$demodir/ >/tmp/confirm-$id-with.log 2>&1
with_rc=$?
tail -3 /tmp/confirm-$id-with.log | tee -a "$log"
echo "== demo WITHOUT the change (must pass)" | tee -a "$log"
git apply -R /tmp/confirm-$id.diff
goenv go test -vet=off -count=1 -run 'TestSeed' ./$demodir/ >/tmp/confirm-$id-without.log 2>&1
without_rc=$?
tail -3 /tmp/confirm-$id-without.log | tee -a "$log"
git apply /tmp/confirm-$id.diff
[ -d .SEED ] && mv .SEED SEED
verdict=CONFIRMED
[ $suite_rc -ne 0 ] && verdict="EXISTING-TESTS-FAIL"
[ $with_rc -eq 0 ] && verdict="DEMO-DOES-NOT-FAIL"
[ $without_rc -ne 0 ] && verdict="DEMO-FAILS-WITHOUT-CHANGE"
echo "VERDICT $id $verdict (suite rc=$suite_rc, demo with=$with_rc without=$without_rc)"
if [ "$verdict" = CONFIRMED ] || [ "${KEEP_ANYWAY:-}" = 1 ]; then
  mkdir -p "$out"
  cp /tmp/confirm-$id.diff "$out/patch.diff"
  cp "$demo" "$out/demo_test.go.txt"
  [ -f SEED/NOTES.md ] && cp SEED/NOTES.md "$out/NOTES.md"
  python3 - "$id" "$demodir" "$verdict" "$suite_rc" "$with_rc" "$without_rc" > "$out/meta.json" <<'EOF'
import json, sys, re
id, demodir, verdict, suite, w, wo = sys.argv[1:7]
notes = open(f"/tmp/"+__import__("os").environ.get("SEEDPFX","seed")+f"-{id}/SEED/NOTES.md").read() if True else ""
json.dump({
  "property": id,
  "origin": "written by a sub-agent that was given only the property text and a scratch worktree of /repo",
  "base_commit": __import__("subprocess").check_output(["git","-C","/repo","rev-parse","--short","HEAD"]).decode().strip(),
  "demo_package_dir": demodir,
  "needs_to_manifest": "see NOTES.md",
  "confirmed": {"verdict": verdict,
     "ran": ["go build ./...", "go test -vet=off -count=1 ./... (demo set aside) rc=%s" % suite,
             "demo with change rc=%s (must be non-zero)" % w, "demo without change rc=%s (must be 0)" % wo]},
  "detected_by": {}
}, sys.stdout, indent=1)
EOF
fi
rm -f "$log"
