# source me: build environment for everything under /verif
export GOFLAGS=-mod=mod GOPROXY=off GOSUMDB=off GOTOOLCHAIN=local
export GO=${GO:-go1.26}
